#!/usr/bin/env python3
"""Single entry point of the verification machinery.

  check.py <Cxx> [--tier quick|thorough]     run the check of one property (exit 0 / 1 + VIOLATION line)
  check.py replay <file>                     re-run a replay file written by a check
  check.py setup                             build everything that can be built ahead of time
"""
import importlib
import os
import sys

sys.path.insert(0, os.path.dirname(os.path.abspath(__file__)))
from vlib import common as C  # noqa: E402


def main(argv):
    if len(argv) < 2:
        print(__doc__)
        return 2
    if argv[1] == 'setup':
        from vlib import setup
        return setup.main()
    if argv[1] == 'replay':
        path = argv[2]
        prop = None
        for line in open(path):
            if line.startswith('# property='):
                prop = line.split('=')[1].split()[0]
                break
        if prop is None:
            print('not a replay file')
            return 2
        mod = importlib.import_module('checks.' + prop)
        return mod.replay(path)
    prop = argv[1]
    tier = os.environ.get('VERIF_TIER', 'quick')
    if '--tier' in argv:
        tier = argv[argv.index('--tier') + 1]
    mod = importlib.import_module('checks.' + prop)
    res = C.Result(prop, tier)
    try:
        mod.run(res, tier)
    except C.BuildError as e:
        # the tree no longer builds in the verification configuration: nothing can be shown about it
        res.violation(str(e), 'build of /repo (verification configuration) or of a harness failed', no_input=True,
                      name='%s_%s_build.txt' % (prop, tier))
        res.coverage.setdefault('obligations', 1)
        res.coverage.setdefault('discharged', 0)
        res.coverage.setdefault('checker_cmd', 'n/a (build failed)')
    return res.finish()


if __name__ == '__main__':
    sys.exit(main(sys.argv))
