#include <yaclib/coro/await.hpp>
#include <yaclib/coro/future.hpp>
#include <yaclib/coro/task.hpp>
#include <yaclib/lazy/schedule.hpp>
#include <yaclib/lazy/make.hpp>
#include <yaclib/exe/manual.hpp>
#include <yaclib/runtime/fair_thread_pool.hpp>
#include <cstdio>
struct Counted {
  static inline int ctors = 0, dtors = 0;
  Counted() { ++ctors; }
  Counted(const Counted&) { ++ctors; }
  Counted(Counted&&) noexcept { ++ctors; }
  Counted& operator=(const Counted&) = default;
  Counted& operator=(Counted&&) noexcept = default;
  ~Counted() { ++dtors; }
};
yaclib::Task<Counted> Inner() { co_return Counted{}; }
yaclib::Future<int> OuterCoro() {
  auto task = Inner();
  co_await Await(task);
  std::printf("coro task after Await: Valid=%d Ready=%d\n", task.Valid(), task.Ready());
  co_return 1;
}
yaclib::Future<int> OuterSched(yaclib::IExecutor& e) {
  auto task = yaclib::Schedule(e, [] { return Counted{}; }).Then([](Counted c) { return c; });
  co_await Await(task);
  std::printf("sched task after Await: Valid=%d Ready=%d\n", task.Valid(), task.Ready());
  co_return 1;
}
int main(int argc, char** argv) {
  {
    auto f = OuterCoro();
    (void)std::move(f).Get().Ok();
    std::printf("coro: ctors=%d dtors=%d\n", Counted::ctors, Counted::dtors);
  }
  Counted::ctors = Counted::dtors = 0;
  {
    yaclib::FairThreadPool tp{1};
    auto f = OuterSched(tp);
    (void)std::move(f).Get().Ok();
    tp.Stop(); tp.Wait();
    std::printf("sched: ctors=%d dtors=%d\n", Counted::ctors, Counted::dtors);
  }
  return 0;
}
