"""T2b — whole-file tie for the files a property is anchored in (properties.jsonl `anchors.files`).

The per-function skeleton ties (x_kernels.py) name the functions the models were written from; a change in a helper
that nobody listed (a constexpr index computation, a type alias, a default argument) would pass them unnoticed.  This
translator therefore also regenerates, on every run, a digest of the *code* of every anchor file (comments and white
space removed, everything else — including preprocessor lines and string literals — kept):

  lean/YaclibModel/Extracted/Anchors.lean      def Cxx : List (String × String)   (file, digest)      GENERATED every run
  lean/YaclibModel/Model/AnchorsGolden.lean    the committed copy the models/proofs were reviewed against (tools/regolden.py)
  lean/YaclibModel/Props/Anchors/Cxx.lean      theorem Cxx_anchor_files_unchanged : Extracted.Anchors.Cxx = AnchorsGolden.Cxx

A code change in an anchor file breaks the theorem; the check then searches for a failing input like for any other broken
obligation and reports `no-failing-input-found` if there is none (the property is no longer shown to hold for the code
as it is now).  Comment-only and formatting-only edits do not change the digest.
"""
import hashlib
import json
import os

from . import common as C


def strip_code(text):
    """C++ source -> token-ish normal form: comments removed, runs of white space collapsed to one blank."""
    out = []
    i, n = 0, len(text)
    while i < n:
        c = text[i]
        if c == '/' and i + 1 < n and text[i + 1] == '/':
            j = text.find('\n', i)
            # a line comment continued by a backslash-newline
            while j != -1 and j > 0 and text[j - 1] == '\\':
                j = text.find('\n', j + 1)
            i = n if j == -1 else j
            out.append(' ')
        elif c == '/' and i + 1 < n and text[i + 1] == '*':
            j = text.find('*/', i + 2)
            i = n if j == -1 else j + 2
            out.append(' ')
        elif c == 'R' and text.startswith('R"', i) and (i == 0 or not (text[i - 1].isalnum() or text[i - 1] == '_')):
            k = text.find('(', i)
            delim = text[i + 2:k]
            j = text.find(')' + delim + '"', k)
            j = n if j == -1 else j + len(delim) + 2
            out.append(text[i:j])
            i = j
        elif c in '"\'':
            # a digit separator (1'000) is not a character literal
            if c == '\'' and i > 0 and text[i - 1].isalnum() and i + 1 < n and text[i + 1].isalnum() and text[i - 1].isdigit():
                out.append(c)
                i += 1
                continue
            j = i + 1
            while j < n and text[j] != c:
                if text[j] == '\\':
                    j += 1
                if j < n and text[j] == '\n':
                    break
                j += 1
            out.append(text[i:j + 1])
            i = j + 1
        else:
            out.append(c)
            i += 1
    s = ''.join(out)
    # preprocessor lines keep their line structure (one directive per line matters), the rest is blank-insensitive
    lines = []
    for line in s.split('\n'):
        t = ' '.join(line.split())
        if t:
            lines.append(t)
    res = []
    for t in lines:
        if t.startswith('#') or (res and res[-1].startswith('#')):
            res.append(t)
        else:
            if res:
                res[-1] = res[-1] + ' ' + t
            else:
                res.append(t)
    # blanks around punctuation are insignificant: `a , b` == `a,b`; keep blanks between two word characters only
    final = []
    for t in res:
        if t.startswith('#'):
            final.append(t)
            continue
        buf = []
        k, m = 0, len(t)
        instr = None
        while k < m:
            ch = t[k]
            if instr:
                buf.append(ch)
                if ch == '\\' and k + 1 < m:
                    buf.append(t[k + 1])
                    k += 1
                elif ch == instr:
                    instr = None
            elif ch in '"\'' and not (ch == '\'' and k > 0 and t[k - 1].isdigit()):
                instr = ch
                buf.append(ch)
            elif ch == ' ':
                prev = buf[-1] if buf else ''
                nxt = t[k + 1] if k + 1 < m else ''
                if (prev.isalnum() or prev == '_') and (nxt.isalnum() or nxt == '_'):
                    buf.append(' ')
                elif prev == nxt and prev in '+-&|<>=:':  # `a - -b` is not `a--b`
                    buf.append(' ')
            else:
                buf.append(ch)
            k += 1
        final.append(''.join(buf))
    return '\n'.join(final)


def digest(repo, rel):
    p = os.path.join(repo, rel)
    try:
        with open(p, encoding='utf-8', errors='replace') as f:
            return hashlib.sha256(strip_code(f.read()).encode()).hexdigest()[:20]
    except OSError:
        return 'missing'


def anchor_files():
    out = {}
    with open(os.path.join(C.VERIF, 'properties.jsonl')) as f:
        for line in f:
            if line.strip():
                d = json.loads(line)
                out[d['id']] = list(d['anchors']['files'])
    return out


def table(repo):
    return {p: [(f, digest(repo, f)) for f in fs] for p, fs in anchor_files().items()}


def _q(s):
    return '"' + s.replace('\\', '\\\\').replace('"', '\\"') + '"'


def render(tab, namespace, header):
    lines = [header, '', 'namespace %s' % namespace, '']
    for p in sorted(tab):
        lines.append('def %s : List (String × String) := [' % p)
        lines.append(',\n'.join('  (%s, %s)' % (_q(f), _q(h)) for f, h in tab[p]))
        lines.append(']')
        lines.append('')
    lines.append('end %s' % namespace)
    lines.append('')
    return '\n'.join(lines)


EXTRACTED = 'YaclibModel/Extracted/Anchors.lean'
GOLDEN = 'YaclibModel/Model/AnchorsGolden.lean'


def generate(repo):
    return render(table(repo), 'Yaclib.Extracted.Anchors',
                  '/- GENERATED by vlib/x_anchors.py from /repo on every check run. Do not edit. -/')


def golden(repo):
    return render(table(repo), 'Yaclib.AnchorsGolden',
                  '/- Digests of the code of the files each property is anchored in, as reviewed (committed copy; refreshed only by\n'
                  '   tools/regolden.py).  `Extracted/Anchors.lean` is regenerated on every run. -/')


def theorem_module(prop):
    return 'YaclibModel.Props.Anchors.%s' % prop


def theorem_source(prop):
    return ('/- GENERATED by tools/regolden.py (vlib/x_anchors.py): the files property %s is anchored in are, up to comments and\n'
            '   white space, the files the model and proofs were reviewed against. -/\n'
            'import YaclibModel.Extracted.Anchors\nimport YaclibModel.Model.AnchorsGolden\n\n'
            'namespace Yaclib.Props.Anchors\n\n'
            'theorem %s_anchor_files_unchanged : Extracted.Anchors.%s = AnchorsGolden.%s := by decide\n\n'
            'end Yaclib.Props.Anchors\n' % (prop, prop, prop, prop))


def write_golden(repo):
    C.write_if_changed(os.path.join(C.LEAN, GOLDEN), golden(repo))
    C.write_if_changed(os.path.join(C.LEAN, EXTRACTED), generate(repo))
    for p in anchor_files():
        C.write_if_changed(os.path.join(C.LEAN, 'YaclibModel/Props/Anchors/%s.lean' % p), theorem_source(p))
    write_support_golden(repo)


def golden_table():
    """Parse the committed golden file (for messages only; the theorem is what decides)."""
    import re
    tab = {}
    cur = None
    try:
        for line in open(os.path.join(C.LEAN, GOLDEN)):
            m = re.match(r'def (\w+) :', line)
            if m:
                cur = m.group(1)
                tab[cur] = {}
            m = re.match(r'\s*\("([^"]+)", "([^"]+)"\)', line)
            if m and cur:
                tab[cur][m.group(1)] = m.group(2)
    except OSError:
        pass
    return tab


# ---- supporting files (T2c): what the anchor files transitively include, plus the .cpp of those headers.  They are part
# of the TRUSTED BASE of a property (modelled, not verified), so a change there is not a broken obligation; it is a reason
# to search harder on the implementation side (the checks run their extended search when this list is non-empty) and is
# recorded in the evidence.
_INC = None
FAULT_PROPS = ('C17', 'C18', 'C19')
SUPPORT_GOLDEN = 'YaclibModel/Model/SupportGolden.json'


def _resolve(repo, inc, cur):
    for c in (os.path.join('include', inc), os.path.join('src', inc), os.path.join(os.path.dirname(cur), inc)):
        c = os.path.normpath(c)
        if os.path.isfile(os.path.join(repo, c)):
            return c
    return None


def _impl_of(repo, h):
    if not h.startswith('include/yaclib/') or not h.endswith('.hpp'):
        return []
    p = h[len('include/yaclib/'):-4]
    out = []
    for q in (p, p.replace('/detail/', '/')):
        c = 'src/' + q + '.cpp'
        if os.path.isfile(os.path.join(repo, c)):
            out.append(c)
    return out


def closure(repo, files):
    global _INC
    import re
    if _INC is None:
        _INC = re.compile(r'^\s*#\s*include\s*[<"]([^>"]+)[>"]', re.M)
    seen = set(files)
    todo = list(files)
    while todo:
        f = todo.pop()
        try:
            txt = open(os.path.join(repo, f), errors='replace').read()
        except OSError:
            continue
        for n in [_resolve(repo, i, f) for i in _INC.findall(txt)] + _impl_of(repo, f):
            if n and n not in seen:
                seen.add(n)
                todo.append(n)
    return seen


def support_table(repo):
    out = {}
    for p, fs in anchor_files().items():
        deps = closure(repo, fs) - set(fs)
        if p not in FAULT_PROPS:
            deps = {d for d in deps if '/fault/' not in d and 'yaclib_std' not in d}
        out[p] = {d: digest(repo, d) for d in sorted(deps)}
    return out


def write_support_golden(repo):
    C.write_if_changed(os.path.join(C.LEAN, SUPPORT_GOLDEN), json.dumps(support_table(repo), indent=1, sort_keys=True) + '\n')


def changed_support(prop, repo):
    """supporting files of `prop` whose code differs from the reviewed version (added / removed / changed)"""
    try:
        g = json.load(open(os.path.join(C.LEAN, SUPPORT_GOLDEN))).get(prop, {})
    except (OSError, ValueError):
        return ['(no golden list of supporting files)']
    cur = support_table(repo).get(prop, {})
    return sorted(f for f in set(g) | set(cur) if g.get(f) != cur.get(f))


def changed_files(prop, repo):
    g = golden_table().get(prop, {})
    return [f for f, h in table(repo).get(prop, []) if g.get(f) != h]
