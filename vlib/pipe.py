"""Shared machinery of the program-level checks C02 / C03 / C05 / C12 / C20 (DESIGN.md §2.3 'Program-level semantics').

  * a state-aware generator of pipeline programs (line format: lean/Driver/Pipeline.lean), everything from one PRNG;
  * the differential: harness/pipe.cpp (real library) vs `ymdriver_pipe pipe` (Lean `mech`) vs `ymdriver_pipe pipe-spec` (Lean `spec`),
    one output line per input line;
  * property monitors that look only at the implementation's output and at `spec`;
  * delta-debugging shrink of a failing program to a minimal line list;
  * the verdict logic shared by the five checks.
"""
import itertools
import os
import random
import re
import subprocess
import time

from . import common as C

DRV = os.environ.get('VERIF_PIPE_DRV') or os.path.join(C.LEAN, '.lake/build/bin/ymdriver_pipe')  # (override: development only)
CORPUS = os.path.join(C.VERIF, 'corpus', 'pipe')



# ------------------------------------------------------------------------------------------------ program structure
SPELLINGS = {'R': ['', 'r', 'c', 'a', 'g'], 'V': ['', 'r', 'c', 'g'], 'E': ['', 'c'], 'X': ['', 'c']}
# how the parameter of a callback is SPELLED (harness/pipe.cpp): '' by value, r T&&, c const T&, a auto&&, g auto (R) / a generic
# parameter constrained to V (V).  The class (R/V/E/X) is what the model sees: the spelling must not matter.


class Step:
    def __init__(self, sid, sig, mode, ex, beh, spell=''):
        self.id, self.sig, self.mode, self.ex, self.beh = sid, sig, mode, ex, beh  # beh: ('val',k)|('res',r)|('throw',t)|('async',pid)
        self.spell = spell

    def mode_s(self):
        return {'on': 'on:' + str(self.ex), 'detach': 'detach:' + str(self.ex)}.get(self.mode, self.mode)

    def text(self):
        b = self.beh
        return '%d %s%s %s %s:%s' % (self.id, self.sig, self.spell, self.mode_s(), b[0], b[1])

    def submits(self):
        return self.mode not in ('inline', 'detach_inline')

    def is_detach(self):
        return self.mode.startswith('detach')


class Src:
    def __init__(self, kind, r=None, ex=None, p=None, ful=None, head=None, h=None):
        self.kind, self.r, self.ex, self.p, self.ful, self.head, self.h = kind, r, ex, p, ful, head, h

    def text(self):
        k = self.kind
        if k in ('ready', 'task_ready', 'shared_ready'):
            return '%s %s' % (k, self.r)
        if k in ('contract', 'shared_contract'):
            return '%s p%d %s' % (k, self.p, self.ful)
        if k in ('shared_handle', 'share'):
            return '%s s%d' % (k, self.h)
        if k == 'share_on':
            return 'share_on %s s%d' % (self.ex, self.h)
        if k in ('contract_on', 'async_contract', 'lazy_contract'):
            return '%s %s p%d %s' % (k, self.ex, self.p, self.ful)
        return '%s %s' % (k, self.head.text())

    def lazy(self):
        return self.kind in ('task_ready', 'schedule', 'lazy_contract')

    def is_unit(self):
        return self.kind in ('run', 'schedule')


def ful_result(ful):
    return 'e0' if ful == 'drop' else ful[4:]


def kind_of_src(s):
    if s.kind in ('ready', 'contract'):
        return 'F'
    if s.kind in ('contract_on', 'share_on'):
        return 'O'
    if s.kind == 'share':
        return 'F'
    if s.kind in ('run', 'async_contract'):
        return 'F' if s.ex == 'inl' else 'O'
    if s.lazy():
        return 'T'
    return 'S'


def kind_after(k, st):
    m = st.mode
    if m == 'inline':
        return k if k in 'FOT' else ('F' if k == 'S' else 'B')
    if m == 'on':
        return 'O' if k in 'FOS' else ('T' if k == 'T' else 'B')
    if m == 'inherit':
        return k if k in 'OT' else 'B'
    if m in ('detach_inline', 'detach'):
        return 'N' if k in 'FO' else 'B'
    return 'N' if k == 'O' else 'B'


def modes_for(k):
    if k == 'F':
        return ['inline', 'on', 'detach_inline', 'detach']
    if k == 'O':
        return ['inline', 'on', 'inherit', 'detach_inline', 'detach', 'detach_inherit']
    if k == 'T':
        return ['inline', 'on', 'inherit']
    if k == 'S':
        return ['inline', 'on']
    return []


class Inner:
    def __init__(self, pid, src, steps):
        self.pid, self.src, self.steps = pid, src, steps

    def kind(self):
        k = kind_of_src(self.src)
        for s in self.steps:
            k = kind_after(k, s)
        return k

    def lines(self):
        return ['in %d src %s' % (self.pid, self.src.text())] + ['in %d then %s' % (self.pid, s.text()) for s in self.steps]


class Program:
    def __init__(self):
        self.cfg = {}       # k -> (queue?, limit or None)
        self.inner = {}     # pid -> Inner (insertion order = definition order)
        self.src = None
        self.kept = {}      # j -> (promise, ful, ready?, copies): SharedFutures the client keeps and observes again
        self.body = []      # lines after the inner definitions (src … end exclusive)
        self.steps = []     # top-level steps in attachment order
        self.start = None   # start kind of a lazy program
        self.tags = set()
        self.meta = {}

    def lines(self):
        out = []
        for k, (q, lim) in sorted(self.cfg.items()):
            kind = ('manual' if k in self.meta.get('manual', ()) else 'queue') if q else 'inline'
            out.append('cfg e%d %s%s' % (k, kind, '' if lim is None else ' limit=%d' % lim))
        for j, (p, ful, ready, copies) in sorted(self.kept.items()):
            out.append('shared s%d p%d %s %s copies=%d' % (j, p, ful, 'ready' if ready else 'later', copies))
        for i in self.inner.values():
            out += i.lines()
        return out + self.body


# ------------------------------------------------------------------------------------------------ python reading of `spec`
# (used to steer the generator and as a cross-check of the Lean `spec`; the Lean one is the authority)
def runs_on(sig, r):
    return sig == 'R' or (sig == 'V' and r[0] == 'v') or (sig == 'E' and r[0] == 'e') or (sig == 'X' and r[0] == 'x')


class SpecState:
    def __init__(self, cfg):
        self.cfg = cfg
        self.subs = []
        self.inv = []
        self.placed = []   # (step id, executor it was submitted to or None)
        self.trace = []    # (step id, what it was invoked with, what it completed with) for invoked steps

    def rejects(self, k):
        lim = self.cfg.get(k, (True, None))[1]
        return lim is not None and self.subs.count(k) >= lim

    def offered(self, ex, r):
        if ex == 'inl':
            return r
        if ex == 'stp':
            return 'e0'
        k = int(ex[1:])
        out = 'e0' if self.rejects(k) else r
        self.subs.append(k)
        return out


def add_k(r, k):
    return 'v%d' % (int(r[1:]) + k) if r[0] == 'v' else 'v%d' % k


def spec_src(st, prog, src, ovr, lazy):
    k = src.kind
    if k in ('ready', 'task_ready'):
        if lazy:
            e = ovr or 'inl'
            return st.offered(e, src.r), e
        return src.r, 'inl'
    if k == 'contract':
        return ful_result(src.ful), 'inl'
    if k == 'contract_on':
        return ful_result(src.ful), src.ex
    if k in ('run', 'schedule'):
        return 'v0', 'inl'
    if k in ('async_contract', 'lazy_contract'):
        e = ovr or src.ex
        return st.offered(e, ful_result(src.ful)), e
    if k == 'shared_ready':
        return src.r, 'inl'
    if k in ('shared_handle', 'share'):
        return ful_result(prog.kept[src.h][1]), 'inl'
    if k == 'share_on':
        return ful_result(prog.kept[src.h][1]), src.ex     # Share(sf, e): the FutureOn carries e
    return ful_result(src.ful), 'inl'


def spec_step(st, prog, s, hd, r, inh, ovr=None):
    own = s.ex if s.mode in ('on', 'detach') else inh
    if hd and ovr:
        own = ovr
    if s.submits() or hd:
        inp = st.offered(own, r)
        st.placed.append((s.id, own))
    else:
        inp = r
        st.placed.append((s.id, None))
    if not runs_on(s.sig, inp):
        return inp, own
    st.inv.append(s.id)
    b = s.beh
    if b[0] == 'val':
        out = add_k(inp, b[1])
    elif b[0] == 'res':
        out = b[1]
    elif b[0] == 'throw':
        out = 'x%d' % b[1]
    else:
        i = prog.inner[b[1]]
        r0, inh0 = spec_src(st, prog, i.src, None, False)
        steps = ([i.src.head] if i.src.is_unit() else []) + i.steps
        out, _ = spec_steps(st, prog, steps, i.src.is_unit(), r0, inh0)
    st.trace.append((s.id, inp, out))
    return out, own


def spec_steps(st, prog, steps, hd, r, inh, ovr=None):
    for s in steps:
        r, inh = spec_step(st, prog, s, hd, r, inh, ovr if hd else None)
        hd = False
    return r, inh


START_OVR = {'tofuture': None, 'detach': None}


def start_ovr(kind):
    if kind is None:
        return None
    if kind == 'cancel':
        return 'stp'
    if ':' in kind:
        return kind.split(':', 1)[1]
    return None


def py_spec(prog):
    st = SpecState(prog.cfg)
    lazy = prog.src.lazy()
    ovr = start_ovr(prog.start) if lazy else None
    r0, inh0 = spec_src(st, prog, prog.src, ovr, lazy)
    steps = ([prog.src.head] if prog.src.is_unit() else []) + prog.steps
    r, _ = spec_steps(st, prog, steps, prog.src.is_unit(), r0, inh0, ovr)
    return r, st


def prog_size(prog, invoked):
    """upper bound on allocations: one per source core / step core, inner pipelines only if their functor ran"""
    def steps_size(steps):
        n = 0
        for s in steps:
            n += 1
            if s.beh[0] == 'async' and s.id in invoked:
                i = prog.inner[s.beh[1]]
                n += (0 if i.src.is_unit() else 1) + steps_size(([i.src.head] if i.src.is_unit() else []) + i.steps)
        return n
    return (0 if prog.src.is_unit() else 1) + steps_size(([prog.src.head] if prog.src.is_unit() else []) + prog.steps)


# ------------------------------------------------------------------------------------------------ generator
class Gen:
    """emphasis: 'C02' routing/unwrapping, 'C05' executors/rejection, 'C12' lazy, 'C20' allocation, 'C03' drop points"""

    def __init__(self, rng, emphasis, max_steps=8, max_depth=2):
        self.rng, self.emph, self.max_steps, self.max_depth = rng, emphasis, max_steps, max_depth

    def rval(self, kinds='vex'):
        k = self.rng.choice(kinds)
        return k + str(self.rng.randrange(-3, 20) if k == 'v' else self.rng.randrange(0, 6))

    def ful(self):
        return 'drop' if self.rng.random() < 0.12 else 'set:' + self.rval('vvvex')

    def pick_ex(self, prog, allow_lib=True):
        users = ['e%d' % k for k in prog.cfg]
        r = self.rng.random()
        if allow_lib and r < 0.08:
            return 'inl'
        if allow_lib and r < 0.11:
            return 'stp'
        return self.rng.choice(users)

    def new_id(self, prog):
        prog.meta['next_id'] = prog.meta.get('next_id', 0) + 1
        return prog.meta['next_id']

    def new_p(self, prog):
        prog.meta['next_p'] = prog.meta.get('next_p', -1) + 1
        return prog.meta['next_p']

    def new_pid(self, prog):
        prog.meta['next_pid'] = prog.meta.get('next_pid', 0) + 1
        return prog.meta['next_pid']

    def gen_beh(self, prog, depth, detach, st, inp):
        rng = self.rng
        if detach:
            return ('throw', rng.randrange(1, 9)) if rng.random() < 0.15 else ('val', rng.randrange(0, 5))
        x = rng.random()
        p_async = 0.38 if self.emph in ('C02', 'C12', 'C20') else 0.22
        if depth <= 0:
            p_async = 0
        if x < p_async:
            return ('async', self.gen_inner(prog, depth - 1))
        x = rng.random()
        if x < 0.5:
            return ('val', rng.randrange(-2, 6))
        if x < 0.8:
            return ('res', self.rval())
        return ('throw', rng.randrange(1, 9))

    def gen_step(self, prog, kind, depth, st, r, inh, allow_detach, hd=False, lazy_chain=False):
        rng = self.rng
        if hd:
            mode, ex = 'on', self.pick_ex(prog)
        else:
            modes = [m for m in modes_for(kind) if allow_detach or not m.startswith('detach')]
            w = {'inline': 4, 'on': 4, 'inherit': 3, 'detach_inline': 0.5, 'detach': 0.5, 'detach_inherit': 0.4}
            if self.emph == 'C05':
                w.update({'on': 6, 'inherit': 5})
            mode = rng.choices(modes, [w[m] for m in modes])[0]
            ex = self.pick_ex(prog) if mode in ('on', 'detach') else None
        # what will the step see?
        own = ex if mode in ('on', 'detach') else inh
        probe = SpecState(prog.cfg)
        probe.subs = list(st.subs)
        inp = probe.offered(own, r) if (mode not in ('inline', 'detach_inline') or hd) else r
        sigs = ['V', 'R'] if hd else ['R', 'V', 'E', 'X']
        good = [s for s in sigs if runs_on(s, inp)]
        sig = rng.choice(good) if rng.random() < 0.78 else rng.choice(sigs)
        beh = self.gen_beh(prog, depth, mode.startswith('detach'), st, inp)
        spell = ''
        if not hd and beh[0] != 'async' and rng.random() < (0.5 if self.emph == 'C02' else 0.3):
            # the non-default spellings are instantiated for the int / Result / void return classes; a SharedFuture passes
            # const references: the && spellings do not compile there
            spell = rng.choice([x for x in SPELLINGS[sig] if not (x == 'r' and kind == 'S')])
        return Step(self.new_id(prog), sig, mode, ex, beh, spell)

    def gen_src(self, prog, lazy, inner):
        rng = self.rng
        if not lazy and prog.kept and rng.random() < (0.3 if inner else 0.2) + (0.25 if self.emph == 'C05' else 0):
            x = rng.random()
            p_share = 0.75 if self.emph == 'C05' else 0.4
            if x < p_share * 0.7:      # Share(sf, e): a FutureOn carrying e
                return Src('share_on', ex=self.pick_ex(prog, allow_lib=rng.random() < 0.15), h=rng.choice(sorted(prog.kept)))
            if x < p_share:            # Share(sf): a Future
                return Src('share', h=rng.choice(sorted(prog.kept)))
            return Src('shared_handle', h=rng.choice(sorted(prog.kept)))   # a copy of a SharedFuture the client keeps
        if lazy:
            k = rng.choices(['task_ready', 'schedule', 'lazy_contract'], [4, 4, 1.5])[0]
        elif inner and rng.random() < 0.12:
            k = rng.choice(['shared_ready', 'shared_contract'])
        else:
            k = rng.choices(['ready', 'contract', 'contract_on', 'run', 'async_contract'], [4, 3, 2, 3, 1.2])[0]
        if k in ('ready', 'task_ready', 'shared_ready'):
            return Src(k, r=self.rval('vvvvex'))
        if k in ('contract', 'shared_contract'):
            return Src(k, p=self.new_p(prog), ful=self.ful())
        if k == 'contract_on':
            return Src(k, ex=self.pick_ex(prog, allow_lib=False), p=self.new_p(prog), ful=self.ful())
        if k in ('async_contract', 'lazy_contract'):
            return Src(k, ex=self.pick_ex(prog), p=self.new_p(prog), ful=self.ful())
        return Src(k)  # run / schedule: head generated by the caller

    def gen_inner(self, prog, depth):
        """returns pid of a fresh inner pipeline (defined before use)"""
        rng = self.rng
        lazy = rng.random() < 0.35      # a Task: MakeTask / Schedule / LazyContract head (the latter two: the former D10 shapes)
        src = self.gen_src(prog, lazy, inner=True)
        st = SpecState(prog.cfg)  # inner steering ignores the outer submit counts (approximation, generator only)
        r, inh = spec_src(st, prog, src, None, False)
        kind = kind_of_src(src)
        if src.is_unit():
            src.head = self.gen_step(prog, kind, depth, st, 'v0', 'inl', False, hd=True)
            src.ex = src.head.ex
            kind = kind_of_src(src)
        steps = []
        if kind != 'S':
            n = rng.choice([0, 0, 1, 1, 2])
            # run the python spec along to steer
            if src.is_unit():
                r, inh = spec_step(st, prog, src.head, True, r, inh)
            for _ in range(n):
                s = self.gen_step(prog, kind, depth, st, r, inh, False)
                steps.append(s)
                kind = kind_after(kind, s)
                r, inh = spec_step(st, prog, s, False, r, inh)
        pid = self.new_pid(prog)
        prog.inner[pid] = Inner(pid, src, steps)
        return pid

    def program(self):
        rng = self.rng
        prog = Program()
        # executors
        nq = rng.choice([1, 2, 2, 3])
        for k in range(1, nq + 1):
            queue = rng.random() < (0.7 if self.emph != 'C05' else 0.6)
            p_lim = {'C05': 0.5, 'C03': 0.4}.get(self.emph, 0.22)
            lim = rng.choice([0, 0, 1, 1, 2, 3]) if rng.random() < p_lim else None
            prog.cfg[k] = (queue, lim)
            if queue and rng.random() < 0.4:
                prog.meta.setdefault('manual', set()).add(k)   # backed by the library's real ManualExecutor
        if rng.random() < {'C02': 0.3, 'C03': 0.25, 'C05': 0.3}.get(self.emph, 0.12):
            for j in range(rng.choice([1, 1, 2])):
                prog.kept[j] = (self.new_p(prog), self.ful(), rng.random() < 0.6, rng.choice([1, 1, 2]))
        lazy = rng.random() < {'C12': 0.85, 'C02': 0.3, 'C03': 0.4}.get(self.emph, 0.25)
        src = self.gen_src(prog, lazy, inner=False)
        prog.src = src
        st = SpecState(prog.cfg)
        kind = kind_of_src(src)
        depth = self.max_depth
        body = []
        if src.is_unit():
            src.head = self.gen_step(prog, kind, depth, st, 'v0', 'inl', False, hd=True)
            src.ex = src.head.ex
            kind = kind_of_src(src)
        # start kind decided up front so that the python spec can steer the steps of a lazy program
        start = None
        if lazy:
            x = rng.random()
            if self.emph in ('C12', 'C03') and x < 0.22:
                start = 'cancel'
            elif x < 0.55:
                start = 'tofuture'
            elif x < 0.72:
                start = 'tofuture:' + self.pick_ex(prog, allow_lib=False)
            elif x < 0.86:
                start = 'detach'
            else:
                start = 'detach:' + self.pick_ex(prog, allow_lib=False)
            prog.start = start
        ovr = start_ovr(start) if lazy else None
        r, inh = spec_src(st, prog, src, ovr, lazy)
        if src.is_unit():
            r, inh = spec_step(st, prog, src.head, True, r, inh, ovr)
        body.append('src ' + src.text())
        nsteps = rng.randrange(0, self.max_steps + 1)
        if self.emph == 'C20':
            nsteps = rng.randrange(2, self.max_steps + 3)
        # lazy: how many steps are attached before the start
        n_before = rng.randrange(0, nsteps + 1) if lazy else 0
        if lazy and start in ('cancel', 'detach') or (lazy and start and start.startswith('detach')):
            n_before = nsteps
        handle = True

        def noise(p=0.35):
            while rng.random() < p:
                x = rng.random()
                ps = list(range(prog.meta.get('next_p', -1) + 1))
                if x < 0.3 and ps:
                    body.append('set p%d' % rng.choice(ps))
                elif x < 0.6:
                    body.append('%s e%d' % (rng.choice(['drain', 'drain', 'call']), rng.choice(list(prog.cfg))))
                else:
                    body.append('expect')

        def do_start():
            nonlocal kind, handle
            if start == 'cancel':
                body.append('expect')
                body.append('droptask')
                handle = False
            else:
                if rng.random() < 0.7:
                    body.append('expect')
                body.append('start ' + start)
                if start.startswith('tofuture'):
                    kind = 'O' if ':' in start else 'F'
                else:
                    handle = False

        noise(0.25 if not lazy else 0.1)
        for i in range(nsteps):
            if lazy and i == n_before:
                do_start()
                noise()
            if not handle:
                break
            last = i == nsteps - 1
            if not modes_for(kind):
                break
            s = self.gen_step(prog, kind, depth, st, r, inh, allow_detach=last and kind in 'FO')
            prog.steps.append(s)
            body.append('then ' + s.text())
            kind = kind_after(kind, s)
            r, inh = spec_step(st, prog, s, False, r, inh)
            if s.is_detach():
                handle = False
            noise(0.3 if not (lazy and i < n_before) else 0.12)
        if lazy and n_before >= len(prog.steps) and prog.start and not any(l.startswith(('start', 'droptask')) for l in body):
            do_start()
        # drop point (C03): give the handle up while the pipeline may still be pending
        if handle and kind in 'FOS' and rng.random() < {'C03': 0.45}.get(self.emph, 0.12):
            body.append('dropfuture')
            handle = False
        # flush: fulfil everything, drain everything, a few rounds (nested pipelines need several)
        body.append('flush')
        body.append('expect')
        prog.meta['final_expect'] = len(body) - 1
        if handle and kind in 'FOS':
            body.append(rng.choice(['get', 'get', 'dropfuture']))
            body.append('expect')
        for j in sorted(prog.kept):
            body.append('obs s%d' % j)       # the kept handles must still deliver what they were fulfilled with
        prog.body = body
        if lazy:
            prog.tags.add('lazy')
        return prog


def eager_twin(prog):
    """the same pipeline written eagerly (C12 `lazy_eq_eager`); None if there is no eager way to write it.
    The twin has the eager source, the steps that were attached before the start, and then — line by line — everything the
    client does after the start: meta['align'] = (i, j) says that the state after body line i of the lazy program is to be
    compared with the state after body line j of the twin, i+1 with j+1, … (event by event, not only at the end)."""
    if not prog.src.lazy() or prog.start in (None, 'cancel'):
        return None
    si = next((i for i, l in enumerate(prog.body) if l.startswith('start ')), None)
    if si is None:
        return None
    ovr = start_ovr(prog.start)
    src = prog.src
    if src.kind == 'task_ready':
        if ovr:
            return None
        tsrc = Src('ready', r=src.r)
    elif src.kind == 'schedule':
        h = src.head
        head = Step(h.id, h.sig, 'on', ovr or h.ex, h.beh)
        tsrc = Src('run', head=head, ex=head.ex)
    else:
        tsrc = Src('async_contract', ex=ovr or src.ex, p=src.p, ful=src.ful)
    tw = Program()
    tw.cfg, tw.inner, tw.src, tw.steps, tw.kept = prog.cfg, prog.inner, tsrc, prog.steps, prog.kept
    kind = kind_of_src(tsrc)
    for s in prog.steps:
        kind = kind_after(kind, s)
        if kind == 'B':
            return None
    # before the start nothing of a lazy pipeline exists: `call` / `drain` / `set` of one of its own promises do nothing there
    # (they would do something to the eager twin: left out).  The promises of the kept SharedFutures exist from the beginning.
    keptp = {'set p%d' % k[0] for k in prog.kept.values()}
    pre = [l for l in prog.body[1:si] if l.startswith('then ') or l in keptp]
    tw.body = ['src ' + tsrc.text()] + pre + prog.body[si + 1:]
    exps = [i for i, l in enumerate(tw.body) if l == 'expect']
    tw.meta = {'final_expect': exps[-1] if exps else None, 'manual': prog.meta.get('manual', set()), 'align': (si, len(pre)),
               'label': 'the same pipeline written eagerly'}
    tw.tags = {'twin'}
    return tw


LAZY2EAGER = {'task_ready': 'ready', 'schedule': 'run', 'lazy_contract': 'async_contract'}


def inner_eager_twin(prog):
    """the same program with every INNER Task (a lazy pipeline returned by a callback, started by the step that returned it:
    Core::Impl, IsRun branch entered through Here/Next) written eagerly: MakeTask -> MakeFuture, Schedule(e, f) -> Run(e, f),
    LazyContract -> AsyncContract.  The client lines are the same, so the two programs are compared after EVERY line."""
    out = []
    changed = False
    for l in prog.lines():
        t = l.split()
        if len(t) > 3 and t[0] == 'in' and t[2] == 'src' and t[3] in LAZY2EAGER:
            t[3] = LAZY2EAGER[t[3]]
            l = ' '.join(t)
            changed = True
        out.append(l)
    if not changed:
        return None
    tw = reparse(out)
    if tw.src is None or any(i.kind() == 'B' for i in tw.inner.values()):
        return None   # e.g. Then(f) without executor after MakeFuture: no eager way to write it
    tw.meta.update({'align': (0, 0), 'label': 'the same program with every inner Task written eagerly',
                    'final_expect': prog.meta.get('final_expect')})
    tw.tags.add('twin')
    return tw


def twins_of(prog):
    if prog.src is None:
        return []
    return [t for t in (eager_twin(prog) if prog.src.lazy() else None, inner_eager_twin(prog)) if t is not None]


def twin_compare(prog, o, tw, to):
    """C12 `then like eager`, event by event: after every client line the callbacks invoked (and where), the Submits, the
    finished jobs and the state of the handle are those of the eager twin.  Returns a message or None."""
    i, j = tw.meta['align']
    offa, offb = len(o['impl']) - len(prog.body), len(to['impl']) - len(tw.body)
    if any(x == 'bad' for x in to['impl']):
        return None
    # where a callback ran is compared for the steps that are GIVEN to a user executor (Then(e, f), Then(f) inheriting e, heads):
    # a callback on the inline executor runs wherever its input is completed / it is attached, which legitimately differs
    # (lazy: everything is attached before anything runs)
    placed = {sid for sid, own in py_spec(prog)[1].placed if own is not None and re.match(r'e\d+$', own)}
    while i < len(prog.body) and j < len(tw.body):
        a, b = parse_state(o['impl'][offa + i]), parse_state(to['impl'][offb + j])
        if a is None or b is None:
            return None   # a crash is reported by the monitors
        a['ran'] = [x for x in a['ran'] if x[0] in placed]
        b['ran'] = [x for x in b['ran'] if x[0] in placed]
        diff = [f for f in ('inv', 'ran', 'jobs', 'sub', 'got', 'obs') if a.get(f) != b.get(f)]
        if a['st'] != b['st'] and 'gone' not in (a['st'], b['st']):
            diff.append('st')
        if diff:
            show = lambda d: ' '.join('%s=%s' % (f, ','.join(('%s@%s' % x if f == 'ran' else '%s%s' % x) if isinstance(x, tuple)
                                                                else str(x) for x in d[f]) if isinstance(d.get(f), list)
                                                 else d.get(f)) for f in diff)
            return 'a lazy pipeline does not behave like %s: after line `%s` the lazy one has %s, the eager one %s' % (
                tw.meta['label'], prog.body[i], show(a), show(b))
        i += 1
        j += 1
    return None


def twin_findings(prog, o, kind='plain'):
    """twin comparison of ONE program (shrinking / replay): runs the twins"""
    out = []
    for tw in twins_of(prog):
        to = run_batch([tw.lines()], kind, with_model=False)[0]
        m = twin_compare(prog, o, tw, to)
        if m:
            out.append(('C12', m))
    return out


# ------------------------------------------------------------------------------------------------ running
def run_stream(cmd, text, what):
    r = subprocess.run(cmd, input=text, capture_output=True, text=True)
    if r.returncode != 0:
        raise C.BuildError('%s exited %d: %s' % (what, r.returncode, (r.stderr or r.stdout)[-1500:]))
    out = r.stdout.split('\n')
    if out and out[-1] == '':
        out.pop()
    return out


def harness(kind='plain'):
    return C.build_harness('pipe', kind, ['pipe.cpp'])


def _run_chunk(args):
    h, drv, line_lists, with_model = args
    text = ''.join('\n'.join(ls) + '\nend\n' for ls in line_lists)
    outs = {'impl': run_stream([h], text, 'pipe harness')}
    if with_model:
        outs['model'] = run_stream([drv, 'pipe'], text, 'ymdriver_pipe pipe')
        outs['spec'] = run_stream([drv, 'pipe-spec'], text, 'ymdriver_pipe pipe-spec')
    total = sum(len(ls) + 1 for ls in line_lists)
    for k, v in outs.items():
        if len(v) != total:
            raise C.BuildError('stream %s produced %d lines for %d inputs' % (k, len(v), total))
    res = []
    pos = 0
    for ls in line_lists:
        res.append({k: v[pos:pos + len(ls)] for k, v in outs.items()})
        pos += len(ls) + 1
    return res


def run_batch(line_lists, kind='plain', with_model=True):
    """line_lists: list of programs (each a list of lines without `end`).  Returns per program dict of output lists.
    Large batches are split over the cores (the three streams are independent per program)."""
    from concurrent.futures import ThreadPoolExecutor
    h = harness(kind)
    n = len(line_lists)
    nchunks = 1 if n < 400 else min(C.NPROC, max(1, n // 200))
    size = (n + nchunks - 1) // nchunks if n else 1
    chunks = [line_lists[i:i + size] for i in range(0, n, size)] or [[]]
    with ThreadPoolExecutor(max_workers=max(1, len(chunks))) as ex:
        parts = list(ex.map(_run_chunk, [(h, DRV, c, with_model) for c in chunks]))
    out = []
    for part in parts:
        out += part
    return out


def parse_state(line):
    """`inv=… ran=… jobs=… sub=… st=… [got:…] al=… lc=… lf=…` -> dict, or None for crash/bad/ok"""
    if '=' not in line or not line.startswith('inv='):
        return None
    d = {'asserts': []}
    for tok in line.split(' '):
        if tok.startswith('ASSERT('):
            d['asserts'].append(tok)
        elif tok.startswith('got:'):
            d['got'] = tok[4:]
        elif '=' in tok:
            k, v = tok.split('=', 1)
            d[k] = v
    lst = lambda s: [x for x in s.split(',') if x]
    d['inv'] = [int(x) for x in lst(d['inv'])]
    d['ran'] = [(int(x.split('@')[0]), x.split('@')[1]) for x in lst(d['ran'])]
    d['jobs'] = [(int(x[:-1]), x[-1]) for x in lst(d['jobs'])]
    d['sub'] = [int(x) for x in lst(d['sub'])]
    for k in ('al', 'lc', 'lf'):
        d[k] = int(d[k])
    return d


def parse_spec(line):
    if not line.startswith('spec r='):
        return None
    d = {}
    for tok in line.split(' ')[1:]:
        k, v = tok.split('=', 1)
        d[k] = v
    return {'r': d['r'], 'inv': [int(x) for x in d['inv'].split(',') if x], 'sub': [int(x) for x in d['sub'].split(',') if x]}


# ------------------------------------------------------------------------------------------------ monitors (implementation vs property)
def reparse(lines):
    """rebuild the structural view of a program from its lines (used for corpus / shrunk programs)"""
    prog = Program()

    def pstep(t):
        sid, sig, m, b = int(t[0]), t[1][0], t[2], t[3]
        spell = t[1][1:]
        ex = None
        if m.startswith('on:'):
            m, ex = 'on', m[3:]
        elif m.startswith('detach:'):
            m, ex = 'detach', m[7:]
        bk, bv = b.split(':', 1)
        beh = (bk, int(bv)) if bk in ('val', 'throw', 'async') else (bk, bv)
        return Step(sid, sig, m, ex, beh, spell)

    def psrc(t):
        k = t[0]
        if k in ('ready', 'task_ready', 'shared_ready'):
            return Src(k, r=t[1])
        if k in ('contract', 'shared_contract'):
            return Src(k, p=int(t[1][1:]), ful=t[2])
        if k in ('shared_handle', 'share'):
            return Src(k, h=int(t[1][1:]))
        if k == 'share_on':
            return Src(k, ex=t[1], h=int(t[2][1:]))
        if k in ('contract_on', 'async_contract', 'lazy_contract'):
            return Src(k, ex=t[1], p=int(t[2][1:]), ful=t[3])
        h = pstep(t[1:])
        return Src(k, head=h, ex=h.ex)
    body = []
    maxp = -1
    for l in lines:
        t = l.split()
        if not t:
            continue
        if t[0] == 'cfg':
            lim = int(t[3].split('=')[1]) if len(t) > 3 else None
            prog.cfg[int(t[1][1:])] = (t[2] != 'inline', lim)
            if t[2] == 'manual':
                prog.meta.setdefault('manual', set()).add(int(t[1][1:]))
            continue
        if t[0] == 'shared':
            prog.kept[int(t[1][1:])] = (int(t[2][1:]), t[3], t[4] == 'ready', int(t[5].split('=')[1]))
            maxp = max(maxp, int(t[2][1:]))
            continue
        if t[0] == 'in':
            pid = int(t[1])
            if t[2] == 'src':
                prog.inner[pid] = Inner(pid, psrc(t[3:]), [])
            else:
                prog.inner[pid].steps.append(pstep(t[3:]))
            continue
        body.append(l)
        if t[0] == 'src':
            prog.src = psrc(t[1:])
        elif t[0] == 'then':
            prog.steps.append(pstep(t[1:]))
        elif t[0] == 'start' and prog.start is None:
            prog.start = t[1]
        elif t[0] == 'droptask' and prog.start is None:
            prog.start = 'cancel'
    for s in [prog.src] + [i.src for i in prog.inner.values()]:
        if s is not None and s.p is not None:
            maxp = max(maxp, s.p)
    prog.meta['next_p'] = maxp
    prog.body = body
    exps = [i for i, l in enumerate(body) if l == 'expect']
    prog.meta['final_expect'] = exps[-1] if exps else None
    if prog.src is not None and prog.src.lazy():
        prog.tags.add('lazy')
    return prog


def all_steps(prog):
    out = {}

    def add(steps):
        for s in steps:
            out[s.id] = s
    add(([prog.src.head] if prog.src.is_unit() else []) + prog.steps)
    for i in prog.inner.values():
        add(([i.src.head] if i.src.is_unit() else []) + i.steps)
    return out


def monitor(prog, outs, props):
    """Property monitors on the implementation's output (independent of the Lean `mech`).
    Returns list of (property, message).  `outs` = {'impl': [...], 'spec': [...]} aligned with prog.lines()."""
    lines = prog.lines()
    off = len(lines) - len(prog.body)
    impl = outs['impl']
    bad = []
    steps = all_steps(prog)
    if any(o == 'bad' for o in impl):
        return [('gen', 'program rejected by the harness (ill-typed): ' + ' | '.join(lines))]
    crashed = [i for i, o in enumerate(impl) if o in ('crash', 'missing')]
    if crashed:
        msg = 'the implementation crashed at line %d `%s`' % (crashed[0], lines[crashed[0]])
        return [(p, msg) for p in ('C02', 'C03', 'C12')]
    states = [parse_state(o) for o in impl]
    started = False
    built = False
    fulfilled = set()
    prev_alloc_total = 0
    total_alloc = 0
    for i, (l, s) in enumerate(zip(lines, states)):
        if s is None:
            continue
        t = l.split()
        if s['asserts']:
            bad.append(('C03', 'library assertion fired at line %d `%s`: %s' % (i, l, ' '.join(s['asserts']))))
        total_alloc += s['al']
        if t[0] in ('start', 'droptask'):
            started = True
        # C12: nothing runs before the start
        if 'lazy' in prog.tags and not started and (s['inv'] or s['jobs'] or s['sub']):
            bad.append(('C12', 'something ran before the Task was started (line %d `%s`): %s' % (i, l, impl[i])))
        # C20: one allocation per src/then line at most (inner pipelines are built by functors: counted below), none to look
        if t[0] in ('expect', 'get', 'dropfuture') and s['al'] != 0:
            bad.append(('C20', '%d allocation(s) on `%s` (line %d)' % (s['al'], l, i)))
        if s['lc'] < 0 or s['lf'] < 0:
            bad.append(('C03', 'negative live count at line %d: %s' % (i, impl[i])))
        # C02 (sources: SharedFuture) / C06 seen from the pipeline: a SharedFuture handle the client kept still delivers the
        # value it was fulfilled with, whatever pipelines consumed copies of it (a consumer may move the value out only if it is
        # provably the last holder)
        if t[0] == 'src':
            built = True
        if built and (t[0] == 'flush' or t[0] == 'set'):
            for j, (kp, kful, kready, _) in prog.kept.items():
                if t[0] == 'flush' or t[1] == 'p%d' % kp:
                    fulfilled.add(j)
        if t[0] == 'obs':
            j = int(t[1][1:])
            kp, kful, kready, kcopies = prog.kept[j]
            want = ful_result(kful) if (kready or j in fulfilled) else 'pending'
            if s.get('obs') != want:
                bad.append(('C02', 'the kept SharedFuture handle s%d (%d handle(s) kept) delivers %s although it was fulfilled with '
                                   '%s: a pipeline that consumed a copy of it damaged the shared value' % (
                                       j, kcopies, s.get('obs'), want)))
    fe = prog.meta.get('final_expect')
    if fe is None:
        return bad
    # the comparisons with the sequential reading presuppose that the client let everything happen: a `flush` before the
    # last `expect`, and a lazy pipeline started or dropped (a shrunk / hand-written program may lack them: nothing to compare)
    if 'flush' not in prog.body[:fe] or ('lazy' in prog.tags and not any(
            l.startswith(('start ', 'droptask')) for l in prog.body[:fe])):
        return bad
    fi = off + fe
    fin = states[fi]
    spec = parse_spec(outs['spec'][fi]) if 'spec' in outs else None
    last = states[-1]
    # each step at most once (C02 invoked_nodup / C12)
    if len(set(fin['inv'])) != len(fin['inv']):
        bad.append(('C02', 'a step was invoked twice: inv=%s' % fin['inv']))
    # C05 (a): every submitted job finished by exactly one of Call / Drop; Drop only when the executor was stopped
    jids = [j for j, _ in fin['jobs']]
    if sorted(jids) != list(range(len(fin['sub']))):
        bad.append(('C05', 'jobs not finished exactly once: submitted %d, finished %s' % (len(fin['sub']), fin['jobs'])))
    for j, how in fin['jobs']:
        if j < len(fin['sub']):
            k = fin['sub'][j]
            lim = prog.cfg.get(k, (True, None))[1]
            stopped = lim is not None and fin['sub'][:j].count(k) >= lim
            if (how == 'd') != stopped:
                bad.append(('C05', 'job %d on e%d was %s although the executor was %s' % (
                    j, k, 'dropped' if how == 'd' else 'called', 'stopped' if stopped else 'alive')))
    # C05 (b): placement.  python reading of the inheritance chain (independent of Lean)
    pr, pst = py_spec(prog)
    placed = dict(pst.placed)
    for sid, ctx in fin['ran']:
        want = placed.get(sid)
        if want is not None and want.startswith('e') and want[1:].isdigit() and ctx != want:
            bad.append(('C05', 'step %d was told to run on %s but ran in context %s' % (sid, want, ctx)))
    # C05 (c): a step whose executor refuses it sees StopError instead of its input: a callback that accepts errors (Result /
    # error signature) is invoked when its job is Dropped.  The j-th Submit belongs to the j-th step given to a user executor.
    uplaced = [(sid, int(own[1:])) for sid, own in pst.placed if own is not None and re.match(r'e\d+$', own)]
    if [k for _, k in uplaced] == fin['sub']:
        for j, how in fin['jobs']:
            if how == 'd' and j < len(uplaced):
                sid, k = uplaced[j]
                if sid in steps and steps[sid].sig in ('R', 'E') and sid not in fin['inv']:
                    bad.append(('C05', 'step %d was refused by e%d (job %d Dropped) but its callback, which accepts errors, was never '
                                       'invoked: it must see StopError instead of its input' % (sid, k, j)))
    if spec is not None:
        # C02: final Result and invoked list = sequential reading
        if fin['st'].startswith('ready:'):
            if fin['st'][6:] != spec['r']:
                bad.append(('C02', 'final Result %s, sequential reading gives %s' % (fin['st'][6:], spec['r'])))
        elif fin['st'] == 'pending':
            bad.append(('C02', 'the pipeline never completed although every promise was fulfilled and every executor drained'))
        if fin['inv'] != spec['inv']:
            bad.append(('C02', 'invoked %s, sequential reading invokes %s' % (fin['inv'], spec['inv'])))
        # C05: ThenInline never submits / every Call-type step submits exactly once
        if fin['sub'] != spec['sub']:
            bad.append(('C05', 'Submits %s, expected %s' % (fin['sub'], spec['sub'])))
        if (pr, pst.inv, pst.subs) != (spec['r'], spec['inv'], spec['sub']):
            bad.append(('gen', 'python reading of spec differs from Lean spec: %s vs %s' % ((pr, pst.inv, pst.subs), spec)))
    # C12: destroying a Task that was never started invokes no value callback — the literal clause.  Any value callback
    # invoked is reported; the message says whether a callback in front of it had turned the failure into a value
    # (open known finding K1 of known_findings.json) or not (a plain violation).
    if prog.start == 'cancel':
        tr = {sid: (i_, o_) for sid, i_, o_ in pst.trace}
        recovering = None
        for sid in fin['inv']:
            if steps[sid].sig == 'V':
                if recovering is not None:
                    bad.append(('C12', 'value callback %d invoked while an unstarted Task is destroyed, behind callback %d which '
                                       'turned the StopError into a value' % (sid, recovering)))
                else:
                    bad.append(('C12', 'value callback %d invoked while an unstarted Task is destroyed, with no recovering callback '
                                       'in front of it' % sid))
                break
            i_o = tr.get(sid)
            # invoked with the failure, and returned a value or built a new pipeline (whose own source feeds its callbacks)
            if i_o is not None and i_o[0][0] != 'v' and (i_o[1][0] == 'v' or steps[sid].beh[0] == 'async'):
                recovering = sid
    # C20: allocations <= number of cores the program constructs
    bound = prog_size(prog, set(fin['inv']))
    if total_alloc > bound:
        bad.append(('C20', '%d allocations for %d pipeline steps' % (total_alloc, bound)))
    # C03: nothing remains once the handle is gone; a held ready future holds exactly its result
    if last['lf'] != 0:
        bad.append(('C03', '%d functor(s) still alive at the end' % last['lf']))
    want_lc = 1 if last['st'].startswith('ready:') else 0
    if last['st'] != 'pending' and last['lc'] != want_lc:
        bad.append(('C03', '%d heap block(s) still alive at the end (expected %d)' % (last['lc'], want_lc)))
    return bad


def correspondence(prog, outs):
    """first line on which implementation and Lean mech differ (None if they agree everywhere)"""
    for i, (a, b) in enumerate(zip(outs['impl'], outs['model'])):
        if a in ('crash', 'missing') and b == 'crash':
            return None  # both crash: nothing after the crash is defined
        if a != b:
            return i
    return None


# ------------------------------------------------------------------------------------------------ shrinking
def shrink(lines, fails, budget=400):
    """delta debugging on lines: remove chunks while `fails(lines)` stays true"""
    cur = list(lines)
    n = 2
    calls = 0
    while len(cur) >= 2 and calls < budget:
        chunk = max(1, len(cur) // n)
        removed = False
        for i in range(0, len(cur), chunk):
            cand = cur[:i] + cur[i + chunk:]
            calls += 1
            if cand and fails(cand):
                cur = cand
                n = max(n - 1, 2)
                removed = True
                break
            if calls >= budget:
                break
        if not removed:
            if chunk == 1:
                break
            n = min(len(cur), n * 2)
    return cur


def msg_class(msg):
    """a finding up to its numbers: what must stay the same while a failing program is minimised"""
    # numbers and the LENGTH of lists of numbers do not belong to the class (a shrunk program invokes fewer steps)
    return re.sub(r'\[(?:N(?:, )?)*\]', '[..]', re.sub(r'-?\d+', 'N', msg))[:70]


def _has_class(lines, prop, kind, key):
    try:
        prog = reparse(lines)
        if prog.src is None:
            return False
        o = run_batch([lines], kind)[0]
        if any(x == 'bad' for x in o['impl']):
            return False
        ms = monitor(prog, o, {prop})
        if prop == 'C12' and key.startswith('a lazy pipeline does not behave'):
            ms = ms + twin_findings(prog, o, kind)
        return any(q == prop and msg_class(m) == key for q, m in ms)
    except Exception:
        return False


def _has_message(lines, prop, kind, pattern):
    try:
        prog = reparse(lines)
        if prog.src is None:
            return False
        o = run_batch([lines], kind)[0]
    except Exception:
        return False
    if any(x == 'bad' for x in o['impl']):
        return False
    return any(q == prop and re.search(pattern, m) for q, m in monitor(prog, o, {prop}))


def fails_with(props_wanted, kind='plain', need_model_diff=False):
    def f(lines):
        try:
            prog = reparse(lines)
            if prog.src is None:
                return False
            o = run_batch([lines], kind)[0]
        except Exception:
            return False
        if any(x == 'bad' for x in o['impl']) or any(x == 'bad' for x in o['model']):
            return False
        if need_model_diff:
            return correspondence(prog, o) is not None
        return any(p in props_wanted for p, _ in monitor(prog, o, props_wanted))
    return f


# ------------------------------------------------------------------------------------------------ free jobs (C05)
# Programs without a pipeline: `submit <ex> <id>` = yaclib::Submit(<ex>, f_<id>) (exe/submit.hpp), then call / drain / flush.
# Lean model: Model/FreeJob.lean (theorems free_job_* of Props/C05.lean), same driver, same output format.
FREE_CMDS = ('submit', 'submitl', 'fn', 'mut', 'kill')
HUSK = 999999   # what a moved-from functor logs (harness OwnFn::kHusk)


def is_free(lines):
    return any(l.split()[0] in FREE_CMDS for l in lines if l.strip())


def gen_free(rng):
    """executors x functor forms {rvalue, lvalue copied, the same lvalue submitted k times, lvalue changed between Submit and
    execution, lvalue destroyed before execution} x body outcomes {returns, throws std::exception / int / a user struct}.
    Every state (tag) a functor ever owns is a fresh number, so a job can be recognised by what it logs."""
    lines = []
    cfg = {}
    for k in range(1, rng.choice([1, 2, 2, 3]) + 1):
        kind = rng.choice(['queue', 'queue', 'manual', 'inline'])
        lim = rng.choice([0, 1, 1, 2, 3]) if rng.random() < 0.4 else None
        cfg[k] = kind
        lines.append('cfg e%d %s%s' % (k, kind, '' if lim is None else ' limit=%d' % lim))
    tag = [0]

    def fresh():
        tag[0] += 1
        return tag[0]

    def outcome():
        return rng.choice(['', '', ' ret', ' std', ' int', ' usr'])

    def ex():
        return rng.choice(['inl', 'stp'] + ['e%d' % k for k in cfg] * 3)
    named = set()
    for _ in range(rng.randrange(1, 11)):
        x = rng.random()
        if x < 0.3:
            lines.append('submit %s %d%s' % (ex(), fresh(), outcome()))
        elif x < 0.42 or (x < 0.75 and not named):
            j = rng.randrange(3)
            named.add(j)
            lines.append('fn f%d %d%s' % (j, fresh(), outcome()))
        elif x < 0.62:
            j = rng.choice(sorted(named))
            for _ in range(rng.choice([1, 1, 2, 3])):     # the SAME lvalue submitted k times
                lines.append('submitl %s f%d' % (ex(), j))
        elif x < 0.7:
            lines.append('mut f%d %d' % (rng.choice(sorted(named)), fresh()))
        elif x < 0.75:
            j = rng.choice(sorted(named))
            named.discard(j)
            lines.append('kill f%d' % j)
        elif x < 0.92:
            lines.append('%s e%d' % (rng.choice(['call', 'drain']), rng.choice(list(cfg))))
        else:
            lines.append('expect')
    if not is_free(lines):
        lines.append('submit %s 1' % rng.choice(['inl', 'stp', 'e1']))
    return lines + ['flush', 'expect']


def free_monitor(lines, impl):
    """C05 for free jobs, on the implementation's output alone: every functor handed to Submit(e, f) is Called xor Dropped,
    exactly once, WITH THE STATE IT HAD WHEN IT WAS SUBMITTED (a copy: the caller's named functor is left alone and nothing
    done to it later reaches the job); Dropped iff its executor refused (stopped inline executor / user executor past its
    limit); Called inside the executor; a throwing body (std::exception, int, user struct) is a Call like any other; one
    UniqueJob per Submit, none left; every functor object owns a state."""
    bad = []
    if any(o == 'bad' for o in impl):
        return [('gen', 'program rejected by the harness: ' + ' | '.join(lines))]
    if any(o in ('crash', 'missing') for o in impl):
        i = next(i for i, o in enumerate(impl) if o in ('crash', 'missing'))
        return [('C05', 'the implementation crashed (std::terminate / fatal signal) at line %d `%s`' % (i, lines[i].split()[0] + ' …')
                 + ': a throwing job body must be swallowed (a Call like any other, the executor survives) and a job owns its functor '
                   '(nothing the client does to its own object afterwards may reach it)')]
    cfg = {}
    prev = {'inv': [], 'ran': [], 'jobs': [], 'sub': [], 'lc': 0, 'lf': 0}
    named = {}         # j -> tag the client's functor f<j> owns now
    accepted = []      # (tag, context it must run in) for every accepted Submit
    refused = []       # tags of refused Submits
    queued = {}        # jid -> tag, accepted by a queue executor, not yet seen finished
    nsub = {}
    last = None
    for i, (l, o) in enumerate(zip(lines, impl)):
        t = l.split()
        if t[0] == 'cfg':
            cfg[int(t[1][1:])] = (t[2], int(t[3].split('=')[1]) if len(t) > 3 else None)
            continue
        s = parse_state(o)
        if s is None:
            continue
        last = s
        if s['asserts']:
            bad.append(('C05', 'library assertion fired at line %d `%s`: %s' % (i, l, ' '.join(s['asserts']))))
        new_inv = s['inv'][len(prev['inv']):]
        new_jobs = s['jobs'][len(prev['jobs']):]
        new_sub = s['sub'][len(prev['sub']):]
        if t[0] == 'fn':
            named[int(t[1][1:])] = int(t[2])
        elif t[0] == 'mut':
            named[int(t[1][1:])] = int(t[2])
        elif t[0] == 'kill':
            named.pop(int(t[1][1:]), None)
        if t[0] in ('submit', 'submitl'):
            ex = t[1]
            fid = int(t[2]) if t[0] == 'submit' else named.get(int(t[2][1:]))
            what = 'f%s' % fid if t[0] == 'submit' else 'a copy of %s (state %s)' % (t[2], fid)
            if s['al'] > 1:
                bad.append(('C05', 'Submit(%s, f) allocated %d blocks (line %d)' % (ex, s['al'], i)))
            if ex == 'inl':
                accepted.append((fid, '-'))
                if new_inv != [fid] or new_sub or new_jobs:
                    bad.append(('C05', 'Submit(MakeInline(), %s): the job was not called in place exactly once with that state '
                                       '(line %d: ran %s)' % (what, i, new_inv)))
            elif ex == 'stp':
                refused.append(fid)
                if new_inv or new_sub or new_jobs:
                    bad.append(('C05', 'job %s was Called by the stopped inline executor MakeInline(StopTag{}) (Alive() == false), '
                                       'expected Drop (line %d `%s`)' % (what, i, l)))
                elif (s['lc'], s['lf']) != (prev['lc'], prev['lf']):
                    bad.append(('C05', 'job %s handed to the stopped inline executor was neither called nor destroyed (line %d)' % (what, i)))
            else:
                k = int(ex[1:])
                kind, lim = cfg.get(k, ('queue', None))
                rejected = lim is not None and nsub.get(k, 0) >= lim
                nsub[k] = nsub.get(k, 0) + 1
                jid = len(prev['sub'])
                if new_sub != [k]:
                    bad.append(('C05', 'Submit(e%d, %s) reached the executor %d times (line %d)' % (k, what, len(new_sub), i)))
                elif rejected:
                    refused.append(fid)
                    if new_jobs != [(jid, 'd')] or new_inv:
                        bad.append(('C05', 'job %s refused by e%d was not simply Dropped (line %d: %s)' % (what, k, i, o)))
                elif kind == 'inline':
                    accepted.append((fid, 'e%d' % k))
                    if new_jobs != [(jid, 'c')] or new_inv != [fid]:
                        bad.append(('C05', 'job %s accepted by the in-place executor e%d was not called exactly once with that state '
                                           '(line %d: ran %s)' % (what, k, i, new_inv)))
                else:
                    accepted.append((fid, 'e%d' % k))
                    queued[jid] = fid
                    if new_jobs or new_inv:
                        bad.append(('C05', 'job %s queued on e%d ran before the executor was asked to (line %d: %s)' % (what, k, i, o)))
        else:
            if s['al'] != 0:
                bad.append(('C05', '%d allocation(s) on `%s` (line %d)' % (s['al'], l, i)))
            ran_now = []
            for (jid, how) in new_jobs:
                if how != 'c' or jid not in queued:
                    bad.append(('C05', 'job %d finished as `%s` on line %d `%s` although %s' % (
                        jid, how, i, l, 'it was accepted' if jid in queued else 'no such job is queued')))
                else:
                    ran_now.append(queued[jid])
                queued.pop(jid, None)
            if t[0] in ('call', 'drain', 'flush') and new_inv != ran_now and len(new_inv) == len(ran_now):
                # the jobs that finished on this line logged other states than the ones they were submitted with
                x = next((a, b) for a, b in zip(new_inv, ran_now) if a != b)
                bad.append(('C05', 'a queued job ran with state %s although its functor had state %d when it was submitted: the job '
                                   'must own a COPY of its functor, taken at the Submit (line %d `%s`)' % (
                                       'of a moved-from functor' if x[0] == HUSK else x[0], x[1], i, l.split()[0] + ' …')))
        # the client's own functors are left alone by Submit(e, lvalue)
        fns = {}
        for item in (s.get('fns') or '').split(','):
            if item:
                n, v = item.split(':')
                fns[int(n[1:])] = v
        want = {j: str(v) for j, v in named.items()}
        if 'fns' in s and fns != want:
            j = next(j for j in sorted(set(fns) | set(want)) if fns.get(j) != want.get(j))
            bad.append(('C05', 'after line %d `%s` the caller\'s functor f%d owns %s, it must own %s: Submit(e, lvalue) copies, '
                               'it does not move from the caller\'s object' % (i, l.split()[0] + ' …', j, fns.get(j), want.get(j))))
        if 'ls' in s and int(s['ls']) != s['lf']:
            bad.append(('C05', '%d functor object(s) alive but %s state(s): a functor lost the state it owns (line %d `%s`)' % (
                s['lf'], s['ls'], i, l.split()[0] + ' …')))
        prev = s
    if last is None:
        return bad
    if HUSK in last['inv']:
        bad.append(('C05', 'a job ran a moved-from functor (it logged no state)'))
    for fid in sorted(set(last['inv'])):
        n_acc = sum(1 for a, _ in accepted if a == fid)
        if fid != HUSK and last['inv'].count(fid) > n_acc:
            bad.append(('C05', 'state %d was run %d time(s) but only %d accepted job(s) were submitted with it%s' % (
                fid, last['inv'].count(fid), n_acc, ' (it was refused: must be Dropped)' if fid in refused else '')))
    want_ctx = {}
    for fid, ctx in accepted:
        want_ctx.setdefault(fid, set()).add(ctx)
    for fid, ctx in last['ran']:
        if fid in want_ctx and ctx not in want_ctx[fid]:
            bad.append(('C05', 'job f%d handed to %s ran in context %s' % (fid, '/'.join(sorted(want_ctx[fid])), ctx)))
    if 'flush' in lines:
        for fid in sorted({a for a, _ in accepted}):
            n_acc = sum(1 for a, _ in accepted if a == fid)
            if last['inv'].count(fid) < n_acc:
                bad.append(('C05', '%d job(s) submitted with state %d were accepted by their executor but only %d Called' % (
                    n_acc, fid, last['inv'].count(fid))))
        if last['lc'] != 0 or last['lf'] != len(named):
            bad.append(('C05', '%d UniqueJob(s) / %d functor(s) still alive after every job was finished (the client holds %d)' % (
                last['lc'], last['lf'], len(named))))
    return bad


def _free_has_class(lines, kind, key):
    try:
        if not is_free(lines):
            return False
        o = run_batch([lines], kind, with_model=False)[0]
        return any(q == 'C05' and msg_class(m) == key for q, m in free_monitor(lines, o['impl']))
    except Exception:
        return False


def free_check(res, tier):
    """T3 for the free function Submit(e, f): random + corpus free-job programs, implementation vs monitor vs Lean fmech"""
    rng = random.Random(C.seed() * 7919 + 5)
    progs = [ls for _, ls in corpus_programs() if is_free(ls)]
    ncorpus = len(progs)
    progs += [gen_free(rng) for _ in range(400 if tier == 'quick' else 6000)]
    drv_ok = os.path.exists(DRV)
    fails, corr = [], []
    kinds = ['plain'] + (['plain_asan'] if tier != 'quick' else [])
    for kind in kinds:
        rs = run_batch(progs, kind, with_model=drv_ok)
        for idx, (ls, o) in enumerate(zip(progs, rs)):
            ms = [(q, m) for q, m in free_monitor(ls, o['impl']) if q in ('C05', 'gen')]
            if ms:
                fails.append((idx, kind, ms[0][1]))
            elif drv_ok and o['impl'] != o['model']:
                corr.append((idx, kind))
    reported = set()
    for idx, kind, msg in fails:
        key = msg_class(msg)
        if key in reported or len(reported) >= 3:
            continue
        reported.add(key)
        small = shrink(progs[idx], lambda ls, kind=kind, key=key: _free_has_class(ls, kind, key), budget=150)
        res.violation('\n'.join(small) + '\nend', msg + '  [free jobs, minimised from a %d-line program, library build `%s`]' % (
            len(progs[idx]), kind), name='C05_%s_free_%d.txt' % (tier, len(reported)))
    if not fails and corr:
        idx, kind = corr[0]
        o = run_batch([progs[idx]], kind)[0]
        i = next(i for i, (a, b) in enumerate(zip(o['impl'], o['model'])) if a != b)
        res.violation('\n'.join(progs[idx]) + '\nend\n# line %d `%s`\n# impl : %s\n# model: %s' % (i, progs[idx][i], o['impl'][i], o['model'][i]),
                      'correspondence broken: Lean fmech (free jobs) and the implementation differ (%d programs) but every job is '
                      'still Called xor Dropped as the property says' % len(corr), no_input=True, name='C05_%s_free_correspondence.txt' % tier)
    res.coverage['free_jobs'] = {
        'programs': len(progs), 'corpus': ncorpus, 'distinct': len({tuple(p) for p in progs}),
        'submits': sum(1 for p in progs for l in p if l.startswith('submit')),
        'lvalue_submits': sum(1 for p in progs for l in p if l.startswith('submitl ')),
        'throwing_bodies': sum(1 for p in progs for l in p if l.split()[-1] in ('std', 'int', 'usr')),
        'on_stopped_inline': sum(1 for p in progs for l in p if l.startswith('submit stp')),
        'refused_by_user_executor': sum(1 for p, o in zip(progs, rs) for x in (parse_state(o['impl'][-1]) or {'jobs': []})['jobs'] if x[1] == 'd'),
        'streams_compared': ['yaclib (harness/pipe.cpp)'] + (['Lean fmech'] if drv_ok else []),
        'rule': 'programs without a pipeline: 1-3 user executors (queue / ManualExecutor / in-place, optional limit), up to 10 '
                'steps of submit <inl|stp|e_k> <id> [ret|std|int|usr] (rvalue) / fn / submitl (lvalue, the same one up to 3 times) / '
                'mut / kill / call / drain / expect, then flush'}
    return fails, corr


# ------------------------------------------------------------------------------------------------ corpus / exhaustive
def corpus_programs():
    out = []
    if os.path.isdir(CORPUS):
        for f in sorted(os.listdir(CORPUS)):
            cur = []
            for l in open(os.path.join(CORPUS, f)):
                l = l.strip()
                if not l or l.startswith('#'):
                    continue
                if l == 'end':
                    if cur:
                        out.append((f, cur))
                    cur = []
                else:
                    cur.append(l)
            if cur:
                out.append((f, cur))
    return out


def exhaustive(max_steps=2):
    """all programs of <= max_steps steps over the instantiated kinds (one representative payload per class):
    every source x every (signature x attachment mode x behaviour class) per step x every start kind,
    with the events 'everything late' (and, for eager ones, 'everything early')"""
    cfgs = {1: (True, None), 2: (True, 0), 3: (False, None)}

    def inner_defs(j):
        """fresh inner pipelines for step j (distinct step ids / promise numbers per use)"""
        b = 100 * (j + 1)
        return {
            10 * j + 1: Inner(10 * j + 1, Src('ready', r='v10'), []),
            10 * j + 2: Inner(10 * j + 2, Src('contract', p=10 + j, ful='set:v11'), []),
            10 * j + 3: Inner(10 * j + 3, Src('run', head=Step(b, 'V', 'on', 'e1', ('val', 12)), ex='e1'), []),
            10 * j + 4: Inner(10 * j + 4, Src('task_ready', r='v13'), [Step(b + 1, 'V', 'on', 'e1', ('val', 1))]),
            10 * j + 5: Inner(10 * j + 5, Src('shared_ready', r='v14'), []),
            10 * j + 6: Inner(10 * j + 6, Src('contract_on', ex='e1', p=20 + j, ful='set:e3'), [Step(b + 2, 'E', 'inherit', None, ('res', 'x5'))]),
            10 * j + 7: Inner(10 * j + 7, Src('shared_handle', h=0), []),      # a copy of the ready SharedFuture the client keeps
            10 * j + 8: Inner(10 * j + 8, Src('shared_handle', h=1), [Step(b + 3, 'V', 'inline', None, ('val', 2))]),  # fulfilled later
            # Share(sf, e1) of the ready / the later-fulfilled kept SharedFuture: the FutureOn carries e1
            10 * j + 9: Inner(10 * j + 9, Src('share_on', ex='e1', h=0), [Step(b + 4, 'V', 'inherit', None, ('val', 3))]),
            10 * j + 10: Inner(10 * j + 10, Src('share_on', ex='e3', h=1), []),
        }
    srcs = [Src('ready', r='v1'), Src('ready', r='e2'), Src('ready', r='x3'), Src('contract', p=0, ful='set:v1'),
            Src('contract', p=0, ful='drop'), Src('contract_on', ex='e1', p=0, ful='set:v1'),
            Src('run', head=Step(80, 'V', 'on', 'e1', ('val', 1)), ex='e1'),
            Src('run', head=Step(80, 'R', 'on', 'e2', ('val', 1)), ex='e2'),
            Src('async_contract', ex='e1', p=0, ful='set:v1'),
            Src('task_ready', r='v1'), Src('schedule', head=Step(80, 'V', 'on', 'e1', ('val', 1)), ex='e1'),
            Src('lazy_contract', ex='e1', p=0, ful='set:x4'),
            Src('share_on', ex='e1', h=0), Src('share_on', ex='e1', h=1), Src('share', h=0), Src('share_on', ex='e2', h=0)]
    modes = [('inline', None), ('on', 'e1'), ('on', 'e2'), ('on', 'e3'), ('inherit', None), ('detach_inline', None), ('detach', 'e1')]
    if max_steps >= 2:
        srcs = [srcs[i] for i in (0, 1, 3, 5, 6, 9, 10, 11)]
        modes = [modes[i] for i in (0, 1, 2, 4, 5)]
    progs = []
    for src in srcs:
        k0 = kind_of_src(src)
        starts = ['tofuture', 'tofuture:e1', 'detach', 'cancel'] if src.lazy() else [None]
        for n in range(max_steps + 1):
            behs = [[('val', 1), ('res', 'e7'), ('res', 'v8'), ('throw', 9)] + [('async', pid) for pid in inner_defs(j)] for j in range(n)]
            sigs = [(c, sp) for c in 'RVEX' for sp in (SPELLINGS[c] if max_steps == 1 else [''])]   # class x parameter spelling
            per_step = [list(itertools.product(sigs, modes, behs[j])) for j in range(n)]
            for combo in itertools.product(*per_step):
                k = k0
                steps = []
                ok = True
                for j, ((sig, spell), (m, ex), beh) in enumerate(combo):
                    if m.startswith('detach') and beh[0] in ('res', 'async'):
                        ok = False
                        break
                    if spell and (beh[0] == 'async' or (spell == 'r' and k == 'S')):
                        ok = False
                        break
                    st = Step(j + 1, sig, m, ex, beh, spell)
                    k = kind_after(k, st)
                    if k == 'B' or (k == 'N' and j != n - 1):
                        ok = False
                        break
                    steps.append(st)
                if not ok:
                    continue
                used = {}
                for j, (_, _, b) in enumerate(combo):
                    if b[0] == 'async':
                        used[b[1]] = inner_defs(j)[b[1]]
                for start in starts:
                    for early in ((False, True) if n > 0 and not src.lazy() else (False,)):
                        p = Program()
                        p.cfg, p.src, p.steps, p.start = cfgs, src, steps, start
                        p.inner = dict(sorted(used.items()))
                        uses_kept = sorted({x.h for x in [i.src for i in used.values()] + [src] if x.kind in ('shared_handle', 'share', 'share_on')})
                        if uses_kept:
                            p.kept = {0: (28, 'set:v15', True, 1), 1: (29, 'set:v16', False, 2)}
                        body = ['src ' + src.text()]
                        if early:
                            body += ['set p0', 'drain e1', 'drain e2']
                        body += ['then ' + s.text() for s in steps]
                        if src.lazy():
                            body += ['expect', 'droptask' if start == 'cancel' else 'start ' + start]
                        body += ['flush', 'expect']
                        p.meta = {'final_expect': len(body) - 1, 'next_p': 30}
                        if k in 'FO' and start in (None, 'tofuture', 'tofuture:e1'):
                            body += ['get', 'expect']
                        body += ['obs s%d' % j for j in uses_kept]
                        p.body = body
                        if src.lazy():
                            p.tags.add('lazy')
                        progs.append(p)
    return progs


# ------------------------------------------------------------------------------------------------ the check
def distribution(progs, results):
    d = {'programs': len(progs), 'steps': 0, 'invoked': 0, 'combos': {}, 'sources': {}, 'starts': {}, 'lazy': 0, 'inner_run_heads': 0,
         'rejected_jobs': 0, 'called_jobs': 0, 'nonterminal': 0, 'spellings': {}, 'inner_sources': {}}
    for p, o in zip(progs, results):
        steps = all_steps(p)
        d['steps'] += len(steps)
        for st_ in steps.values():
            key = st_.sig + st_.spell
            d['spellings'][key] = d['spellings'].get(key, 0) + 1
        for i_ in p.inner.values():
            d['inner_sources'][i_.src.kind] = d['inner_sources'].get(i_.src.kind, 0) + 1
        d['sources'][p.src.kind] = d['sources'].get(p.src.kind, 0) + 1
        if 'lazy' in p.tags:
            d['lazy'] += 1
            d['starts'][str(p.start)] = d['starts'].get(str(p.start), 0) + 1
        d['inner_run_heads'] += sum(1 for i in p.inner.values() if i.src.kind in ('schedule', 'lazy_contract'))
        fe = p.meta.get('final_expect')
        if fe is None:
            continue
        fin = parse_state(o['impl'][len(o['impl']) - len(p.body) + fe])
        if fin is None:
            continue
        if fin['st'] == 'pending':
            d['nonterminal'] += 1
        d['invoked'] += len(fin['inv'])
        d['rejected_jobs'] += sum(1 for _, h in fin['jobs'] if h == 'd')
        d['called_jobs'] += sum(1 for _, h in fin['jobs'] if h == 'c')
        for sid in fin['inv']:
            s = steps.get(sid)
            if s is None:
                continue
            rc = s.beh[0] if s.beh[0] != 'async' else 'async:' + p.inner[s.beh[1]].kind() + ':' + p.inner[s.beh[1]].src.kind
            key = '%s/%s/%s' % (s.sig, rc, s.mode)
            d['combos'][key] = d['combos'].get(key, 0) + 1
    d['invoked_fraction'] = round(d['invoked'] / max(1, d['steps']), 3)
    d['distinct_combos_invoked'] = len(d['combos'])
    return d


def check(res, prop, tier, n_quick, n_thorough, extra_programs=(), twins=False, exhaustive_steps=1):
    """Shared T3 stage. `prop` selects generator emphasis and which monitor findings count as this property's."""
    t0 = time.time()
    rng = random.Random(C.seed() * 1000003 + sum(ord(c) for c in prop))
    gen = Gen(rng, prop)
    n = n_quick if tier == 'quick' else n_thorough
    progs = []
    names = []
    for f, ls in corpus_programs():
        p = reparse(ls)
        if p.src is not None:
            progs.append(p)
            names.append('corpus/' + f)
    progs += list(extra_programs)
    for _ in range(n):
        progs.append(gen.program())
    n_asan = len(progs) if n <= 20000 else len(progs) - (n - 20000)   # the sanitizer build runs corpus + 20 000 random programs …
    if tier != 'quick':
        ex1 = exhaustive(1)
        progs = progs[:n_asan] + ex1 + progs[n_asan:]                  # … + all <=1-step programs
        n_asan += len(ex1)
        if exhaustive_steps >= 2:
            progs += exhaustive(2)
    if twins:
        for p in list(progs):
            for tw in twins_of(p):
                p.meta.setdefault('twins', []).append(len(progs))
                progs.append(tw)
    kinds = ['plain'] + (['plain_asan'] if tier != 'quick' else [])
    drv_ok = os.path.exists(DRV)
    results = None
    prop_fail = []   # (prog index, message)
    corr_fail = []   # (prog index, line)
    known = {}       # id of an open entry of known_findings.json -> [entry, count, first (prog index, build kind, message)]
    open_known = [k for k in C.load_findings().get('open', []) if k.get('property') == prop]
    for kind in kinds:
        sub = progs if kind == 'plain' else progs[:n_asan]
        rs = run_batch([p.lines() for p in sub], kind, with_model=drv_ok)
        if results is None:
            results = rs
        for idx, (p, o) in enumerate(zip(sub, rs)):
            ms = [(q, m) for (q, m) in monitor(p, o, {prop}) if q in (prop, 'gen')]
            if twins and not ms:
                for ti in p.meta.get('twins', ()):
                    if ti < len(rs):
                        m = twin_compare(p, o, progs[ti], rs[ti])
                        if m:
                            ms.append((prop, m))
            kms = [(q, m, next((k for k in open_known if re.search(k['match'], m)), None)) for (q, m) in ms]
            for (q, m, kf) in kms:
                if kf is not None:
                    known.setdefault(kf['id'], [kf, 0, (idx, kind, m)])[1] += 1
            ms = [(q, m) for (q, m, kf) in kms if kf is None]
            if ms:
                prop_fail.append((idx, kind, ms[0][0], ms[0][1]))
            elif drv_ok:
                ln = correspondence(p, o)
                if ln is not None:
                    corr_fail.append((idx, kind, ln))
    for kid, (kf, count, (idx, kind, msg)) in sorted(known.items()):
        pat = kf['match']
        small = shrink(progs[idx].lines(), lambda ls: _has_message(ls, prop, kind, pat), budget=150)
        os.makedirs(C.REPLAYS, exist_ok=True)
        rpath = os.path.join(C.REPLAYS, '%s_known_%s.txt' % (prop, kid))
        with open(rpath, 'w') as f:
            f.write('# property=%s tier=%s seed=%d\n# KNOWN-FINDING %s: %s\n' % (prop, tier, C.seed(), kid, msg))
            f.write('\n'.join(small) + '\nend\n')
        res.known_finding('%s [%d program(s) of this run, e.g. %s; replay=%s]' % (kf['what'], count, msg, rpath))
    reported = set()
    for (idx, kind, q, msg) in prop_fail[:20]:
        p = progs[idx]
        if q == 'gen':
            res.violation('\n'.join(p.lines()), 'internal: ' + msg, no_input=True, name='%s_%s_generator.txt' % (prop, tier))
            break
        key = msg_class(msg)
        if key in reported:
            continue
        reported.add(key)
        # minimise while the SAME kind of finding stays (not just any finding)
        small = shrink(p.lines(), lambda ls, kind=kind, key=key: _has_class(ls, prop, kind, key))
        res.violation('\n'.join(small) + '\nend', msg + '  [minimised from a %d-line program, library build `%s`]' % (len(p.lines()), kind),
                      name='%s_%s_%d.txt' % (prop, tier, len(reported)))
    if not prop_fail and corr_fail:
        idx, kind, ln = corr_fail[0]
        p = progs[idx]
        small = shrink(p.lines(), fails_with({prop}, kind, need_model_diff=True))
        o = run_batch([small], kind)[0]
        ln2 = correspondence(reparse(small), o)
        detail = ''
        if ln2 is not None:
            detail = '\n# line %d `%s`\n# impl : %s\n# model: %s' % (ln2, small[ln2], o['impl'][ln2], o['model'][ln2])
        res.violation('\n'.join(small) + '\nend' + detail,
                      'correspondence broken: Lean mech and the implementation differ (%d programs) but the implementation agrees '
                      'with the sequential reading' % len(corr_fail), no_input=True, name='%s_%s_correspondence.txt' % (prop, tier))
    dist = distribution(progs, results)
    distinct = len({tuple(p.lines()) for p in progs if len(p.body) > 2})
    res.coverage.update({
        'evaluations': len(progs) + (n_asan if len(kinds) > 1 else 0), 'distinct_nontrivial': distinct,
        'rule': 'pipeline programs from PRNG(VERIF_SEED) with emphasis %s (state-aware generator) + corpus/pipe%s%s; '
                'distinct = distinct programs with at least one line after the source' % (
                    prop, ' + eager twins of the lazy programs' if twins else '',
                    ' + exhaustive enumeration of all <=%d-step programs over the instantiated kinds' % exhaustive_steps if tier != 'quick' else ''),
        'samples': [' ; '.join(p.lines()) for p in progs[len(progs) // 2: len(progs) // 2 + 3]],
        'traces_validated_against_impl': (len(progs) + (n_asan if len(kinds) > 1 else 0)) if drv_ok else 0,
        'distribution': dist,
        'streams_compared': ['yaclib (harness/pipe.cpp, builds: %s)' % ','.join(kinds)] + (['Lean mech', 'Lean spec'] if drv_ok else []),
        'known_findings': {k: v[1] for k, v in known.items()},
        't3_wall_s': round(time.time() - t0, 2),
    })
    return prop_fail, corr_fail


def replay(prop, path):
    first = [l.strip() for l in open(path) if l.strip() and not l.startswith('#')]
    if first and first[0].startswith('alloc'):
        sec = first[0].split()[1:2]
        r = subprocess.run([C.build_harness('alloc', 'plain', ['alloc.cpp'])] + sec, capture_output=True, text=True)
        badl = [l for l in r.stdout.split('\n') if l.startswith('zero ') and not l.endswith('allocs=0 ok=1')]
        print('\n'.join(badl[:60]))
        print('%d cell(s) with allocations' % len(badl))
        print('VIOLATION reproduced' if badl else 'no difference')
        return 1 if badl else 0
    if open(path).read().find('pipe --comb') >= 0:
        r = subprocess.run([harness(), '--comb'], capture_output=True, text=True)
        print(r.stdout)
        print('VIOLATION reproduced (see the line named in the replay file)')
        return 1
    lines = [l.strip() for l in open(path) if l.strip() and not l.startswith('#') and l.strip() != 'end']
    if is_free(lines):
        o = run_batch([lines])[0]
        for l, a, b in zip(lines, o['impl'], o['model']):
            print('%-24s impl : %s' % (l, a))
            if a != b:
                print('%-24s model: %s   <-- differs' % ('', b))
        ms = free_monitor(lines, o['impl'])
        for q, m in ms:
            print('%s: %s' % (q, m))
        bad = bool(ms) or o['impl'] != o['model']
        print('VIOLATION reproduced' if bad else 'no difference')
        return 1 if bad else 0
    prog = reparse(lines)
    o = run_batch([lines])[0]
    for l, a, b, s in zip(lines, o['impl'], o['model'], o['spec']):
        print('%-44s impl : %s' % (l, a))
        if a != b:
            print('%-44s model: %s   <-- differs' % ('', b))
        if s.startswith('spec'):
            print('%-44s %s' % ('', s))
    ms = monitor(prog, o, {prop}) if prog.src is not None else []
    if prop == 'C12' and prog.src is not None:
        ms = ms + twin_findings(prog, o)
    for q, m in ms:
        print('%s: %s' % (q, m))
    bad = any(q == prop for q, _ in ms) or correspondence(prog, o) is not None
    print('VIOLATION reproduced' if bad else 'no difference')
    return 1 if bad else 0
