"""C03, concurrent part on the implementation: every schedule-explorer harness (C01, C06–C11, C13–C16) is built a second
time with the ownership monitor of harness/common/own.hpp (-DVX_OWN) and explores its scenarios with `--own`:
blocks allocated while a scenario runs are counted; a block still live at the quiescent end of an execution (confirmed by
repeating the schedule), a second free, a write into a freed block, or a crash on poisoned memory is a violation of C03
with the scenario header + choice string as replay.  Independent of the Lean models (it needs none: the property itself
says `released exactly once, never touched afterwards, nothing remains at quiescence`)."""
import json
import os
import re
import subprocess
import time
from concurrent.futures import ThreadPoolExecutor

from . import common as C

# name: binary / evidence key; src; sel: arguments that select the scenario set (also needed on a replay);
# quick / thorough: bounded DFS; random: random schedules (thorough tier); asan: bounded DFS under fiber_asan (thorough tier)
HARNESSES = [
    dict(name='c01', src='c01.cpp', sel=[], quick=['--pb', '2', '--wb', '1'],
         thorough=['--big', '--pb', '3', '--wb', '1', '--max-exec', '20000'], random=['--big', '--random-runs', '300'],
         asan=['--pb', '2', '--wb', '1']),
    dict(name='c06', src='c06.cpp', sel=[], quick=['--pb', '1', '--wb', '1', '--max-exec', '4000'],
         thorough=['--pb', '2', '--wb', '1', '--max-exec', '20000'], random=['--random-runs', '1500'],
         asan=['--pb', '1', '--wb', '1', '--max-exec', '1500']),
    dict(name='c07', src='c07.cpp', sel=['--size', '0', '--jobs', '2'], quick=['--pb', '1', '--wb', '1', '--max-exec', '20000'],
         thorough=['--pb', '2', '--wb', '1', '--max-exec', '60000'], random=['--random-runs', '2000'],
         asan=['--pb', '1', '--wb', '1', '--max-exec', '3000']),
    dict(name='c08', src='c08.cpp', sel=['--set', 'quick'],
         quick=['--pb', '1', '--wb', '0', '--max-exec', '8000', '--random-runs', '300'],
         thorough=['--pb', '1', '--wb', '0', '--max-exec', '100000', '--random-runs', '1500'], random=['--random-runs', '3000'],
         asan=['--pb', '1', '--wb', '0', '--max-exec', '2000', '--random-runs', '100']),
    dict(name='c09', src='c09.cpp', sel=['--family', 'all'], quick=['--pb', '2', '--pb3', '1', '--wb', '1'],
         thorough=['--pb', '2', '--pb3', '2', '--wb', '1'], random=['--random-runs', '500'],
         asan=['--pb', '1', '--pb3', '0', '--wb', '0']),
    dict(name='c10', src='c10.cpp', sel=['--family', 'any'], quick=['--pb', '2', '--pb3', '1', '--wb', '1'],
         thorough=['--pb', '2', '--pb3', '2', '--wb', '1'], random=['--random-runs', '500'],
         asan=['--pb', '1', '--pb3', '0', '--wb', '0']),
    dict(name='c11', src='c11.cpp', sel=[], quick=['--pb', '2', '--wb', '1', '--max-exec', '4000'],
         thorough=['--thorough', '--pb', '2', '--wb', '1', '--max-exec', '30000'], random=['--thorough', '--random-runs', '3000'],
         asan=['--pb', '1', '--wb', '1', '--max-exec', '1500']),
    dict(name='c13', src='c13.cpp', sel=[], quick=['--pb', '1', '--wb', '1', '--max-exec', '20000'],
         thorough=['--thorough', '--pb', '2', '--wb', '1', '--max-exec', '40000'], random=['--thorough', '--random-runs', '1500'],
         asan=['--pb', '1', '--wb', '1', '--max-exec', '1500']),
    dict(name='c14', src='c14.cpp', sel=[], quick=['--pb', '1', '--wb', '1', '--max-exec', '8000'],
         thorough=['--pb', '2', '--wb', '1', '--max-exec', '20000'], random=['--random-runs', '1500'],
         asan=['--pb', '1', '--wb', '1', '--max-exec', '1000']),
    dict(name='c15', src='c15.cpp', sel=[], quick=['--pb', '1', '--wb', '1', '--max-exec', '3000'],
         thorough=['--pb', '2', '--wb', '1', '--max-exec', '8000'], random=['--random-runs', '1500'],
         asan=['--pb', '1', '--wb', '1', '--max-exec', '800']),
    dict(name='c16', src='c16.cpp', sel=[], quick=['--pb', '2', '--wb', '1', '--max-exec', '8000'],
         thorough=['--thorough', '--pb', '2', '--wb', '1', '--max-exec', '30000'], random=['--thorough', '--random-runs', '3000'],
         asan=['--pb', '1', '--wb', '1', '--max-exec', '1500']),
    # C03's own: producing steps on shared / unique states with instance-counted probe captures (ordered teardown of Core::Done)
    dict(name='c03_steps', src='c03_steps.cpp', sel=[], quick=['--pb', '2', '--wb', '1'],
         thorough=['--pb', '4', '--wb', '1', '--max-exec', '200000'], random=['--random-runs', '3000'],
         asan=['--pb', '2', '--wb', '1']),
]
CANARY = dict(name='c03_own_selftest', src='c03_own_selftest.cpp', sel=[], quick=['--pb', '1', '--wb', '0'])
CANARY_EXPECT = {'leak': 'leak:', 'double_free': 'double free', 'write_after_free': 'write after free'}

ASAN_ENV = 'abort_on_error=1:detect_leaks=0:handle_abort=0'
OWN_KIND = re.compile(r'^(leak:|double free|write after free|crash|a functor capture|functor captures|the result of a step)')


def _env():
    e = dict(os.environ)
    e['ASAN_OPTIONS'] = ASAN_ENV
    e['UBSAN_OPTIONS'] = 'print_stacktrace=1'
    return e


def build(h, kind):
    return C.build_harness(h['name'] + '_own', kind, [h['src']], extra_flags=['-DVX_OWN'])


def run_one(h, kind, mode, args, tag, timeout=3600):
    """returns dict(stats=…, own=…, violations=[text], wall_s, cmd)"""
    binary = build(h, kind)
    stats_file = os.path.join(C.WORK, 'C03_own_%s_%s_%s_%d.jsonl' % (h['name'], kind, tag, os.getpid()))
    try:
        os.remove(stats_file)
    except OSError:
        pass
    full = list(h['sel']) + ['--mode', mode] + list(args) + ['--seed', str(C.seed())]
    cmd = [binary] + full + ['--own', '--own-stats', stats_file]
    t0 = time.time()
    try:
        r = subprocess.run(cmd, capture_output=True, text=True, timeout=timeout, env=_env())
        out, err, rc = r.stdout, r.stderr, r.returncode
    except subprocess.TimeoutExpired as e:
        out, err, rc = (e.stdout or b'').decode(errors='replace') if isinstance(e.stdout, bytes) else (e.stdout or ''), 'timeout', -1
    stats = None
    violations = []
    cur = None
    for line in out.split('\n'):
        if stats is None and line.startswith('{'):
            try:
                stats = json.loads(line)
                continue
            except ValueError:
                pass
        if line == '=====':
            cur = []
            violations.append(cur)
        elif cur is not None:
            cur.append(line)
    violations = ['\n'.join(v) for v in violations]
    asan = re.search(r'^==\d+==ERROR: (AddressSanitizer: [^\n]*)', err, re.M) or re.search(r'^([^\n]*runtime error: [^\n]*)', err, re.M)
    if stats is None:
        stats = {'executions': 0, 'violations': 1, 'deadlocks': 0, 'scenarios': 0, 'mode': 'crashed'}
        violations = ['violation: crash: the harness process died (exit %d) without a report%s\nscenario: ?\nchoices: \noutput: %s' % (
            rc, (' — ' + asan.group(1)) if asan else '', (out[-600:] + err[-1200:]).replace('\n', ' | '))]
    elif asan and violations:
        first = violations[0].split('\n')
        first[0] += ' [%s]' % asan.group(1)[:240]
        violations[0] = '\n'.join(first)
    own = {}
    try:
        for line in open(stats_file):
            d = json.loads(line)
            for k, v in d.items():
                own[k] = max(own.get(k, 0), v) if k.startswith('max_') else own.get(k, 0) + v
        os.remove(stats_file)
    except (OSError, ValueError):
        pass
    return {'harness': h['name'], 'kind': kind, 'args': full, 'stats': stats, 'own': own, 'violations': violations,
            'wall_s': round(time.time() - t0, 2), 'rc': rc}


def header(h, kind, args):
    return 'own-harness: %s kind=%s args=%s' % (h['name'], kind, json.dumps(args))


def jobs_for(tier):
    jobs = []
    for h in HARNESSES:
        if tier == 'quick':
            jobs.append((h, 'fiber', 'dfs', h['quick'], 'dfs'))
        else:
            jobs.append((h, 'fiber', 'dfs', h['thorough'], 'dfs'))
            jobs.append((h, 'fiber', 'random', h['random'], 'rnd'))
            jobs.append((h, 'fiber_asan', 'dfs', h['asan'], 'dfs'))
            jobs.append((h, 'fiber_asan', 'random', [a for a in h['random'] if a.startswith('--') and a != '--random-runs'] + ['--random-runs', '200'], 'rnd'))
    return jobs


def stage(res, tier):
    """runs the monitor over all harnesses (in parallel processes); records violations + evidence; returns #violations"""
    t0 = time.time()
    known = C.load_findings().get('open', [])
    C.build_lib('fiber')
    if tier != 'quick':
        C.build_lib('fiber_asan')
    jobs = jobs_for(tier)
    results = []
    skipped = []
    workers = max(2, min(C.NPROC, 12))

    def work(j):
        h, kind, mode, args, tag = j
        try:
            return run_one(h, kind, mode, args, tag)
        except C.BuildError as e:
            if kind == 'fiber_asan':  # a harness that does not compile with the sanitizers is not a finding about /repo
                return {'harness': h['name'], 'kind': kind, 'skipped': str(e)[-400:]}
            raise

    with ThreadPoolExecutor(max_workers=workers) as ex:
        canary_f = ex.submit(run_one, CANARY, 'fiber', 'dfs', CANARY['quick'], 'canary')
        for r in ex.map(work, jobs):
            (skipped if 'skipped' in r else results).append(r)
        canary = canary_f.result()
    # the canary: three deliberate bugs in scenario code, each must be reported, the clean scenario must not
    blind = []
    seen = {}
    for v in canary['violations']:
        m = re.search(r'^violation: (.*)$', v, re.M)
        s = re.search(r'^scenario: own_selftest kind=(\w+)', v, re.M)
        if m and s:
            seen.setdefault(s.group(1), m.group(1))
    for kind, want in CANARY_EXPECT.items():
        if not seen.get(kind, '').startswith(want):
            blind.append('%s not reported (got: %s)' % (kind, seen.get(kind)))
    if 'clean' in seen:
        blind.append('false alarm on the clean scenario: ' + seen['clean'])
    if blind:
        res.violation('\n'.join(blind) + '\n' + header(CANARY, 'fiber', CANARY['quick']),
                      'the ownership monitor failed its canary (harness/c03_own_selftest.cpp): ' + blind[0], no_input=True,
                      name='C03_%s_own_canary.txt' % tier)
    reported = 0
    per = {}
    for r in results:
        key = '%s/%s/%s' % (r['harness'], r['kind'], r['stats'].get('mode', '?'))
        h = next(x for x in HARNESSES if x['name'] == r['harness'])
        per[key] = {
            'executions': r['stats'].get('executions', 0), 'scenarios': r['stats'].get('scenarios', 0),
            'deadlocks': r['stats'].get('deadlocks', 0), 'truncated_scenarios': r['stats'].get('truncated_scenarios'),
            'counted_allocations': r['own'].get('allocs', 0), 'counted_frees': r['own'].get('frees', 0),
            'counted_bytes': r['own'].get('bytes', 0), 'max_live_blocks': r['own'].get('max_live', 0),
            'leak_suspects': r['own'].get('suspects', 0), 'leak_candidates_replayed': r['own'].get('candidates', 0),
            'monitor_executions_incl_replays': r['own'].get('executions', 0),
            'violations': r['stats'].get('violations', 0), 'wall_s': r['wall_s'], 'args': ' '.join(r['args']),
        }
        # ownership findings first, then whatever else the harness's own monitors said; at most 3 per run
        vs = sorted(r['violations'], key=lambda v: 0 if OWN_KIND.match(v[len('violation: '):]) else 1)
        kinds = set()
        for v in vs:
            m = re.search(r'^violation: (.*)$', v, re.M)
            s = re.search(r'^scenario: (.*)$', v, re.M)
            msg = m.group(1) if m else '?'
            scen = s.group(1) if s else '?'
            kf = next((k for k in known if re.search(k['match'], scen + ' | ' + msg)), None)
            if kf is not None:
                if kf['what'] not in kinds:
                    kinds.add(kf['what'])
                    res.known_finding(kf['what'])
                continue
            short = re.sub(r'[0-9]+', '', msg)
            short = re.sub(r'[^A-Za-z]+', '_', short)[:40]
            if short in kinds or len(kinds) >= 3:
                continue
            kinds.add(short)
            res.violation(header(h, r['kind'], r['args']) + '\n' + v, '%s [%s: %s]' % (msg, r['harness'], scen),
                          name='C03_%s_own_%s_%s_%s.txt' % (tier, r['harness'], r['kind'], short))
            reported += 1
    tot = lambda k: sum(p[k] for p in per.values())
    res.coverage['ownership_monitor'] = {
        'rule': 'every explorer harness rebuilt with -DVX_OWN and run with --own (harness/common/own.hpp): blocks allocated while a '
                'scenario runs are counted; leak at quiescence (confirmed by repeating the schedule twice), double free, write after '
                'free (0xDD fill verified at the end of the execution), crash on poisoned memory ⇒ violation with scenario + choices',
        'runs': per, 'executions': tot('executions'), 'scenarios': tot('scenarios'),
        'counted_allocations': tot('counted_allocations'), 'counted_frees': tot('counted_frees'),
        'max_live_blocks': max([p['max_live_blocks'] for p in per.values()] or [0]),
        'violations': tot('violations'), 'canary': {'reported': seen, 'problems': blind},
        'skipped': skipped, 'wall_s': round(time.time() - t0, 2),
    }
    res.assumptions += [
        'ownership monitor: small scenarios (2–4 fibers) under a preemption bound / random schedules — a search for failing '
        'inputs and a tie of the concurrent ownership theorems to the code, not the proof; the allocator is interposed at the C '
        'level (malloc/free), so every operator new/delete form and exception objects are seen; mmap-ed fiber stacks are not',
    ]
    return reported + (1 if blind else 0)


def is_own_replay(path):
    for line in open(path):
        if line.startswith('#'):
            continue
        return line.startswith('own-harness: ')
    return False


def replay(path):
    head = None
    scen = None
    choices = ''
    for line in open(path):
        if line.startswith('own-harness: '):
            head = line.strip()
        elif line.startswith('scenario: '):
            scen = line[len('scenario: '):].rstrip('\n')
        elif line.startswith('choices: '):
            choices = line[len('choices: '):].strip()
    m = re.match(r'own-harness: (\S+) kind=(\S+) args=(.*)$', head or '')
    if not m or scen is None or scen == '?':
        print(open(path).read())
        print('(no schedule to re-run)')
        return 1
    name, kind, args = m.group(1), m.group(2), json.loads(m.group(3))
    h = next((x for x in HARNESSES + [CANARY] if x['name'] == name), None)
    binary = build(h, kind)
    cmd = [binary] + args + ['--only', scen, '--choices', choices, '--own']
    r = subprocess.run(cmd, capture_output=True, text=True, env=_env())
    print(r.stdout)
    if r.stderr.strip():
        print(r.stderr[-3000:])
    return 0 if '"violations": 0' in r.stdout else 1
