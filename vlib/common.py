"""Shared machinery of the checks: build cache, lake, audit, evidence, findings, verdicts."""
import fcntl
import hashlib
import json
import os
import re
import shutil
import subprocess
import sys
import time

VERIF = os.path.dirname(os.path.dirname(os.path.abspath(__file__)))
REPO = os.environ.get('VERIF_REPO', '/repo')
WORK = os.path.join(VERIF, '_work')
LEAN = os.environ.get('VERIF_LEAN') or os.path.join(VERIF, 'lean')  # VERIF_LEAN: development only (mutation runs on a copy)
EVID = os.environ.get('VERIF_EVIDENCE_DIR') or os.path.join(VERIF, 'evidence')  # override: development only
REPLAYS = os.path.join(VERIF, 'replays')
NPROC = os.cpu_count() or 4

TRUSTED_BASE = [
    "Lean 4.33.0 kernel; axioms limited to propext / Classical.choice / Quot.sound (audited per theorem with #print axioms on every run)",
    "no sorry/admit/axiom/native_decide/bv_decide/implemented_by/unsafe/maxHeartbeats 0 in the Lean sources (grep on every run)",
    "the translators in /verif/vlib (clang-14 JSON AST -> Lean definitions / skeletons); they fail closed on unknown constructs",
    "the correspondence harnesses in /verif/harness and the trace canonicalisation",
    "C++ compiler, standard library, allocator; the FIBER backend as a faithful scheduler of the code under test (its own correctness is C17-C19)",
]


def log(*a):
    print(*a, file=sys.stderr, flush=True)


def sh(cmd, cwd=None, timeout=None, env=None, input=None):
    r = subprocess.run(cmd, cwd=cwd, capture_output=True, text=True, timeout=timeout, env=env, input=input)
    return r.returncode, r.stdout, r.stderr


class Lock:
    def __init__(self, name):
        os.makedirs(WORK, exist_ok=True)
        self.path = os.path.join(WORK, name + '.lock')

    def __enter__(self):
        self.f = open(self.path, 'w')
        fcntl.flock(self.f, fcntl.LOCK_EX)
        return self

    def __exit__(self, *a):
        fcntl.flock(self.f, fcntl.LOCK_UN)
        self.f.close()


def repo_tree_hash():
    h = hashlib.sha1()
    roots = ['include', 'src', 'cmake', 'CMakeLists.txt']
    files = []
    for r in roots:
        p = os.path.join(REPO, r)
        if os.path.isfile(p):
            files.append(p)
        else:
            for d, dn, fn in os.walk(p):
                dn.sort()
                for f in sorted(fn):
                    files.append(os.path.join(d, f))
    for f in files:
        h.update(f.encode())
        with open(f, 'rb') as fh:
            h.update(hashlib.sha1(fh.read()).digest())
    return h.hexdigest()[:16]


LIB_KINDS = {
    # name: (cmake args, extra compile flags for harnesses)
    # production-like: assertions compiled out, so traces contain exactly the operations of a release build
    'fiber': (['-DCMAKE_BUILD_TYPE=RelWithDebInfo', '-DYACLIB_FAULT=FIBER', '-DYACLIB_CXX_STANDARD=20',
               '-DYACLIB_FLAGS=CORO', '-DYACLIB_DEFINITIONS=YACLIB_VERIF'],
              ['-std=c++20', '-fcoroutines', '-DYACLIB_VERIF']),
    # same with the library's own assertions turned into callbacks (extra monitor; adds loads to the traces)
    'fiber_dbg': (['-DCMAKE_BUILD_TYPE=RelWithDebInfo', '-DYACLIB_FAULT=FIBER', '-DYACLIB_CXX_STANDARD=20',
                   '-DYACLIB_FLAGS=CORO', '-DYACLIB_DEFINITIONS=YACLIB_VERIF', '-DYACLIB_LOG=DEBUG'],
                  ['-std=c++20', '-fcoroutines', '-DYACLIB_VERIF', '-DYACLIB_LOG_DEBUG']),
    'fiber_asan': (['-DCMAKE_BUILD_TYPE=RelWithDebInfo', '-DYACLIB_FAULT=FIBER', '-DYACLIB_CXX_STANDARD=20',
                    '-DYACLIB_FLAGS=CORO;ASAN;UBSAN', '-DYACLIB_DEFINITIONS=YACLIB_VERIF', '-DYACLIB_LOG=DEBUG'],
                   ['-std=c++20', '-fcoroutines', '-DYACLIB_VERIF', '-DYACLIB_LOG_DEBUG',
                    '-fsanitize=address,undefined', '-fno-sanitize-recover=all']),
    'plain': (['-DCMAKE_BUILD_TYPE=RelWithDebInfo', '-DYACLIB_CXX_STANDARD=20', '-DYACLIB_FLAGS=CORO',
               '-DYACLIB_LOG=DEBUG'],
              ['-std=c++20', '-fcoroutines', '-DYACLIB_LOG_DEBUG']),
    'plain_asan': (['-DCMAKE_BUILD_TYPE=RelWithDebInfo', '-DYACLIB_CXX_STANDARD=20', '-DYACLIB_FLAGS=CORO;ASAN;UBSAN',
                    '-DYACLIB_LOG=DEBUG'],
                   ['-std=c++20', '-fcoroutines', '-DYACLIB_LOG_DEBUG', '-fsanitize=address,undefined',
                    '-fno-sanitize-recover=all']),
    'tsan': (['-DCMAKE_BUILD_TYPE=RelWithDebInfo', '-DYACLIB_CXX_STANDARD=20', '-DYACLIB_FLAGS=CORO;TSAN'],
             ['-std=c++20', '-fcoroutines', '-fsanitize=thread']),
}


class BuildError(Exception):
    pass


def build_lib(kind):
    """Build libyaclib.a of the given kind from /repo's current working tree (content-addressed cache)."""
    tree = repo_tree_hash()
    d = os.path.join(WORK, 'lib', tree + '-' + kind)
    stamp = os.path.join(d, '.ok')
    with Lock('lib-' + kind):
        if os.path.exists(stamp):
            os.utime(stamp)  # last use
            return d
        # keep the cache small, but never pull a library out from under a concurrent check (other checks, mutation runs
        # on other trees): drop a tree of this kind only if it is not among the 6 most recently used AND unused for 90 min
        base = os.path.join(WORK, 'lib')
        if os.path.isdir(base):
            def last_use(x):
                try:
                    return os.path.getmtime(os.path.join(x, '.ok'))
                except OSError:
                    return os.path.getmtime(x)
            others = [os.path.join(base, e) for e in os.listdir(base) if e.endswith('-' + kind) and e != tree + '-' + kind]
            others.sort(key=last_use, reverse=True)
            for d_old in others[6:]:
                if time.time() - last_use(d_old) > 90 * 60:
                    shutil.rmtree(d_old, ignore_errors=True)
        shutil.rmtree(d, ignore_errors=True)
        os.makedirs(d)
        args, _ = LIB_KINDS[kind]
        rc, out, err = sh(['cmake', '-G', 'Ninja', '-S', REPO, '-B', d] + args)
        if rc != 0:
            raise BuildError('cmake configure failed (%s):\n%s\n%s' % (kind, out[-3000:], err[-3000:]))
        rc, out, err = sh(['cmake', '--build', d, '-j', str(NPROC)])
        if rc != 0:
            raise BuildError('library build failed (%s):\n%s\n%s' % (kind, out[-6000:], err[-3000:]))
        open(stamp, 'w').close()
    return d


def build_harness(name, kind, sources, extra_flags=(), opt='-O1', define_verif=None):
    """Compile a harness against the library of `kind`. Returns the binary path."""
    lib = build_lib(kind)
    _, flags = LIB_KINDS[kind]
    flags = list(flags)
    if define_verif is False:
        flags = [f for f in flags if f != '-DYACLIB_VERIF']
    srcs = [os.path.join(VERIF, 'harness', s) for s in sources]
    h = hashlib.sha1()
    for s in srcs + [os.path.join(VERIF, 'harness/common', f) for f in sorted(os.listdir(os.path.join(VERIF, 'harness/common')))]:
        with open(s, 'rb') as fh:
            h.update(fh.read())
    h.update(' '.join(flags + list(extra_flags) + [opt]).encode())
    out = os.path.join(lib, '%s-%s' % (name, h.hexdigest()[:12]))
    with Lock('harness-' + name + '-' + kind):
        if os.path.exists(out):
            return out
        cmd = ['g++', opt, '-g'] + flags + list(extra_flags) + \
              ['-I' + os.path.join(REPO, 'include'), '-I' + os.path.join(REPO, 'src'), '-I' + os.path.join(lib, 'include'),
               '-I' + os.path.join(VERIF, 'harness')] + srcs + \
              [os.path.join(lib, 'src', 'libyaclib.a'), '-lpthread', '-o', out + '.tmp']
        rc, o, e = sh(cmd)
        if rc != 0:
            raise BuildError('harness %s failed to compile:\n%s' % (name, e[-6000:]))
        os.rename(out + '.tmp', out)
    return out


def write_if_changed(path, text):
    os.makedirs(os.path.dirname(path), exist_ok=True)
    try:
        with open(path) as f:
            if f.read() == text:
                return False
    except FileNotFoundError:
        pass
    with open(path, 'w') as f:
        f.write(text)
    return True


def lake_build(targets):
    """Returns (ok, list of error records {file, line, msg}). Serialised across concurrent checks."""
    with Lock('lake'):
        rc, out, err = sh(['lake', 'build'] + list(targets), cwd=LEAN)
    errors = []
    text = out + '\n' + err
    cur = None
    for line in text.split('\n'):
        m = re.match(r'^error: (\S+\.lean):(\d+):(\d+): (.*)$', line)
        if m:
            cur = {'file': m.group(1), 'line': int(m.group(2)), 'msg': m.group(4)}
            errors.append(cur)
        elif line.startswith('error:'):
            cur = {'file': '', 'line': 0, 'msg': line[6:].strip()}
            errors.append(cur)
        elif cur is not None and line and not line.startswith(('warning:', '✔', '✖', 'trace:', 'info:', 'Some required', '- ')):
            if len(cur['msg']) < 1500:
                cur['msg'] += '\n' + line
    return rc == 0, errors, text


def decl_at(path, line):
    """Name of the theorem/def enclosing `line` of a Lean file."""
    try:
        lines = open(os.path.join(LEAN, path)).read().split('\n')
    except OSError:
        return None
    for i in range(min(line, len(lines)) - 1, -1, -1):
        m = re.match(r'^\s*(?:@\[[^\]]*\]\s*)?(?:private |protected )?(theorem|lemma|def|example|instance|abbrev)\s+(\S+)?', lines[i])
        if m:
            return (m.group(2) or 'example') if m.group(1) != 'example' else 'example@%d' % (i + 1)
    return None


FORBIDDEN = re.compile(r'\b(sorry|admit|native_decide|bv_decide|implemented_by|unsafe)\b|^\s*axiom\s|maxHeartbeats\s+0\b')


def strip_lean_comments(s):
    out = []
    i = 0
    depth = 0
    n = len(s)
    while i < n:
        if s.startswith('/-', i):
            depth += 1
            i += 2
        elif depth and s.startswith('-/', i):
            depth -= 1
            i += 2
        elif depth:
            if s[i] == '\n':
                out.append('\n')
            i += 1
        elif s.startswith('--', i):
            while i < n and s[i] != '\n':
                i += 1
        elif s[i] == '"':
            j = i + 1
            while j < n and s[j] != '"':
                j += 2 if s[j] == '\\' else 1
            out.append('""')
            i = j + 1
        else:
            out.append(s[i])
            i += 1
    return ''.join(out)


def forbidden_tokens(files):
    hits = []
    for f in files:
        txt = strip_lean_comments(open(f).read())
        for ln, line in enumerate(txt.split('\n'), 1):
            if FORBIDDEN.search(line):
                hits.append('%s:%d: %s' % (os.path.relpath(f, LEAN), ln, line.strip()[:120]))
    return hits


def import_closure(modules):
    """files of the project that the given modules import, transitively"""
    seen = {}
    todo = list(modules)
    while todo:
        m = todo.pop()
        if m in seen:
            continue
        path = os.path.join(LEAN, m.replace('.', '/') + '.lean')
        if not os.path.exists(path):
            continue
        seen[m] = path
        for line in open(path):
            mm = re.match(r'^\s*(?:public\s+)?import\s+((?:YaclibModel|Driver)\.\S+)', line)
            if mm:
                todo.append(mm.group(1))
    return sorted(seen.values())


def lean_sources():
    out = []
    for d in ('YaclibModel', 'Driver'):
        for r, _, fs in os.walk(os.path.join(LEAN, d)):
            for f in fs:
                if f.endswith('.lean'):
                    out.append(os.path.join(r, f))
    return sorted(out)


def theorems_in(relpath):
    """[(kind, name)] of theorem-like declarations in a Props file."""
    txt = strip_lean_comments(open(os.path.join(LEAN, relpath)).read())
    ns = []
    res = []
    for line in txt.split('\n'):
        m = re.match(r'^namespace\s+(\S+)', line)
        if m:
            ns.append(m.group(1))
            continue
        m = re.match(r'^end\s+(\S+)', line)
        if m and ns and ns[-1] == m.group(1):
            ns.pop()
            continue
        m = re.match(r'^\s*(?:@\[[^\]]*\]\s*)?(theorem|lemma)\s+(\S+)', line)
        if m:
            res.append(('theorem', '.'.join(ns + [m.group(2)])))
            continue
        if re.match(r'^\s*example\b', line):
            res.append(('example', 'example'))
    return res


ALLOWED_AXIOMS = {'propext', 'Classical.choice', 'Quot.sound'}


def audit_axioms(module, names):
    """#print axioms for each name; returns {name: [axioms]} and list of problems."""
    os.makedirs(os.path.join(LEAN, 'Audit'), exist_ok=True)
    src = 'import %s\n' % module + ''.join('#print axioms %s\n' % n for n in names)
    path = os.path.join(WORK, 'audit_%s.lean' % module.replace('.', '_'))
    with open(path, 'w') as f:
        f.write(src)
    rc, out, err = sh(['lake', 'env', 'lean', path], cwd=LEAN)
    res = {}
    problems = []
    text = out + err
    # messages look like: 'X' depends on axioms: [a, b]   /  'X' does not depend on any axioms
    for m in re.finditer(r"'([^']+)' depends on axioms: \[([^\]]*)\]", text, re.S):
        axs = [a.strip() for a in m.group(2).replace('\n', ' ').split(',') if a.strip()]
        res[m.group(1)] = axs
    for m in re.finditer(r"'([^']+)' does not depend on any axioms", text):
        res[m.group(1)] = []
    for n in names:
        if n not in res:
            problems.append('no axiom report for %s' % n)
        else:
            bad = [a for a in res[n] if a not in ALLOWED_AXIOMS]
            if bad:
                problems.append('%s depends on %s' % (n, bad))
    if rc != 0 and not res:
        problems.append('audit failed: ' + text[-500:])
    return res, problems


def load_findings():
    p = os.path.join(VERIF, 'known_findings.json')
    try:
        return json.load(open(p))
    except FileNotFoundError:
        return {'open': [], 'fixed': []}


def seed():
    try:
        return int(os.environ.get('VERIF_SEED', '1'))
    except ValueError:
        return 1


class Result:
    """Collects what a check found; prints the verdict and writes the evidence."""

    def __init__(self, prop, tier):
        self.prop = prop
        self.support_changed = []
        self.tier = tier
        self.t0 = time.time()
        self.violations = []      # (replay_path, no_input_found, message)
        self.known = []           # messages
        self.coverage = {}
        self.assumptions = []
        self.notes = []

    def violation(self, replay_text, message, no_input=False, name=None):
        os.makedirs(REPLAYS, exist_ok=True)
        name = name or ('%s_%s_%d.txt' % (self.prop, self.tier, len(self.violations)))
        path = os.path.join(REPLAYS, name)
        with open(path, 'w') as f:
            f.write('# property=%s tier=%s seed=%d\n# %s\n' % (self.prop, self.tier, seed(), message.replace('\n', '\n# ')))
            f.write(replay_text if replay_text.endswith('\n') else replay_text + '\n')
        self.violations.append((path, no_input, message))

    def known_finding(self, message):
        self.known.append(message)

    def finish(self, level='proof'):
        cov = dict(self.coverage)
        cov.setdefault('trusted_base', TRUSTED_BASE)
        ev = {
            'property_id': self.prop, 'tier': self.tier, 'seed': seed(), 'level': level,
            'coverage': cov, 'assumptions': self.assumptions, 'wall_s': round(time.time() - self.t0, 2),
            'violations': len(self.violations),
        }
        if self.notes:
            ev['coverage']['notes'] = self.notes
        os.makedirs(EVID, exist_ok=True)
        with open(os.path.join(EVID, self.prop + '.json'), 'w') as f:
            json.dump(ev, f, indent=1, sort_keys=True)
            f.write('\n')
        for m in self.known:
            print('KNOWN-FINDING: property=%s %s' % (self.prop, m))
        for (path, no_input, msg) in self.violations:
            log('violation: ' + msg.split('\n')[0])
            print('VIOLATION property=%s replay=%s%s' % (self.prop, path, ' no-failing-input-found' if no_input else ''))
        sys.stdout.flush()
        return 1 if self.violations else 0


def proof_stage(res, prop, extra_targets=(), drivers=()):
    """Build the property's theorems + driver, audit axioms and forbidden tokens.
    Returns (ok, broken): broken = list of human readable names of obligations that no longer check."""
    rel = 'YaclibModel/Props/%s.lean' % prop
    module = 'YaclibModel.Props.%s' % prop
    ok, errors, text = lake_build([module] + list(extra_targets))
    if drivers:
        # the executable side is built separately: if only the driver is broken the theorems still count,
        # and the correspondence stage reports the missing driver
        dok, derrors, dtext = lake_build(list(drivers))
        if not dok:
            errors = errors + [dict(e, msg='driver: ' + e['msg']) for e in derrors]
            ok = False
    decls = theorems_in(rel)
    names = [n for (k, n) in decls if k == 'theorem']
    n_examples = len([1 for (k, n) in decls if k == 'example'])
    broken = []
    for e in errors:
        if e['file']:
            d = decl_at(e['file'], e['line'])
            broken.append('%s:%d %s: %s' % (e['file'], e['line'], d or '?', e['msg'].split('\n')[0][:200]))
        else:
            broken.append(e['msg'][:300])
    obligations = len(names) + n_examples
    discharged = 0
    axioms = {}
    if ok:
        axioms, problems = audit_axioms(module, names)
        broken += problems
        discharged = obligations - len(problems)
    else:
        bad_decls = set()
        for e in errors:
            if e['file'].endswith('%s.lean' % prop):
                bad_decls.add(decl_at(e['file'], e['line']))
        discharged = max(0, obligations - max(1, len(bad_decls))) if errors else 0
        if not broken:
            broken.append('lake build failed: ' + text[-800:])
    roots = [module]
    for d in drivers:
        mm = re.search(r'name = "%s"\s*\nroot = "([^"]+)"' % re.escape(d), open(os.path.join(LEAN, 'lakefile.toml')).read())
        if mm:
            roots.append(mm.group(1))
    hits = forbidden_tokens(import_closure(roots))
    if hits:
        broken += ['forbidden token: ' + h for h in hits]
        discharged = 0
    # T2b: the files the property is anchored in are (up to comments / white space) the ones the model was reviewed against
    from . import x_anchors
    write_if_changed(os.path.join(LEAN, x_anchors.EXTRACTED), x_anchors.generate(REPO))
    amod = x_anchors.theorem_module(prop)
    aname = 'Yaclib.Props.Anchors.%s_anchor_files_unchanged' % prop
    obligations += 1
    aok, aerrors, atext = lake_build([amod])
    if aok:
        aax, aproblems = audit_axioms(amod, [aname])
        axioms.update(aax)
        broken += aproblems
        if not aproblems and not hits:
            discharged += 1
    else:
        changed = x_anchors.changed_files(prop, REPO)
        broken.append('%s: the code of %s differs (beyond comments and white space) from the version the model and proofs of %s '
                      'were reviewed against' % (aname, ', '.join(changed) if changed else 'an anchor file', prop))
    names = names + [aname]
    # thorough tier: the toolchain's independent re-checker replays every module of the property's import closure
    # (and the anchor theorem's) through the kernel again, from the compiled .olean files
    if res.tier == 'thorough' and ok:
        import concurrent.futures
        mods = []
        for f in import_closure([module, amod]):
            rel = os.path.relpath(f, LEAN)[:-5].replace('/', '.')
            if rel.startswith('YaclibModel.'):
                mods.append(rel)

        def _chk(m):
            rc, out, err = sh(['lake', 'env', 'leanchecker', m], cwd=LEAN)
            return m, rc, (out + err)[-300:]
        failed = []
        with Lock('lake'):
            with concurrent.futures.ThreadPoolExecutor(max_workers=8) as ex:
                for m, rc, txt in ex.map(_chk, mods):
                    if rc != 0:
                        failed.append('%s: %s' % (m, txt.replace('\n', ' ')))
        res.coverage['leanchecker'] = {'modules_rechecked': len(mods), 'rejected': failed}
        broken += ['leanchecker rejects ' + x for x in failed]
    # T2c: supporting files (include closure of the anchors) are trusted base, not obligations: a change there makes the
    # checks run their extended failing-input search and is recorded, but is not by itself reported
    try:
        res.support_changed = x_anchors.changed_support(prop, REPO)
    except Exception as e:  # noqa
        res.support_changed = ['(supporting-file comparison failed: %s)' % e]
    res.coverage['supporting_files_changed'] = res.support_changed
    res.coverage.update({
        'obligations': obligations, 'discharged': discharged,
        'checker_cmd': 'cd /verif/lean && lake build %s %s %s && lake env lean <#print axioms of every theorem in Props/%s.lean>' % (module, amod, ' '.join(drivers), prop),
        'theorems': names,
        'axioms_used': sorted({a for v in axioms.values() for a in v}),
    })
    return (ok and not broken), broken
