"""T1 translator for C08: the bit layout of FairThreadPool::_jobs_count.

Generated file: lean/YaclibModel/Extracted/PoolConsts.lean

Read from the clang AST of src/runtime/fair_thread_pool.cpp (current tree, verification configuration):
  * the bodies of the three predicates WasStop / WantStop / NoJobs, each of which must be a single
    `return <expr>` over `_jobs_count`, integer literals and the operators & | >> << + - == != ;
  * the unique compound assignment to `_jobs_count` in each of Submit (`+= 4`), SoftStop (`|= 2U`),
    Loop (`-= 4`) and the private Stop(unique_lock&&) (`|= 1U`);
  * the constructor's initial value `_jobs_count{0}`.
Each becomes a Lean function on Nat (the model states separately that the counter never underflows, so
truncated subtraction is exact; wrap-around of `+= 4` at 2^64 is outside the model and stated as an assumption).
The model (Model/Pool.lean) imports and uses these definitions, so the theorems are re-proved against whatever
the source says.  Anything unexpected raises ExtractError (fail closed).
"""
import os

from . import cxxast as A

SRC = 'src/runtime/fair_thread_pool.cpp'
FIELD = '_jobs_count'

BINOPS = {'&': '&&&', '|': '|||', '>>': '>>>', '<<': '<<<', '+': '+', '-': '-'}
CMPOPS = {'==': '==', '!=': '!='}
ASSIGN = {'+=': '+', '-=': '-', '|=': '|||', '&=': '&&&'}


def _nat(n, var):
    """integer-valued expression over the counter -> Lean Nat term"""
    n = A.strip(n)
    k = n.get('kind')
    if k == 'MemberExpr' and n.get('name') == FIELD:
        return var
    if k == 'IntegerLiteral':
        v = int(n.get('value'))
        if v < 0:
            raise A.ExtractError('negative literal')
        return str(v)
    if k == 'BinaryOperator' and n.get('opcode') in BINOPS:
        a, b = A.kids(n)
        return '(%s %s %s)' % (_nat(a, var), BINOPS[n['opcode']], _nat(b, var))
    raise A.ExtractError('unsupported integer expression %s %s' % (k, n.get('opcode', '')))


def _bool(n, var):
    n = A.strip(n)
    k = n.get('kind')
    if k == 'BinaryOperator' and n.get('opcode') in CMPOPS:
        a, b = A.kids(n)
        return '(%s %s %s)' % (_nat(a, var), CMPOPS[n['opcode']], _nat(b, var))
    raise A.ExtractError('unsupported boolean expression %s %s' % (k, n.get('opcode', '')))


def _method(docs, name, nparams=None):
    ms = []
    for d in docs:
        for m in A.methods(d, name):
            if A.body(m) is None or not (m.get('_file') or '').endswith('fair_thread_pool.cpp'):
                continue
            ps = [c for c in A.kids(m) if c.get('kind') == 'ParmVarDecl']
            if nparams is not None and len(ps) != nparams:
                continue
            ms.append(m)
    # the same definition can be reported by several filtered documents
    uniq = {}
    for m in ms:
        uniq[m.get('id')] = m
    ms = list(uniq.values())
    if len(ms) != 1:
        raise A.ExtractError('%d definitions of FairThreadPool::%s (params=%s)' % (len(ms), name, nparams))
    return ms[0]


def _predicate(docs, name):
    m = _method(docs, name, 0)
    stmts = [c for c in A.kids(A.body(m)) if not A.is_assert_stub(c) and c.get('kind') != 'NullStmt']
    if len(stmts) != 1 or stmts[0].get('kind') != 'ReturnStmt':
        raise A.ExtractError('%s is not a single return statement' % name)
    return _bool(A.kids(stmts[0])[0], 'c')


def _update(docs, name, nparams):
    m = _method(docs, name, nparams)
    ups = A.find_all(A.body(m), lambda n: n.get('kind') in ('CompoundAssignOperator', 'BinaryOperator', 'UnaryOperator') and
                     _writes_field(n))
    if len(ups) != 1:
        raise A.ExtractError('%s writes %s %d times' % (name, FIELD, len(ups)))
    u = ups[0]
    if u.get('kind') != 'CompoundAssignOperator' or u.get('opcode') not in ASSIGN:
        raise A.ExtractError('%s: unsupported write %s %s' % (name, u.get('kind'), u.get('opcode')))
    a, b = A.kids(u)
    return '(c %s %s)' % (ASSIGN[u['opcode']], _nat(b, 'c'))


def _writes_field(n):
    k = n.get('kind')
    if k == 'CompoundAssignOperator' or (k == 'BinaryOperator' and n.get('opcode') == '='):
        lhs = A.strip(A.kids(n)[0])
        return lhs.get('kind') == 'MemberExpr' and lhs.get('name') == FIELD
    if k == 'UnaryOperator' and n.get('opcode') in ('++', '--'):
        x = A.strip(A.kids(n)[0])
        return x.get('kind') == 'MemberExpr' and x.get('name') == FIELD
    return False


def _init(docs):
    ctors = []
    for d in docs:
        for m in A.find_all(d, lambda n: n.get('kind') == 'CXXConstructorDecl' and A.body(n) is not None and
                            n.get('name') == 'FairThreadPool' and (n.get('_file') or '').endswith('fair_thread_pool.cpp')):
            ctors.append(m)
    uniq = {m.get('id'): m for m in ctors}
    if len(uniq) != 1:
        raise A.ExtractError('%d FairThreadPool constructors' % len(uniq))
    c = list(uniq.values())[0]
    inits = [i for i in c.get('inner', []) if isinstance(i, dict) and i.get('kind') == 'CXXCtorInitializer' and
             i.get('anyInit', {}).get('name') == FIELD]
    if len(inits) != 1:
        raise A.ExtractError('no unique initializer of %s' % FIELD)
    lits = A.find_all(inits[0], lambda n: n.get('kind') == 'IntegerLiteral')
    if len(lits) != 1:
        raise A.ExtractError('initializer of %s is not a literal' % FIELD)
    return str(int(lits[0]['value']))


def _other_writers(docs):
    """every method that writes the counter must be one of the four translated ones"""
    bad = []
    for d in docs:
        for m in A.methods(d):
            if A.body(m) is None or not (m.get('_file') or '').endswith('fair_thread_pool.cpp'):
                continue
            if A.find_all(A.body(m), _writes_field) and m.get('name') not in ('Submit', 'SoftStop', 'Loop', 'Stop'):
                bad.append(m.get('name'))
    return sorted(set(bad))


def generate(repo, cfg_include):
    problems = []
    defs = {}
    try:
        docs = A.dump(os.path.join(repo, SRC), 'yaclib::FairThreadPool', cfg_include, repo=repo)
        defs['wasStop'] = ('Bool', _predicate(docs, 'WasStop'))
        defs['wantStop'] = ('Bool', _predicate(docs, 'WantStop'))
        defs['noJobs'] = ('Bool', _predicate(docs, 'NoJobs'))
        defs['submitAdd'] = ('Nat', _update(docs, 'Submit', 1))
        defs['loopSub'] = ('Nat', _update(docs, 'Loop', 0))
        defs['softWant'] = ('Nat', _update(docs, 'SoftStop', 0))
        defs['stopSet'] = ('Nat', _update(docs, 'Stop', 1))
        init = _init(docs)
        extra = _other_writers(docs)
        if extra:
            raise A.ExtractError('%s is also written in %s' % (FIELD, extra))
    except A.ExtractError as e:
        problems.append(str(e))
        init = '0'
        for k in ('wasStop', 'wantStop', 'noJobs'):
            defs.setdefault(k, ('Bool', 'false /- EXTRACTION FAILED -/'))
        for k in ('submitAdd', 'loopSub', 'softWant', 'stopSet'):
            defs.setdefault(k, ('Nat', 'c /- EXTRACTION FAILED -/'))
    doc = {
        'wasStop': 'FairThreadPool::WasStop', 'wantStop': 'FairThreadPool::WantStop', 'noJobs': 'FairThreadPool::NoJobs',
        'submitAdd': 'the write in FairThreadPool::Submit', 'loopSub': 'the write in FairThreadPool::Loop',
        'softWant': 'the write in FairThreadPool::SoftStop',
        'stopSet': 'the write in FairThreadPool::Stop(std::unique_lock<yaclib_std::mutex>&&)',
    }
    out = ['/- GENERATED by vlib/x_pool.py from /repo/%s on every C08 check run. Do not edit. -/' % SRC,
           'namespace Yaclib.Extracted.PoolConsts', '']
    if problems:
        out.append('/- EXTRACTION FAILED: %s -/' % problems[0].replace('-/', '- /')[:300])
        out.append('def extractionOk : Bool := false\n')
    else:
        out.append('def extractionOk : Bool := true\n')
    out.append('/-- `_jobs_count{…}` in the constructor -/\ndef initCount : Nat := %s\n' % init)
    for k in ('wasStop', 'wantStop', 'noJobs', 'submitAdd', 'loopSub', 'softWant', 'stopSet'):
        ty, e = defs[k]
        out.append('/-- %s -/\ndef %s (c : Nat) : %s := %s\n' % (doc[k], k, ty, e))
    out.append('end Yaclib.Extracted.PoolConsts\n')
    return '\n'.join(out), problems


def refresh():
    """(Re)write Extracted/PoolConsts.lean from the current tree. Returns the list of problems."""
    from . import common as C
    lib = C.build_lib('fiber')
    text, problems = generate(C.REPO, os.path.join(lib, 'include'))
    C.write_if_changed(os.path.join(C.LEAN, 'YaclibModel/Extracted/PoolConsts.lean'), text)
    return problems
