"""Normalised control/operation skeleton of a C++ function body, from the clang JSON AST (T2).

The skeleton is a compact, whitespace/comment/macro independent rendering of the body in which
  * implicit casts, parentheses, temporaries, attributes are dropped,
  * YACLIB_ASSERT / YACLIB_DEBUG / YACLIB_WARN statements are dropped,
  * memory orders appear by their short names,
  * `if constexpr` is kept distinct from `if`.
Any construct the printer does not know is rendered generically as Kind(child, ...), so the
function is total and any change of the AST changes the string (fail closed).
"""
from . import cxxast as A

ORD = {
    'memory_order_relaxed': 'rlx', 'memory_order_consume': 'con', 'memory_order_acquire': 'acq',
    'memory_order_release': 'rel', 'memory_order_acq_rel': 'acq_rel', 'memory_order_seq_cst': 'sc',
}


def _name_from_source(n):
    try:
        return A.text(n)
    except Exception:
        return '?'


def _explicit_template_args(callee):
    """`<…>` written at the end of a callee (`Impl<true, false>`, `this->template SetResult<true>`), normalised; '' if none.
    Seeded change C06-8 differed from the original only in such an argument."""
    try:
        t = ''.join(A.text(A.strip(callee)).split())
    except Exception:
        return ''
    if not t.endswith('>') or t.endswith('->') or t.endswith('>>=') :
        return ''
    depth = 0
    for i in range(len(t) - 1, -1, -1):
        c = t[i]
        if c == '>':
            depth += 1
        elif c == '<':
            depth -= 1
            if depth == 0:
                head = t[:i]
                # the `<` must follow an identifier (a template name), not an operator
                if head and (head[-1].isalnum() or head[-1] == '_'):
                    return t[i:]
                return ''
        elif c in ';{}':
            return ''
    return ''


def expr(n):
    n = A.strip(n)
    k = n.get('kind')
    ks = A.kids(n)
    if k == 'DeclRefExpr':
        name = n.get('referencedDecl', {}).get('name', '?')
        return ORD.get(name, name)
    if k == 'MemberExpr':
        base = ks[0] if ks else None
        nm = n.get('name', '?')
        if base is None or A.strip(base).get('kind') == 'CXXThisExpr':
            return nm
        return expr(base) + '.' + nm
    if k == 'CXXDependentScopeMemberExpr':
        nm = n.get('member', '?')
        if not ks or A.strip(ks[0]).get('kind') == 'CXXThisExpr':
            return nm
        return expr(ks[0]) + '.' + nm
    if k in ('UnresolvedMemberExpr', 'UnresolvedLookupExpr', 'DependentScopeDeclRefExpr'):
        if k == 'UnresolvedLookupExpr' and 'name' in n:
            return n['name']
        s = _name_from_source(n)
        s = ''.join(s.split())
        for pre in ('this->',):
            if s.startswith(pre):
                s = s[len(pre):]
        return ORD.get(s.split('::')[-1], s)
    if k == 'CXXThisExpr':
        return 'this'
    if k in ('IntegerLiteral', 'FloatingLiteral', 'CharacterLiteral'):
        return str(n.get('value'))
    if k == 'CXXBoolLiteralExpr':
        return 'true' if n.get('value') else 'false'
    if k == 'CXXNullPtrLiteralExpr':
        return 'nullptr'
    if k == 'StringLiteral':
        return 'str'
    if k in ('BinaryOperator', 'CompoundAssignOperator'):
        return '(' + expr(ks[0]) + ' ' + n.get('opcode', '?') + ' ' + expr(ks[1]) + ')'
    if k == 'UnaryOperator':
        op = n.get('opcode', '?')
        if n.get('isPostfix'):
            return '(' + expr(ks[0]) + op + ')'
        return '(' + op + expr(ks[0]) + ')'
    if k == 'ConditionalOperator':
        return '(' + expr(ks[0]) + ' ? ' + expr(ks[1]) + ' : ' + expr(ks[2]) + ')'
    if k in ('CallExpr', 'CXXMemberCallExpr', 'CXXOperatorCallExpr'):
        callee = expr(ks[0]) if ks else '?'
        if ks and k != 'CXXOperatorCallExpr' and not callee.endswith('>'):
            callee += _explicit_template_args(ks[0])
        args = [expr(a) for a in ks[1:] if A.strip(a).get('kind') != 'CXXDefaultArgExpr']
        return callee + '(' + ', '.join(args) + ')'
    if k in ('CXXStaticCastExpr', 'CXXReinterpretCastExpr', 'CXXConstCastExpr', 'CXXFunctionalCastExpr',
             'CStyleCastExpr', 'CXXDynamicCastExpr'):
        return 'cast(' + (expr(ks[0]) if ks else '') + ')'
    if k in ('CXXConstructExpr', 'CXXTemporaryObjectExpr', 'CXXUnresolvedConstructExpr', 'InitListExpr',
             'ParenListExpr'):
        return 'init(' + ', '.join(expr(a) for a in ks) + ')'
    if k == 'CXXNewExpr':
        return 'new(' + ', '.join(expr(a) for a in ks) + ')'
    if k == 'CXXDeleteExpr':
        return 'delete(' + ', '.join(expr(a) for a in ks) + ')'
    if k == 'LambdaExpr':
        bodies = [c for c in ks if c.get('kind') == 'CompoundStmt']
        return 'lambda' + (stmt(bodies[-1]) if bodies else '{}')
    if k == 'CXXThrowExpr':
        return 'throw(' + ', '.join(expr(a) for a in ks) + ')'
    if k == 'PackExpansionExpr':
        return 'pack(' + ', '.join(expr(a) for a in ks) + ')'
    if k == 'CXXFoldExpr':
        return 'fold' + str(n.get('opcode', '')) + '(' + ', '.join(expr(a) for a in ks) + ')'
    if k == 'SizeOfPackExpr':
        return 'sizeof...'
    if k == 'UnaryExprOrTypeTraitExpr':
        return str(n.get('name', 'sizeof')) + '(' + ', '.join(expr(a) for a in ks) + ')'
    if k == 'CXXDefaultArgExpr':
        return 'default'
    if k == 'ArraySubscriptExpr':
        return expr(ks[0]) + '[' + expr(ks[1]) + ']'
    if k == 'CoawaitExpr' or k == 'DependentCoawaitExpr':
        return 'co_await(' + (expr(ks[0]) if ks else '') + ')'
    if k == 'CXXPseudoDestructorExpr':
        return expr(ks[0]) + '.~()' if ks else '~()'
    if k == 'TypeTraitExpr':
        s = ''.join(_name_from_source(n).split())
        return s
    if k == 'CXXScalarValueInitExpr':
        return 'zero'
    if k == 'OpaqueValueExpr':
        return expr(ks[0]) if ks else 'opaque'
    if k == 'SubstNonTypeTemplateParmExpr':
        return expr(ks[-1]) if ks else 'tparam'
    # statements that can occur in expression position (GNU), and everything unknown
    return str(k) + '(' + ', '.join(expr(a) for a in ks) + ')'


def stmt(n):
    k = n.get('kind')
    ks = A.kids(n)
    if k == 'CompoundStmt':
        parts = []
        for c in ks:
            if A.is_assert_stub(c) or c.get('kind') == 'NullStmt':
                continue
            parts.append(stmt(c))
        return '{ ' + '; '.join(parts) + ' }'
    if k == 'IfStmt':
        kw = 'ifc' if n.get('isConstexpr') else 'if'
        # children: [init], [condvar], cond, then, [else]
        cs = ks
        if n.get('hasInit'):
            init = stmt(cs[0])
            cs = cs[1:]
        else:
            init = None
        if n.get('hasVar'):
            cs = cs[1:]
        cond, then = cs[0], cs[1]
        s = kw + ' (' + ((init + '; ') if init else '') + expr(cond) + ') ' + stmt(then)
        if n.get('hasElse') and len(cs) > 2:
            s += ' else ' + stmt(cs[2])
        return s
    if k == 'WhileStmt':
        if len(ks) > 2:  # condition variable: while (auto* x = e)
            return 'while (' + stmt(ks[0]) + ') ' + stmt(ks[-1])
        return 'while (' + expr(ks[-2]) + ') ' + stmt(ks[-1])
    if k == 'DoStmt':
        return 'do ' + stmt(ks[0]) + ' while (' + expr(ks[1]) + ')'
    if k == 'ForStmt':
        return 'for (' + '; '.join(stmt(c) if c.get('kind', '').endswith('Stmt') else expr(c) for c in ks[:-1]) + \
            ') ' + stmt(ks[-1])
    if k == 'CXXForRangeStmt':
        return 'forrange ' + stmt(ks[-1])
    if k == 'ReturnStmt':
        return 'return ' + (expr(ks[0]) if ks else '')
    if k == 'DeclStmt':
        out = []
        for d in ks:
            if d.get('kind') == 'VarDecl':
                init = A.kids(d)
                init = [c for c in init if not c.get('kind', '').endswith('Attr')]
                out.append('var ' + d.get('name', '_') + (' = ' + expr(init[0]) if init else ''))
            elif d.get('kind') == 'DecompositionDecl':
                out.append('var [..] = ' + ', '.join(expr(c) for c in A.kids(d)[:1]))
            else:
                out.append('decl ' + str(d.get('kind')))
        return ', '.join(out)
    if k == 'CXXTryStmt':
        def handler(c):
            # what is caught is part of the skeleton: `catch(...)` / `catch(<type>)`
            cs = A.kids(c)
            var = cs[0] if len(cs) > 1 and cs[0].get('kind') == 'VarDecl' else None
            ty = ''.join(((var.get('type') or {}).get('qualType', '?')).split()) if var is not None else '...'
            return 'catch(' + ty + ') ' + stmt(cs[-1])
        return 'try ' + stmt(ks[0]) + ' ' + ' '.join(handler(c) for c in ks[1:])
    if k in ('BreakStmt', 'ContinueStmt', 'NullStmt'):
        return k[:-4].lower()
    if k == 'CoreturnStmt':
        return 'co_return ' + (expr(ks[0]) if ks else '')
    if k == 'AttributedStmt':
        return stmt(ks[-1])
    return expr(n)


def function_skeleton(m):
    b = A.body(m)
    if b is None:
        raise A.ExtractError('no body for %s' % m.get('name'))
    params = [c.get('name', '_') for c in A.kids(m) if c.get('kind') == 'ParmVarDecl']
    return m.get('name', '?') + '(' + ', '.join(params) + ') ' + stmt(b)
