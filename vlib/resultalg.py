"""C02 — the Result algebra differential (include/yaclib/util/result.hpp is an anchor of C02).

Random operation sequences over four Result<V, E> objects (payload-carrying V whose moved-from state is visible, payload-
carrying E, distinguishable exceptions; and the Result<void, E> family) are run on the implementation (harness/result.cpp)
and on the Lean model (Model/ResultAlg.lean via `ymdriver_pipe result`); every line is compared.  Independently of the model
a monitor checks the property on the implementation's own output: after a copy / move construction or ASSIGNMENT the
target shows what the source showed before; a copy leaves the source as it was, a move leaves it in the same state with a
moved-from payload; nothing else changes; the numbers of live value / error objects are those of the slots."""
import os
import random
import re
import subprocess

from . import common as C
from . import pipe

DRV = pipe.DRV


def harness(kind='plain'):
    return C.build_harness('result', kind, ['result.cpp'])


# ------------------------------------------------------------------------------------------------ generator
def gen(rng, length=None):
    """state-aware (a python shadow of the STATE TAGS only, to respect the C++ preconditions)"""
    unit = rng.random() < 0.25
    lines = ['ty ' + ('u' if unit else 'v')]
    st = [None] * 4   # None | 'val' | 'err' | 'exc' | 'excnull' | 'empty'
    k = [0]

    def num():
        k[0] += 1
        return k[0]

    def ctor(i):
        x = rng.random()
        if x < 0.3:
            st[i] = 'val'
            if unit:
                return rng.choice(['unit', 'inplace'])
            return '%s %d' % (rng.choice(['val', 'val', 'inplace']), num())
        if x < 0.5:
            st[i] = 'err'
            return 'err %d' % num()
        if x < 0.6:
            st[i] = 'err'
            return 'stop'
        if x < 0.85:
            st[i] = 'exc'
            return 'exc %d' % num()
        st[i] = 'empty'
        return 'empty'
    n = length or rng.randrange(3, 14)
    for i in range(rng.choice([2, 3, 4])):
        lines.append('new %d %s' % (i, ctor(i)))
    for _ in range(n):
        live = [i for i in range(4) if st[i] is not None]
        x = rng.random()
        if x < 0.12 or len(live) < 2:
            i = rng.randrange(4)
            lines.append('new %d %s' % (i, ctor(i)))
        elif x < 0.52:
            op = rng.choice(['copya', 'movea', 'movea', 'copyc', 'movec'])
            j = rng.choice(live)
            cand = [i for i in (live if op.endswith('a') else range(4)) if i != j]
            i = rng.choice(cand)
            lines.append('%s %d %d' % (op, i, j))
            st[i] = st[j]
            if op.startswith('move') and st[j] == 'exc':
                st[j] = 'excnull'
        elif x < 0.64:
            i = rng.choice(live)
            y = rng.random()
            if y < 0.35:
                lines.append('setu %d' % i if unit else 'setv %d %d' % (i, num()))
                st[i] = 'val'
            elif y < 0.6:
                lines.append('sete %d %d' % (i, num()))
                st[i] = 'err'
            elif y < 0.7:
                lines.append('sets %d' % i)
                st[i] = 'err'
            else:
                lines.append('setx %d %d' % (i, num()))
                st[i] = 'exc'
        elif x < 0.69:
            i = rng.choice(live)
            lines.append('del %d' % i)
            st[i] = None
        elif x < 0.86:
            cand = [i for i in live if st[i] != 'excnull']
            if not cand:
                continue
            i = rng.choice(cand)
            op = rng.choice(['ok', 'ok', 'okm'])
            lines.append('%s %d' % (op, i))
            if op == 'okm' and st[i] == 'exc':
                st[i] = 'excnull'
        else:
            i = rng.choice(live)
            op = {'val': 'takev', 'err': 'takee', 'exc': 'takex', 'excnull': 'takex'}.get(st[i])
            if op is None:
                continue
            lines.append('%s %d' % (op, i))
            if st[i] == 'exc':
                st[i] = 'excnull'
    # look at everything once more at the end (const Ok() of every slot that has one)
    for i in range(4):
        if st[i] is not None and st[i] != 'excnull':
            lines.append('ok %d' % i)
    return lines


def exhaustive_pairs():
    """copy/move assignment and construction between EVERY pair of states (incl. moved-from ones), both families"""
    out = []
    for unit in (False, True):
        mk = {'val': ['new %d unit'] if unit else ['new %d val 5'], 'err': ['new %d err 7'], 'stop': ['new %d stop'], 'exc': ['new %d exc 3'],
              'empty': ['new %d empty'],
              'val_moved': (['new %d unit'] if unit else ['new %d val 6']) + ['takev %d'], 'err_moved': ['new %d err 8', 'takee %d'],
              'exc_moved': ['new %d exc 4', 'takex %d']}
        for a in mk:
            for b in mk:
                for op in ('copya', 'movea', 'copyc', 'movec'):
                    ls = ['ty ' + ('u' if unit else 'v')]
                    ls += [x % 0 for x in mk[a]] + [x % 1 for x in mk[b]]
                    ls.append('%s 0 1' % op)
                    # observe both (Ok() on a null exception_ptr is a precondition violation: skip those)
                    src_null = b == 'exc_moved' or (b == 'exc' and op.startswith('move'))
                    tgt_null = b == 'exc_moved'
                    if not tgt_null:
                        ls.append('ok 0')
                    if not src_null:
                        ls.append('ok 1')
                    out.append(ls)
    return out


# ------------------------------------------------------------------------------------------------ running
def _run(cmd, text):
    r = subprocess.run(cmd, input=text, capture_output=True, text=True)
    out = r.stdout.split('\n')
    if out and out[-1] == '':
        out.pop()
    return r.returncode, out


def run_batch(progs, kind='plain', with_model=True):
    """returns per program {'impl': [...], 'model': [...]}; a program on which the harness process dies gets 'crash' lines"""
    h = harness(kind)
    text = ''.join('\n'.join(p) + '\nend\n' for p in progs)
    total = sum(len(p) + 1 for p in progs)
    rc, impl = _run([h], text)
    res = []
    if rc != 0 or len(impl) != total:
        impl = []
        for p in progs:     # find the program(s) that kill the process
            rc1, o = _run([h], '\n'.join(p) + '\nend\n')
            if rc1 != 0 or len(o) != len(p) + 1:
                o = (o + ['crash'] * (len(p) + 1))[:len(p) + 1]
            impl += o
    model = None
    if with_model:
        rc, model = _run([DRV, 'result'], text)
        if rc != 0 or len(model) != total:
            raise C.BuildError('ymdriver_pipe result produced %d lines for %d inputs (exit %d)' % (len(model), total, rc))
    pos = 0
    for p in progs:
        d = {'impl': impl[pos:pos + len(p)]}
        if model is not None:
            d['model'] = model[pos:pos + len(p)]
        res.append(d)
        pos += len(p) + 1
    return res


def parse(line):
    m = re.match(r'r0=(\S+) r1=(\S+) r2=(\S+) r3=(\S+) obs=(\S+) lv=(-?\d+) le=(-?\d+)$', line)
    if not m:
        return None
    return {'r': [m.group(i) for i in range(1, 5)], 'obs': m.group(5), 'lv': int(m.group(6)), 'le': int(m.group(7))}


def moved(show, unit):
    """what a moved-from Result must show, given what it showed before"""
    if show.startswith('val:'):
        return show if unit else 'val:dead'
    if show.startswith('err:'):
        return 'err:dead'
    if show.startswith('exc:'):
        return 'exc:null'
    return show


# ------------------------------------------------------------------------------------------------ monitor
def monitor(lines, impl):
    """the property on the implementation's own output (independent of the Lean model)"""
    bad = []
    if any(o in ('crash', 'missing') for o in impl):
        i = next(i for i, o in enumerate(impl) if o in ('crash', 'missing'))
        return [('C02', 'the implementation crashed at line %d `%s`' % (i, lines[i]))]
    unit = lines[0].split()[1] == 'u'
    prev = ['-'] * 4
    for n, (l, o) in enumerate(zip(lines, impl)):
        t = l.split()
        if t[0] == 'ty':
            continue
        if o == 'bad':
            # a precondition of the C++ is violated here although everything before looked as it must: generator error
            bad.append(('gen', 'line %d `%s` violates a precondition (generator error)' % (n, l)))
            break
        s = parse(o)
        if s is None:
            bad.append(('C02', 'unreadable output at line %d `%s`: %s' % (n, l, o)))
            break
        cur = s['r']
        want = list(prev)
        obs = None
        op = t[0]
        if op == 'new':
            i = int(t[1])
            k = t[2]
            if k == 'empty':
                want[i] = 'empty'
            elif k == 'stop':
                want[i] = 'err:0'
            elif k == 'unit' or (k == 'inplace' and unit):
                want[i] = 'val:unit'
            elif k in ('val', 'inplace'):
                want[i] = 'val:' + t[3]
            else:
                want[i] = k + ':' + t[3]     # err / exc
        elif op in ('copyc', 'copya', 'movec', 'movea'):
            i, j = int(t[1]), int(t[2])
            want[i] = prev[j]
            if op.startswith('move'):
                want[j] = moved(prev[j], unit)
        elif op in ('setv', 'setu', 'sete', 'setx', 'sets'):
            i = int(t[1])
            want[i] = {'setv': lambda: 'val:' + t[2], 'setu': lambda: 'val:unit', 'sete': lambda: 'err:' + t[2],
                       'setx': lambda: 'exc:' + t[2], 'sets': lambda: 'err:0'}[op]()
        elif op == 'del':
            want[int(t[1])] = '-'
        elif op in ('ok', 'okm'):
            i = int(t[1])
            p = prev[i]
            obs = p if p.startswith('val:') else 'throw:' + p if p.startswith(('err:', 'exc:')) else 'throw:empty'
            if op == 'okm':
                want[i] = moved(p, unit)
        elif op in ('takev', 'takee', 'takex'):
            i = int(t[1])
            obs = prev[i]
            want[i] = moved(prev[i], unit)
        if cur != want:
            i = next(i for i in range(4) if cur[i] != want[i])
            what = {'copya': 'copy assignment', 'movea': 'move assignment', 'copyc': 'copy construction', 'movec': 'move construction'}.get(op, op)
            role = ''
            if op in ('copyc', 'copya', 'movec', 'movea'):
                role = ' (the target)' if i == int(t[1]) else ' (the source)' if i == int(t[2]) else ' (not involved)'
            bad.append(('C02', 'Result algebra: after %s `%s` r%d%s shows %s, it must show %s (before: %s)' % (
                what, l, i, role, cur[i], want[i], ' '.join('r%d=%s' % (x, prev[x]) for x in range(4)))))
            break
        if obs is not None and s['obs'] != obs:
            bad.append(('C02', 'Result algebra: `%s` on a Result showing %s gave %s, expected %s' % (l, prev[int(t[1])], s['obs'], obs)))
            break
        lv = 0 if unit else sum(1 for x in cur if x.startswith('val:'))
        le = sum(1 for x in cur if x.startswith('err:'))
        if (s['lv'], s['le']) != (lv, le):
            bad.append(('C02', 'Result algebra: after `%s` %d value / %d error object(s) are alive but the slots hold %d / %d '
                               '(an alternative was not destroyed, or destroyed twice)' % (l, s['lv'], s['le'], lv, le)))
            break
        prev = cur
    return bad


def _has_class(lines, kind, key):
    try:
        if not lines or not lines[0].startswith('ty '):
            return False
        o = run_batch([lines], kind, with_model=False)[0]
        return any(q == 'C02' and pipe.msg_class(m) == key for q, m in monitor(lines, o['impl']))
    except Exception:
        return False


def check(res, tier):
    rng = random.Random(C.seed() * 104729 + 11)
    progs = exhaustive_pairs()
    nex = len(progs)
    progs += [gen(rng) for _ in range(1500 if tier == 'quick' else 40000)]
    drv_ok = os.path.exists(DRV)
    fails, corr = [], []
    kinds = ['plain'] + (['plain_asan'] if tier != 'quick' else [])
    for kind in kinds:
        rs = run_batch(progs, kind, with_model=drv_ok)
        for idx, (ls, o) in enumerate(zip(progs, rs)):
            ms = [(q, m) for q, m in monitor(ls, o['impl']) if q in ('C02', 'gen')]
            if ms:
                fails.append((idx, kind, ms[0][0], ms[0][1]))
            elif drv_ok and o['impl'] != o['model']:
                corr.append((idx, kind))
    reported = set()
    for idx, kind, q, msg in fails:
        if q == 'gen':
            res.violation('\n'.join(progs[idx]) + '\nend', 'internal: ' + msg, no_input=True, name='C02_%s_result_generator.txt' % tier)
            break
        key = pipe.msg_class(msg)
        if key in reported or len(reported) >= 3:
            continue
        reported.add(key)
        small = pipe.shrink(progs[idx], lambda ls, kind=kind, key=key: _has_class(ls, kind, key), budget=200)
        o = run_batch([small], kind, with_model=False)[0]
        ms = [m for q, m in monitor(small, o['impl']) if q == 'C02'] or [msg]
        res.violation('\n'.join(small) + '\nend', ms[0] + '  [minimised from a %d-line operation sequence, library build `%s`]' % (
            len(progs[idx]), kind), name='C02_%s_result_%d.txt' % (tier, len(reported)))
    if not fails and corr:
        idx, kind = corr[0]
        o = run_batch([progs[idx]], kind)[0]
        i = next(i for i, (a, b) in enumerate(zip(o['impl'], o['model'])) if a != b)
        res.violation('\n'.join(progs[idx]) + '\nend\n# line %d `%s`\n# impl : %s\n# model: %s' % (i, progs[idx][i], o['impl'][i], o['model'][i]),
                      'correspondence broken: the Lean Result algebra and the implementation differ (%d sequences) but the '
                      'implementation satisfies the monitor' % len(corr), no_input=True, name='C02_%s_result_correspondence.txt' % tier)
    ops = {}
    for p in progs:
        for l in p[1:]:
            ops[l.split()[0]] = ops.get(l.split()[0], 0) + 1
    res.coverage['result_algebra'] = {
        'sequences': len(progs), 'exhaustive_state_pairs': nex, 'distinct': len({tuple(p) for p in progs}),
        'operations': ops, 'unit_family': sum(1 for p in progs if p[0] == 'ty u'),
        'streams_compared': ['yaclib Result<PV,PE> / Result<void,PE> (harness/result.cpp)'] + (['Lean ResultAlg.step'] if drv_ok else []),
        'rule': 'every (target state, source state) pair x {copy, move} x {assignment, construction} x {Result<PV,PE>, Result<void,PE>} '
                '(states incl. moved-from value / error / null exception_ptr) + random sequences of 3-13 operations over 4 slots'}
    return [m for _, _, _, m in fails], corr


def replay(path):
    lines = [l.strip() for l in open(path) if l.strip() and not l.startswith('#') and l.strip() != 'end']
    o = run_batch([lines])[0]
    for l, a, b in zip(lines, o['impl'], o['model']):
        print('%-16s impl : %s' % (l, a))
        if a != b:
            print('%-16s model: %s   <-- differs' % ('', b))
    ms = monitor(lines, o['impl'])
    for q, m in ms:
        print('%s: %s' % (q, m))
    bad = bool(ms) or o['impl'] != o['model']
    print('VIOLATION reproduced' if bad else 'no difference')
    return 1 if bad else 0
