"""The check shared by C02 / C03 / C05 / C12 / C20: regenerate the extracted definitions, discharge the proof
obligations of the property's Props file, run the T3 differential with property-specific emphasis."""
import hashlib
import os

from . import common as C
from . import conc
from . import pipe
from . import resultalg
from . import x_allocsites
from . import x_dispatch

SIZES = {  # (quick, thorough) number of generated programs
    'C02': (2500, 100000), 'C05': (2500, 60000), 'C12': (2500, 60000), 'C20': (2000, 40000), 'C03': (2500, 60000)}


def _cached(lib, name, module, gen):
    """regenerate `name` from the current tree (cached per tree + translator source)"""
    src = open(module.__file__, 'rb').read() + open(os.path.join(os.path.dirname(module.__file__), 'cxxast.py'), 'rb').read()
    stamp = os.path.join(lib, '%s-%s.lean' % (name, hashlib.sha1(src).hexdigest()[:10]))
    with C.Lock('extract-' + name):
        if os.path.exists(stamp):
            kind, text = open(stamp).read().split('\n', 1)
        else:
            try:
                kind, text = 'ok', gen()
            except Exception as e:  # translator fails closed
                kind, text = 'error', '%s: %s' % (type(e).__name__, e)
            with open(stamp + '.tmp', 'w') as f:
                f.write(kind + '\n' + text)
            os.rename(stamp + '.tmp', stamp)
    return kind, text


def extract(prop):
    """returns list of problems (strings)"""
    problems = []
    lib = C.build_lib('fiber')
    inc = os.path.join(lib, 'include')
    kind, text = _cached(lib, 'dispatch', x_dispatch, lambda: x_dispatch.generate(C.REPO, inc, C.WORK))
    if kind == 'ok':
        parts = text.split('\n' + x_dispatch.SPLIT)  # Dispatch.lean, then `<relative path>\n<text>` per further module
        C.write_if_changed(os.path.join(C.LEAN, 'YaclibModel/Extracted/Dispatch.lean'), parts[0])
        for extra in parts[1:]:
            rel, _, body = extra.partition('\n')
            C.write_if_changed(os.path.join(C.LEAN, rel.strip()), body)
    else:
        problems.append('translator x_dispatch failed (core.hpp no longer has the shape the model was written from): ' + text)
    if prop == 'C20':
        kind, text = _cached(lib, 'allocsites', x_allocsites, lambda: x_allocsites.generate(C.REPO, inc, C.WORK))
        if kind == 'ok':
            C.write_if_changed(os.path.join(C.LEAN, 'YaclibModel/Extracted/AllocSites.lean'), text)
        else:
            problems.append('translator x_allocsites failed: ' + text)
    problems += ['kernel skeleton extraction: ' + p for p in conc.extract_kernels()]
    return problems


COMB_K = {'all': 5, 'all_none': 5, 'any': 2, 'any_firstfail': 2, 'join': 2, 'all_static': 5}  # sites of Extracted/AllocSites


def comb_check(res, tier):
    """C20 T3 for the combinators and Wait: allocations counted on the implementation for n = 1 … 512 inputs.
    A violation needs no model: the property itself says `constant, independent of n` and `none to wait`."""
    import re
    import subprocess
    kinds = ['plain'] + (['plain_asan'] if tier != 'quick' else [])
    table = {}
    bad = []
    zbad = []
    zmsgs = []
    for kind in kinds:
        r = subprocess.run([pipe.harness(kind), '--comb'], capture_output=True, text=True)
        if r.returncode != 0:
            raise C.BuildError('pipe --comb exited %d: %s' % (r.returncode, r.stderr[-800:]))
        for line in r.stdout.split('\n'):
            m = re.match(r'comb (\w+) n=(\d+) call=(\d+) complete=(\d+) ready=(\d)', line)
            if m:
                name, n, a, b, ready = m.group(1), int(m.group(2)), int(m.group(3)), int(m.group(4)), m.group(5)
                table.setdefault(name, {})[n] = a + b
                if a + b > COMB_K[name]:
                    bad.append('%s of %d inputs allocated %d blocks, more than its %d allocation sites' % (name, n, a + b, COMB_K[name]))
                if ready != '1':
                    bad.append('%s of %d inputs not ready after all inputs completed' % (name, n))
            m = re.match(r'wait n=(\d+) waitfor_unready=(\d+)\((\d)\) wait_ready\+waitfor\+get=(\d+)\((\d)\)', line)
            if m:
                n, a, r0, b, r1 = int(m.group(1)), int(m.group(2)), m.group(3), int(m.group(4)), m.group(5)
                table.setdefault('wait', {})[n] = a + b
                if a or b:
                    bad.append('Wait/WaitFor/Get on %d futures allocated %d + %d blocks' % (n, a, b))
                if r0 != '0' or r1 != '1':
                    bad.append('WaitFor on %d futures returned %s before / %s after completion' % (n, r0, r1))
    # the "allocate nothing" half of the property: co_await of futures, Wait / WaitFor / WaitUntil, Get, Strand::Submit of an
    # existing job — full matrix of harness/alloc.cpp (forms x handle types x n x readiness), 0 allocations in every cell
    zero = {}
    for kind in kinds:
        r = subprocess.run([C.build_harness('alloc', kind, ['alloc.cpp'])], capture_output=True, text=True)
        if r.returncode != 0:
            raise C.BuildError('alloc exited %d: %s' % (r.returncode, (r.stderr or r.stdout)[-800:]))
        cells = 0
        for line in r.stdout.split('\n'):
            m = re.match(r'zero (\w+) \| (.*) \| allocs=(-?\d+) ok=(\d)$', line)
            if m:
                cells += 1
                sec, what, a, ok = m.group(1), m.group(2), int(m.group(3)), m.group(4)
                zero[sec] = zero.get(sec, 0) + 1
                if a != 0:
                    zbad.append((sec, '%s: %d allocation(s)' % (what, a), line))
                elif ok != '1':
                    zbad.append((sec, '%s: the operation did not do what it must (measurement void)' % what, line))
        m = re.search(r'^cells (\d+)$', r.stdout, re.M)
        if not m or int(m.group(1)) != cells or cells < 800:
            raise C.BuildError('alloc printed %d cells (expected >= 800, trailer %s)' % (cells, m.group(1) if m else 'missing'))
    res.coverage['zero_allocation_cells'] = zero
    seen_sec = {}
    for sec, msg, line in zbad:
        seen_sec.setdefault(sec, []).append((msg, line))
    for sec, items in seen_sec.items():
        msg = items[0][0] + ('' if len(items) == 1 else '  (+ %d more cells of section `%s`)' % (len(items) - 1, sec))
        res.violation('alloc %s\n' % sec + '\n'.join('# ' + l for _, l in items[:40]), msg, name='C20_%s_zero_%s.txt' % (tier, sec))
        zmsgs.append(msg)
    for name, row in table.items():
        vals = {v for n, v in row.items() if n >= 2}
        if len(vals) > 1:
            bad.append('%s: allocations depend on the number of inputs: %s' % (name, sorted(row.items())))
    if not table:
        bad.append('pipe --comb printed nothing')
    res.coverage['combinator_allocations'] = {k: sorted(v.items()) for k, v in table.items()}
    for b in bad[:3]:
        res.violation('pipe --comb\n# ' + b, b, name='C20_%s_comb.txt' % tier)
    return bad + zmsgs


# C12, clause "a completed Task that is destroyed does nothing more" (~Task: `Valid() && !Ready()`, /repo 2690a63, D13): the pipe
# harness consumes every started Task (Get / callback), so a Task that is completed and THEN destroyed by its owner exists only
# where a coroutine awaits it with Await(task).  Those scenarios live in the C13 harness (harness/c13.cpp: cells t/T = coroutine
# Task, k/K = Schedule()/Then Task, op `task:-:0` = Await only, the harness destroys the Task afterwards; monitors "~Task of a
# completed Task wrote its state word", Cnt instance counts, leaks).  The six scenarios take milliseconds: always run.
AWAITED_TASK_DESTROYED = [
    'coro cells=t/exc/fib/0 execs=- n=1 c0=future;1;0;val:7;task:-:0',
    'coro cells=t/val:9/fib/0 execs=- n=1 c0=task;1;0;val:7;task:-:0',
    'coro cells=T/val:9/fib/0 execs=run n=1 c0=future;1;0;val:7;task:-:0,current:-:',
    'coro cells=k/val:9/fib/0 execs=run n=1 c0=future;1;0;val:7;task:-:0',
    'coro cells=K/val:9/fib/0 execs=run n=1 c0=future;1;0;val:7;task:-:0,current:-:',
    'coro cells=K/val:9/fib/0 execs=run n=1 c0=shared;1;0;val:7;resched:1:,task:-:0',
]


# C05 names FairThreadPool among its executors (the pool itself is C08's model): HardStop must Drop the queued jobs OUTSIDE the
# pool's mutex — a dropped pipeline step feeds StopError to its successor, which is Submitted to the same pool from inside the
# Drop (seeded C05-4 = C08-3: self-deadlock, the remaining jobs are neither Called nor Dropped).  The C08 harness has exactly
# that job kind (`dropsub`: every job's Drop() submits a follow-up to the same pool); three hard-stop scenarios, < 1 s.
HARDSTOP_DROP_SUBMITS = [
    'pool workers=1 subs=1 virt=1 stop=hard race=0 late=1 kind=dropsub',
    'pool workers=1 subs=1 virt=1 stop=hard race=1 late=1 kind=dropsub',
    'pool workers=1 subs=2 virt=1,1 stop=hard race=1 late=1 kind=dropsub',
]


def harness_stage(res, prop, tier, name, src, scenarios, args, what):
    """run the schedule explorer harness `src` restricted to `scenarios`; every violation is a VIOLATION of `prop` whose replay
    is the schedule (scenario + choices) of that harness"""
    import re
    binary = C.build_harness(name, 'fiber', [src])
    tf = os.path.join(C.WORK, '%s_%s_%s_%d.txt' % (prop, tier, name, os.getpid()))
    tot = {'scenarios': 0, 'executions': 0, 'violations': 0}
    seen = set()
    found = []
    for scen in scenarios:
        stats, _, violations = conc.run_harness(binary, args + ['--seed', str(C.seed()), '--only', scen, '--out', tf])
        if not stats.get('scenarios') and stats.get('mode') != 'crashed':
            raise C.BuildError('harness/%s no longer has the scenario `%s` that %s relies on' % (src, scen, prop))
        for k in tot:
            tot[k] += stats.get(k, 0)
        for v in violations:
            sc, msg = conc.violation_key(v)
            short = re.sub(r'[^A-Za-z0-9]+', '_', msg)[:40]
            if short in seen:
                continue
            seen.add(short)
            found.append(msg)
            res.violation('# harness: %s\n%s' % (src, v), '%s: %s [%s]' % (what, msg, sc), name='%s_%s_%s_%s.txt' % (prop, tier, name, short))
    try:
        os.remove(tf)
    except OSError:
        pass
    res.coverage[name + '_stage'] = tot
    return found


SPELL_NAMES = {'R_val': 'Result<V,E>', 'R_rref': 'Result<V,E>&&', 'R_cref': 'const Result<V,E>&', 'R_autoref': 'auto&&', 'R_auto': 'auto',
               'V_val': 'V', 'V_rref': 'V&&', 'V_cref': 'const V&', 'V_same': 'a generic parameter constrained to V',
               'E_val': 'E', 'E_cref': 'const E&', 'X_val': 'std::exception_ptr', 'X_cref': 'const std::exception_ptr&'}
CLASS_NAMES = {'R': 'Result', 'V': 'value', 'E': 'error', 'X': 'exception'}


def spell_cells(kind='plain'):
    import re
    import subprocess
    r = subprocess.run([C.build_harness('spell', kind, ['spell.cpp'])], capture_output=True, text=True)
    if r.returncode != 0:
        raise C.BuildError('spell exited %d: %s' % (r.returncode, (r.stderr or r.stdout)[-800:]))
    cells = []
    for line in r.stdout.split('\n'):
        m = re.match(r'spell (\w+) (\w+) (\w) (\w+) (\w+) inv=(\d+) final=(\S+)$', line)
        if m:
            cells.append((m.group(1), m.group(2), m.group(3), m.group(4), m.group(5), int(m.group(6)), m.group(7), line))
    m = re.search(r'^cells (\d+)$', r.stdout, re.M)
    if not m or int(m.group(1)) != len(cells) or len(cells) < 400:
        raise C.BuildError('spell printed %d cells (trailer %s)' % (len(cells), m.group(1) if m else 'missing'))
    return cells


def spell_model():
    """what the Lean model says for (class, input, form): the equivalent pipeline program run by ymdriver_pipe"""
    forms = {'inline': lambda c, i: ['src ready %s' % i, 'then 1 %s inline val:1' % c, 'flush', 'expect'],
             'exec': lambda c, i: ['cfg e1 queue', 'src ready %s' % i, 'then 1 %s on:e1 val:1' % c, 'flush', 'expect'],
             'lazy': lambda c, i: ['src task_ready %s' % i, 'then 1 %s inline val:1' % c, 'start tofuture', 'flush', 'expect'],
             'later': lambda c, i: ['src contract p0 set:%s' % i, 'then 1 %s inline val:1' % c, 'flush', 'expect']}
    keys, progs = [], []
    for c in 'RVEX':
        for i in ('v5', 'e3', 'e0', 'x2'):
            for f, mk in forms.items():
                keys.append((c, i, f))
                progs.append(mk(c, i))
    out = {}
    if not os.path.exists(pipe.DRV):
        return out
    for k, o in zip(keys, pipe.run_batch(progs)):
        st = pipe.parse_state(o['model'][-1])
        out[k] = (len(st['inv']), st['st'][6:] if st['st'].startswith('ready:') else st['st'])
    return out


def spell_check(res, tier):
    """C02: the SPELLING of a callback's parameter does not change its class — fixed matrix of harness/spell.cpp (13 spellings x
    {copyable, move-only V} x 4 inputs x 4 forms) against the class semantics (python reading) and the Lean model"""
    kinds = ['plain'] + (['plain_asan'] if tier != 'quick' else [])
    model = spell_model()
    bad, corr = [], []
    n = 0
    for kind in kinds:
        for fam, sp, cls, inp, form, inv, fin, line in spell_cells(kind):
            n += 1
            runs = pipe.runs_on(cls, inp)
            want = (1, pipe.add_k(inp, 1)) if runs else (0, inp)
            if (inv, fin) != want:
                bad.append(('a callback whose parameter is spelled `%s` (a %s callback)%s, input %s, form %s: invoked %d time(s), final '
                            'Result %s — %s: expected %d invocation(s), final %s' % (
                                SPELL_NAMES.get(sp, sp), CLASS_NAMES[cls], ' with a MOVE-ONLY value type' if fam == 'mv' else '', inp, form,
                                inv, fin, 'a callback taking Result always runs' if cls == 'R' else
                                'a %s callback runs exactly on %s' % (CLASS_NAMES[cls], {'V': 'a value', 'E': 'an error', 'X': 'an exception'}[cls]),
                                want[0], want[1]), line))
            elif model and model.get((cls, inp, form)) != (inv, fin):
                corr.append(line)
    res.coverage['parameter_spellings'] = {'cells': n, 'spellings': sorted(SPELL_NAMES.values()), 'families': ['copyable V', 'move-only V'],
                                           'compared_with': ['class semantics (python)'] + (['Lean mech (ymdriver_pipe)'] if model else [])}
    if bad:
        res.violation('spell\n' + '\n'.join('# ' + l for _, l in bad[:60]), bad[0][0] + ('' if len(bad) == 1 else '  (+ %d more cells)' % (len(bad) - 1)),
                      name='C02_%s_spelling.txt' % tier)
    elif corr:
        res.violation('spell\n' + '\n'.join('# ' + l for l in corr[:60]),
                      'correspondence broken: %d cell(s) of the spelling matrix differ from the Lean model but agree with the class semantics' % len(corr),
                      no_input=True, name='C02_%s_spelling_correspondence.txt' % tier)
    return [m for m, _ in bad], corr


def run(res, prop, tier):
    res.assumptions += [
        'single-threaded programs: the property quantifies over programs / inputs / fault (rejection) positions, not schedules; '
        'the concurrent hand-off underneath is C01',
        'user executors are Submit-time deciders: the first `limit` Submits are accepted, later ones Dropped (k-th submission rejected)',
        'only the instantiated functor classes (argument class Result/value/error/exception_ptr x return class '
        'int/void/Result/Future/FutureOn/SharedFuture/Task) are exercised on the implementation; value type int, error type PErr',
        'coroutine sources / co_await are not part of the pipe harness (C13)',
    ]
    xproblems = extract(prop)
    ok, broken = C.proof_stage(res, prop, drivers=['ymdriver_pipe'])   # dedicated executable: lean/Driver/Main_pipe.lean
    broken = xproblems + broken
    nq, nt = SIZES[prop]
    prop_fail, corr_fail = pipe.check(res, prop, tier, nq, nt, twins=(prop == 'C12'), exhaustive_steps=2 if prop == 'C02' else 1)
    if prop == 'C20':
        prop_fail = list(prop_fail) + comb_check(res, tier)
    if prop == 'C02':
        rf, rc = resultalg.check(res, tier)   # util/result.hpp: the Result algebra differential
        prop_fail, corr_fail = list(prop_fail) + rf, list(corr_fail) + rc
        sf, sc = spell_check(res, tier)       # the spelling of a callback's parameter does not change its class
        prop_fail, corr_fail = list(prop_fail) + sf, list(corr_fail) + sc
    if prop == 'C05':
        ff, fc = pipe.free_check(res, tier)   # jobs that are not pipeline steps: yaclib::Submit(e, f)
        prop_fail, corr_fail = list(prop_fail) + ff, list(corr_fail) + fc
        prop_fail += harness_stage(
            res, prop, tier, 'c08', 'c08.cpp', HARDSTOP_DROP_SUBMITS,
            ['--mode', 'dfs', '--set', 'quick', '--pb', '1', '--wb', '0', '--max-exec', '20000'],
            'FairThreadPool::HardStop with queued jobs whose Drop() submits to the same pool (a dropped pipeline step passes '
            'StopError to a successor on the pool)')
    if prop == 'C12':
        prop_fail = list(prop_fail) + harness_stage(
            res, prop, tier, 'c13', 'c13.cpp', AWAITED_TASK_DESTROYED, ['--mode', 'dfs', '--pb', '2', '--wb', '0'],
            'a completed Task awaited by a coroutine and then destroyed')
    if broken and not prop_fail and not corr_fail:
        res.violation('\n'.join(broken), 'proof obligations of %s no longer check: %s' % (prop, broken[0]), no_input=True,
                      name='%s_%s_obligations.txt' % (prop, tier))
    res.coverage['broken_obligations'] = broken


def replay(prop, path):
    m = [l for l in open(path) if l.startswith('# harness: ')]
    if m:  # a schedule of another harness (harness_stage)
        src = m[0][len('# harness: '):].strip()
        return conc.replay(src[:-4].upper(), path, harness_src=src)
    first = [l.strip() for l in open(path) if l.strip() and not l.startswith('#')]
    if first and first[0].startswith('ty '):
        return resultalg.replay(path)
    if first and first[0] == 'spell':
        bad = [c[-1] for c in spell_cells() if (c[5], c[6]) != ((1, pipe.add_k(c[3], 1)) if pipe.runs_on(c[2], c[3]) else (0, c[3]))]
        print('\n'.join(bad[:80]))
        print('%d cell(s) of the spelling matrix violate the class semantics' % len(bad))
        print('VIOLATION reproduced' if bad else 'no difference')
        return 1 if bad else 0
    return pipe.replay(prop, path)
