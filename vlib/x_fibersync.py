"""T1 translator for C18: the method bodies of the FIBER locks -> pure Lean functions.

Generated file: lean/YaclibModel/Extracted/FiberSync.lean

Every method of fiber::Mutex / TimedMutex / RecursiveMutex / RecursiveTimedMutex / SharedMutex / SharedTimedMutex is a
short piece of structured code over a few plain fields with at most one kind of blocking call (`<queue>.Wait(…)`).
It is executed symbolically into

    def <Class>.<method>        (s : <Fields>) (params…)                : Out <Fields>   -- from the call to the first wait / the return
    def <Class>.<method>_resume (s : <Fields>) (params…) (ready : Bool) : Out <Fields>   -- from the return of the wait to the next wait / the return

where `Out` says how the segment ends: `ret state result notifications` or `wait state queue timed notifications`.
A `while (c) Wait()` loop re-enters the loop in `_resume` (re-check), an `if (c) Wait()` continues behind it (no
re-check) — the difference between `Mutex::lock` and the others (D6) is therefore a difference of the *generated
functions*, as is the queue a method waits on (D7), the helper an acquisition ends in (D5) and whether `unlock`
notifies (D4).  The hand-written models of Model/FiberSync*.lean are tied to these functions by bridge theorems
(Proofs/FiberSyncBridge.lean), so an edit of any of these bodies breaks a proof obligation.

Parameters of the generated functions, added only where the body uses them:
  me      : Nat            fault::Scheduler::GetId()          (`_owner_id` is an `Option Nat`: the literal 0 is `none`)
  qempty  : String → Bool  `<queue>.Empty()`
  rand    : Nat            the value of the one `GetRandNumber(k)` call
  <name>  : Bool           bool parameters of the method (`exclusive`)
The translator fails closed: any construct it does not know raises ExtractError.
"""
import os

from . import cxxast as A

FQ = 'yaclib::detail::fiber::'

# class -> (fields record name, [(c++ field, lean field, lean type)])
RECORDS = {
    'Mutex': [('_occupied', 'occupied', 'Bool')],
    'RecursiveMutex': [('_owner_id', 'owner', 'Option Nat'), ('_occupied_count', 'count', 'Nat')],
    'SharedMutex': [('_shared_owners_count', 'count', 'Nat'), ('_occupied', 'occupied', 'Bool'),
                    ('_exclusive_mode', 'exclusive', 'Bool')],
}

# (lean class name, record, TU (repo relative) or include, file suffix, [methods])
SOURCES = [
    ('Mutex', 'Mutex', 'src/fault/fiber/mutex.cpp', None, 'fiber/mutex.cpp', ['lock', 'try_lock', 'unlock']),
    ('TimedMutex', 'Mutex', None, 'yaclib/fault/detail/fiber/timed_mutex.hpp', 'fiber/timed_mutex.hpp', ['TimedWaitHelper']),
    ('RecursiveMutex', 'RecursiveMutex', 'src/fault/fiber/recursive_mutex.cpp', None, 'fiber/recursive_mutex.cpp',
     ['lock', 'try_lock', 'unlock']),
    ('RecursiveTimedMutex', 'RecursiveMutex', None, 'yaclib/fault/detail/fiber/recursive_timed_mutex.hpp',
     'fiber/recursive_timed_mutex.hpp', ['TimedWaitHelper']),
    ('SharedMutex', 'SharedMutex', 'src/fault/fiber/shared_mutex.cpp', None, 'fiber/shared_mutex.cpp',
     ['lock', 'try_lock', 'unlock', 'lock_shared', 'try_lock_shared', 'unlock_shared']),
    ('SharedTimedMutex', 'SharedMutex', None, 'yaclib/fault/detail/fiber/shared_timed_mutex.hpp',
     'fiber/shared_timed_mutex.hpp', ['TimedWaitHelper']),
]
# helpers that are inlined at their call sites: name -> (TU, suffix, filter)
HELPERS = {
    'RecursiveMutex': ('src/fault/fiber/recursive_mutex.cpp', 'fiber/recursive_mutex.cpp', ['LockHelper']),
    'SharedMutex': ('src/fault/fiber/shared_mutex.cpp', 'fiber/shared_mutex.cpp', ['LockHelper', 'SharedLockHelper']),
}


class Env:
    def __init__(self, fields, locs=None):
        self.f = dict(fields)        # c++ field -> lean expr
        self.l = dict(locs or {})    # local / param -> lean expr

    def copy(self):
        return Env(self.f, self.l)


class Sym:
    def __init__(self, cls, rec, helpers):
        self.cls = cls
        self.rec = rec
        self.fields = RECORDS[rec]
        self.helpers = helpers   # name -> body statements
        self.used = set()        # me / qempty / rand
        self.resumes = []        # lean bodies of the continuation after a wait
        self.bool_params = []
        self.loop_depth = 0

    # ---- expressions
    def state(self, env):
        return '{ ' + ', '.join('%s := %s' % (lf, env.f[cf]) for (cf, lf, _) in self.fields) + ' }'

    def field_of(self, n):
        n = A.strip(n)
        if n.get('kind') == 'MemberExpr' and n.get('name') in [cf for (cf, _, _) in self.fields]:
            base = A.kids(n)
            if not base or A.strip(base[0]).get('kind') == 'CXXThisExpr':
                return n['name']
        return None

    def is_owner(self, n):
        return self.field_of(n) == '_owner_id'

    def expr(self, n, env, owner_ctx=False):
        n = A.strip(n)
        k = n.get('kind')
        ks = A.kids(n)
        f = self.field_of(n)
        if f is not None:
            return env.f[f]
        if k == 'DeclRefExpr':
            name = n['referencedDecl']['name']
            if name in env.l:
                return env.l[name]
            raise A.ExtractError('%s: unknown name %s' % (self.cls, name))
        if k == 'CXXBoolLiteralExpr':
            return 'true' if n.get('value') else 'false'
        if k == 'IntegerLiteral':
            if owner_ctx:
                if str(n.get('value')) != '0':
                    raise A.ExtractError('%s: owner id literal %s' % (self.cls, n.get('value')))
                return 'none'
            return str(n.get('value'))
        if k == 'UnaryOperator' and n.get('opcode') == '!':
            return '(!%s)' % self.expr(ks[0], env)
        if k == 'BinaryOperator' and n.get('opcode') in ('&&', '||', '==', '!='):
            oc = n['opcode']
            octx = self.is_owner(ks[0]) or self.is_owner(ks[1])
            a = self.expr(ks[0], env, octx)
            b = self.expr(ks[1], env, octx)
            return '(%s %s %s)' % (a, oc, b)
        if k in ('CallExpr', 'CXXMemberCallExpr'):
            name, obj = self.callee(n)
            if name == 'GetId' and obj is None:
                self.used.add('me')
                return '(some me)' if owner_ctx else 'me'
            if name == 'GetRandNumber' and obj is None:
                if 'rand' in self.used:
                    raise A.ExtractError('%s: more than one GetRandNumber call' % self.cls)
                self.used.add('rand')
                return 'rand'
            if name == 'Empty' and obj is not None:
                self.used.add('qempty')
                return '(qempty "%s")' % obj
            raise A.ExtractError('%s: unsupported call %s in an expression' % (self.cls, name))
        raise A.ExtractError('%s: unsupported expression %s' % (self.cls, k))

    def callee(self, n):
        """(function name, object field name or None)"""
        ks = A.kids(n)
        c = A.strip(ks[0])
        ck = c.get('kind')
        if ck == 'DeclRefExpr':
            return c['referencedDecl']['name'], None
        if ck == 'MemberExpr':
            base = A.kids(c)
            b = A.strip(base[0]) if base else None
            if b is None or b.get('kind') == 'CXXThisExpr':
                return c.get('name'), None
            if b.get('kind') == 'MemberExpr':
                return c.get('name'), b.get('name')
        if ck in ('UnresolvedMemberExpr', 'CXXDependentScopeMemberExpr'):
            t = ''.join(A.text(c).split()).replace('this->', '')
            if '.' in t:
                obj, name = t.rsplit('.', 1)
                return name, obj
            return t, None
        if ck == 'UnresolvedLookupExpr':
            return c.get('name'), None
        raise A.ExtractError('%s: unsupported callee %s' % (self.cls, ck))

    def wait_of(self, n):
        """if n is `<q>.Wait(arg)` return (queue, timed) else None"""
        n = A.strip(n)
        if n.get('kind') not in ('CallExpr', 'CXXMemberCallExpr'):
            return None
        name, obj = self.callee(n)
        if name != 'Wait' or obj is None:
            return None
        arg = A.strip(A.kids(n)[1])
        txt = ''.join(A.text(arg).split())
        timed = 'NoTimeoutTag' not in txt
        return obj, timed

    # ---- statements
    def notes(self, ns):
        return '[' + ', '.join(ns) + ']'

    def run(self, stmts, env, ns):
        """symbolic execution of a statement list; returns a Lean term of type Out"""
        i = 0
        while i < len(stmts):
            s = stmts[i]
            rest = stmts[i + 1:]
            k = s.get('kind')
            ks = A.kids(s)
            if A.is_assert_stub(s) or k == 'NullStmt':
                i += 1
                continue
            if k == 'CompoundStmt':
                return self.run(ks + rest, env, ns)
            if k == 'DeclStmt':
                for d in ks:
                    if d.get('kind') != 'VarDecl':
                        raise A.ExtractError('%s: unsupported declaration' % self.cls)
                    init = [c for c in A.kids(d) if not c.get('kind', '').endswith('Attr')]
                    env.l[d['name']] = self.expr(init[0], env)
                i += 1
                continue
            if k == 'ReturnStmt':
                r = 'none' if not ks else '(some %s)' % self.expr(ks[0], env)
                return '.ret %s %s %s' % (self.state(env), r, self.notes(ns))
            if k == 'IfStmt':
                if s.get('isConstexpr') or s.get('hasInit') or s.get('hasVar'):
                    raise A.ExtractError('%s: unsupported if form' % self.cls)
                c = self.expr(ks[0], env)
                a = self.run([ks[1]] + rest, env.copy(), list(ns))
                b = self.run(([ks[2]] if len(ks) > 2 else []) + rest, env.copy(), list(ns))
                return 'if %s then %s else %s' % (c, a, b)
            if k == 'WhileStmt':
                # `while (c) BODY` = `if (c) { BODY; again } else rest`; BODY must block (contain a Wait), which ends
                # the symbolic run of that branch — the continuation recorded at the wait re-enters the loop
                if len(ks) != 2:
                    raise A.ExtractError('%s: unsupported while form' % self.cls)
                if not A.find_all(ks[1], lambda n: n.get('kind') in ('CallExpr', 'CXXMemberCallExpr') and
                                  self.wait_of(n) is not None):
                    raise A.ExtractError('%s: only loops that wait are supported' % self.cls)
                c = self.expr(ks[0], env)
                self.loop_depth += 1
                a = self.run([ks[1], s] + rest, env.copy(), list(ns))
                self.loop_depth -= 1
                b = self.run(rest, env.copy(), list(ns))
                return 'if %s then %s else %s' % (c, a, b)
            # expression statements
            e = A.strip(s)
            ek = e.get('kind')
            eks = A.kids(e)
            w = self.wait_of(e)
            if w is not None:  # `q.Wait(tag);` result ignored
                q, timed = w
                self.resumes.append(('loop' if self.loop_depth else 'seq', rest, None))
                return '.wait %s "%s" %s %s' % (self.state(env), q, 'true' if timed else 'false', self.notes(ns))
            if ek == 'BinaryOperator' and e.get('opcode') == '=':
                lhs = A.strip(eks[0])
                rhs = A.strip(eks[1])
                # r = (q.Wait(timeout) == Ready)
                if rhs.get('kind') == 'BinaryOperator' and rhs.get('opcode') == '==' and self.wait_of(A.kids(rhs)[0]) is not None:
                    other = A.strip(A.kids(rhs)[1])
                    if other.get('kind') != 'DeclRefExpr' or other['referencedDecl']['name'] != 'Ready':
                        raise A.ExtractError('%s: wait result compared with something else than Ready' % self.cls)
                    if lhs.get('kind') != 'DeclRefExpr':
                        raise A.ExtractError('%s: wait result stored in a field' % self.cls)
                    q, timed = self.wait_of(A.kids(rhs)[0])
                    self.resumes.append(('loop' if self.loop_depth else 'seq', rest, lhs['referencedDecl']['name']))
                    return '.wait %s "%s" %s %s' % (self.state(env), q, 'true' if timed else 'false', self.notes(ns))
                f = self.field_of(lhs)
                if f is not None:
                    env.f[f] = self.expr(rhs, env, f == '_owner_id')
                elif lhs.get('kind') == 'DeclRefExpr':
                    env.l[lhs['referencedDecl']['name']] = self.expr(rhs, env)
                else:
                    raise A.ExtractError('%s: unsupported assignment' % self.cls)
                i += 1
                continue
            if ek == 'UnaryOperator' and e.get('opcode') in ('++', '--'):
                f = self.field_of(eks[0])
                if f is None:
                    raise A.ExtractError('%s: ++/-- on a non-field' % self.cls)
                env.f[f] = '(%s %s 1)' % (env.f[f], '+' if e['opcode'] == '++' else '-')
                i += 1
                continue
            if ek in ('CallExpr', 'CXXMemberCallExpr'):
                name, obj = self.callee(e)
                if name == 'OnSync':          # verification trace hook
                    i += 1
                    continue
                if obj is not None and name in ('NotifyOne', 'NotifyAll'):
                    ns = ns + ['.%s "%s"' % ('one' if name == 'NotifyOne' else 'all', obj)]
                    i += 1
                    continue
                if obj is None and name in self.helpers:
                    return self.run(self.helpers[name] + rest, env, ns)
                raise A.ExtractError('%s: unsupported call statement %s' % (self.cls, name))
            raise A.ExtractError('%s: unsupported statement %s' % (self.cls, ek))
        return '.ret %s none %s' % (self.state(env), self.notes(ns))


def _find_methods(docs, suffix, names):
    out = {}
    for d in docs:
        for m in A.methods(d):
            if m.get('name') in names and A.body(m) is not None and (m.get('_file') or '').endswith(suffix):
                out.setdefault(m['name'], m)
    return out


def _fresh_env(sym, m):
    env = Env({cf: 's.' + lf for (cf, lf, _) in RECORDS[sym.rec]})
    sym.bool_params = []
    for c in A.kids(m):
        if c.get('kind') == 'ParmVarDecl':
            t = c.get('type', {}).get('qualType', '')
            if t == 'bool':
                env.l[c['name']] = c['name']
                sym.bool_params.append(c['name'])
            # the timeout parameter is only passed on to Wait
    return env


def generate(repo, cfg_include, workdir, namespace='Yaclib.Extracted.FiberSync'):
    out = [HEADER.replace('Yaclib.Extracted.FiberSync', namespace)]
    for rec, fields in RECORDS.items():
        out.append('structure %s where\n%s\n  deriving DecidableEq, Repr\n' %
                   (rec, '\n'.join('  %s : %s' % (lf, ty) for (_, lf, ty) in fields)))
    helper_bodies = {}
    for rec, (tu, suffix, names) in HELPERS.items():
        docs = A.dump(os.path.join(repo, tu), FQ + rec, cfg_include, repo=repo)
        ms = _find_methods(docs, suffix, names)
        for nme in names:
            if nme not in ms:
                raise A.ExtractError('helper %s::%s not found' % (rec, nme))
        helper_bodies[rec] = {nme: A.kids(A.body(ms[nme])) for nme in names}
    table = []
    for (cls, rec, tu, inc, suffix, names) in SOURCES:
        if tu is None:
            path = os.path.join(workdir, 'tu_c18_%s.cpp' % cls)
            with open(path, 'w') as f:
                f.write('#include <%s>\n' % inc)
        else:
            path = os.path.join(repo, tu)
        docs = A.dump(path, FQ + cls, cfg_include, repo=repo)
        ms = _find_methods(docs, suffix, names)
        for nme in names:
            if nme not in ms:
                raise A.ExtractError('%s::%s not found in *%s' % (cls, nme, suffix))
            m = ms[nme]
            sym = Sym(cls, rec, helper_bodies.get(rec, {}))
            env = _fresh_env(sym, m)
            body = sym.run(A.kids(A.body(m)), env, [])
            resumes = list(sym.resumes)
            # the continuation(s) after the wait
            rbodies = []
            for (kind, stmts, var) in resumes:
                sym.resumes = []
                sym.loop_depth = 0
                env2 = _fresh_env(sym, m)
                if var is not None:
                    env2.l[var] = 'ready'
                rbodies.append(sym.run(stmts, env2, []))
                # a wait inside the continuation is the same loop again (while): nothing new to record
            rbodies = list(dict.fromkeys(rbodies))
            if len(rbodies) > 1:
                raise A.ExtractError('%s::%s has wait sites with different continuations' % (cls, nme))
            params = ''
            if 'me' in sym.used:
                params += ' (me : Nat)'
            if 'qempty' in sym.used:
                params += ' (qempty : String → Bool)'
            if 'rand' in sym.used:
                params += ' (rand : Nat)'
            for bp in sym.bool_params:
                params += ' (%s : Bool)' % bp
            out.append('def %s.%s (s : %s)%s : Out %s :=\n  %s\n' % (cls, nme, rec, params, rec, body))
            if rbodies:
                out.append('def %s.%s_resume (s : %s)%s (ready : Bool) : Out %s :=\n  %s\n' %
                           (cls, nme, rec, params, rec, rbodies[0]))
            table.append((cls, nme, bool(rbodies), resumes[0][0] if resumes else '-'))
    out.append('/-- (class, method, blocks?, `loop` = the wait sits in a `while` that re-checks, `seq` = it does not) -/')
    out.append('def methods : List (String × String × Bool × String) := [\n' +
               ',\n'.join('  ("%s", "%s", %s, "%s")' % (c, n, 'true' if b else 'false', k) for (c, n, b, k) in table) + '\n]\n')
    out.append('end %s\n' % namespace)
    return '\n'.join(out)


HEADER = '''/- GENERATED by vlib/x_fibersync.py from /repo/src/fault/fiber/{mutex,recursive_mutex,shared_mutex}.cpp and
   /repo/include/yaclib/fault/detail/fiber/{timed_mutex,recursive_timed_mutex,shared_timed_mutex}.hpp.
   Do not edit: regenerated on every check run. -/
set_option linter.unusedVariables false

namespace Yaclib.Extracted.FiberSync

inductive Notify where
  | one (q : String) | all (q : String)
  deriving DecidableEq, Repr

/-- how a run of a method from its entry (or from the return of its wait) to the next switch point ends -/
inductive Out (σ : Type) where
  | ret (s : σ) (r : Option Bool) (n : List Notify)
  | wait (s : σ) (q : String) (timed : Bool) (n : List Notify)
  deriving DecidableEq, Repr
'''
