"""T1 translator for C19: fiber::Atomic* / AtomicFlag method bodies -> pure Lean functions,
and the yaclib::detail::Atomic wrapper methods -> forwarding skeletons.

Generated file: lean/YaclibModel/Extracted/FiberAtomic.lean
Each method body `m` of the fiber implementation becomes
    def <Class>.<method> (v : α) (args…) : <shape>
where v is the stored `_value`, by-reference parameters are threaded through, and the result is the
tuple (new value, by-ref parameters…, return value).  Arithmetic is kept abstract (class Ops), so
the theorems hold for every carrier (all integer widths, pointers, floating point).
"""
import os

from . import cxxast as A
from . import skel

OPNAME = {'+=': 'add', '-=': 'sub', '&=': 'and', '|=': 'or', '^=': 'xor',
          '+': 'add', '-': 'sub', '&': 'and', '|': 'or', '^': 'xor'}

METHOD_NAME = {
    ('operator++', 0): 'pre_inc', ('operator++', 1): 'post_inc',
    ('operator--', 0): 'pre_dec', ('operator--', 1): 'post_dec',
    ('operator+=', 1): 'add_assign', ('operator-=', 1): 'sub_assign',
    ('operator&=', 1): 'and_assign', ('operator|=', 1): 'or_assign', ('operator^=', 1): 'xor_assign',
    ('operator=', 1): 'assign',
}


class Tr:
    """Translate one method body into a Lean term (let-chain)."""

    def __init__(self, cls, sigs):
        self.cls = cls
        self.sigs = sigs  # name -> (params, refs, returns_value) for calls to sibling methods
        self.tmp = 0

    def fresh(self):
        self.tmp += 1
        return 'r%d' % self.tmp

    def is_value(self, n):
        n = A.strip(n)
        k = n.get('kind')
        if k == 'MemberExpr' and n.get('name') == '_value':
            return True
        if k == 'CXXDependentScopeMemberExpr' and n.get('member') == '_value':
            return True
        if k == 'UnresolvedMemberExpr':
            t = ''.join(A.text(n).split())
            return t in ('_value', 'this->_value')
        return False

    def lval(self, n):
        if self.is_value(n):
            return 'v'
        n = A.strip(n)
        if n.get('kind') == 'DeclRefExpr':
            return n['referencedDecl']['name']
        raise A.ExtractError('unsupported lvalue %s in %s' % (n.get('kind'), self.cls))

    def expr(self, n, lets):
        """returns Lean expression; appends `let` lines for side effects"""
        n = A.strip(n)
        k = n.get('kind')
        ks = A.kids(n)
        if self.is_value(n):
            return 'v'
        if k == 'DeclRefExpr':
            return n['referencedDecl']['name']
        if k == 'CXXBoolLiteralExpr':
            return 'true' if n.get('value') else 'false'
        if k == 'UnaryOperator' and n.get('opcode') in ('++', '--'):
            lv = self.lval(ks[0])
            op = 'add' if n['opcode'] == '++' else 'sub'
            if n.get('isPostfix'):
                r = self.fresh()
                lets.append('let %s := %s' % (r, lv))
                lets.append('let %s := Ops.%s %s (Ops.one α)' % (lv, op, lv))
                return r
            lets.append('let %s := Ops.%s %s (Ops.one α)' % (lv, op, lv))
            return lv
        if k == 'CompoundAssignOperator':
            lv = self.lval(ks[0])
            rhs = self.expr(ks[1], lets)
            op = OPNAME.get(n.get('opcode'))
            if op is None:
                raise A.ExtractError('unsupported compound op %s' % n.get('opcode'))
            lets.append('let %s := Ops.%s %s %s' % (lv, op, lv, rhs))
            return lv
        if k == 'BinaryOperator':
            oc = n.get('opcode')
            if oc == '=':
                lv = self.lval(ks[0])
                rhs = self.expr(ks[1], lets)
                lets.append('let %s := %s' % (lv, rhs))
                return lv
            if oc == '==':
                a = self.expr(ks[0], lets)
                b = self.expr(ks[1], lets)
                return '(decide (%s = %s))' % (a, b)
            if oc == '!=':
                a = self.expr(ks[0], lets)
                b = self.expr(ks[1], lets)
                return '(!decide (%s = %s))' % (a, b)
            raise A.ExtractError('unsupported binary op %s' % oc)
        if k in ('CallExpr', 'CXXMemberCallExpr'):
            callee = A.strip(ks[0])
            ck = callee.get('kind')
            name = None
            if ck == 'UnresolvedLookupExpr':
                name = callee.get('name')
            elif ck in ('MemberExpr',):
                name = callee.get('name')
            elif ck in ('UnresolvedMemberExpr', 'CXXDependentScopeMemberExpr'):
                name = callee.get('member') or ''.join(A.text(callee).split()).replace('this->', '')
            elif ck == 'DeclRefExpr':
                name = callee['referencedDecl']['name']
            args = ks[1:]
            if name == 'exchange' and len(args) == 2 and ck in ('UnresolvedLookupExpr', 'DeclRefExpr'):
                # std::exchange(obj, new)
                lv = self.lval(args[0])
                nv = self.expr(args[1], lets)
                r = self.fresh()
                lets.append('let %s := %s' % (r, lv))
                lets.append('let %s := %s' % (lv, nv))
                return r
            if name in self.sigs:
                params, refs, has_ret = self.sigs[name]
                vals = []
                for p, a in zip(params, args):
                    if p in refs:
                        vals.append(self.lval(a))
                    else:
                        vals.append(self.expr(a, lets))
                # memory-order params were dropped from `params`; extra args are orders
                outs = ['v'] + [self.lval(a) for p, a in zip(params, args) if p in refs]
                r = self.fresh()
                if has_ret:
                    outs.append(r)
                pat = outs[0] if len(outs) == 1 else '(' + ', '.join(outs) + ')'
                lets.append('let %s := %s.%s v %s' % (pat, self.cls, name, ' '.join(vals)))
                return r if has_ret else '()'
            raise A.ExtractError('unsupported call %s in %s' % (name, self.cls))
        raise A.ExtractError('unsupported expression %s in %s: %s' % (k, self.cls, skel.expr(n)))

    def block(self, stmts, refs, has_ret):
        """Translate a statement list that must end in a return (or fall off the end for void)."""
        lets = []
        for i, s in enumerate(stmts):
            k = s.get('kind')
            ks = A.kids(s)
            if A.is_assert_stub(s) or k == 'NullStmt':
                continue
            if k == 'CompoundStmt':
                return self._join(lets, self.block(ks + stmts[i + 1:], refs, has_ret))
            if k == 'DeclStmt':
                for d in ks:
                    if d.get('kind') != 'VarDecl':
                        raise A.ExtractError('unsupported decl')
                    init = [c for c in A.kids(d) if not c.get('kind', '').endswith('Attr')]
                    e = self.expr(init[0], lets)
                    lets.append('let %s := %s' % (d['name'], e))
                continue
            if k == 'ReturnStmt':
                if ks:
                    e = self.expr(ks[0], lets)
                    return self._join(lets, self.ret(refs, e))
                return self._join(lets, self.ret(refs, None))
            if k == 'IfStmt':
                cs = ks
                cond = self.expr(cs[0], lets)
                then = self.block([cs[1]] + ([] if self._returns(cs[1]) else stmts[i + 1:]), refs, has_ret)
                if s.get('hasElse') and len(cs) > 2:
                    els = self.block([cs[2]] + ([] if self._returns(cs[2]) else stmts[i + 1:]), refs, has_ret)
                else:
                    els = self.block(stmts[i + 1:], refs, has_ret)
                return self._join(lets, 'if %s then\n%s\nelse\n%s' % (cond, _indent(then), _indent(els)))
            # expression statement
            self.expr(s, lets)
        if has_ret:
            raise A.ExtractError('control reaches end of non-void method in %s' % self.cls)
        return self._join(lets, self.ret(refs, None))

    def _returns(self, s):
        k = s.get('kind')
        if k == 'ReturnStmt':
            return True
        if k == 'CompoundStmt':
            ks = [c for c in A.kids(s) if not A.is_assert_stub(c)]
            return bool(ks) and self._returns(ks[-1])
        if k == 'IfStmt':
            cs = A.kids(s)
            return s.get('hasElse') and len(cs) > 2 and self._returns(cs[1]) and self._returns(cs[2])
        return False

    def ret(self, refs, e):
        outs = ['v'] + list(refs) + ([e] if e is not None else [])
        return outs[0] if len(outs) == 1 else '(' + ', '.join(outs) + ')'

    def _join(self, lets, tail):
        return '\n'.join(lets + [tail])


def _indent(s, n=2):
    return '\n'.join(' ' * n + l for l in s.split('\n'))


def _params(m):
    ps = []
    for c in A.kids(m):
        if c.get('kind') == 'ParmVarDecl':
            ps.append((c.get('name'), c.get('type', {}).get('qualType', '')))
    return ps


def _lean_method_name(m, nparams):
    key = (m['name'], nparams)
    if key in METHOD_NAME:
        return METHOD_NAME[key]
    if m['name'].startswith('operator'):
        if m['name'].strip() in ('operator T', 'operator type-parameter-0-0'):
            return 'conv'
        raise A.ExtractError('unsupported operator %s' % m['name'])
    return m['name']


def translate_class(doc, cls, value_ty, arg_ty, out, diffs, known_sigs=None):
    """doc: ClassTemplateDecl / partial specialisation / CXXRecordDecl."""
    ms = [m for m in A.methods(doc) if A.body(m) is not None and m.get('kind') == 'CXXMethodDecl']
    sigs = dict(known_sigs or {})
    entries = []
    for m in ms:
        ps = _params(m)
        data_ps = [(n, t) for (n, t) in ps if 'memory_order' not in t]
        nm = m['name']
        if nm.startswith('operator') and nm not in ('operator++', 'operator--', 'operator+=', 'operator-=',
                                                      'operator&=', 'operator|=', 'operator^=', 'operator='):
            # conversion operator: `return load();`
            lname = 'conv'
        else:
            lname = _lean_method_name(m, len(data_ps))
        if lname in ('post_inc', 'post_dec'):
            data_ps = []  # the dummy int
        refs = [n for (n, t) in data_ps if t.strip().endswith('&')]
        has_ret = not A.qual(m).startswith('void')
        is_volatile = ' volatile' in A.qual(m)
        order_ps = len(ps) - len(data_ps) - (1 if lname in ('post_inc', 'post_dec') else 0)
        full = lname if order_ps <= 1 or lname in ('store', 'load', 'exchange') else lname + '2'
        if order_ps == 2:
            full = lname + '_2ord'
        entries.append((m, full, data_ps, refs, has_ret, is_volatile))
        sigs.setdefault(m['name'], ([n for (n, _) in data_ps], refs, has_ret))
    done = {}
    emitted = []
    for (m, lname, data_ps, refs, has_ret, is_volatile) in entries:
        tr = Tr(cls, {k: v for k, v in sigs.items()})
        # calls to sibling methods go by C++ name; map to the lean name of the non-volatile 1st overload
        b = A.body(m)
        term = tr.block(A.kids(b), refs, has_ret)
        # in AtomicBase every T parameter is a stored value; in the arithmetic classes every parameter is an operand
        binders = ' '.join('(%s : %s)' % (n or '_', value_ty if cls in ('AtomicBase', 'AtomicFlag') else arg_ty)
                           for (n, t) in data_ps)
        key = lname
        if key in done:
            if done[key] != (binders, term):
                diffs.append('%s.%s' % (cls, lname))
            continue
        done[key] = (binders, term)
        outs = [value_ty] + [value_ty for _ in refs]
        if has_ret:
            rt = A.qual(m).split('(')[0].strip()
            outs.append('Bool' if rt == 'bool' and value_ty != 'Bool' or (rt == 'bool') else value_ty)
        ty = ' × '.join(outs)
        text = 'def %s.%s (v : %s) %s : %s :=\n%s\n' % (cls, lname, value_ty, binders, ty, _indent(term))
        emitted.append((1 if (cls + '.') in term else 0, len(emitted), text))
    for _, _, text in sorted(emitted):
        out.append(text)
    return sigs


HEADER = '''/- GENERATED by vlib/x_atomic.py from /repo/include/yaclib/fault/detail/fiber/atomic.hpp,
   fiber/atomic_flag.hpp, fault/detail/atomic.hpp, fault/detail/atomic_flag.hpp,
   yaclib_std/detail/atomic_fence.hpp.  Do not edit: regenerated on every check run. -/
import YaclibModel.Base.Ops

set_option linter.unusedVariables false

namespace Yaclib.Extracted.FiberAtomic
open Yaclib

variable {α δ : Type} [Ops α δ] [DecidableEq α]

'''


def generate(repo, cfg_include, workdir):
    out = [HEADER]
    diffs = []
    src = os.path.join(repo, 'include/yaclib/fault/detail/fiber/atomic.hpp')
    docs = A.dump(src, 'yaclib::detail::fiber::Atomic', cfg_include, repo=repo)
    by = {}
    for d in docs:
        by.setdefault((d.get('kind'), d.get('name')), []).append(d)

    def one(kind, name):
        ds = [d for d in by.get((kind, name), []) if d['_file'] and d['_file'].endswith('fiber/atomic.hpp')]
        if len(ds) != 1:
            raise A.ExtractError('expected exactly one %s %s, found %d' % (kind, name, len(ds)))
        return ds[0]

    sig_base = translate_class(one('ClassTemplateDecl', 'AtomicBase'), 'AtomicBase', 'α', 'α', out, diffs)
    translate_class(one('ClassTemplatePartialSpecializationDecl', 'AtomicFloatingBase'), 'AtomicFloatingBase', 'α',
                    'δ', out, diffs, sig_base)
    translate_class(one('ClassTemplatePartialSpecializationDecl', 'AtomicIntegralBase'), 'AtomicIntegralBase', 'α',
                    'δ', out, diffs, sig_base)
    translate_class(one('ClassTemplatePartialSpecializationDecl', 'Atomic'), 'AtomicPtr', 'α', 'δ', out, diffs,
                    sig_base)
    # the primary templates of AtomicFloatingBase / AtomicIntegralBase / Atomic must add no methods
    extra = []
    for nm in ('AtomicFloatingBase', 'AtomicIntegralBase', 'Atomic'):
        d = one('ClassTemplateDecl', nm)
        # only the templated record itself, not its specialisations
        rec = [c for c in A.kids(d) if c.get('kind') == 'CXXRecordDecl']
        for r in rec:
            for m in A.kids(r):
                if m.get('kind') == 'CXXMethodDecl' and A.body(m) is not None:
                    extra.append(nm + '.' + m['name'])
    # atomic_flag
    src = os.path.join(repo, 'include/yaclib/fault/detail/fiber/atomic_flag.hpp')
    docs = A.dump(src, 'yaclib::detail::fiber::AtomicFlag', cfg_include, repo=repo)
    fl = [d for d in docs if d.get('kind') == 'CXXRecordDecl' and d.get('name') == 'AtomicFlag' and A.kids(d)]
    if len(fl) != 1:
        raise A.ExtractError('AtomicFlag record not found')
    out.append('end Yaclib.Extracted.FiberAtomic\n\nnamespace Yaclib.Extracted.FiberAtomic.Flag\n')
    flag_out = []
    translate_class(fl[0], 'AtomicFlag', 'Bool', 'Bool', flag_out, diffs)
    out.extend(flag_out)
    out.append('end Yaclib.Extracted.FiberAtomic.Flag\n\nnamespace Yaclib.Extracted.FiberAtomic\n')

    # wrapper skeletons
    tu = os.path.join(workdir, 'tu_atomic.cpp')
    with open(tu, 'w') as f:
        f.write('#include <yaclib_std/atomic>\n#include <yaclib/fault/detail/atomic_flag.hpp>\n')
    docs = A.dump(tu, 'yaclib::detail::Atomic', cfg_include, repo=repo)
    wrap = []
    seen = set()
    for d in docs:
        if not (d.get('_file') or '').endswith('fault/detail/atomic.hpp') and \
           not (d.get('_file') or '').endswith('fault/detail/atomic_flag.hpp'):
            continue
        if d.get('kind') not in ('ClassTemplateDecl', 'ClassTemplatePartialSpecializationDecl'):
            continue
        cname = d.get('name')
        if d.get('kind') == 'ClassTemplatePartialSpecializationDecl' and cname == 'Atomic':
            cname = 'AtomicPtr'
        recs = [d] if d.get('kind') != 'ClassTemplateDecl' else \
            [c for c in A.kids(d) if c.get('kind') == 'CXXRecordDecl']
        for r in recs:
            for m in A.kids(r):
                if m.get('kind') not in ('CXXMethodDecl', 'CXXConversionDecl') or A.body(m) is None:
                    continue
                vol = ' volatile' in A.qual(m)
                ps = [n or '_' for (n, _) in _params(m)]
                key = (cname, m['name'], len(ps), vol, A.qual(m))
                if key in seen:
                    continue
                seen.add(key)
                name = 'operator T' if m.get('kind') == 'CXXConversionDecl' else m['name']
                wrap.append((cname, name, '(' + ', '.join(ps) + ')', ps[-1] if ps else '', skel.stmt(A.body(m))))
    out.append('/-- wrapper methods: (class, method, parameter list, last parameter, normalised body) -/\n')
    out.append('def wrapper : List (String × String × String × String × String) := [\n' +
               ',\n'.join('  (' + ', '.join(_q(x) for x in e) + ')' for e in wrap) + '\n]\n')
    # fences
    src = os.path.join(repo, 'include/yaclib_std/detail/atomic_fence.hpp')
    tu2 = os.path.join(workdir, 'tu_fence.cpp')
    with open(tu2, 'w') as f:
        f.write('#include <yaclib/config.hpp>\n#define YACLIB_FAULT_ATOMIC_FENCE 2\n#include <yaclib_std/detail/atomic_fence.hpp>\n')
    docs = A.dump(tu2, 'yaclib_std::atomic_', cfg_include, repo=repo)
    fences = []
    for d in docs:
        if d.get('kind') == 'FunctionDecl' and A.body(d) is not None and (d.get('_file') or '').endswith('atomic_fence.hpp'):
            fences.append((d['name'], skel.function_skeleton(d)))
    out.append('def fences : List (String × String) := [\n' +
               ',\n'.join('  (%s, %s)' % (_q(a), _q(b)) for a, b in fences) + '\n]\n')
    out.append('/-- overloads (volatile / one-order forms) whose translated body differs from the first overload -/\n')
    out.append('def overloadDiffs : List String := [' + ', '.join(_q(x) for x in diffs) + ']\n')
    out.append('/-- methods defined by the primary templates that should be empty -/\n')
    out.append('def primaryExtra : List String := [' + ', '.join(_q(x) for x in extra) + ']\n')
    out.append('\nend Yaclib.Extracted.FiberAtomic\n')
    return '\n'.join(out)


def _q(s):
    return '"' + s.replace('\\', '\\\\').replace('"', '\\"') + '"'
