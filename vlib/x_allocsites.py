"""T1 translator for C20: allocation sites of the combinators and of Wait, with an "inside a loop" flag.

Generated file: lean/YaclibModel/Extracted/AllocSites.lean.  A *site* is a place that can obtain memory from the heap:
`new`, MakeShared / MakeUnique / MakeContract*, a std::vector constructed with a size, `resize`, `reserve`,
`push_back` / `emplace_back`.  For each function body of the anchored files the translator lists the sites, whether the
site is lexically inside a loop of that function, and — for push_back/emplace_back — whether the same vector was
`reserve`d earlier in the same function (then the loop does not allocate per iteration).
`Props/C20.lean` proves `offending = []` by `decide`: no allocation site inside a loop over the inputs, hence the number
of blocks a combinator / Wait obtains is bounded by the number of sites, for every input count n (not only sampled ones).
"""
import os
import re

from . import cxxast as A

E = A.ExtractError

FILES = ['async/when/when.hpp', 'async/when/all.hpp', 'async/when/all_tuple.hpp', 'async/when/any.hpp', 'async/when/join.hpp',
         'async/detail/when_impl.hpp', 'async/detail/wait_impl.hpp', 'async/when_all.hpp', 'async/when_any.hpp', 'async/join.hpp',
         'async/wait.hpp', 'async/wait_for.hpp', 'async/wait_until.hpp', 'algo/detail/wait_event.hpp']
INCLUDES = ['yaclib/async/when_all.hpp', 'yaclib/async/when_any.hpp', 'yaclib/async/join.hpp', 'yaclib/async/wait.hpp',
            'yaclib/async/wait_for.hpp', 'yaclib/async/wait_until.hpp', 'yaclib/async/detail/when_impl.hpp']
LOOPS = ('ForStmt', 'WhileStmt', 'DoStmt', 'CXXForRangeStmt')
FUNCS = ('CXXMethodDecl', 'FunctionDecl', 'CXXConstructorDecl', 'CXXDestructorDecl')
MAKERS = ('MakeShared', 'MakeUnique', 'MakeContract', 'MakeContractOn', 'MakeSharedContract', 'MakeFuture', 'MakeSharedPromise')
VEC_OPS = ('resize', 'reserve', 'push_back', 'emplace_back')


def norm(s):
    return re.sub(r'\s+', '', s)


def generate(repo, cfg_include, workdir):
    tu = os.path.join(workdir, 'tu_allocsites.cpp')
    with open(tu, 'w') as f:
        for i in INCLUDES:
            f.write('#include <%s>\n' % i)
    docs = A.dump(tu, 'yaclib', cfg_include, repo=repo)
    funcs = {}

    def rel(path):
        for f in FILES:
            if path and path.endswith('include/yaclib/' + f):
                return f
        return None

    def collect(n, cls):
        k = n.get('kind')
        if k == 'ClassTemplateSpecializationDecl':
            return
        if k in ('CXXRecordDecl', 'ClassTemplateDecl', 'ClassTemplatePartialSpecializationDecl') and n.get('name'):
            cls = n.get('name')
        if k in FUNCS and rel(n.get('_file')) and (A.body(n) is not None or k == 'CXXConstructorDecl'):
            b = n['range']['begin']
            off = b.get('offset') or b.get('expansionLoc', {}).get('offset')
            funcs.setdefault((rel(n.get('_file')), off), (cls, n))
            return
        for c in A.kids(n):
            collect(c, cls)
    for d in docs:
        collect(d, None)
    seen_files = {k[0] for k in funcs}
    for must in ('async/when/when.hpp', 'async/when/all.hpp', 'async/detail/wait_impl.hpp'):
        if must not in seen_files:
            raise E('no function bodies found in %s' % must)
    sites = []
    for (frel, off), (cls, fn) in sorted(funcs.items(), key=lambda x: (x[0][0], x[0][1] or 0)):
        name = (cls + '::' if cls else '') + fn.get('name', '?')
        reserved = []  # normalised base expressions that were reserve()d, in traversal order

        def site(kind, in_loop, base=None):
            sites.append((frel, name, kind, in_loop, base is not None and base in reserved))

        def visit(n, in_loop):
            k = n.get('kind')
            if k in FUNCS or k == 'LambdaExpr' and False:
                return
            if k == 'CXXNewExpr':
                site('new', in_loop)
            if k in ('CallExpr', 'CXXMemberCallExpr', 'CXXOperatorCallExpr'):
                ks = A.kids(n)
                callee = norm(A.text(ks[0])) if ks else ''
                m = re.search(r'(?:^|::|\.|->)(\w+)(?:<.*>)?$', callee)
                cn = m.group(1) if m else ''
                if cn in MAKERS:
                    site(cn, in_loop)
                elif cn in VEC_OPS:
                    base = re.sub(r'(\.|->)%s$' % cn, '', callee)
                    if cn == 'reserve':
                        reserved.append(base)
                    site(cn, in_loop, base if cn in ('push_back', 'emplace_back') else None)
            if k == 'CXXCtorInitializer' or k == 'CXXConstructExpr' or k == 'CXXTemporaryObjectExpr':
                pass
            for c in A.kids(n):
                visit(c, in_loop or k in LOOPS)
        b = A.body(fn)
        if b is not None:
            visit(b, False)
        # constructor member initialisers: a std::vector member built with arguments
        if fn.get('kind') == 'CXXConstructorDecl':
            for c in fn.get('inner', []):
                if isinstance(c, dict) and c.get('kind') == 'CXXCtorInitializer':
                    t = norm(A.text(c)) if 'range' in c else ''
                    any_init = c.get('anyInit', {})
                    ty = (any_init.get('type') or {}).get('qualType', '')
                    if 'vector' in ty:
                        args = [x for x in A.kids(c)]
                        txt = ''.join(norm(A.text(x)) for x in args if 'range' in x)
                        if txt and not re.fullmatch(r'\w+(\{\}|\(\))?', txt):
                            sites.append((frel, name, 'vector_ctor', False, False))
    if not any(s[2] in MAKERS for s in sites):
        raise E('no MakeShared/MakeContract site found in the combinators: the translator no longer sees them')
    L = ['/- GENERATED by vlib/x_allocsites.py from /repo on every check run. Do not edit. -/',
         'namespace Yaclib.Extracted.AllocSites', '',
         'structure Site where', '  file : String', '  func : String', '  kind : String', '  inLoop : Bool',
         '  reserved : Bool', 'deriving DecidableEq, Repr', '', 'def sites : List Site := [']
    L += ['  ⟨"%s", "%s", "%s", %s, %s⟩%s' % (f, n.replace('"', "'"), k, str(l).lower(), str(r).lower(), ',' if i < len(sites) - 1 else '')
          for i, (f, n, k, l, r) in enumerate(sites)]
    L += [']', '',
          '/-- a site that can allocate once per loop iteration: inside a loop, and not a push_back into a vector that was',
          '    reserve()d before the loop in the same function -/',
          'def offending : List Site :=',
          '  sites.filter fun s => s.inLoop && !((s.kind == "push_back" || s.kind == "emplace_back") && s.reserved)', '',
          'def countIn (file : String) : Nat := (sites.filter fun s => s.file == file).length', '',
          '/-- number of function bodies the translator walked, per anchored file (non-vacuity of the lists above) -/',
          'def scanned : List (String × Nat) := [%s]' % ', '.join('("%s", %d)' % (f, sum(1 for k in funcs if k[0] == f)) for f in FILES), '',
          'end Yaclib.Extracted.AllocSites', '']
    return '\n'.join(L)
