"""T1 translator for C20: allocation sites of the combinators and of Wait, with an "inside a loop" flag.

Generated file: lean/YaclibModel/Extracted/AllocSites.lean.  A *site* is a place that can obtain memory from the heap:
`new`, MakeShared / MakeUnique / MakeContract*, a std::vector constructed with a size, `resize`, `reserve`,
`push_back` / `emplace_back`.  For each function body of the anchored files the translator lists the sites, whether the
site is lexically inside a loop of that function, and — for push_back/emplace_back — whether the same vector was
`reserve`d earlier in the same function (then the loop does not allocate per iteration).
`Props/C20.lean` proves `offending = []` by `decide`: no allocation site inside a loop over the inputs, hence the number
of blocks a combinator / Wait obtains is bounded by the number of sites, for every input count n (not only sampled ones).

The co_await / Wait path (coro/await*.hpp, coro/detail/await*_awaiter.hpp, algo/detail/shared_event.hpp, wait_event.hpp,
async/detail/wait_impl.hpp) has ONE legitimate site: the per-element callback vector of `DynamicSharedEvent` (SharedFuture
ranges need one intrusive node per element).  `selections` lists every place of the tree that names DynamicSharedEvent, with
the condition under which it is chosen: it must be the true branch of a `std::conditional_t<k, …>` whose `k` is a
`static constexpr` defined as `std::is_same_v<…Handle…, SharedHandle>` — selection by HANDLE type, so that no unique future
(Future, FutureOn) ever reaches the site.  Any other shape: the translator fails (closed).
"""
import os
import re

from . import cxxast as A

E = A.ExtractError

FILES = ['async/when/when.hpp', 'async/when/all.hpp', 'async/when/all_tuple.hpp', 'async/when/any.hpp', 'async/when/join.hpp',
         'async/detail/when_impl.hpp', 'async/detail/wait_impl.hpp', 'async/when_all.hpp', 'async/when_any.hpp', 'async/join.hpp',
         'async/wait.hpp', 'async/wait_for.hpp', 'async/wait_until.hpp', 'algo/detail/wait_event.hpp',
         'coro/await.hpp', 'coro/await_inline.hpp', 'coro/await_on.hpp', 'coro/await_sticky.hpp', 'coro/detail/await_awaiter.hpp',
         'coro/detail/await_on_awaiter.hpp', 'algo/detail/shared_event.hpp']
INCLUDES = ['yaclib/coro/await.hpp', 'yaclib/coro/await_on.hpp', 'yaclib/coro/await_sticky.hpp',
            'yaclib/async/when_all.hpp', 'yaclib/async/when_any.hpp', 'yaclib/async/join.hpp', 'yaclib/async/wait.hpp',
            'yaclib/async/wait_for.hpp', 'yaclib/async/wait_until.hpp', 'yaclib/async/detail/when_impl.hpp']
LOOPS = ('ForStmt', 'WhileStmt', 'DoStmt', 'CXXForRangeStmt')
FUNCS = ('CXXMethodDecl', 'FunctionDecl', 'CXXConstructorDecl', 'CXXDestructorDecl')
MAKERS = ('MakeShared', 'MakeUnique', 'MakeContract', 'MakeContractOn', 'MakeSharedContract', 'MakeFuture', 'MakeSharedPromise')
VEC_OPS = ('resize', 'reserve', 'push_back', 'emplace_back')


def norm(s):
    return re.sub(r'\s+', '', s)


def _strip(txt):
    txt = re.sub(r'/\*.*?\*/', ' ', txt, flags=re.S)
    return re.sub(r'//[^\n]*', ' ', txt)


def _split_top(s):
    """split at top-level commas (angle / round / square / curly brackets nest)"""
    out, depth, cur = [], 0, ''
    for ch in s:
        if ch in '<([{':
            depth += 1
        elif ch in '>)]}':
            depth -= 1
        if ch == ',' and depth == 0:
            out.append(cur)
            cur = ''
        else:
            cur += ch
    out.append(cur)
    return out


def selections(repo, name='DynamicSharedEvent', home='include/yaclib/algo/detail/shared_event.hpp'):
    """every mention of `name` outside the file that defines it: (file, alias, condition definition, only in the true branch)"""
    out = []
    for root in ('include', 'src'):
        for d, _, fs in sorted(os.walk(os.path.join(repo, root))):
            for f in sorted(fs):
                path = os.path.join(d, f)
                rel = os.path.relpath(path, repo)
                if rel == home or not f.endswith(('.hpp', '.cpp', '.h', '.ipp')):
                    continue
                txt = _strip(open(path, errors='replace').read())
                if name not in txt:
                    continue
                # statements of the file (split at `;` is enough: a using-alias has no inner `;`)
                pos = 0
                for stmt in txt.split(';'):
                    start = pos
                    pos += len(stmt) + 1
                    if name not in stmt:
                        continue
                    m = re.search(r'using\s+(\w+)\s*=\s*std::conditional_t\s*<(.*)>\s*$', stmt, re.S)
                    if not m:
                        raise E('%s: `%s` is named outside a `using X = std::conditional_t<…>` alias: %s' % (
                            rel, name, norm(stmt)[-160:]))
                    alias, args = m.group(1), _split_top(m.group(2))
                    if len(args) != 3:
                        raise E('%s: alias %s: std::conditional_t with %d arguments' % (rel, alias, len(args)))
                    cond, a, b = [norm(x) for x in args]
                    if not re.fullmatch(r'\w+', cond):
                        raise E('%s: alias %s: the condition `%s` is not a named constant' % (rel, alias, cond))
                    # the nearest definition of the condition before the alias
                    defs = list(re.finditer(r'static\s+constexpr\s+(?:auto|bool)\s+%s\s*=\s*([^;]*);' % cond, txt[:start + len(stmt)]))
                    if not defs:
                        raise E('%s: alias %s: no `static constexpr` definition of %s before it' % (rel, alias, cond))
                    out.append((rel[len('include/yaclib/'):] if rel.startswith('include/yaclib/') else rel, alias,
                                norm(defs[-1].group(1)), name in a and name not in b))
    if not out:
        raise E('`%s` is not used anywhere: the translator no longer sees the SharedFuture range path' % name)
    return out


def generate(repo, cfg_include, workdir):
    tu = os.path.join(workdir, 'tu_allocsites.cpp')
    with open(tu, 'w') as f:
        for i in INCLUDES:
            f.write('#include <%s>\n' % i)
    docs = A.dump(tu, 'yaclib', cfg_include, repo=repo)
    funcs = {}

    def rel(path):
        for f in FILES:
            if path and path.endswith('include/yaclib/' + f):
                return f
        return None

    def collect(n, cls):
        k = n.get('kind')
        if k == 'ClassTemplateSpecializationDecl':
            return
        if k in ('CXXRecordDecl', 'ClassTemplateDecl', 'ClassTemplatePartialSpecializationDecl') and n.get('name'):
            cls = n.get('name')
        if k in FUNCS and rel(n.get('_file')) and (A.body(n) is not None or k == 'CXXConstructorDecl'):
            b = n['range']['begin']
            off = b.get('offset') or b.get('expansionLoc', {}).get('offset')
            funcs.setdefault((rel(n.get('_file')), off), (cls, n))
            return
        for c in A.kids(n):
            collect(c, cls)
    for d in docs:
        collect(d, None)
    seen_files = {k[0] for k in funcs}
    for must in ('async/when/when.hpp', 'async/when/all.hpp', 'async/detail/wait_impl.hpp'):
        if must not in seen_files:
            raise E('no function bodies found in %s' % must)
    sites = []
    for (frel, off), (cls, fn) in sorted(funcs.items(), key=lambda x: (x[0][0], x[0][1] or 0)):
        name = (cls + '::' if cls else '') + fn.get('name', '?')
        reserved = []  # normalised base expressions that were reserve()d, in traversal order

        def site(kind, in_loop, base=None):
            sites.append((frel, name, kind, in_loop, base is not None and base in reserved))

        def visit(n, in_loop):
            k = n.get('kind')
            if k in FUNCS or k == 'LambdaExpr' and False:
                return
            if k == 'CXXNewExpr':
                site('new', in_loop)
            if k in ('CallExpr', 'CXXMemberCallExpr', 'CXXOperatorCallExpr'):
                ks = A.kids(n)
                callee = norm(A.text(ks[0])) if ks else ''
                m = re.search(r'(?:^|::|\.|->)(\w+)(?:<.*>)?$', callee)
                cn = m.group(1) if m else ''
                if cn in MAKERS:
                    site(cn, in_loop)
                elif cn in VEC_OPS:
                    base = re.sub(r'(\.|->)%s$' % cn, '', callee)
                    if cn == 'reserve':
                        reserved.append(base)
                    site(cn, in_loop, base if cn in ('push_back', 'emplace_back') else None)
            if k == 'VarDecl' and re.search(r'\b(vector|deque|basic_string|unique_ptr|shared_ptr|function)\s*<', (n.get('type') or {}).get('qualType', '')):
                # a local container / owning pointer constructed from something (a size, a range, a new-expression)
                init = [c for c in A.kids(n) if c.get('kind') not in ('FullComment',)]
                txt = ''.join(norm(A.text(c)) for c in init if 'range' in c)
                if txt and not re.fullmatch(r'(\w+)?(\{\}|\(\))?', txt) and 'std::move' not in txt:
                    site('container_var', in_loop)
            for c in A.kids(n):
                visit(c, in_loop or k in LOOPS)
        b = A.body(fn)
        if b is not None:
            visit(b, False)
        # constructor member initialisers: a std::vector member built with arguments
        if fn.get('kind') == 'CXXConstructorDecl':
            for c in fn.get('inner', []):
                if isinstance(c, dict) and c.get('kind') == 'CXXCtorInitializer':
                    t = norm(A.text(c)) if 'range' in c else ''
                    any_init = c.get('anyInit', {})
                    ty = (any_init.get('type') or {}).get('qualType', '')
                    if 'vector' in ty:
                        args = [x for x in A.kids(c)]
                        txt = ''.join(norm(A.text(x)) for x in args if 'range' in x)
                        if txt and not re.fullmatch(r'\w+(\{\}|\(\))?', txt):
                            sites.append((frel, name, 'vector_ctor', False, False))
    if not any(s[2] in MAKERS for s in sites):
        raise E('no MakeShared/MakeContract site found in the combinators: the translator no longer sees them')
    L = ['/- GENERATED by vlib/x_allocsites.py from /repo on every check run. Do not edit. -/',
         'namespace Yaclib.Extracted.AllocSites', '',
         'structure Site where', '  file : String', '  func : String', '  kind : String', '  inLoop : Bool',
         '  reserved : Bool', 'deriving DecidableEq, Repr', '', 'def sites : List Site := [']
    L += ['  ⟨"%s", "%s", "%s", %s, %s⟩%s' % (f, n.replace('"', "'"), k, str(l).lower(), str(r).lower(), ',' if i < len(sites) - 1 else '')
          for i, (f, n, k, l, r) in enumerate(sites)]
    L += [']', '',
          '/-- a site that can allocate once per loop iteration: inside a loop, and not a push_back into a vector that was',
          '    reserve()d before the loop in the same function -/',
          'def offending : List Site :=',
          '  sites.filter fun s => s.inLoop && !((s.kind == "push_back" || s.kind == "emplace_back") && s.reserved)', '',
          'def countIn (file : String) : Nat := (sites.filter fun s => s.file == file).length', '',
          '/-- number of function bodies the translator walked, per anchored file (non-vacuity of the lists above) -/',
          'def scanned : List (String × Nat) := [%s]' % ', '.join('("%s", %d)' % (f, sum(1 for k in funcs if k[0] == f)) for f in FILES), '',
          '/-- every place that names DynamicSharedEvent (the only allocation site of the co_await / Wait path): the alias that',
          '    selects it, the definition of the selecting constant, and whether it sits in the true branch only -/',
          'structure Selection where', '  file : String', '  alias : String', '  cond : String', '  trueBranchOnly : Bool',
          'deriving DecidableEq, Repr', '',
          'def selections : List Selection := [%s]' % ', '.join(
              '⟨"%s", "%s", "%s", %s⟩' % (f, a, c.replace('"', "'"), str(t).lower()) for f, a, c, t in selections(repo)), '',
          'end Yaclib.Extracted.AllocSites', '']
    return '\n'.join(L)
