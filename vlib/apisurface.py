"""Enumerates the public API surface of the library (for the API instantiation sweep, vlib/apiprobe.py, notes/api_probe.md).

Public = declared in a header under include/yaclib that is not in a `detail/` directory and not under `fault/`, outside of
namespace `detail`, with public access.  Source of truth is the clang-14 JSON AST of a TU that includes every public header.

    python3 -m vlib.apisurface            # table: header, declarations, how many of them the probes mention
    python3 -m vlib.apisurface --missing  # the declarations whose name no probe TU mentions
"""
import json
import os
import re
import subprocess
import sys

from . import common as C

CLANG = 'clang++-14'
DECL_KINDS = {'FunctionDecl', 'FunctionTemplateDecl', 'CXXMethodDecl', 'CXXConstructorDecl', 'CXXConversionDecl', 'CXXRecordDecl',
              'ClassTemplateDecl', 'TypeAliasDecl', 'TypeAliasTemplateDecl', 'VarDecl', 'VarTemplateDecl', 'EnumDecl', 'EnumConstantDecl',
              'FieldDecl'}


def public_headers(repo=None):
    repo = repo or C.REPO
    root = os.path.join(repo, 'include')
    out = []
    for d, dn, fn in os.walk(os.path.join(root, 'yaclib')):
        dn.sort()
        rel = os.path.relpath(d, root)
        parts = rel.split(os.sep)
        if 'detail' in parts or 'fault' in parts:
            continue
        for f in sorted(fn):
            if f.endswith('.hpp'):
                out.append(os.path.join(rel, f))
    return out


def _docs(text):
    dec = json.JSONDecoder()
    i, n = 0, len(text)
    while i < n:
        while i < n and text[i].isspace():
            i += 1
        if i >= n:
            break
        d, i = dec.raw_decode(text, i)
        yield d


def surface(cfg_include, repo=None, std='c++20'):
    """[(header, qualified name, kind, is_template, note)] of the public declarations."""
    repo = repo or C.REPO
    headers = public_headers(repo)
    src = ''.join('#include <%s>\n' % h for h in headers)
    cmd = [CLANG, '-std=' + std, '-fsyntax-only', '-I' + os.path.join(repo, 'include'), '-I' + cfg_include, '-x', 'c++', '-',
           '-Xclang', '-ast-dump=json', '-Xclang', '-ast-dump-filter=yaclib']
    r = subprocess.run(cmd, input=src, capture_output=True, text=True)
    if r.returncode != 0:
        raise RuntimeError('clang failed: ' + r.stderr[-2000:])
    inc = os.path.join(repo, 'include') + os.sep
    found = {}
    cur_file = [None]

    def loc_file(loc):
        if not isinstance(loc, dict):
            return
        for k in ('spellingLoc', 'expansionLoc'):
            if k in loc:
                loc_file(loc[k])
        if 'file' in loc:
            cur_file[0] = loc['file']

    def visit(n, scope, access, templated):
        if not isinstance(n, dict):
            return
        loc_file(n.get('loc'))
        rng = n.get('range') or {}
        kind = n.get('kind')
        name = n.get('name')
        f = cur_file[0]
        here = f[len(inc):] if f and f.startswith(inc) else None
        if kind == 'NamespaceDecl':
            if name == 'detail' or name is None:
                # still have to walk it to keep the file tracking right, but nothing in it is public
                for c in n.get('inner', []):
                    visit(c, scope + ['detail'], 'hidden', False)
                return
            for c in n.get('inner', []):
                visit(c, scope + [name], 'public', False)
            return
        if kind in ('ClassTemplateDecl', 'FunctionTemplateDecl', 'TypeAliasTemplateDecl', 'VarTemplateDecl'):
            record(n, kind, name, here, scope, access, True)
            for c in n.get('inner', []):
                if isinstance(c, dict) and c.get('kind') in ('CXXRecordDecl',):
                    walk_record(c, scope + [name], access)
                # the templated FunctionDecl / specialisations are not separate API
            loc_file(rng.get('end'))
            return
        if kind == 'CXXRecordDecl':
            if n.get('completeDefinition') or not n.get('isImplicit'):
                record(n, kind, name, here, scope, access, templated)
            if n.get('completeDefinition'):
                walk_record(n, scope + [name or '?'], access)
            loc_file(rng.get('end'))
            return
        if kind in DECL_KINDS:
            record(n, kind, name, here, scope, access, templated)
            if kind == 'EnumDecl':
                for c in n.get('inner', []):
                    visit(c, scope + [name or '?'], access, False)
            loc_file(rng.get('end'))
            return
        if kind in ('LinkageSpecDecl', 'TranslationUnitDecl'):
            for c in n.get('inner', []):
                visit(c, scope, access, templated)
            return
        loc_file(rng.get('end'))

    def walk_record(rec, scope, outer_access):
        access = 'public' if rec.get('tagUsed') in ('struct', 'union') else 'private'
        if outer_access != 'public':
            access_base = 'hidden'
        else:
            access_base = None
        for c in rec.get('inner', []):
            if not isinstance(c, dict):
                continue
            if c.get('kind') == 'AccessSpecDecl':
                loc_file(c.get('loc'))
                access = c.get('access', access)
                continue
            if c.get('kind') == 'CXXRecordDecl' and c.get('isImplicit'):
                continue
            visit(c, scope, access_base or access, False)

    def record(n, kind, name, here, scope, access, templated):
        if here is None or access != 'public' or 'detail' in scope or n.get('isImplicit'):
            return
        parts = here.split('/')
        if 'detail' in parts or 'fault' in parts or not here.startswith('yaclib/'):
            return
        if kind in ('CXXRecordDecl',) and not name:
            return
        if kind == 'CXXRecordDecl' and not n.get('completeDefinition') and here.endswith('fwd.hpp') is False:
            return  # forward declaration repeated outside fwd.hpp
        if kind == 'FieldDecl' and name and name.startswith('_'):
            return
        if name is None:
            name = {'CXXConstructorDecl': scope[-1] if scope else '?'}.get(kind, '?')
        if kind == 'CXXMethodDecl' and name.startswith('operator') and n.get('isImplicit'):
            return
        note = ''
        if n.get('explicitlyDeleted'):
            note = 'deleted'
        elif n.get('explicitlyDefaulted'):
            note = 'defaulted'
        q = '::'.join(scope + [name])
        sig = n.get('type', {}).get('qualType', '')
        loc = n.get('loc', {})
        loc = loc.get('expansionLoc', loc)
        key = (here, q, kind, sig, loc.get('offset'))
        if key not in found:
            found[key] = (here, q, kind, templated or kind.endswith('TemplateDecl'), note, sig)

    for d in _docs(r.stdout):
        cur_file[0] = None
        # a filtered document is one declaration with its lexical parents stripped: recover the scope from the qualified dump
        visit_top(d, visit)
    return sorted(found.values())


def visit_top(d, visit):
    # -ast-dump-filter prints each matching declaration as its own document; namespaces themselves match "yaclib",
    # so the NamespaceDecl documents contain everything and the nested matches are duplicates (deduplicated by key)
    if d.get('kind') == 'NamespaceDecl' and d.get('name') in ('yaclib', 'yaclib_std'):
        visit(d, [], 'public', False)


def probe_text():
    out = {}
    hd = os.path.join(C.VERIF, 'harness')
    for f in sorted(os.listdir(hd)):
        if f.startswith('api_probe'):
            out[f] = open(os.path.join(hd, f)).read()
    return out


# declarations that are public by their location but are machinery: instantiated through the API named on the right
INDIRECT = [
    (r'^yaclib::when::(Any|All|AllTuple|Join)$', 'WhenAny / WhenAll / Join'),
    (r'^yaclib::when::', 'WhenAll / WhenAny / Join and when::When with user strategies (api_probe_when2.cpp)'),
    (r'^yaclib::(Shared)?Mutex::Cast$', 'the guard awaiters (co_await mutex.Guard())'),
    (r'^yaclib::IndexOf$', 'index_of_v'), (r'^yaclib::Tail$', 'tail_t'), (r'^yaclib::TranslateIndexImpl$', 'translate_index_v'),
    (r'^yaclib::WrapVoid$', 'wrap_void_t'),
]


def indirect(qname):
    for pat, via in INDIRECT:
        if re.search(pat, qname):
            return via
    return None


def covered(qname, kind, probes):
    """heuristic: the last component of the name occurs as an identifier in a probe TU"""
    last = re.sub(r'<.*$', '', qname.split('::')[-1])  # constructors are named `Future<V, E>`
    if last.startswith('operator'):
        return True  # exercised through expressions
    if last.startswith('~'):
        return True
    pat = re.compile(r'\b%s\b' % re.escape(last))
    return any(pat.search(t) for t in probes.values())


def main(argv):
    lib = C.build_lib('plain')
    rows = surface(os.path.join(lib, 'include'))
    probes = probe_text()
    per = {}
    missing = []
    for (h, q, kind, templ, note, sig) in rows:
        st = per.setdefault(h, {'decls': 0, 'templates': 0, 'covered': 0, 'deleted': 0})
        st['decls'] += 1
        st['templates'] += 1 if templ else 0
        if note == 'deleted':
            st['deleted'] += 1
        if covered(q, kind, probes):
            st['covered'] += 1
        elif indirect(q):
            st['indirect'] = st.get('indirect', 0) + 1
        else:
            missing.append((h, q, kind, sig))
    if '--missing' in argv:
        for m in missing:
            print('%-40s %-22s %s   %s' % (m[0], m[2], m[1], m[3][:60]))
        return 0
    if '--all' in argv:
        for (h, q, kind, templ, note, sig) in rows:
            print('%-40s %-22s %s%s %s  %s' % (h, kind, q, ' [template]' if templ else '', note, sig[:70]))
        return 0
    print('%-44s %6s %9s %8s %7s %9s' % ('header', 'decls', 'templates', 'deleted', 'probed', 'indirect'))
    tot = [0, 0, 0, 0, 0]
    for h in sorted(per):
        st = per[h]
        print('%-44s %6d %9d %8d %7d %9d' % (h, st['decls'], st['templates'], st['deleted'], st['covered'], st.get('indirect', 0)))
        tot = [tot[0] + st['decls'], tot[1] + st['templates'], tot[2] + st['deleted'], tot[3] + st['covered'], tot[4] + st.get('indirect', 0)]
    print('%-44s %6d %9d %8d %7d %9d' % ('TOTAL', *tot))
    print('not mentioned by any probe TU: %d' % len(missing))
    return 0


if __name__ == '__main__':
    sys.exit(main(sys.argv[1:]))
