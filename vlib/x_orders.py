"""T1 translator for C04: every atomic operation site of the library proper with its memory orders.

Generated file: lean/YaclibModel/Extracted/Orders.lean

  structure Site  (file, enclosing function, object expression, operation, occurrence index within the function,
                   success order, failure order)
  def sites : List Site

Orders that are not written at the call site are the C++ defaults (seq_cst; for the one-order CAS forms the
failure order is derived from the success order as the standard says).  A site whose order argument is not a
literal `std::memory_order_*` (e.g. forwarded from a parameter) gets the order `param` and is listed separately.
The translator fails closed: unknown shapes raise ExtractError.
"""
import os

from . import cxxast as A
from . import skel

OPS = {'load', 'store', 'exchange', 'compare_exchange_weak', 'compare_exchange_strong', 'fetch_add', 'fetch_sub',
       'fetch_and', 'fetch_or', 'fetch_xor', 'wait', 'notify_one', 'notify_all'}
VALUE_ARGS = {'load': 0, 'store': 1, 'exchange': 1, 'compare_exchange_weak': 2, 'compare_exchange_strong': 2,
              'fetch_add': 1, 'fetch_sub': 1, 'fetch_and': 1, 'fetch_or': 1, 'fetch_xor': 1}
ORD = {'memory_order_relaxed': 'rlx', 'memory_order_consume': 'con', 'memory_order_acquire': 'acq',
       'memory_order_release': 'rel', 'memory_order_acq_rel': 'acqRel', 'memory_order_seq_cst': 'sc',
       'rlx': 'rlx', 'con': 'con', 'acq': 'acq', 'rel': 'rel', 'acq_rel': 'acqRel', 'sc': 'sc'}

HEADERS = '''#include <yaclib/algo/one_shot_event.hpp>
#include <yaclib/algo/wait_group.hpp>
#include <yaclib/async/connect.hpp>
#include <yaclib/async/contract.hpp>
#include <yaclib/async/future.hpp>
#include <yaclib/async/shared_contract.hpp>
#include <yaclib/async/shared_future.hpp>
#include <yaclib/async/wait.hpp>
#include <yaclib/async/wait_for.hpp>
#include <yaclib/async/wait_until.hpp>
#include <yaclib/async/when_all.hpp>
#include <yaclib/async/when_any.hpp>
#include <yaclib/async/join.hpp>
#include <yaclib/coro/await.hpp>
#include <yaclib/coro/await_on.hpp>
#include <yaclib/coro/mutex.hpp>
#include <yaclib/coro/shared_mutex.hpp>
#include <yaclib/exe/strand.hpp>
#include <yaclib/runtime/fair_thread_pool.hpp>
#include <yaclib/util/detail/spinlock.hpp>
#include <yaclib/util/detail/atomic_counter.hpp>
'''
CPP_FILES = ['src/algo/base_core.cpp', 'src/exe/strand.cpp', 'src/algo/one_shot_event.cpp', 'src/util/mutex_event.cpp',
             'src/runtime/fair_thread_pool.cpp']
# files whose sites are reported (library proper; the fault layer is the scheduler, not a client of the memory model)
SCOPE = ('include/yaclib/algo/', 'include/yaclib/async/', 'include/yaclib/coro/', 'include/yaclib/exe/',
         'include/yaclib/lazy/', 'include/yaclib/runtime/', 'include/yaclib/util/', 'src/algo/', 'src/async/', 'src/exe/',
         'src/lazy/', 'src/runtime/', 'src/util/')


def _member_name(callee):
    c = A.strip(callee)
    k = c.get('kind')
    if k == 'MemberExpr':
        return c.get('name'), (A.kids(c)[0] if A.kids(c) else None)
    if k == 'CXXDependentScopeMemberExpr':
        return c.get('member'), (A.kids(c)[0] if A.kids(c) else None)
    if k == 'UnresolvedMemberExpr':
        t = ''.join(A.text(c).split())
        # obj.name or obj->name
        for sep in ('->', '.'):
            if sep in t:
                return t.rsplit(sep, 1)[1], None
        return t, None
    return None, None


def _order_of(arg):
    a = A.strip(arg)
    if a.get('kind') == 'CXXDefaultArgExpr':
        return None
    s = skel.expr(a)
    s = s.split('::')[-1]
    return ORD.get(s, 'param')


def collect(docs, repo):
    sites = {}
    seen_loc = set()

    def in_scope(f):
        if not f:
            return None
        rel = os.path.relpath(f, repo) if f.startswith(repo) else f
        return rel if rel.startswith(SCOPE) else None

    def visit(n, fn, cls):
        k = n.get('kind')
        if k in ('ClassTemplateSpecializationDecl',):
            return
        if k in ('CXXRecordDecl', 'ClassTemplateDecl', 'ClassTemplatePartialSpecializationDecl') and n.get('name'):
            cls = n.get('name')
        if k in ('CXXMethodDecl', 'FunctionDecl', 'CXXConstructorDecl', 'CXXDestructorDecl') and n.get('name'):
            fn = (cls + '::' if cls and k != 'FunctionDecl' else '') + n['name']
        if k == 'FunctionTemplateDecl':
            first = True
            for c in A.kids(n):
                if c.get('kind') in ('CXXMethodDecl', 'FunctionDecl'):
                    if first:
                        visit(c, fn, cls)
                    first = False
            return
        if k in ('CallExpr', 'CXXMemberCallExpr'):
            ks = A.kids(n)
            if ks:
                name, obj = _member_name(ks[0])
                if name in OPS and name in VALUE_ARGS:
                    f = in_scope(n.get('_file'))
                    b = n['range']['begin']
                    b = b.get('expansionLoc', b)
                    loc = (n.get('_file'), b.get('offset'))
                    if f and loc not in seen_loc and not A.first_token(n).startswith('YACLIB_'):
                        seen_loc.add(loc)
                        args = ks[1:]
                        nval = VALUE_ARGS[name]
                        orders = [_order_of(a) for a in args[nval:]]
                        orders = [o for o in orders if o is not None]
                        if name.startswith('compare_exchange'):
                            if len(orders) == 0:
                                s, fl = 'sc', 'sc'
                            elif len(orders) == 1:
                                s = orders[0]
                                fl = {'acqRel': 'acq', 'rel': 'rlx'}.get(s, s)
                            else:
                                s, fl = orders[0], orders[1]
                        else:
                            s = orders[0] if orders else 'sc'
                            fl = s
                        objtxt = skel.expr(obj) if obj is not None else ''.join(A.text(A.strip(ks[0])).split())
                        objtxt = objtxt.replace('this.', '')
                        sites.setdefault((f, fn or '?'), []).append((b.get('offset'), objtxt, name, s, fl))
            # fences and reads of reference counters through wrappers
            if ks:
                callee = A.strip(ks[0])
                cname = None
                if callee.get('kind') == 'DeclRefExpr':
                    cname = callee.get('referencedDecl', {}).get('name')
                elif callee.get('kind') == 'UnresolvedLookupExpr':
                    cname = callee.get('name')
                mname, mobj = _member_name(ks[0])
                rec = None
                if cname == 'atomic_thread_fence' and len(ks) >= 2:
                    rec = ('', 'fence', _order_of(ks[1]) or 'sc')
                elif mname == 'GetRef' and len(ks) == 1:
                    rec = (skel.expr(mobj).replace('this.', '') if mobj is not None else 'this', 'GetRef', 'GETREF')
                elif mname == 'Get' and len(ks) == 2 and _order_of(ks[1]) not in (None, 'param'):
                    rec = (skel.expr(mobj).replace('this.', '') if mobj is not None else 'this', 'Get', _order_of(ks[1]))
                elif mname == 'Get' and len(ks) == 1 and fn and fn.endswith('::GetRef'):
                    rec = ('this', 'Get', 'GETDEFAULT')
                if rec is not None:
                    f = in_scope(n.get('_file'))
                    b = n['range']['begin']
                    b = b.get('expansionLoc', b)
                    loc = (n.get('_file'), b.get('offset'), 'w')
                    if f and loc not in seen_loc and not A.first_token(n).startswith('YACLIB_'):
                        seen_loc.add(loc)
                        sites.setdefault((f, fn or '?'), []).append((b.get('offset'), rec[0], rec[1], rec[2], rec[2]))
        if k == 'ParmVarDecl' and fn and fn.endswith('AtomicCounter::Get'):
            for c in A.kids(n):
                o = _order_of(c)
                if o not in (None, 'param'):
                    defaults['Get'] = o
        for c in A.kids(n):
            visit(c, fn, cls)

    defaults = {}
    for d in docs:
        visit(d, None, None)
    # resolve the effective order of GetRef(): Helper::GetRef -> this->Get() -> default argument of AtomicCounter::Get
    getdef = defaults.get('Get')
    getref = None
    strength = {'rlx': 0, 'con': 1, 'acq': 2, 'rel': 0, 'acqRel': 2, 'sc': 2, 'param': 0}
    for (f, fn), lst in sites.items():
        if fn.endswith('::GetRef'):
            for (_, obj, op, s, fl) in lst:
                if op == 'Get':
                    o = getdef if s == 'GETDEFAULT' else s
                    # several implementations of GetRef (Helper, coroutine PromiseType): the weakest one counts
                    if o is not None and (getref is None or strength.get(o, 0) < strength.get(getref, 0)):
                        getref = o
    for key, lst in sites.items():
        for i, (off, obj, op, s, fl) in enumerate(lst):
            if s == 'GETDEFAULT':
                if getdef is None:
                    raise A.ExtractError('default order of AtomicCounter::Get not found')
                lst[i] = (off, obj, op, getdef, getdef)
            elif s == 'GETREF':
                if getref is None:
                    raise A.ExtractError('effective order of Helper::GetRef not found')
                lst[i] = (off, obj, op, getref, getref)
    out = []
    for (f, fn), lst in sorted(sites.items()):
        lst.sort()
        counts = {}
        for (_, obj, op, s, fl) in lst:
            key = (obj, op)
            i = counts.get(key, 0)
            counts[key] = i + 1
            out.append((f, fn, obj, op, i, s, fl))
    return out


def generate(repo, cfg_include, workdir):
    docs = []
    tu = os.path.join(workdir, 'tu_orders.cpp')
    with open(tu, 'w') as f:
        f.write(HEADERS)
    docs += A.dump(tu, 'yaclib::', cfg_include, repo=repo)
    for c in CPP_FILES:
        p = os.path.join(repo, c)
        if os.path.exists(p):
            docs += A.dump(p, 'yaclib::', cfg_include, repo=repo)
    sites = collect(docs, repo)
    if not sites:
        raise A.ExtractError('no atomic sites found')
    lines = ['/- GENERATED by vlib/x_orders.py from /repo on every check run. Do not edit. -/',
             'import YaclibModel.Base.Order', '', 'namespace Yaclib.Extracted.Orders', 'open Yaclib', '',
             'def sites : List Site := [']
    rows = []
    for (f, fn, obj, op, i, s, fl) in sites:
        rows.append('  { file := %s, fn := %s, obj := %s, op := %s, idx := %d, succ := .%s, fail := .%s }' %
                    (_q(f), _q(fn), _q(obj), _q(op), i, s, fl))
    lines.append(',\n'.join(rows))
    lines += [']', '', 'end Yaclib.Extracted.Orders', '']
    return '\n'.join(lines), sites


def _q(s):
    return '"' + s.replace('\\', '\\\\').replace('"', '\\"') + '"'
