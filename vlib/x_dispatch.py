"""T1 translator for the pipeline model: the `if constexpr` decision tables of yaclib::detail::Core (core.hpp),
BaseCore::TransferExecutorTo (base_core.hpp), ResultState (result.hpp) and the CoreType flag sets the pipeline API
(future.hpp, task.hpp, run.hpp, schedule.hpp) passes to SetCallback / MakeCore.

Generated file: lean/YaclibModel/Extracted/Dispatch.lean.  `Model/Pipeline.lean` *uses* these definitions, so an edit of
the routing in core.hpp changes the model and breaks the theorems of Props/C02, C03, C05, C12.

The clang JSON AST locates the functions, the `if` / `if constexpr` statements and their branches; conditions are
translated from their source text by a small boolean-expression parser over a fixed vocabulary of atoms.  Anything
outside the expected shape raises ExtractError (fail closed: the check reports a broken tie, never a default).
"""
import os
import re

from . import cxxast as A

E = A.ExtractError
FUNC_KINDS = ('CXXMethodDecl', 'FunctionDecl', 'CXXConstructorDecl', 'CXXDestructorDecl')


# generate() returns Dispatch.lean followed, after a line starting with SPLIT + <relative path>, by further generated modules
SPLIT = '-- ==== generated file: '


def norm(s):
    return re.sub(r'\s+', '', s)


def find_funcs(docs, name, suffix):
    out = []

    def visit(n):
        if n.get('kind') in FUNC_KINDS and n.get('name') == name and A.body(n) is not None and \
                (n.get('_file') or '').endswith(suffix):
            out.append(n)
            return
        if n.get('kind') == 'ClassTemplateSpecializationDecl':
            return
        for c in A.kids(n):
            visit(c)
    for d in docs:
        visit(d)
    # de-duplicate by source range (template patterns are repeated by instantiations)
    seen, res = set(), []
    for n in out:
        b = n['range']['begin']
        key = (b.get('offset') or b.get('expansionLoc', {}).get('offset'), norm(A.text(A.body(n))))
        if key not in seen:
            seen.add(key)
            res.append(n)
    return res


def one_func(docs, name, suffix):
    fs = find_funcs(docs, name, suffix)
    texts = {norm(A.text(A.body(f))) for f in fs}
    if len(texts) != 1:
        raise E('expected exactly one body of %s in *%s, found %d' % (name, suffix, len(texts)))
    return fs[0]


def stmts(n):
    """statements of a compound statement without assertion stubs"""
    if n.get('kind') == 'CXXTryStmt':
        n = A.kids(n)[0]
    if n.get('kind') != 'CompoundStmt':
        return [n]
    return [c for c in A.kids(n) if not A.is_assert_stub(c) and c.get('kind') != 'NullStmt']


def if_parts(n):
    """(is_constexpr, cond node, then node, else node or None)"""
    if n.get('kind') != 'IfStmt':
        raise E('expected an if statement, found %s `%s`' % (n.get('kind'), norm(A.text(n))[:80]))
    cs = A.kids(n)
    if n.get('hasInit') or n.get('hasVar'):
        raise E('if with init/condition variable is not expected here')
    return bool(n.get('isConstexpr')), cs[0], cs[1], (cs[2] if n.get('hasElse') and len(cs) > 2 else None)


def ntext(n):
    return norm(A.text(n)).rstrip(';')


def body_text(n):
    """normalised text of a branch without braces and assertion stubs"""
    return ''.join(ntext(s) + ';' for s in stmts(n))


# ------------------------------------------------------------------------------------------------ boolean expressions
def tokenize(s):
    toks = []
    i, n = 0, len(s)
    while i < n:
        c = s[i]
        if s.startswith('||', i) or s.startswith('&&', i) or s.startswith('!=', i) or s.startswith('==', i):
            toks.append(s[i:i + 2])
            i += 2
        elif c in '!()':
            toks.append(c)
            i += 1
        elif c.isalnum() or c in '_:':
            j = i
            depth = 0
            while j < n:
                d = s[j]
                if d == '<':
                    depth += 1
                elif d == '>':
                    if depth == 0:
                        break
                    depth -= 1
                elif depth == 0 and not (d.isalnum() or d in '_:'):
                    # call arguments belong to the atom: IsRun(Type)
                    if d == '(' and j > i:
                        k = j
                        pd = 0
                        while k < n:
                            if s[k] == '(':
                                pd += 1
                            elif s[k] == ')':
                                pd -= 1
                                if pd == 0:
                                    break
                            k += 1
                        j = k + 1
                        continue
                    break
                j += 1
            toks.append(s[i:j])
            i = j
        else:
            raise E('unexpected character %r in condition `%s`' % (c, s))
    return toks


class BoolParser:
    def __init__(self, text, atoms):
        self.src = text
        self.t = tokenize(norm(text))
        self.i = 0
        self.atoms = atoms
        self.used = []

    def peek(self):
        return self.t[self.i] if self.i < len(self.t) else None

    def eat(self, x=None):
        tok = self.peek()
        if tok is None or (x is not None and tok != x):
            raise E('parse error in condition `%s` at token %s' % (self.src, tok))
        self.i += 1
        return tok

    def parse(self):
        e = self.p_or()
        if self.peek() is not None:
            raise E('trailing tokens in condition `%s`' % self.src)
        return e

    def p_or(self):
        e = self.p_and()
        while self.peek() == '||':
            self.eat()
            e = '(%s || %s)' % (e, self.p_and())
        return e

    def p_and(self):
        e = self.p_un()
        while self.peek() == '&&':
            self.eat()
            e = '(%s && %s)' % (e, self.p_un())
        return e

    def p_un(self):
        tok = self.peek()
        if tok == '!':
            self.eat()
            return '(!%s)' % self.p_un()
        if tok == '(':
            self.eat()
            e = self.p_or()
            self.eat(')')
            return e
        a = self.eat()
        if self.peek() in ('!=', '=='):
            a = a + self.eat() + self.eat()
        if a not in self.atoms:
            raise E('unknown atom `%s` in condition `%s`' % (a, self.src))
        self.used.append(a)
        return self.atoms[a]


def to_lean(text, atoms):
    p = BoolParser(text, atoms)
    e = p.parse()
    if e.startswith('(') and e.endswith(')'):
        # strip one level of outer parentheses when balanced
        depth = 0
        ok = True
        for i, c in enumerate(e):
            depth += c == '('
            depth -= c == ')'
            if depth == 0 and i < len(e) - 1:
                ok = False
                break
        if ok:
            e = e[1:-1]
    return e, p.used


# ------------------------------------------------------------------------------------------------ the translator
FLAG_NAMES = ['None', 'Run', 'Detach', 'FromUnique', 'FromShared', 'ToUnique', 'ToShared', 'Call', 'Lazy']
TYPE_ATOMS = {'IsRun(Type)': 'isRun t', 'IsDetach(Type)': 'isDetach t', 'IsFromUnique(Type)': 'isFromUnique t',
              'IsFromShared(Type)': 'isFromShared t', 'IsToShared(Type)': 'isToShared t', 'IsToUnique(Type)': 'isToUnique t',
              'IsCall(Type)': 'isCall t', 'IsLazy(Type)': 'isLazy t', 'kAsync!=AsyncType::None': 'kAsync', 'Async': 'async'}
ARG_CLASS = {'Result<V,E>': 'result', 'V': 'value', 'E': 'error', 'std::exception_ptr': 'exception', 'Unit': 'unit'}
STATES = {'ResultState::Value': '.value', 'ResultState::Exception': '.exception', 'ResultState::Error': '.error',
          'ResultState::Empty': '.empty'}


def flag_expr(text):
    """`CoreType::ToUnique | CoreType::Call` -> Lean"""
    parts = norm(text).split('|')
    out = []
    for p in parts:
        m = re.fullmatch(r'(?:detail::)?CoreType::(\w+)', p)
        if not m or m.group(1) not in FLAG_NAMES:
            raise E('unexpected CoreType expression `%s`' % text)
        out.append('ct' + m.group(1))
    return ' ||| '.join(out)


def coret_of(func, var='CoreT'):
    vs = A.find_all(func, lambda n: n.get('kind') == 'VarDecl' and n.get('name') == var)
    texts = set()
    for v in vs:
        init = [c for c in A.kids(v) if not c.get('kind', '').endswith('Attr')]
        if not init:
            raise E('%s without initialiser in %s' % (var, func.get('name')))
        texts.add(norm(A.text(init[0])))
    if len(texts) != 1:
        raise E('expected one `%s` in %s, found %s' % (var, func.get('name'), sorted(texts)))
    return texts.pop()


FILTERS = ['yaclib::detail::PromiseCore', 'yaclib::detail::CoreType', 'yaclib::detail::Is', 'yaclib::ResultState', 'yaclib::detail::Tag', 'yaclib::detail::Core',
           'yaclib::detail::BaseCore', 'yaclib::Future', 'yaclib::Task', 'yaclib::detail::Run', 'yaclib::detail::Schedule',
           'yaclib::detail::SetCallback']


class _Dumps:
    def __init__(self, tu, cfg_include, repo):
        from concurrent.futures import ThreadPoolExecutor
        with ThreadPoolExecutor(max_workers=len(FILTERS)) as ex:
            futs = {f: ex.submit(A.dump, tu, f, cfg_include, repo) for f in FILTERS}
            self.d = {}
            for f, fu in futs.items():
                self.d[f] = fu.result()

    def __call__(self, flt):
        return self.d[flt]


def _strip_comments(txt):
    txt = re.sub(r'/\*.*?\*/', ' ', txt, flags=re.S)
    return re.sub(r'//[^\n]*', ' ', txt)


def _angle_args(txt, pos):
    """txt[pos] == '<': the text between it and its matching '>'"""
    depth = 0
    for i in range(pos, len(txt)):
        if txt[i] == '<':
            depth += 1
        elif txt[i] == '>':
            depth -= 1
            if depth == 0:
                return txt[pos + 1:i]
    raise E('unbalanced template argument list')


def invocable_probes(repo):
    """The class of a callback is decided by `is_invocable_v<Func, X>` probes (core.hpp) that go through detail::IsInvocable
    (util/detail/type_traits_impl.hpp).  Extracted at text level, fail closed: every definition (primary template and
    specializations) of IsInvocable / Invoke with what it evaluates to, the two aliases of util/type_traits.hpp, and the set of
    probes core.hpp makes.  A probe names a TYPE (no reference): std::is_invocable then asks for an rvalue of it, which is what
    the core passes for unique futures (MoveOrConst<true> / Result{StopTag{}} / std::move(r).Value()).  A new specialization
    (seeded r3b-4 probes Result<V,E> as an LVALUE) changes `isInvocableDefs`."""
    def read(rel):
        try:
            return _strip_comments(open(os.path.join(repo, rel)).read())
        except OSError as e:
            raise E('cannot read %s: %s' % (rel, e))
    tti = read('include/yaclib/util/detail/type_traits_impl.hpp')
    defs = []
    pat = re.compile(r'template\s*<([^{};]*?)>\s*struct\s+(IsInvocable|Invoke)\b\s*(<[^{};]*>)?\s*(?:final\s*)?\{([^{}]*)\}\s*;', re.S)
    for m in pat.finditer(tti):
        defs.append((m.group(2), norm(m.group(3) or '(primary)'), norm(m.group(4))))
    for name in ('IsInvocable', 'Invoke'):
        n_def = sum(1 for d in defs if d[0] == name)
        n_txt = len(re.findall(r'\bstruct\s+%s\b' % name, tti))
        if n_def != n_txt or n_def == 0:
            raise E('type_traits_impl.hpp: %d `struct %s` but %d parsed definitions (new shape)' % (n_txt, name, n_def))
    if len(re.findall(r'\bIsInvocable\b', tti)) != sum(1 for d in defs if d[0] == 'IsInvocable'):
        raise E('type_traits_impl.hpp: IsInvocable is mentioned outside its own definitions')
    tt = read('include/yaclib/util/type_traits.hpp')
    a1 = re.findall(r'inline\s+constexpr\s+bool\s+is_invocable_v\s*=\s*([^;]*);', tt)
    a2 = re.findall(r'using\s+invoke_t\s*=\s*([^;]*);', tt)
    if len(a1) != 1 or len(a2) != 1:
        raise E('type_traits.hpp: is_invocable_v / invoke_t are no longer defined exactly once')
    core = read('include/yaclib/algo/detail/core.hpp')
    probes = set()
    for m in re.finditer(r'\bis_invocable_v\s*<', core):
        probes.add(norm(_angle_args(core, m.end() - 1)))
    if 'std::is_invocable' in core or 'IsInvocable' in core:
        raise E('core.hpp probes invocability without is_invocable_v')
    q = lambda x: '"' + x.replace('\\', '\\\\').replace('"', '\\"') + '"'
    return ['/-! callback classification probes (util/detail/type_traits_impl.hpp, util/type_traits.hpp, core.hpp) -/',
            'def isInvocableDefs : List (String × String × String) := [%s]' % ', '.join('(%s, %s, %s)' % (q(a), q(b), q(c)) for a, b, c in defs),
            'def isInvocableAlias : String := %s' % q(norm(a1[0])),
            'def invokeAlias : String := %s' % q(norm(a2[0])),
            'def coreProbes : List String := [%s]' % ', '.join(q(x) for x in sorted(probes)), '']


def generate(repo, cfg_include, workdir):
    tu = os.path.join(workdir, 'tu_dispatch.cpp')
    with open(tu, 'w') as f:
        f.write('#include <yaclib/algo/detail/core.hpp>\n#include <yaclib/async/future.hpp>\n#include <yaclib/async/run.hpp>\n'
                '#include <yaclib/lazy/task.hpp>\n#include <yaclib/lazy/schedule.hpp>\n#include <yaclib/util/result.hpp>\n')
    D = _Dumps(tu, cfg_include, repo)
    L = ['/- GENERATED by vlib/x_dispatch.py from /repo on every check run. Do not edit.',
         '   Decision tables of yaclib::detail::Core (core.hpp), TransferExecutorTo (base_core.hpp), ResultState (result.hpp)',
         '   and the CoreType flag sets the pipeline API passes to SetCallback / MakeCore. -/',
         'namespace Yaclib.Extracted.Dispatch', '']

    # ---- CoreType
    docs = D('yaclib::detail::CoreType')
    enums = [d for d in docs if d.get('kind') == 'EnumDecl' and d.get('name') == 'CoreType']
    if len(enums) != 1:
        raise E('enum CoreType not found')
    consts = [(c.get('name'), A.kids(c)) for c in A.kids(enums[0]) if c.get('kind') == 'EnumConstantDecl']
    if [n for n, _ in consts] != FLAG_NAMES:
        raise E('CoreType enumerators changed: %s' % [n for n, _ in consts])
    L.append('/-! CoreType enumerators (core.hpp) -/')
    for n, ks in consts:
        if not ks or ks[0].get('value') is None:
            raise E('no constant value for CoreType::%s' % n)
        L.append('def ct%s : Nat := %d' % (n, int(ks[0]['value'])))
    L.append('')
    for n in FLAG_NAMES[1:]:
        docs = D('yaclib::detail::Is')
        f = one_func(docs, 'Is' + n, 'detail/core.hpp')
        want = '{returnstatic_cast<bool>(type&CoreType::%s);}' % n
        if ntext(A.body(f)) != want:
            raise E('Is%s is no longer `%s`' % (n, want))
        L.append('def is%s (t : Nat) : Bool := (t &&& ct%s) != 0' % (n, n))
    L.append('')

    # ---- ResultState
    docs = D('yaclib::ResultState')
    enums = [d for d in docs if d.get('kind') == 'EnumDecl' and d.get('name') == 'ResultState']
    if len(enums) != 1:
        raise E('enum ResultState not found')
    rs = [(c.get('name'), A.find_all(c, lambda n: n.get('kind') == 'ConstantExpr')) for c in A.kids(enums[0])
          if c.get('kind') == 'EnumConstantDecl']
    if [n for n, _ in rs] != ['Value', 'Exception', 'Error', 'Empty']:
        raise E('ResultState enumerators changed: %s' % [n for n, _ in rs])
    L += ['/-! ResultState (result.hpp) -/', 'inductive ResultState | value | exception | error | empty',
          'deriving DecidableEq, Repr', 'def resultStateIndex : ResultState → Nat']
    for n, ce in rs:
        if not ce or ce[0].get('value') is None:
            raise E('no constant value for ResultState::%s' % n)
        L.append('  | .%s => %d' % (n.lower(), int(ce[0]['value'])))
    L.append('')

    # ---- Tag()
    docs = D('yaclib::detail::Tag')
    f = one_func(docs, 'Tag', 'detail/core.hpp')
    st = stmts(A.body(f))
    if len(st) != 1:
        raise E('Tag(): expected a single if-constexpr chain')
    chain = []
    cur = st[0]
    default = None
    while True:
        cx, cond, then, els = if_parts(cur)
        if not cx:
            raise E('Tag(): plain `if` in the chain')
        m = re.fullmatch(r'is_invocable_v<Func,(.+)>', ntext(cond))
        if not m or m.group(1) not in ARG_CLASS:
            raise E('Tag(): unexpected condition `%s`' % ntext(cond))
        r = re.fullmatch(r'return(\d+);', body_text(then))
        if not r:
            raise E('Tag(): unexpected branch `%s`' % body_text(then))
        chain.append((ARG_CLASS[m.group(1)], int(r.group(1))))
        if els is None:
            raise E('Tag(): chain without final else')
        if els.get('kind') == 'IfStmt':
            cur = els
            continue
        r = re.fullmatch(r'return(\d+);', body_text(els))
        if not r:
            raise E('Tag(): unexpected default `%s`' % body_text(els))
        default = int(r.group(1))
        break
    L += ['/-! Tag(): order of the `if constexpr (is_invocable_v<Func, …>)` chain -/',
          'inductive ArgClass | result | value | error | exception | unit', 'deriving DecidableEq, Repr',
          'def tagOrder : List (ArgClass × Nat) := [%s]' % ', '.join('(.%s, %d)' % c for c in chain),
          'def tagDefault : Nat := %d' % default, '']

    # ---- Core members
    core = D('yaclib::detail::Core')

    # Call()
    f = one_func(core, 'Call', 'detail/core.hpp')
    st = stmts(A.body(f))
    if len(st) != 1:
        raise E('Core::Call: unexpected shape')
    cx, cond, then, els = if_parts(st[0])
    if not cx or ntext(cond) != 'IsRun(Type)' or els is None:
        raise E('Core::Call: outer condition is no longer `if constexpr (IsRun(Type))`')
    ts = stmts(then)
    if len(ts) != 1:
        raise E('Core::Call: Run branch changed')
    cx2, cond2, then2, els2 = if_parts(ts[0])
    if not cx2 or ntext(cond2) != 'is_invocable_v<Invoke>' or els2 is None or \
            body_text(then2) != 'Loop(this,CallImpl<false>(Unit{}));' or \
            body_text(els2) != 'Loop(this,CallImpl<false>(Result<Arg,E>{Unit{}}));':
        raise E('Core::Call: Run branch changed: `%s`' % ntext(ts[0]))
    if body_text(els) != 'auto&core=DownCast<ResultCore<Arg,E>>(*this->_self.caller);' \
                         'Loop(this,CallImpl<false>(core.templateMoveOrConst<IsFromUnique(Type)>()));':
        raise E('Core::Call: continuation branch changed: `%s`' % body_text(els))
    L += ['/-! Core::Call(): what a Run-type core passes to CallImpl -/',
          'def callPassesUnit (isRunT invNoArg : Bool) : Bool := isRunT && invNoArg', '']

    # Drop()
    f = one_func(core, 'Drop', 'detail/core.hpp')
    if body_text(A.body(f)) != 'Loop(this,CallImpl<false>(Result<Arg,E>{StopTag{}}));':
        raise E('Core::Drop changed: `%s`' % body_text(A.body(f)))
    L += ['/-! Core::Drop(): CallImpl(Result<Arg, E>{StopTag{}}) -/', 'inductive DropInput | stopTag', 'deriving DecidableEq, Repr',
          'def dropInput : DropInput := .stopTag', '']

    # CallImpl
    f = one_func(core, 'CallImpl', 'detail/core.hpp')
    b = A.body(f)
    if b.get('kind') != 'CXXTryStmt':
        raise E('Core::CallImpl is no longer a function-try-block')
    handlers = A.kids(b)[1:]
    if len(handlers) != 1 or body_text(A.kids(handlers[0])[-1]) != 'returnDone<SymmetricTransfer>(std::current_exception());':
        raise E('Core::CallImpl: handler changed')
    hk = [c for c in A.kids(handlers[0]) if c.get('kind') == 'VarDecl']
    if hk:
        raise E('Core::CallImpl: handler is no longer catch (...)')
    st = stmts(b)
    if len(st) != 1:
        raise E('Core::CallImpl: unexpected shape')
    cx, cond, then, els = if_parts(st[0])
    e, used = to_lean(A.text(cond), {'std::is_same_v<T,Unit>': 'tIsUnit', 'is_invocable_v<Invoke,Result<Arg,E>>': 'invResult'})
    if not cx or els is None or body_text(then) != 'returnCallResolveAsync<SymmetricTransfer>(std::forward<T>(r));' or \
            body_text(els) != 'returnCallResolveState<SymmetricTransfer>(std::forward<T>(r));':
        raise E('Core::CallImpl: branches changed')
    L += ['/-! Core::CallImpl: `if constexpr (cond) CallResolveAsync(r) else CallResolveState(r)`; catch (...) => Done(current_exception) -/',
          'def callImplDirect (tIsUnit invResult : Bool) : Bool := %s' % e, 'def callImplCatchesAll : Bool := true', '']

    # CallResolveState
    f = one_func(core, 'CallResolveState', 'detail/core.hpp')
    st = stmts(A.body(f))
    if len(st) != 2 or ntext(st[0]) != 'constautostate=r.State()':
        raise E('Core::CallResolveState: unexpected shape `%s`' % (ntext(st[0]) if st else ''))
    cx, cond, then, els = if_parts(st[1])
    if not cx or els is None:
        raise E('Core::CallResolveState: outer if constexpr changed')
    e_val, _ = to_lean(A.text(cond), {'is_invocable_v<Invoke,Arg>': 'invArg', 'std::is_void_v<Arg>': 'argVoid',
                                      'is_invocable_v<Invoke,Unit>': 'invUnit'})
    # value branch: if / else if / else over the state
    acts = {'returnCallResolveAsync<SymmetricTransfer>(std::forward<Result>(r).Value());': '.call',
            'returnDone<SymmetricTransfer>(std::forward<Result>(r).Exception());': '.doneException',
            'returnDone<SymmetricTransfer>(std::forward<Result>(r).Error());': '.doneError'}
    ts = stmts(then)
    if len(ts) != 1:
        raise E('Core::CallResolveState: value branch changed')
    parts = []
    cur = ts[0]
    while True:
        cx2, c2, t2, e2 = if_parts(cur)
        m = re.fullmatch(r'state==(ResultState::\w+)', ntext(c2))
        if cx2 or not m or m.group(1) not in STATES or body_text(t2) not in acts or e2 is None:
            raise E('Core::CallResolveState: value branch changed: `%s`' % ntext(cur)[:120])
        parts.append((STATES[m.group(1)], acts[body_text(t2)]))
        if e2.get('kind') == 'IfStmt':
            cur = e2
            continue
        if body_text(e2) not in acts:
            raise E('Core::CallResolveState: value branch default changed: `%s`' % body_text(e2))
        last = acts[body_text(e2)]
        break
    rv = ' else '.join('if st == %s then %s' % p for p in parts) + ' else ' + last
    # recovery branch
    es = stmts(els)
    want = ['constexprboolkIsException=is_invocable_v<Invoke,std::exception_ptr>',
            'constexprboolkIsError=is_invocable_v<Invoke,E>', None,
            'constexprautokState=kIsException?ResultState::Exception:ResultState::Error', None,
            'returnDone<SymmetricTransfer>(std::move(r))']
    if len(es) != 6 or any(w is not None and ntext(s) != w for w, s in zip(want, es)) or \
            es[2].get('kind') != 'DeclStmt' or 'kIsException^kIsError' not in ntext(es[2]):
        raise E('Core::CallResolveState: recovery branch changed: %s' % [ntext(s)[:70] for s in es])
    cx3, c3, t3, e3 = if_parts(es[4])
    if cx3 or ntext(c3) != 'state==kState' or e3 is not None or \
            body_text(t3) != 'usingT=std::conditional_t<kIsException,std::exception_ptr,E>;' \
                             'returnCallResolveAsync<SymmetricTransfer>(std::get<T>(std::forward<Result>(r).Internal()));':
        raise E('Core::CallResolveState: recovery test changed: `%s`' % body_text(t3))
    L += ['/-! Core::CallResolveState -/', 'inductive Action | call | doneException | doneError | doneResult',
          'deriving DecidableEq, Repr',
          'def valueCallback (invArg argVoid invUnit : Bool) : Bool := %s' % e_val,
          'def resolveValue (st : ResultState) : Action :=', '  ' + rv,
          'def recoveryState (kIsException : Bool) : ResultState := if kIsException then .exception else .error',
          'def resolveRecovery (kIsException : Bool) (st : ResultState) : Action :=',
          '  if st == recoveryState kIsException then .call else .doneResult', '']

    # Done: every statement is recognised on its own (anything else fails closed); their ORDER is extracted as data
    # (`doneSteps`), so that the teardown rule "the functor is destroyed before the result is published" is a theorem with
    # a name (Props/C03 `functor_destroyed_before_publish`, `done_teardown_order`) instead of a translator failure
    f = one_func(core, 'Done', 'detail/core.hpp')
    st = stmts(A.body(f))
    steps = []
    e_dec = e_fun = None
    via_local = False
    for s_ in st:
        t_ = ntext(s_)
        if t_ == 'auto*caller=this->_self.caller':
            steps.append('saveCaller')
        elif t_ == 'this->Store(std::forward<T>(value))':
            steps.append('store')
        elif t_ == 'returnthis->templateSetResult<SymmetricTransfer>()':
            steps += ['publish', 'ret']
        elif t_ == 'autonext=this->templateSetResult<SymmetricTransfer>()':
            steps.append('publish')
            via_local = True
        elif t_ == 'returnnext' and via_local:
            steps.append('ret')
        elif s_.get('kind') == 'IfStmt':
            cx, cond, then, els = if_parts(s_)
            if not cx or els is not None:
                raise E('Core::Done: unexpected if statement `%s`' % t_[:80])
            if body_text(then) == 'caller->DecRef();':
                e_dec, _ = to_lean(A.text(cond), TYPE_ATOMS)
                steps.append('releaseCaller')
            elif body_text(then) == 'this->_func.storage.~Storage();':
                e_fun, _ = to_lean(A.text(cond), TYPE_ATOMS)
                steps.append('destroyFunctor')
            else:
                raise E('Core::Done: unexpected conditional statement `%s`' % t_[:80])
        else:
            raise E('Core::Done: unknown statement `%s`' % t_[:80])
    names = ['saveCaller', 'store', 'releaseCaller', 'destroyFunctor', 'publish', 'ret']
    if sorted(steps) != sorted(names) or steps[-1] != 'ret' or steps.index('saveCaller') > steps.index('releaseCaller'):
        raise E('Core::Done: statements changed: %s' % [ntext(s_)[:60] for s_ in st])
    L += ['/-! Core::Done -/', 'def doneDecRef (t : Nat) (kAsync async : Bool) : Bool :=', '  ' + e_dec,
          'def doneDestroysFunctor (async : Bool) : Bool := %s' % e_fun, '']
    # a module of its own (only Props/C03 imports it): a change of the order does not rebuild the pipeline proofs
    L2 = [SPLIT + 'YaclibModel/Extracted/DoneOrder.lean',
          '/- GENERATED by vlib/x_dispatch.py from /repo on every check run. Do not edit.',
          '   The statements of yaclib::detail::Core::Done (core.hpp) in source order. -/',
          'namespace Yaclib.Extracted.DoneOrder', '',
          'inductive DoneStep | saveCaller | store | releaseCaller | destroyFunctor | publish | ret',
          'deriving DecidableEq, Repr', '',
          'def doneSteps : List DoneStep := [%s]' % ', '.join('.' + x for x in steps), '',
          'end Yaclib.Extracted.DoneOrder', '']

    # Impl
    f = one_func(core, 'Impl', 'detail/core.hpp')
    st = stmts(A.body(f))
    if len(st) != 2 or not ntext(st[0]).replace('[[maybe_unused]]', '').startswith('autoasync_done=[&]'):
        raise E('Core::Impl: unexpected shape')
    lam = A.find_all(st[0], lambda n: n.get('kind') == 'LambdaExpr')
    lb = [c for c in A.kids(lam[0]) if c.get('kind') == 'CompoundStmt'][-1]
    if body_text(lb) != 'staticconstexprboolAsyncShared=kAsync==AsyncType::Shared;' \
                        'auto&core=DownCast<ResultCore<Ret,E>>(*this->_self.caller);' \
                        'returnDone<SymmetricTransfer,true>(core.templateMoveOrConst<!AsyncShared>());':
        raise E('Core::Impl: async_done changed: `%s`' % body_text(lb))
    cx, cond, then, els = if_parts(st[1])
    if not cx or ntext(cond) != 'IsRun(Type)' or els is None:
        raise E('Core::Impl: Run branch changed')
    # a Run-type core is entered through Here/Next (a) when its own async result completes, (b) as the head of a Task
    # that a continuation returned (or a coroutine awaits)
    rs = stmts(then)
    if body_text(then) == 'returnasync_done();':
        run_entry = '.asyncDoneOnly'
    elif len(rs) == 3 and ntext(rs[1]) == 'this->_executor->Submit(*this)' and ntext(rs[2]) == 'returnNoop<SymmetricTransfer>()':
        cxr, cr, tr, er = if_parts(rs[0])
        ir = stmts(tr)
        if not cxr or ntext(cr) != 'kAsync!=AsyncType::None' or er is not None or len(ir) != 1:
            raise E('Core::Impl: Run branch changed: `%s`' % ntext(rs[0])[:120])
        cx2, c2, t2, e2 = if_parts(ir[0])
        if cx2 or ntext(c2) != 'this->_self.caller!=nullptr' or body_text(t2) != 'returnasync_done();' or e2 is not None:
            raise E('Core::Impl: Run branch changed: `%s`' % ntext(ir[0])[:120])
        run_entry = '.asyncDoneIfCallerElseSubmit'
    else:
        raise E('Core::Impl: Run branch changed: `%s`' % body_text(then)[:160])
    es = stmts(els)
    if len(es) != 5:
        raise E('Core::Impl: continuation branch changed: %s' % [ntext(s)[:60] for s in es])
    cx, cond, then, e0 = if_parts(es[0])
    inner = stmts(then)
    if not cx or ntext(cond) != 'kAsync!=AsyncType::None' or e0 is not None or len(inner) != 1:
        raise E('Core::Impl: unwrapping test changed')
    cx1, c1, t1, e1 = if_parts(inner[0])
    if cx1 or ntext(c1) != 'this->_self.unwrapping!=0' or body_text(t1) != 'returnasync_done();' or e1 is not None:
        raise E('Core::Impl: unwrapping test changed')
    if ntext(es[1]) != 'this->_self.caller=&caller' or \
            ntext(es[2]) != 'DownCast<BaseCore>(caller).TransferExecutorTo<IsFromShared(Type)>(*this)':
        raise E('Core::Impl: caller / executor transfer changed')
    cx, cond, then, e3 = if_parts(es[3])
    e_inc, _ = to_lean(A.text(cond), TYPE_ATOMS)
    if not cx or e3 is not None or body_text(then) != 'caller.IncRef();':
        raise E('Core::Impl: IncRef statement changed')
    cx, cond, then, e4 = if_parts(es[4]) if es[4].get('kind') == 'IfStmt' else (None, None, None, None)
    if cx is None:
        raise E('Core::Impl: Submit statement changed')
    e_sub, _ = to_lean(A.text(cond), TYPE_ATOMS)
    if not cx or e4 is None or body_text(then) != 'this->_executor->Submit(*this);returnNoop<SymmetricTransfer>();' or \
            body_text(e4) != 'auto&core=DownCast<ResultCore<Arg,E>>(caller);' \
                             'returnCallImpl<SymmetricTransfer>(core.templateMoveOrConst<IsFromUnique(Type)>());':
        raise E('Core::Impl: Submit / CallImpl branches changed')
    L += ['/-! Core::Impl -/', 'inductive RunEntry | asyncDoneOnly | asyncDoneIfCallerElseSubmit', 'deriving DecidableEq, Repr',
          'def implRunEntry : RunEntry := ' + run_entry, 'def implUnwrappingIsAsyncDone : Bool := true',
          'def implIncRef (t : Nat) (kAsync : Bool) : Bool := %s' % e_inc,
          'def implSubmits (t : Nat) : Bool := %s' % e_sub, '']
    # CallResolveAsync
    f = one_func(core, 'CallResolveAsync', 'detail/core.hpp')
    st = stmts(A.body(f))
    if len(st) != 1:
        raise E('Core::CallResolveAsync: unexpected shape')
    cx, cond, then, els = if_parts(st[0])
    if not cx or ntext(cond) != 'kAsync!=AsyncType::None' or els is None or \
            body_text(els) != 'returnDone<SymmetricTransfer>(CallResolveVoid(std::forward<T>(value)));':
        raise E('Core::CallResolveAsync: outer branches changed')
    ts = stmts(then)
    want = ['autoasync=CallResolveVoid(std::forward<T>(value))', 'auto*core=async.GetCore().Release()', None,
            'this->_self.caller=core', 'this->_func.storage.~Storage()', None]
    if len(ts) != 6 or any(w is not None and ntext(s) != w for w, s in zip(want, ts)):
        raise E('Core::CallResolveAsync: statement order changed: %s' % [ntext(s)[:60] for s in ts])
    cx, cond, t2, e2 = if_parts(ts[2])
    e_adr, _ = to_lean(A.text(cond), TYPE_ATOMS)
    if not cx or e2 is not None or body_text(t2) != 'this->_self.caller->DecRef();this->_self.unwrapping=1;':
        raise E('Core::CallResolveAsync: caller release changed')
    cx, cond, t5, e5 = if_parts(ts[5])
    if not cx or ntext(cond) != 'is_task_v<decltype(async)>' or e5 is None:
        raise E('Core::CallResolveAsync: task test changed')
    entry = {'core->StoreCallback(*this);returnStep<SymmetricTransfer>(*this,*MoveToCaller(core));': '.stepHereOnHead',
             'returncore->templateSetInline<SymmetricTransfer>(*this);': '.setInline'}
    if body_text(t5) not in entry or body_text(e5) not in entry:
        raise E('Core::CallResolveAsync: how the inner state is entered changed: `%s` / `%s`' % (body_text(t5), body_text(e5)))
    L += ['/-! Core::CallResolveAsync -/', 'def asyncDecRefsCaller (t : Nat) : Bool := %s' % e_adr,
          'inductive AsyncEntry | stepHereOnHead | setInline', 'deriving DecidableEq, Repr',
          'def asyncEntry (isTask : Bool) : AsyncEntry := if isTask then %s else %s' % (entry[body_text(t5)], entry[body_text(e5)]), '']

    # PromiseCore::Here (the head of a LazyContract Task entered through Here)
    pc = D('yaclib::detail::PromiseCore')
    hs = find_funcs(pc, 'Here', 'promise_core.hpp')
    texts = {body_text(A.body(h)) for h in hs}
    if not texts:
        promise_here = '.inherited'
    elif texts == {'this->_executor->Submit(*this);returnnullptr;'}:
        promise_here = '.submit'
    else:
        raise E('PromiseCore::Here changed: %s' % sorted(texts))
    if not find_funcs(pc, 'Call', 'promise_core.hpp') or not find_funcs(pc, 'Drop', 'promise_core.hpp'):
        raise E('PromiseCore::Call / Drop not found: the translator no longer sees the class')
    L += ['/-! PromiseCore::Here: `inherited` = UniqueCore::Here (takes the caller for a finished state) -/',
          'inductive PromiseHere | inherited | submit', 'deriving DecidableEq, Repr',
          'def promiseCoreHere : PromiseHere := ' + promise_here, '']

    # TransferExecutorTo
    base = D('yaclib::detail::BaseCore')
    f = one_func(base, 'TransferExecutorTo', 'base_core.hpp')
    st = stmts(A.body(f))
    if len(st) != 1:
        raise E('TransferExecutorTo: unexpected shape')
    cx, cond, then, els = if_parts(st[0])
    if cx or ntext(cond) != '!callback._executor' or els is not None or \
            body_text(then) != 'callback._executor=move_if<!Shared>(_executor);':
        raise E('TransferExecutorTo changed: `%s`' % ntext(st[0]))
    L += ['/-! BaseCore::TransferExecutorTo -/',
          'def transferExecutorTo {α : Type} (callbackExecutor : Option α) (callerExecutor : α) : α :=',
          '  match callbackExecutor with', '  | none => callerExecutor', '  | some e => e', '']

    # API flag sets
    L.append('/-! CoreType flag sets used by the pipeline API (`static constexpr auto CoreT = …`) -/')
    fb = D('yaclib::Future')
    fu = D('yaclib::Future')
    fo = D('yaclib::Future')
    tk = D('yaclib::Task')

    def pick(docs, name, suffix, nparams):
        fs = [f for f in find_funcs(docs, name, suffix)
              if len([c for c in A.kids(f) if c.get('kind') == 'ParmVarDecl']) == nparams and
              A.find_all(f, lambda n: n.get('kind') == 'VarDecl' and n.get('name') == 'CoreT')]
        texts = {coret_of(f) for f in fs}
        if len(texts) != 1:
            raise E('expected one CoreT for %s/%d in *%s, found %s' % (name, nparams, suffix, sorted(texts)))
        return flag_expr(texts.pop())

    def only_in(docs, cls):
        return [d for d in docs if (d.get('name') == cls or any(c.get('name') == cls for c in A.kids(d)))]

    api = [
        ('apiFutureThen', pick(fb, 'Then', 'async/future.hpp', 2)),
        ('apiFutureThenInline', None),
        ('apiFutureDetachInline', pick(fb, 'DetachInline', 'async/future.hpp', 1)),
        ('apiFutureDetach', pick(fb, 'Detach', 'async/future.hpp', 2)),
    ]
    # Future::ThenInline and FutureOn::{ThenInline, Then(f), Detach(f)} live in different classes of the same file
    def class_methods(docs, cls):
        out = []
        for d in docs:
            for n in A.find_all(d, lambda n: n.get('kind') in ('ClassTemplateDecl',) and n.get('name') == cls):
                for r in A.kids(n):
                    if r.get('kind') == 'CXXRecordDecl':
                        out.append(r)
        return out

    def pick_cls(docs, cls, name, nparams, suffix):
        recs = class_methods(docs, cls)
        fs = []
        for r in recs:
            fs += [f for f in find_funcs([r], name, suffix)
                   if len([c for c in A.kids(f) if c.get('kind') == 'ParmVarDecl']) == nparams]
        texts = {coret_of(f) for f in fs}
        if len(texts) != 1:
            raise E('expected one CoreT for %s::%s/%d, found %s' % (cls, name, nparams, sorted(texts)))
        return flag_expr(texts.pop())

    api[1] = ('apiFutureThenInline', pick_cls(fu, 'Future', 'ThenInline', 1, 'async/future.hpp'))
    api += [
        ('apiFutureOnThenInline', pick_cls(fo, 'FutureOn', 'ThenInline', 1, 'async/future.hpp')),
        ('apiFutureOnThen', pick_cls(fo, 'FutureOn', 'Then', 1, 'async/future.hpp')),
        ('apiFutureOnDetach', pick_cls(fo, 'FutureOn', 'Detach', 1, 'async/future.hpp')),
        ('apiTaskThen', pick_cls(tk, 'Task', 'Then', 2, 'lazy/task.hpp')),
        ('apiTaskThenInline', pick_cls(tk, 'Task', 'ThenInline', 1, 'lazy/task.hpp')),
        ('apiTaskThenInherit', pick_cls(tk, 'Task', 'Then', 1, 'lazy/task.hpp')),
    ]
    rn = D('yaclib::detail::Run')
    fs = [f for f in find_funcs(rn, 'Run', 'async/run.hpp')]
    texts = {coret_of(f) for f in fs}
    if len(texts) != 1:
        raise E('detail::Run: CoreT changed: %s' % sorted(texts))
    api.append(('apiRun', flag_expr(texts.pop())))
    sc = D('yaclib::detail::Schedule')
    fs = [f for f in find_funcs(sc, 'Schedule', 'lazy/schedule.hpp')]
    texts = {coret_of(f) for f in fs}
    if len(texts) != 1:
        raise E('detail::Schedule: CoreT changed: %s' % sorted(texts))
    api.append(('apiSchedule', flag_expr(texts.pop())))
    for n, e in api:
        L.append('def %s : Nat := %s' % (n, e))
    scb = D('yaclib::detail::SetCallback')
    fs = find_funcs(scb, 'SetCallback', 'detail/core.hpp')
    texts = {coret_of(f, 'From') for f in fs}
    if texts != {'Unique?CoreType::FromUnique:CoreType::FromShared'}:
        raise E('detail::SetCallback: `From` changed: %s' % sorted(texts))
    L += ['def setCallbackFromUnique : Nat := ctFromUnique', 'def setCallbackFromShared : Nat := ctFromShared', '']
    L += invocable_probes(repo)
    L += ['end Yaclib.Extracted.Dispatch', '']
    return '\n'.join(L) + '\n' + '\n'.join(L2)
