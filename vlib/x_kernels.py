"""T2 translator: normalised skeletons of the kernel functions the models were written from.

Generated file: lean/YaclibModel/Extracted/Kernels.lean with one `def <id> : String` per kernel.
The property files state `theorem tie_<id> : Extracted.Kernels.<id> = "<skeleton the model was written from>" := rfl`,
so any edit to the control structure, the atomic operations or the memory orders of a kernel breaks an
obligation of every property whose model was written from it.
"""
import os

from . import cxxast as A
from . import skel

# id -> (translation unit (path relative to /repo, or None for a generated TU with `includes`), includes,
#        ast filter, file suffix the definition must come from, function name, selector)
# selector: index among the matching bodies in file order, after de-duplication of identical skeletons
KERNELS = [
    # ---- unique / shared hand-off word (C01, C06, C11, C04)
    ('BaseCore_SetCallbackImpl', 'src/algo/base_core.cpp', None, 'yaclib::detail::BaseCore', 'base_core.cpp', 'SetCallbackImpl', 'template'),
    ('BaseCore_ResetImpl', 'src/algo/base_core.cpp', None, 'yaclib::detail::BaseCore', 'base_core.cpp', 'ResetImpl', 0),
    ('BaseCore_SetInlineImpl', 'src/algo/base_core.cpp', None, 'yaclib::detail::BaseCore', 'base_core.cpp', 'SetInlineImpl', 'template'),
    ('BaseCore_SetResultImpl', 'src/algo/base_core.cpp', None, 'yaclib::detail::BaseCore', 'base_core.cpp', 'SetResultImpl', 'template'),
    ('BaseCore_Empty', 'src/algo/base_core.cpp', None, 'yaclib::detail::BaseCore', 'base_core.hpp', 'Empty', 0),
    ('Drop_Impl', 'src/algo/drop_core.cpp', None, 'Drop', 'drop_core.cpp', 'Impl', 'template'),
    ('Promise_Set', None, ['yaclib/async/promise.hpp'], 'yaclib::Promise', 'async/promise.hpp', 'Set', 'template'),
    ('Promise_dtor', None, ['yaclib/async/promise.hpp'], 'yaclib::Promise', 'async/promise.hpp', '~Promise<V, E>', 0),
    ('FutureBase_dtor', None, ['yaclib/async/future.hpp'], 'yaclib::FutureBase', 'async/future.hpp', '~FutureBase<V, E>', 0),
    ('FutureBase_Ready', None, ['yaclib/async/future.hpp'], 'yaclib::FutureBase', 'async/future.hpp', 'Ready', 0),
    ('FutureBase_GetConst', None, ['yaclib/async/future.hpp'], 'yaclib::FutureBase', 'async/future.hpp', 'Get', 0),
    ('FutureBase_GetMove', None, ['yaclib/async/future.hpp'], 'yaclib::FutureBase', 'async/future.hpp', 'Get', 1),
    ('FutureBase_Detach', None, ['yaclib/async/future.hpp'], 'yaclib::FutureBase', 'async/future.hpp', 'Detach', 0),
    ('UniqueCore_CallInline', None, ['yaclib/algo/detail/unique_core.hpp'], 'yaclib::detail::UniqueCore', 'unique_core.hpp', 'CallInline', 0),
    ('detail_SetCallback', None, ['yaclib/algo/detail/core.hpp', 'yaclib/async/future.hpp', 'yaclib/lazy/task.hpp'], 'yaclib::detail::SetCallback', 'detail/core.hpp', 'SetCallback', 'template'),
    ('Connect_Unique', None, ['yaclib/async/connect.hpp'], 'yaclib::Connect', 'async/connect.hpp', 'Connect', 'template'),
    ('WaitRange', None, ['yaclib/async/wait.hpp'], 'yaclib::detail::WaitRange', 'wait_impl.hpp', 'WaitRange', 'template'),
    ('WaitCore', None, ['yaclib/async/wait.hpp'], 'yaclib::detail::WaitCore', 'wait_impl.hpp', 'WaitCore', 'template'),
    ('MutexEvent_Set', 'src/util/mutex_event.cpp', None, 'yaclib::detail::MutexEvent', 'mutex_event.cpp', 'Set', 0),
    ('MutexEvent_Wait', 'src/util/mutex_event.cpp', None, 'yaclib::detail::MutexEvent', 'mutex_event.cpp', 'Wait', 0),
    ('CallCallback_Impl', None, ['yaclib/algo/detail/wait_event.hpp'], 'yaclib::detail::CallCallback', 'wait_event.hpp', 'Impl', 'template'),
    # ---- strand (C07)
    ('Strand_Submit', 'src/exe/strand.cpp', None, 'yaclib::Strand', 'strand.cpp', 'Submit', 0),
    ('Strand_Call', 'src/exe/strand.cpp', None, 'yaclib::Strand', 'strand.cpp', 'Call', 0),
    ('Strand_Drop', 'src/exe/strand.cpp', None, 'yaclib::Strand', 'strand.cpp', 'Drop', 0),
    # ---- coroutine Mutex (C14)
    ('MutexImpl_TryLockAwait', None, ['yaclib/coro/mutex.hpp'], 'yaclib::detail::MutexImpl', 'coro/mutex.hpp', 'TryLockAwait', 0),
    ('MutexImpl_AwaitLock', None, ['yaclib/coro/mutex.hpp'], 'yaclib::detail::MutexImpl', 'coro/mutex.hpp', 'AwaitLock', 0),
    ('MutexImpl_TryUnlockAwait', None, ['yaclib/coro/mutex.hpp'], 'yaclib::detail::MutexImpl', 'coro/mutex.hpp', 'TryUnlockAwait', 0),
    ('MutexImpl_BatchingPossible', None, ['yaclib/coro/mutex.hpp'], 'yaclib::detail::MutexImpl', 'coro/mutex.hpp', 'BatchingPossible', 0),
    ('MutexImpl_UnlockHereAwait', None, ['yaclib/coro/mutex.hpp'], 'yaclib::detail::MutexImpl', 'coro/mutex.hpp', 'UnlockHereAwait', 0),
    ('MutexImpl_AwaitUnlock', None, ['yaclib/coro/mutex.hpp'], 'yaclib::detail::MutexImpl', 'coro/mutex.hpp', 'AwaitUnlock', 0),
    ('MutexImpl_AwaitUnlockOn', None, ['yaclib/coro/mutex.hpp'], 'yaclib::detail::MutexImpl', 'coro/mutex.hpp', 'AwaitUnlockOn', 0),
    ('MutexImpl_TryLock', None, ['yaclib/coro/mutex.hpp'], 'yaclib::detail::MutexImpl', 'coro/mutex.hpp', 'TryLock', 0),
    ('MutexImpl_UnlockHere', None, ['yaclib/coro/mutex.hpp'], 'yaclib::detail::MutexImpl', 'coro/mutex.hpp', 'UnlockHere', 0),
    ('MutexImpl_GetHead', None, ['yaclib/coro/mutex.hpp'], 'yaclib::detail::MutexImpl', 'coro/mutex.hpp', 'GetHead', 0),
    ('UnlockAwaiter_await_ready', None, ['yaclib/coro/mutex.hpp'], 'yaclib::detail::UnlockAwaiter', 'coro/mutex.hpp', 'await_ready', 0),
    ('UnlockAwaiter_await_suspend', None, ['yaclib/coro/mutex.hpp'], 'yaclib::detail::UnlockAwaiter', 'coro/mutex.hpp', 'await_suspend', 'template'),
    ('UnlockOnAwaiter_await_ready', None, ['yaclib/coro/mutex.hpp'], 'yaclib::detail::UnlockOnAwaiter', 'coro/mutex.hpp', 'await_ready', 0),
    ('UnlockOnAwaiter_await_suspend', None, ['yaclib/coro/mutex.hpp'], 'yaclib::detail::UnlockOnAwaiter', 'coro/mutex.hpp', 'await_suspend', 'template'),
    ('LockAwaiter_await_ready', None, ['yaclib/coro/mutex.hpp'], 'yaclib::detail::LockAwaiter', 'mutex_awaiter.hpp', 'await_ready', 0),
    ('LockAwaiter_await_suspend', None, ['yaclib/coro/mutex.hpp'], 'yaclib::detail::LockAwaiter', 'mutex_awaiter.hpp', 'await_suspend', 'template'),
    ('GuardAwaiter_await_resume', None, ['yaclib/coro/mutex.hpp'], 'yaclib::detail::GuardAwaiter', 'mutex_awaiter.hpp', 'await_resume', 0),
    ('LockStickyAwaiter_await_ready', None, ['yaclib/coro/mutex.hpp'], 'yaclib::detail::LockStickyAwaiter', 'guard_sticky.hpp', 'await_ready', 0),
    ('LockStickyAwaiter_await_suspend', None, ['yaclib/coro/mutex.hpp'], 'yaclib::detail::LockStickyAwaiter', 'guard_sticky.hpp', 'await_suspend', 'template'),
    ('UnlockStickyAwaiter_await_ready', None, ['yaclib/coro/mutex.hpp'], 'yaclib::detail::UnlockStickyAwaiter', 'guard_sticky.hpp', 'await_ready', 0),
    ('UnlockStickyAwaiter_await_suspend', None, ['yaclib/coro/mutex.hpp'], 'yaclib::detail::UnlockStickyAwaiter', 'guard_sticky.hpp', 'await_suspend', 'template'),
    ('GuardStickyAwaiter_await_ready', None, ['yaclib/coro/mutex.hpp'], 'yaclib::detail::GuardStickyAwaiter', 'guard_sticky.hpp', 'await_ready', 0),
    ('GuardStickyAwaiter_await_suspend', None, ['yaclib/coro/mutex.hpp'], 'yaclib::detail::GuardStickyAwaiter', 'guard_sticky.hpp', 'await_suspend', 'template'),
    ('GuardStickyAwaiter_await_resume', None, ['yaclib/coro/mutex.hpp'], 'yaclib::detail::GuardStickyAwaiter', 'guard_sticky.hpp', 'await_resume', 0),
    ('StickyGuard_Lock', None, ['yaclib/coro/mutex.hpp'], 'yaclib::StickyGuard', 'guard_sticky.hpp', 'Lock', 0),
    ('StickyGuard_Unlock', None, ['yaclib/coro/mutex.hpp'], 'yaclib::StickyGuard', 'guard_sticky.hpp', 'Unlock', 0),
    ('Guard_dtor', None, ['yaclib/coro/mutex.hpp'], 'yaclib::detail::Guard', 'coro/guard.hpp', '~Guard<M, Shared>', 0),
    ('Guard_Lock', None, ['yaclib/coro/mutex.hpp'], 'yaclib::detail::Guard', 'coro/guard.hpp', 'Lock', 0),
    ('Guard_TryLock', None, ['yaclib/coro/mutex.hpp'], 'yaclib::detail::Guard', 'coro/guard.hpp', 'TryLock', 0),
    ('Guard_Unlock', None, ['yaclib/coro/mutex.hpp'], 'yaclib::detail::Guard', 'coro/guard.hpp', 'Unlock', 0),
    ('Guard_UnlockOn', None, ['yaclib/coro/mutex.hpp'], 'yaclib::detail::Guard', 'coro/guard.hpp', 'UnlockOn', 0),
    ('Guard_UnlockHere', None, ['yaclib/coro/mutex.hpp'], 'yaclib::detail::Guard', 'coro/guard.hpp', 'UnlockHere', 0),
    ('Guard_TryLockImpl', None, ['yaclib/coro/mutex.hpp'], 'yaclib::detail::Guard', 'coro/guard.hpp', 'TryLockImpl', 0),
    ('Mutex_TryGuard', None, ['yaclib/coro/mutex.hpp'], 'yaclib::Mutex', 'coro/mutex.hpp', 'TryGuard', 0),
    ('Mutex_Guard', None, ['yaclib/coro/mutex.hpp'], 'yaclib::Mutex', 'coro/mutex.hpp', 'Guard', 0),
    ('Mutex_GuardSticky', None, ['yaclib/coro/mutex.hpp'], 'yaclib::Mutex', 'coro/mutex.hpp', 'GuardSticky', 0),
    ('Mutex_Lock', None, ['yaclib/coro/mutex.hpp'], 'yaclib::Mutex', 'coro/mutex.hpp', 'Lock', 0),
    ('Mutex_Unlock', None, ['yaclib/coro/mutex.hpp'], 'yaclib::Mutex', 'coro/mutex.hpp', 'Unlock', 0),
    ('Mutex_UnlockOn', None, ['yaclib/coro/mutex.hpp'], 'yaclib::Mutex', 'coro/mutex.hpp', 'UnlockOn', 0),
    # ---- coroutine SharedMutex (C15)
    ('SharedMutexImpl_TryLockSharedAwait', None, ['yaclib/coro/shared_mutex.hpp'], 'yaclib::detail::SharedMutexImpl', 'coro/shared_mutex.hpp', 'TryLockSharedAwait', 0),
    ('SharedMutexImpl_TryLockAwait', None, ['yaclib/coro/shared_mutex.hpp'], 'yaclib::detail::SharedMutexImpl', 'coro/shared_mutex.hpp', 'TryLockAwait', 0),
    ('SharedMutexImpl_AwaitLockShared', None, ['yaclib/coro/shared_mutex.hpp'], 'yaclib::detail::SharedMutexImpl', 'coro/shared_mutex.hpp', 'AwaitLockShared', 0),
    ('SharedMutexImpl_AwaitLock', None, ['yaclib/coro/shared_mutex.hpp'], 'yaclib::detail::SharedMutexImpl', 'coro/shared_mutex.hpp', 'AwaitLock', 0),
    ('SharedMutexImpl_TryLockShared', None, ['yaclib/coro/shared_mutex.hpp'], 'yaclib::detail::SharedMutexImpl', 'coro/shared_mutex.hpp', 'TryLockShared', 0),
    ('SharedMutexImpl_TryLock', None, ['yaclib/coro/shared_mutex.hpp'], 'yaclib::detail::SharedMutexImpl', 'coro/shared_mutex.hpp', 'TryLock', 0),
    ('SharedMutexImpl_UnlockHereShared', None, ['yaclib/coro/shared_mutex.hpp'], 'yaclib::detail::SharedMutexImpl', 'coro/shared_mutex.hpp', 'UnlockHereShared', 0),
    ('SharedMutexImpl_UnlockHere', None, ['yaclib/coro/shared_mutex.hpp'], 'yaclib::detail::SharedMutexImpl', 'coro/shared_mutex.hpp', 'UnlockHere', 0),
    ('SharedMutexImpl_Run', None, ['yaclib/coro/shared_mutex.hpp'], 'yaclib::detail::SharedMutexImpl', 'coro/shared_mutex.hpp', 'Run', 0),
    ('SharedMutexImpl_RunWriter', None, ['yaclib/coro/shared_mutex.hpp'], 'yaclib::detail::SharedMutexImpl', 'coro/shared_mutex.hpp', 'RunWriter', 0),
    ('SharedMutexImpl_PassReaders', None, ['yaclib/coro/shared_mutex.hpp'], 'yaclib::detail::SharedMutexImpl', 'coro/shared_mutex.hpp', 'PassReaders', 0),
    ('SharedMutexImpl_RunReaders', None, ['yaclib/coro/shared_mutex.hpp'], 'yaclib::detail::SharedMutexImpl', 'coro/shared_mutex.hpp', 'RunReaders', 0),
    ('SharedMutexImpl_SlowUnlock', None, ['yaclib/coro/shared_mutex.hpp'], 'yaclib::detail::SharedMutexImpl', 'coro/shared_mutex.hpp', 'SlowUnlock', 0),
    ('Spinlock_lock', None, ['yaclib/coro/shared_mutex.hpp'], 'yaclib::detail::Spinlock', 'spinlock.hpp', 'lock', 0),
    ('Spinlock_unlock', None, ['yaclib/coro/shared_mutex.hpp'], 'yaclib::detail::Spinlock', 'spinlock.hpp', 'unlock', 0),
    ('SharedMutex_Lock', None, ['yaclib/coro/shared_mutex.hpp'], 'yaclib::SharedMutex', 'coro/shared_mutex.hpp', 'Lock', 0),
    ('SharedMutex_LockShared', None, ['yaclib/coro/shared_mutex.hpp'], 'yaclib::SharedMutex', 'coro/shared_mutex.hpp', 'LockShared', 0),
    ('SharedMutex_TryGuard', None, ['yaclib/coro/shared_mutex.hpp'], 'yaclib::SharedMutex', 'coro/shared_mutex.hpp', 'TryGuard', 0),
    ('SharedMutex_TryGuardShared', None, ['yaclib/coro/shared_mutex.hpp'], 'yaclib::SharedMutex', 'coro/shared_mutex.hpp', 'TryGuardShared', 0),
    ('SharedMutex_Guard', None, ['yaclib/coro/shared_mutex.hpp'], 'yaclib::SharedMutex', 'coro/shared_mutex.hpp', 'Guard', 0),
    ('SharedMutex_GuardShared', None, ['yaclib/coro/shared_mutex.hpp'], 'yaclib::SharedMutex', 'coro/shared_mutex.hpp', 'GuardShared', 0),
    # ---- FairThreadPool (C08): every member function + the FIFO list it uses
    ('FairThreadPool_ctor', 'src/runtime/fair_thread_pool.cpp', None, 'yaclib::FairThreadPool', 'fair_thread_pool.cpp', 'FairThreadPool', 0),
    ('FairThreadPool_Submit', 'src/runtime/fair_thread_pool.cpp', None, 'yaclib::FairThreadPool', 'fair_thread_pool.cpp', 'Submit', 0),
    ('FairThreadPool_SoftStop', 'src/runtime/fair_thread_pool.cpp', None, 'yaclib::FairThreadPool', 'fair_thread_pool.cpp', 'SoftStop', 0),
    ('FairThreadPool_Stop', 'src/runtime/fair_thread_pool.cpp', None, 'yaclib::FairThreadPool', 'fair_thread_pool.cpp', 'Stop', 0),
    ('FairThreadPool_StopLocked', 'src/runtime/fair_thread_pool.cpp', None, 'yaclib::FairThreadPool', 'fair_thread_pool.cpp', 'Stop', 1),
    ('FairThreadPool_HardStop', 'src/runtime/fair_thread_pool.cpp', None, 'yaclib::FairThreadPool', 'fair_thread_pool.cpp', 'HardStop', 0),
    ('FairThreadPool_Wait', 'src/runtime/fair_thread_pool.cpp', None, 'yaclib::FairThreadPool', 'fair_thread_pool.cpp', 'Wait', 0),
    ('FairThreadPool_Loop', 'src/runtime/fair_thread_pool.cpp', None, 'yaclib::FairThreadPool', 'fair_thread_pool.cpp', 'Loop', 0),
    ('FairThreadPool_WasStop', 'src/runtime/fair_thread_pool.cpp', None, 'yaclib::FairThreadPool', 'fair_thread_pool.cpp', 'WasStop', 0),
    ('FairThreadPool_WantStop', 'src/runtime/fair_thread_pool.cpp', None, 'yaclib::FairThreadPool', 'fair_thread_pool.cpp', 'WantStop', 0),
    ('FairThreadPool_NoJobs', 'src/runtime/fair_thread_pool.cpp', None, 'yaclib::FairThreadPool', 'fair_thread_pool.cpp', 'NoJobs', 0),
    ('FairThreadPool_Alive', 'src/runtime/fair_thread_pool.cpp', None, 'yaclib::FairThreadPool', 'fair_thread_pool.cpp', 'Alive', 0),
    ('List_MoveCtor', 'src/util/intrusive_list.cpp', None, 'yaclib::detail::List', 'intrusive_list.cpp', 'List', 0),
    ('List_PushBack', 'src/util/intrusive_list.cpp', None, 'yaclib::detail::List', 'intrusive_list.cpp', 'PushBack', 0),
    ('List_Empty', 'src/util/intrusive_list.cpp', None, 'yaclib::detail::List', 'intrusive_list.cpp', 'Empty', 0),
    ('List_PopFront', 'src/util/intrusive_list.cpp', None, 'yaclib::detail::List', 'intrusive_list.cpp', 'PopFront', 0),
    # ---- fiber sync primitives of the FIBER backend (C18)
    ('FiberMutex_lock', 'src/fault/fiber/mutex.cpp', None, 'yaclib::detail::fiber::Mutex', 'fiber/mutex.cpp', 'lock', 0),
    ('FiberMutex_try_lock', 'src/fault/fiber/mutex.cpp', None, 'yaclib::detail::fiber::Mutex', 'fiber/mutex.cpp', 'try_lock', 0),
    ('FiberMutex_unlock', 'src/fault/fiber/mutex.cpp', None, 'yaclib::detail::fiber::Mutex', 'fiber/mutex.cpp', 'unlock', 0),
    ('FiberTimedMutex_TimedWaitHelper', None, ['yaclib/fault/detail/fiber/timed_mutex.hpp'], 'yaclib::detail::fiber::TimedMutex', 'fiber/timed_mutex.hpp', 'TimedWaitHelper', 'template'),
    ('FiberTimedMutex_try_lock_for', None, ['yaclib/fault/detail/fiber/timed_mutex.hpp'], 'yaclib::detail::fiber::TimedMutex', 'fiber/timed_mutex.hpp', 'try_lock_for', 'template'),
    ('FiberTimedMutex_try_lock_until', None, ['yaclib/fault/detail/fiber/timed_mutex.hpp'], 'yaclib::detail::fiber::TimedMutex', 'fiber/timed_mutex.hpp', 'try_lock_until', 'template'),
    ('FiberRecursiveMutex_lock', 'src/fault/fiber/recursive_mutex.cpp', None, 'yaclib::detail::fiber::RecursiveMutex', 'fiber/recursive_mutex.cpp', 'lock', 0),
    ('FiberRecursiveMutex_try_lock', 'src/fault/fiber/recursive_mutex.cpp', None, 'yaclib::detail::fiber::RecursiveMutex', 'fiber/recursive_mutex.cpp', 'try_lock', 0),
    ('FiberRecursiveMutex_unlock', 'src/fault/fiber/recursive_mutex.cpp', None, 'yaclib::detail::fiber::RecursiveMutex', 'fiber/recursive_mutex.cpp', 'unlock', 0),
    ('FiberRecursiveMutex_LockHelper', 'src/fault/fiber/recursive_mutex.cpp', None, 'yaclib::detail::fiber::RecursiveMutex', 'fiber/recursive_mutex.cpp', 'LockHelper', 0),
    ('FiberRecursiveTimedMutex_TimedWaitHelper', None, ['yaclib/fault/detail/fiber/recursive_timed_mutex.hpp'], 'yaclib::detail::fiber::RecursiveTimedMutex', 'fiber/recursive_timed_mutex.hpp', 'TimedWaitHelper', 'template'),
    ('FiberRecursiveTimedMutex_try_lock_for', None, ['yaclib/fault/detail/fiber/recursive_timed_mutex.hpp'], 'yaclib::detail::fiber::RecursiveTimedMutex', 'fiber/recursive_timed_mutex.hpp', 'try_lock_for', 'template'),
    ('FiberRecursiveTimedMutex_try_lock_until', None, ['yaclib/fault/detail/fiber/recursive_timed_mutex.hpp'], 'yaclib::detail::fiber::RecursiveTimedMutex', 'fiber/recursive_timed_mutex.hpp', 'try_lock_until', 'template'),
    ('FiberSharedMutex_lock', 'src/fault/fiber/shared_mutex.cpp', None, 'yaclib::detail::fiber::SharedMutex', 'fiber/shared_mutex.cpp', 'lock', 0),
    ('FiberSharedMutex_try_lock', 'src/fault/fiber/shared_mutex.cpp', None, 'yaclib::detail::fiber::SharedMutex', 'fiber/shared_mutex.cpp', 'try_lock', 0),
    ('FiberSharedMutex_unlock', 'src/fault/fiber/shared_mutex.cpp', None, 'yaclib::detail::fiber::SharedMutex', 'fiber/shared_mutex.cpp', 'unlock', 0),
    ('FiberSharedMutex_lock_shared', 'src/fault/fiber/shared_mutex.cpp', None, 'yaclib::detail::fiber::SharedMutex', 'fiber/shared_mutex.cpp', 'lock_shared', 0),
    ('FiberSharedMutex_try_lock_shared', 'src/fault/fiber/shared_mutex.cpp', None, 'yaclib::detail::fiber::SharedMutex', 'fiber/shared_mutex.cpp', 'try_lock_shared', 0),
    ('FiberSharedMutex_unlock_shared', 'src/fault/fiber/shared_mutex.cpp', None, 'yaclib::detail::fiber::SharedMutex', 'fiber/shared_mutex.cpp', 'unlock_shared', 0),
    ('FiberSharedMutex_LockHelper', 'src/fault/fiber/shared_mutex.cpp', None, 'yaclib::detail::fiber::SharedMutex', 'fiber/shared_mutex.cpp', 'LockHelper', 0),
    ('FiberSharedMutex_SharedLockHelper', 'src/fault/fiber/shared_mutex.cpp', None, 'yaclib::detail::fiber::SharedMutex', 'fiber/shared_mutex.cpp', 'SharedLockHelper', 0),
    ('FiberSharedTimedMutex_TimedWaitHelper', None, ['yaclib/fault/detail/fiber/shared_timed_mutex.hpp'], 'yaclib::detail::fiber::SharedTimedMutex', 'fiber/shared_timed_mutex.hpp', 'TimedWaitHelper', 'template'),
    ('FiberSharedTimedMutex_try_lock_for', None, ['yaclib/fault/detail/fiber/shared_timed_mutex.hpp'], 'yaclib::detail::fiber::SharedTimedMutex', 'fiber/shared_timed_mutex.hpp', 'try_lock_for', 'template'),
    ('FiberSharedTimedMutex_try_lock_until', None, ['yaclib/fault/detail/fiber/shared_timed_mutex.hpp'], 'yaclib::detail::fiber::SharedTimedMutex', 'fiber/shared_timed_mutex.hpp', 'try_lock_until', 'template'),
    ('FiberSharedTimedMutex_try_lock_shared_for', None, ['yaclib/fault/detail/fiber/shared_timed_mutex.hpp'], 'yaclib::detail::fiber::SharedTimedMutex', 'fiber/shared_timed_mutex.hpp', 'try_lock_shared_for', 'template'),
    ('FiberSharedTimedMutex_try_lock_shared_until', None, ['yaclib/fault/detail/fiber/shared_timed_mutex.hpp'], 'yaclib::detail::fiber::SharedTimedMutex', 'fiber/shared_timed_mutex.hpp', 'try_lock_shared_until', 'template'),
    ('FiberCondVar_notify_one', 'src/fault/fiber/condition_variable.cpp', None, 'yaclib::detail::fiber::ConditionVariable', 'fiber/condition_variable.cpp', 'notify_one', 0),
    ('FiberCondVar_notify_all', 'src/fault/fiber/condition_variable.cpp', None, 'yaclib::detail::fiber::ConditionVariable', 'fiber/condition_variable.cpp', 'notify_all', 0),
    ('FiberCondVar_wait', 'src/fault/fiber/condition_variable.cpp', None, 'yaclib::detail::fiber::ConditionVariable', 'fiber/condition_variable.cpp', 'wait', 0),
    ('FiberCondVar_WaitImpl', None, ['yaclib/fault/detail/fiber/condition_variable.hpp'], 'yaclib::detail::fiber::ConditionVariable', 'fiber/condition_variable.hpp', 'WaitImpl', 'template'),
    ('FiberCondVar_WaitImplWithPredicate', None, ['yaclib/fault/detail/fiber/condition_variable.hpp'], 'yaclib::detail::fiber::ConditionVariable', 'fiber/condition_variable.hpp', 'WaitImplWithPredicate', 'template'),
    ('FiberCondVar_wait_for', None, ['yaclib/fault/detail/fiber/condition_variable.hpp'], 'yaclib::detail::fiber::ConditionVariable', 'fiber/condition_variable.hpp', 'wait_for', 'template'),
    ('FiberCondVar_wait_until', None, ['yaclib/fault/detail/fiber/condition_variable.hpp'], 'yaclib::detail::fiber::ConditionVariable', 'fiber/condition_variable.hpp', 'wait_until', 'template'),
    ('FiberQueue_WaitNoTimeout', 'src/fault/fiber/queue.cpp', None, 'yaclib::detail::fiber::FiberQueue', 'fiber/queue.cpp', 'Wait', 0),
    ('FiberQueue_WaitTimed', None, ['yaclib/fault/detail/fiber/queue.hpp'], 'yaclib::detail::fiber::FiberQueue', 'fiber/queue.hpp', 'Wait', 'template'),
    ('FiberQueue_NotifyAll', 'src/fault/fiber/queue.cpp', None, 'yaclib::detail::fiber::FiberQueue', 'fiber/queue.cpp', 'NotifyAll', 0),
    ('FiberQueue_NotifyOne', 'src/fault/fiber/queue.cpp', None, 'yaclib::detail::fiber::FiberQueue', 'fiber/queue.cpp', 'NotifyOne', 0),
    ('FiberQueue_ScheduleAndRemove', 'src/fault/fiber/queue.cpp', None, 'yaclib::detail::fiber::FiberQueue', 'fiber/queue.cpp', 'ScheduleAndRemove', 0),
    ('FiberThread_join', 'src/fault/fiber/thread.cpp', None, 'yaclib::detail::fiber::Thread', 'fiber/thread.cpp', 'join', 0),
    ('FiberThread_AfterJoinOrDetach', 'src/fault/fiber/thread.cpp', None, 'yaclib::detail::fiber::Thread', 'fiber/thread.cpp', 'AfterJoinOrDetach', 0),
    ('FiberBase_Exit', 'src/fault/fiber/fiber_base.cpp', None, 'yaclib::detail::fiber::FiberBase', 'fiber/fiber_base.cpp', 'Exit', 0),
    ('FiberBase_Resume', 'src/fault/fiber/fiber_base.cpp', None, 'yaclib::detail::fiber::FiberBase', 'fiber/fiber_base.cpp', 'Resume', 0),
    ('FiberBase_Suspend', 'src/fault/fiber/fiber_base.cpp', None, 'yaclib::detail::fiber::FiberBase', 'fiber/fiber_base.cpp', 'Suspend', 0),
    ('FiberBase_GetTLS', 'src/fault/fiber/fiber_base.cpp', None, 'yaclib::detail::fiber::FiberBase', 'fiber/fiber_base.cpp', 'GetTLS', 0),
    ('FiberBase_SetTLS', 'src/fault/fiber/fiber_base.cpp', None, 'yaclib::detail::fiber::FiberBase', 'fiber/fiber_base.cpp', 'SetTLS', 0),
    ('FiberTls_GetImpl', 'src/fault/fiber/thread_local_proxy.cpp', None, 'yaclib::detail::fiber::GetImpl', 'fiber/thread_local_proxy.cpp', 'GetImpl', 0),
    ('FiberTls_Set', 'src/fault/fiber/thread_local_proxy.cpp', None, 'yaclib::detail::fiber::Set', 'fiber/thread_local_proxy.cpp', 'Set', 0),
    ('FiberTls_SetDefault', 'src/fault/fiber/thread_local_proxy.cpp', None, 'yaclib::detail::fiber::SetDefault', 'fiber/thread_local_proxy.cpp', 'SetDefault', 0),
    ('FiberTlsProxy_assign_ptr', None, ['cstdint', 'yaclib/fault/detail/fiber/thread_local_proxy.hpp'], 'yaclib::detail::fiber::ThreadLocalPtrProxy', 'fiber/thread_local_proxy.hpp', 'operator=', 0),
    ('FiberTlsProxy_assign_move', None, ['cstdint', 'yaclib/fault/detail/fiber/thread_local_proxy.hpp'], 'yaclib::detail::fiber::ThreadLocalPtrProxy', 'fiber/thread_local_proxy.hpp', 'operator=', 1),
    ('FiberTlsProxy_assign_copy', None, ['cstdint', 'yaclib/fault/detail/fiber/thread_local_proxy.hpp'], 'yaclib::detail::fiber::ThreadLocalPtrProxy', 'fiber/thread_local_proxy.hpp', 'operator=', 2),
    ('FiberTlsProxy_assign_conv', None, ['cstdint', 'yaclib/fault/detail/fiber/thread_local_proxy.hpp'], 'yaclib::detail::fiber::ThreadLocalPtrProxy', 'fiber/thread_local_proxy.hpp', 'operator=', 'template'),
    ('FiberTlsProxy_ctor_default', None, ['cstdint', 'yaclib/fault/detail/fiber/thread_local_proxy.hpp'], 'yaclib::detail::fiber::ThreadLocalPtrProxy', 'fiber/thread_local_proxy.hpp', 'ThreadLocalPtrProxy<Type>', 0),
    ('FiberTlsProxy_ctor_ptr', None, ['cstdint', 'yaclib/fault/detail/fiber/thread_local_proxy.hpp'], 'yaclib::detail::fiber::ThreadLocalPtrProxy', 'fiber/thread_local_proxy.hpp', 'ThreadLocalPtrProxy<Type>', 1),
    ('FiberTlsProxy_ctor_copy', None, ['cstdint', 'yaclib/fault/detail/fiber/thread_local_proxy.hpp'], 'yaclib::detail::fiber::ThreadLocalPtrProxy', 'fiber/thread_local_proxy.hpp', 'ThreadLocalPtrProxy<Type>', 3),
    ('FiberTlsProxy_Get', None, ['cstdint', 'yaclib/fault/detail/fiber/thread_local_proxy.hpp'], 'yaclib::detail::fiber::ThreadLocalPtrProxy', 'fiber/thread_local_proxy.hpp', 'Get', 0),
    ('FiberSched_Sleep', 'src/fault/fiber/scheduler.cpp', None, 'yaclib::fault::Scheduler', 'fiber/scheduler.cpp', 'Sleep', 0),
    ('FiberSched_SleepPreemptive', 'src/fault/fiber/scheduler.cpp', None, 'yaclib::fault::Scheduler', 'fiber/scheduler.cpp', 'SleepPreemptive', 0),
    ('FiberSched_Schedule', 'src/fault/fiber/scheduler.cpp', None, 'yaclib::fault::Scheduler', 'fiber/scheduler.cpp', 'Schedule', 0),
    ('FiberSched_RescheduleCurrent', 'src/fault/fiber/scheduler.cpp', None, 'yaclib::fault::Scheduler', 'fiber/scheduler.cpp', 'RescheduleCurrent', 0),
    ('FiberSched_Suspend', 'src/fault/fiber/scheduler.cpp', None, 'yaclib::fault::Scheduler', 'fiber/scheduler.cpp', 'Suspend', 0),
    ('FiberThisThread_sleep', None, ['yaclib_std/thread'], 'yaclib_std::this_thread', 'detail/this_thread.hpp', 'sleep_until', 'template'),
    ('FiberThisThread_sleep_for', None, ['yaclib_std/thread'], 'yaclib_std::this_thread', 'detail/this_thread.hpp', 'sleep_for', 'template'),
    # the yaclib_std wrappers around them (injection points only)
    ('FaultMutex_lock', None, ['yaclib_std/mutex'], 'yaclib::detail::Mutex', 'fault/detail/mutex.hpp', 'lock', 0),
    ('FaultMutex_try_lock', None, ['yaclib_std/mutex'], 'yaclib::detail::Mutex', 'fault/detail/mutex.hpp', 'try_lock', 0),
    ('FaultMutex_unlock', None, ['yaclib_std/mutex'], 'yaclib::detail::Mutex', 'fault/detail/mutex.hpp', 'unlock', 0),
    ('FaultTimedMutex_try_lock_for', None, ['yaclib_std/mutex'], 'yaclib::detail::TimedMutex', 'fault/detail/timed_mutex.hpp', 'try_lock_for', 'template'),
    ('FaultTimedMutex_try_lock_until', None, ['yaclib_std/mutex'], 'yaclib::detail::TimedMutex', 'fault/detail/timed_mutex.hpp', 'try_lock_until', 'template'),
    ('FaultSharedMutex_lock_shared', None, ['yaclib_std/shared_mutex'], 'yaclib::detail::SharedMutex', 'fault/detail/shared_mutex.hpp', 'lock_shared', 0),
    ('FaultSharedMutex_try_lock_shared', None, ['yaclib_std/shared_mutex'], 'yaclib::detail::SharedMutex', 'fault/detail/shared_mutex.hpp', 'try_lock_shared', 0),
    ('FaultSharedMutex_unlock_shared', None, ['yaclib_std/shared_mutex'], 'yaclib::detail::SharedMutex', 'fault/detail/shared_mutex.hpp', 'unlock_shared', 0),
    ('FaultSharedTimedMutex_try_lock_for', None, ['yaclib_std/shared_mutex'], 'yaclib::detail::SharedTimedMutex', 'fault/detail/shared_timed_mutex.hpp', 'try_lock_for', 'template'),
    ('FaultSharedTimedMutex_try_lock_shared_for', None, ['yaclib_std/shared_mutex'], 'yaclib::detail::SharedTimedMutex', 'fault/detail/shared_timed_mutex.hpp', 'try_lock_shared_for', 'template'),
    ('FaultCondVar_wait', None, ['yaclib_std/condition_variable'], 'yaclib::detail::ConditionVariable', 'fault/detail/condition_variable.hpp', 'wait', 0),
    ('FaultCondVar_wait_for', None, ['yaclib_std/condition_variable'], 'yaclib::detail::ConditionVariable', 'fault/detail/condition_variable.hpp', 'wait_for', 'template'),
    ('FaultCondVar_notify_one', None, ['yaclib_std/condition_variable'], 'yaclib::detail::ConditionVariable', 'fault/detail/condition_variable.hpp', 'notify_one', 0),
    ('FaultCondVar_notify_all', None, ['yaclib_std/condition_variable'], 'yaclib::detail::ConditionVariable', 'fault/detail/condition_variable.hpp', 'notify_all', 0),
]


def _collect(docs, suffix, name):
    """function-like decls named `name` with a body, defined in a file ending with `suffix`, in file order.
    Returns list of (is_template_pattern, node)."""
    out = []

    def visit(n, in_template, first_in_template):
        k = n.get('kind')
        if k in ('CXXMethodDecl', 'FunctionDecl', 'CXXDestructorDecl', 'CXXConstructorDecl'):
            if n.get('name') == name and A.body(n) is not None and (n.get('_file') or '').endswith(suffix):
                out.append((in_template and first_in_template, n))
            return
        if k == 'FunctionTemplateDecl':
            first = True
            for c in A.kids(n):
                if c.get('kind') in ('CXXMethodDecl', 'FunctionDecl', 'CXXDestructorDecl', 'CXXConstructorDecl'):
                    visit(c, True, first)
                    first = False
            return
        if k in ('ClassTemplateSpecializationDecl',):
            return  # implicit instantiations repeat the pattern
        for c in A.kids(n):
            visit(c, in_template, first_in_template)

    for d in docs:
        visit(d, False, False)
    return out


def generate(repo, cfg_include, workdir, kernels=KERNELS):
    cache = {}
    defs = []
    problems = []
    for (kid, tu, includes, flt, suffix, name, sel) in kernels:
        key = (tu, tuple(includes or ()), flt)
        try:
            if key not in cache:
                if tu is None:
                    path = os.path.join(workdir, 'tu_%s.cpp' % abs(hash(key)))
                    with open(path, 'w') as f:
                        for inc in includes:
                            f.write('#include <%s>\n' % inc)
                else:
                    path = os.path.join(repo, tu)
                cache[key] = A.dump(path, flt, cfg_include, repo=repo)
            found = _collect(cache[key], suffix, name)
            if sel == 'template':
                cands = [n for (is_pat, n) in found if is_pat]
                if not cands:
                    cands = [n for (_, n) in found]
                # several overloads (e.g. Connect): concatenate their skeletons in file order
                sk = ' || '.join(_dedup([skel.function_skeleton(n) for n in cands]))
            else:
                sks = _dedup([skel.function_skeleton(n) for (_, n) in found])
                if sel >= len(sks):
                    raise A.ExtractError('%s: only %d bodies named %s in *%s' % (kid, len(sks), name, suffix))
                sk = sks[sel]
            if not sk:
                raise A.ExtractError('%s: no body found' % kid)
        except A.ExtractError as e:
            problems.append('%s: %s' % (kid, e))
            sk = 'EXTRACTION FAILED: ' + str(e).split('\n')[0][:200]
        defs.append((kid, sk))
    out = ['/- GENERATED by vlib/x_kernels.py from /repo on every check run. Do not edit. -/',
           'namespace Yaclib.Extracted.Kernels', '']
    for kid, sk in defs:
        out.append('def %s : String :=\n  %s\n' % (kid, _q(sk)))
    out.append('end Yaclib.Extracted.Kernels\n')
    return '\n'.join(out), problems, dict(defs)


def _dedup(xs):
    seen = []
    for x in xs:
        if x not in seen:
            seen.append(x)
    return seen


def _q(s):
    return '"' + s.replace('\\', '\\\\').replace('"', '\\"') + '"'
