"""T2 translator: normalised skeletons of the kernel functions the models were written from.

Generated file: lean/YaclibModel/Extracted/Kernels.lean with one `def <id> : String` per kernel.
The property files state `theorem tie_<id> : Extracted.Kernels.<id> = "<skeleton the model was written from>" := rfl`,
so any edit to the control structure, the atomic operations or the memory orders of a kernel breaks an
obligation of every property whose model was written from it.
"""
import os

from . import cxxast as A
from . import skel

# id -> (translation unit (path relative to /repo, or None for a generated TU with `includes`), includes,
#        ast filter, file suffix the definition must come from, function name, selector)
# selector: index among the matching bodies in file order, after de-duplication of identical skeletons
KERNELS = [
    # ---- unique / shared hand-off word (C01, C06, C11, C04)
    ('BaseCore_SetCallbackImpl', 'src/algo/base_core.cpp', None, 'yaclib::detail::BaseCore', 'base_core.cpp', 'SetCallbackImpl', 'template'),
    ('BaseCore_ResetImpl', 'src/algo/base_core.cpp', None, 'yaclib::detail::BaseCore', 'base_core.cpp', 'ResetImpl', 0),
    ('BaseCore_SetInlineImpl', 'src/algo/base_core.cpp', None, 'yaclib::detail::BaseCore', 'base_core.cpp', 'SetInlineImpl', 'template'),
    ('BaseCore_SetResultImpl', 'src/algo/base_core.cpp', None, 'yaclib::detail::BaseCore', 'base_core.cpp', 'SetResultImpl', 'template'),
    ('BaseCore_Empty', 'src/algo/base_core.cpp', None, 'yaclib::detail::BaseCore', 'base_core.hpp', 'Empty', 0),
    ('Drop_Impl', 'src/algo/drop_core.cpp', None, 'Drop', 'drop_core.cpp', 'Impl', 'template'),
    ('Promise_Set', None, ['yaclib/async/promise.hpp'], 'yaclib::Promise', 'async/promise.hpp', 'Set', 'template'),
    ('Promise_dtor', None, ['yaclib/async/promise.hpp'], 'yaclib::Promise', 'async/promise.hpp', '~Promise<V, E>', 0),
    ('FutureBase_dtor', None, ['yaclib/async/future.hpp'], 'yaclib::FutureBase', 'async/future.hpp', '~FutureBase<V, E>', 0),
    ('FutureBase_Ready', None, ['yaclib/async/future.hpp'], 'yaclib::FutureBase', 'async/future.hpp', 'Ready', 0),
    ('FutureBase_GetConst', None, ['yaclib/async/future.hpp'], 'yaclib::FutureBase', 'async/future.hpp', 'Get', 0),
    ('FutureBase_GetMove', None, ['yaclib/async/future.hpp'], 'yaclib::FutureBase', 'async/future.hpp', 'Get', 1),
    ('FutureBase_Detach', None, ['yaclib/async/future.hpp'], 'yaclib::FutureBase', 'async/future.hpp', 'Detach', 0),
    ('UniqueCore_CallInline', None, ['yaclib/algo/detail/unique_core.hpp'], 'yaclib::detail::UniqueCore', 'unique_core.hpp', 'CallInline', 0),
    ('detail_SetCallback', None, ['yaclib/algo/detail/core.hpp', 'yaclib/async/future.hpp', 'yaclib/lazy/task.hpp'], 'yaclib::detail::SetCallback', 'detail/core.hpp', 'SetCallback', 'template'),
    ('Connect_Unique', None, ['yaclib/async/connect.hpp'], 'yaclib::Connect', 'async/connect.hpp', 'Connect', 'template'),
    ('WaitRange', None, ['yaclib/async/wait.hpp'], 'yaclib::detail::WaitRange', 'wait_impl.hpp', 'WaitRange', 'template'),
    ('WaitCore', None, ['yaclib/async/wait.hpp'], 'yaclib::detail::WaitCore', 'wait_impl.hpp', 'WaitCore', 'template'),
    ('MutexEvent_Set', 'src/util/mutex_event.cpp', None, 'yaclib::detail::MutexEvent', 'mutex_event.cpp', 'Set', 0),
    ('MutexEvent_Wait', 'src/util/mutex_event.cpp', None, 'yaclib::detail::MutexEvent', 'mutex_event.cpp', 'Wait', 0),
    ('CallCallback_Impl', None, ['yaclib/algo/detail/wait_event.hpp'], 'yaclib::detail::CallCallback', 'wait_event.hpp', 'Impl', 'template'),
    # ---- strand (C07)
    ('Strand_Submit', 'src/exe/strand.cpp', None, 'yaclib::Strand', 'strand.cpp', 'Submit', 0),
    ('Strand_Call', 'src/exe/strand.cpp', None, 'yaclib::Strand', 'strand.cpp', 'Call', 0),
    ('Strand_Drop', 'src/exe/strand.cpp', None, 'yaclib::Strand', 'strand.cpp', 'Drop', 0),
    # ---- coroutine Mutex (C14)
    ('MutexImpl_TryLockAwait', None, ['yaclib/coro/mutex.hpp'], 'yaclib::detail::MutexImpl', 'coro/mutex.hpp', 'TryLockAwait', 0),
    ('MutexImpl_AwaitLock', None, ['yaclib/coro/mutex.hpp'], 'yaclib::detail::MutexImpl', 'coro/mutex.hpp', 'AwaitLock', 0),
    ('MutexImpl_TryUnlockAwait', None, ['yaclib/coro/mutex.hpp'], 'yaclib::detail::MutexImpl', 'coro/mutex.hpp', 'TryUnlockAwait', 0),
    ('MutexImpl_BatchingPossible', None, ['yaclib/coro/mutex.hpp'], 'yaclib::detail::MutexImpl', 'coro/mutex.hpp', 'BatchingPossible', 0),
    ('MutexImpl_UnlockHereAwait', None, ['yaclib/coro/mutex.hpp'], 'yaclib::detail::MutexImpl', 'coro/mutex.hpp', 'UnlockHereAwait', 0),
    ('MutexImpl_AwaitUnlock', None, ['yaclib/coro/mutex.hpp'], 'yaclib::detail::MutexImpl', 'coro/mutex.hpp', 'AwaitUnlock', 0),
    ('MutexImpl_AwaitUnlockOn', None, ['yaclib/coro/mutex.hpp'], 'yaclib::detail::MutexImpl', 'coro/mutex.hpp', 'AwaitUnlockOn', 0),
    ('MutexImpl_TryLock', None, ['yaclib/coro/mutex.hpp'], 'yaclib::detail::MutexImpl', 'coro/mutex.hpp', 'TryLock', 0),
    ('MutexImpl_UnlockHere', None, ['yaclib/coro/mutex.hpp'], 'yaclib::detail::MutexImpl', 'coro/mutex.hpp', 'UnlockHere', 0),
    ('MutexImpl_GetHead', None, ['yaclib/coro/mutex.hpp'], 'yaclib::detail::MutexImpl', 'coro/mutex.hpp', 'GetHead', 0),
    ('UnlockAwaiter_await_ready', None, ['yaclib/coro/mutex.hpp'], 'yaclib::detail::UnlockAwaiter', 'coro/mutex.hpp', 'await_ready', 0),
    ('UnlockAwaiter_await_suspend', None, ['yaclib/coro/mutex.hpp'], 'yaclib::detail::UnlockAwaiter', 'coro/mutex.hpp', 'await_suspend', 'template'),
    ('UnlockOnAwaiter_await_ready', None, ['yaclib/coro/mutex.hpp'], 'yaclib::detail::UnlockOnAwaiter', 'coro/mutex.hpp', 'await_ready', 0),
    ('UnlockOnAwaiter_await_suspend', None, ['yaclib/coro/mutex.hpp'], 'yaclib::detail::UnlockOnAwaiter', 'coro/mutex.hpp', 'await_suspend', 'template'),
    ('LockAwaiter_await_ready', None, ['yaclib/coro/mutex.hpp'], 'yaclib::detail::LockAwaiter', 'mutex_awaiter.hpp', 'await_ready', 0),
    ('LockAwaiter_await_suspend', None, ['yaclib/coro/mutex.hpp'], 'yaclib::detail::LockAwaiter', 'mutex_awaiter.hpp', 'await_suspend', 'template'),
    ('GuardAwaiter_await_resume', None, ['yaclib/coro/mutex.hpp'], 'yaclib::detail::GuardAwaiter', 'mutex_awaiter.hpp', 'await_resume', 0),
    ('LockStickyAwaiter_await_ready', None, ['yaclib/coro/mutex.hpp'], 'yaclib::detail::LockStickyAwaiter', 'guard_sticky.hpp', 'await_ready', 0),
    ('LockStickyAwaiter_await_suspend', None, ['yaclib/coro/mutex.hpp'], 'yaclib::detail::LockStickyAwaiter', 'guard_sticky.hpp', 'await_suspend', 'template'),
    ('UnlockStickyAwaiter_await_ready', None, ['yaclib/coro/mutex.hpp'], 'yaclib::detail::UnlockStickyAwaiter', 'guard_sticky.hpp', 'await_ready', 0),
    ('UnlockStickyAwaiter_await_suspend', None, ['yaclib/coro/mutex.hpp'], 'yaclib::detail::UnlockStickyAwaiter', 'guard_sticky.hpp', 'await_suspend', 'template'),
    ('GuardStickyAwaiter_await_ready', None, ['yaclib/coro/mutex.hpp'], 'yaclib::detail::GuardStickyAwaiter', 'guard_sticky.hpp', 'await_ready', 0),
    ('GuardStickyAwaiter_await_suspend', None, ['yaclib/coro/mutex.hpp'], 'yaclib::detail::GuardStickyAwaiter', 'guard_sticky.hpp', 'await_suspend', 'template'),
    ('GuardStickyAwaiter_await_resume', None, ['yaclib/coro/mutex.hpp'], 'yaclib::detail::GuardStickyAwaiter', 'guard_sticky.hpp', 'await_resume', 0),
    ('StickyGuard_Lock', None, ['yaclib/coro/mutex.hpp'], 'yaclib::StickyGuard', 'guard_sticky.hpp', 'Lock', 0),
    ('StickyGuard_Unlock', None, ['yaclib/coro/mutex.hpp'], 'yaclib::StickyGuard', 'guard_sticky.hpp', 'Unlock', 0),
    ('Guard_dtor', None, ['yaclib/coro/mutex.hpp'], 'yaclib::detail::Guard', 'coro/guard.hpp', '~Guard<M, Shared>', 0),
    ('Guard_Lock', None, ['yaclib/coro/mutex.hpp'], 'yaclib::detail::Guard', 'coro/guard.hpp', 'Lock', 0),
    ('Guard_TryLock', None, ['yaclib/coro/mutex.hpp'], 'yaclib::detail::Guard', 'coro/guard.hpp', 'TryLock', 0),
    ('Guard_Unlock', None, ['yaclib/coro/mutex.hpp'], 'yaclib::detail::Guard', 'coro/guard.hpp', 'Unlock', 0),
    ('Guard_UnlockOn', None, ['yaclib/coro/mutex.hpp'], 'yaclib::detail::Guard', 'coro/guard.hpp', 'UnlockOn', 0),
    ('Guard_UnlockHere', None, ['yaclib/coro/mutex.hpp'], 'yaclib::detail::Guard', 'coro/guard.hpp', 'UnlockHere', 0),
    ('Guard_TryLockImpl', None, ['yaclib/coro/mutex.hpp'], 'yaclib::detail::Guard', 'coro/guard.hpp', 'TryLockImpl', 0),
    ('Mutex_TryGuard', None, ['yaclib/coro/mutex.hpp'], 'yaclib::Mutex', 'coro/mutex.hpp', 'TryGuard', 0),
    ('Mutex_Guard', None, ['yaclib/coro/mutex.hpp'], 'yaclib::Mutex', 'coro/mutex.hpp', 'Guard', 0),
    ('Mutex_GuardSticky', None, ['yaclib/coro/mutex.hpp'], 'yaclib::Mutex', 'coro/mutex.hpp', 'GuardSticky', 0),
    ('Mutex_Lock', None, ['yaclib/coro/mutex.hpp'], 'yaclib::Mutex', 'coro/mutex.hpp', 'Lock', 0),
    ('Mutex_Unlock', None, ['yaclib/coro/mutex.hpp'], 'yaclib::Mutex', 'coro/mutex.hpp', 'Unlock', 0),
    ('Mutex_UnlockOn', None, ['yaclib/coro/mutex.hpp'], 'yaclib::Mutex', 'coro/mutex.hpp', 'UnlockOn', 0),
    # ---- coroutine SharedMutex (C15)
    ('SharedMutexImpl_TryLockSharedAwait', None, ['yaclib/coro/shared_mutex.hpp'], 'yaclib::detail::SharedMutexImpl', 'coro/shared_mutex.hpp', 'TryLockSharedAwait', 0),
    ('SharedMutexImpl_TryLockAwait', None, ['yaclib/coro/shared_mutex.hpp'], 'yaclib::detail::SharedMutexImpl', 'coro/shared_mutex.hpp', 'TryLockAwait', 0),
    ('SharedMutexImpl_AwaitLockShared', None, ['yaclib/coro/shared_mutex.hpp'], 'yaclib::detail::SharedMutexImpl', 'coro/shared_mutex.hpp', 'AwaitLockShared', 0),
    ('SharedMutexImpl_AwaitLock', None, ['yaclib/coro/shared_mutex.hpp'], 'yaclib::detail::SharedMutexImpl', 'coro/shared_mutex.hpp', 'AwaitLock', 0),
    ('SharedMutexImpl_TryLockShared', None, ['yaclib/coro/shared_mutex.hpp'], 'yaclib::detail::SharedMutexImpl', 'coro/shared_mutex.hpp', 'TryLockShared', 0),
    ('SharedMutexImpl_TryLock', None, ['yaclib/coro/shared_mutex.hpp'], 'yaclib::detail::SharedMutexImpl', 'coro/shared_mutex.hpp', 'TryLock', 0),
    ('SharedMutexImpl_UnlockHereShared', None, ['yaclib/coro/shared_mutex.hpp'], 'yaclib::detail::SharedMutexImpl', 'coro/shared_mutex.hpp', 'UnlockHereShared', 0),
    ('SharedMutexImpl_UnlockHere', None, ['yaclib/coro/shared_mutex.hpp'], 'yaclib::detail::SharedMutexImpl', 'coro/shared_mutex.hpp', 'UnlockHere', 0),
    ('SharedMutexImpl_Run', None, ['yaclib/coro/shared_mutex.hpp'], 'yaclib::detail::SharedMutexImpl', 'coro/shared_mutex.hpp', 'Run', 0),
    ('SharedMutexImpl_RunWriter', None, ['yaclib/coro/shared_mutex.hpp'], 'yaclib::detail::SharedMutexImpl', 'coro/shared_mutex.hpp', 'RunWriter', 0),
    ('SharedMutexImpl_PassReaders', None, ['yaclib/coro/shared_mutex.hpp'], 'yaclib::detail::SharedMutexImpl', 'coro/shared_mutex.hpp', 'PassReaders', 0),
    ('SharedMutexImpl_RunReaders', None, ['yaclib/coro/shared_mutex.hpp'], 'yaclib::detail::SharedMutexImpl', 'coro/shared_mutex.hpp', 'RunReaders', 0),
    ('SharedMutexImpl_SlowUnlock', None, ['yaclib/coro/shared_mutex.hpp'], 'yaclib::detail::SharedMutexImpl', 'coro/shared_mutex.hpp', 'SlowUnlock', 0),
    ('Spinlock_lock', None, ['yaclib/coro/shared_mutex.hpp'], 'yaclib::detail::Spinlock', 'spinlock.hpp', 'lock', 0),
    ('Spinlock_unlock', None, ['yaclib/coro/shared_mutex.hpp'], 'yaclib::detail::Spinlock', 'spinlock.hpp', 'unlock', 0),
    ('SharedMutex_Lock', None, ['yaclib/coro/shared_mutex.hpp'], 'yaclib::SharedMutex', 'coro/shared_mutex.hpp', 'Lock', 0),
    ('SharedMutex_LockShared', None, ['yaclib/coro/shared_mutex.hpp'], 'yaclib::SharedMutex', 'coro/shared_mutex.hpp', 'LockShared', 0),
    ('SharedMutex_TryGuard', None, ['yaclib/coro/shared_mutex.hpp'], 'yaclib::SharedMutex', 'coro/shared_mutex.hpp', 'TryGuard', 0),
    ('SharedMutex_TryGuardShared', None, ['yaclib/coro/shared_mutex.hpp'], 'yaclib::SharedMutex', 'coro/shared_mutex.hpp', 'TryGuardShared', 0),
    ('SharedMutex_Guard', None, ['yaclib/coro/shared_mutex.hpp'], 'yaclib::SharedMutex', 'coro/shared_mutex.hpp', 'Guard', 0),
    ('SharedMutex_GuardShared', None, ['yaclib/coro/shared_mutex.hpp'], 'yaclib::SharedMutex', 'coro/shared_mutex.hpp', 'GuardShared', 0),
]


def _collect(docs, suffix, name):
    """function-like decls named `name` with a body, defined in a file ending with `suffix`, in file order.
    Returns list of (is_template_pattern, node)."""
    out = []

    def visit(n, in_template, first_in_template):
        k = n.get('kind')
        if k in ('CXXMethodDecl', 'FunctionDecl', 'CXXDestructorDecl', 'CXXConstructorDecl'):
            if n.get('name') == name and A.body(n) is not None and (n.get('_file') or '').endswith(suffix):
                out.append((in_template and first_in_template, n))
            return
        if k == 'FunctionTemplateDecl':
            first = True
            for c in A.kids(n):
                if c.get('kind') in ('CXXMethodDecl', 'FunctionDecl', 'CXXDestructorDecl', 'CXXConstructorDecl'):
                    visit(c, True, first)
                    first = False
            return
        if k in ('ClassTemplateSpecializationDecl',):
            return  # implicit instantiations repeat the pattern
        for c in A.kids(n):
            visit(c, in_template, first_in_template)

    for d in docs:
        visit(d, False, False)
    return out


def generate(repo, cfg_include, workdir, kernels=KERNELS):
    cache = {}
    defs = []
    problems = []
    for (kid, tu, includes, flt, suffix, name, sel) in kernels:
        key = (tu, tuple(includes or ()), flt)
        try:
            if key not in cache:
                if tu is None:
                    path = os.path.join(workdir, 'tu_%s.cpp' % abs(hash(key)))
                    with open(path, 'w') as f:
                        for inc in includes:
                            f.write('#include <%s>\n' % inc)
                else:
                    path = os.path.join(repo, tu)
                cache[key] = A.dump(path, flt, cfg_include, repo=repo)
            found = _collect(cache[key], suffix, name)
            if sel == 'template':
                cands = [n for (is_pat, n) in found if is_pat]
                if not cands:
                    cands = [n for (_, n) in found]
                # several overloads (e.g. Connect): concatenate their skeletons in file order
                sk = ' || '.join(_dedup([skel.function_skeleton(n) for n in cands]))
            else:
                sks = _dedup([skel.function_skeleton(n) for (_, n) in found])
                if sel >= len(sks):
                    raise A.ExtractError('%s: only %d bodies named %s in *%s' % (kid, len(sks), name, suffix))
                sk = sks[sel]
            if not sk:
                raise A.ExtractError('%s: no body found' % kid)
        except A.ExtractError as e:
            problems.append('%s: %s' % (kid, e))
            sk = 'EXTRACTION FAILED: ' + str(e).split('\n')[0][:200]
        defs.append((kid, sk))
    out = ['/- GENERATED by vlib/x_kernels.py from /repo on every check run. Do not edit. -/',
           'namespace Yaclib.Extracted.Kernels', '']
    for kid, sk in defs:
        out.append('def %s : String :=\n  %s\n' % (kid, _q(sk)))
    out.append('end Yaclib.Extracted.Kernels\n')
    return '\n'.join(out), problems, dict(defs)


def _dedup(xs):
    seen = []
    for x in xs:
        if x not in seen:
            seen.append(x)
    return seen


def _q(s):
    return '"' + s.replace('\\', '\\\\').replace('"', '\\"') + '"'
