"""T2 translator: normalised skeletons of the kernel functions the models were written from.

Generated file: lean/YaclibModel/Extracted/Kernels.lean with one `def <id> : String` per kernel.
The property files state `theorem tie_<id> : Extracted.Kernels.<id> = "<skeleton the model was written from>" := rfl`,
so any edit to the control structure, the atomic operations or the memory orders of a kernel breaks an
obligation of every property whose model was written from it.
"""
import os

from . import cxxast as A
from . import skel

# id -> (translation unit (path relative to /repo, or None for a generated TU with `includes`), includes,
#        ast filter, file suffix the definition must come from, function name, selector)
# selector: index among the matching bodies in file order, after de-duplication of identical skeletons
KERNELS = [
    # ---- unique / shared hand-off word (C01, C06, C11, C04)
    ('BaseCore_SetCallbackImpl', 'src/algo/base_core.cpp', None, 'yaclib::detail::BaseCore', 'base_core.cpp', 'SetCallbackImpl', 'template'),
    ('BaseCore_ResetImpl', 'src/algo/base_core.cpp', None, 'yaclib::detail::BaseCore', 'base_core.cpp', 'ResetImpl', 0),
    ('BaseCore_SetInlineImpl', 'src/algo/base_core.cpp', None, 'yaclib::detail::BaseCore', 'base_core.cpp', 'SetInlineImpl', 'template'),
    ('BaseCore_SetResultImpl', 'src/algo/base_core.cpp', None, 'yaclib::detail::BaseCore', 'base_core.cpp', 'SetResultImpl', 'template'),
    ('BaseCore_Empty', 'src/algo/base_core.cpp', None, 'yaclib::detail::BaseCore', 'base_core.hpp', 'Empty', 0),
    ('BaseCore_Ready', 'src/algo/base_core.cpp', None, 'yaclib::detail::BaseCore', 'base_core.hpp', 'Ready', 0),
    ('Drop_Impl', 'src/algo/drop_core.cpp', None, 'Drop', 'drop_core.cpp', 'Impl', 'template'),
    ('Promise_Set', None, ['yaclib/async/promise.hpp'], 'yaclib::Promise', 'async/promise.hpp', 'Set', 'template'),
    ('Promise_dtor', None, ['yaclib/async/promise.hpp'], 'yaclib::Promise', 'async/promise.hpp', '~Promise<V, E>', 0),
    ('FutureBase_dtor', None, ['yaclib/async/future.hpp'], 'yaclib::FutureBase', 'async/future.hpp', '~FutureBase<V, E>', 0),
    ('FutureBase_Ready', None, ['yaclib/async/future.hpp'], 'yaclib::FutureBase', 'async/future.hpp', 'Ready', 0),
    ('FutureBase_GetConst', None, ['yaclib/async/future.hpp'], 'yaclib::FutureBase', 'async/future.hpp', 'Get', 0),
    ('FutureBase_GetMove', None, ['yaclib/async/future.hpp'], 'yaclib::FutureBase', 'async/future.hpp', 'Get', 1),
    ('FutureBase_Detach', None, ['yaclib/async/future.hpp'], 'yaclib::FutureBase', 'async/future.hpp', 'Detach', 0),
    ('UniqueCore_CallInline', None, ['yaclib/algo/detail/unique_core.hpp'], 'yaclib::detail::UniqueCore', 'unique_core.hpp', 'CallInline', 0),
    ('detail_SetCallback', None, ['yaclib/algo/detail/core.hpp', 'yaclib/async/future.hpp', 'yaclib/lazy/task.hpp'], 'yaclib::detail::SetCallback', 'detail/core.hpp', 'SetCallback', 'template'),
    ('Connect_Unique', None, ['yaclib/async/connect.hpp'], 'yaclib::Connect', 'async/connect.hpp', 'Connect', 'template'),
    ('WaitRange', None, ['yaclib/async/wait.hpp'], 'yaclib::detail::WaitRange', 'wait_impl.hpp', 'WaitRange', 'template'),
    ('WaitCore', None, ['yaclib/async/wait.hpp'], 'yaclib::detail::WaitCore', 'wait_impl.hpp', 'WaitCore', 'template'),
    ('MutexEvent_Set', 'src/util/mutex_event.cpp', None, 'yaclib::detail::MutexEvent', 'mutex_event.cpp', 'Set', 0),
    ('MutexEvent_Wait', 'src/util/mutex_event.cpp', None, 'yaclib::detail::MutexEvent', 'mutex_event.cpp', 'Wait', 0),
    ('CallCallback_Impl', None, ['yaclib/algo/detail/wait_event.hpp'], 'yaclib::detail::CallCallback', 'wait_event.hpp', 'Impl', 'template'),
    # ---- Wait / WaitFor / WaitUntil (C11), counters shared with C16
    ('WaitIterator', None, ['yaclib/async/wait.hpp'], 'yaclib::detail::WaitIterator', 'wait_impl.hpp', 'WaitIterator', 'template'),
    ('OneCounter_Sub', None, ['yaclib/util/detail/unique_counter.hpp'], 'yaclib::detail::OneCounter', 'unique_counter.hpp', 'Sub', 0),
    ('OneCounter_SubEqual', None, ['yaclib/util/detail/unique_counter.hpp'], 'yaclib::detail::OneCounter', 'unique_counter.hpp', 'SubEqual', 0),
    ('SetDeleter_Delete', None, ['yaclib/util/detail/set_deleter.hpp'], 'yaclib::detail::SetDeleter', 'set_deleter.hpp', 'Delete', 'template'),
    ('MutexEvent_Make', 'src/util/mutex_event.cpp', None, 'yaclib::detail::MutexEvent', 'mutex_event.cpp', 'Make', 0),
    ('MutexEvent_WaitTimed', None, ['yaclib/util/detail/mutex_event.hpp'], 'yaclib::detail::MutexEvent', 'mutex_event.hpp', 'Wait', 'template'),
    ('Wait_variadic_iterator', None, ['yaclib/async/wait.hpp'], 'yaclib::Wait', 'async/wait.hpp', 'Wait', 'template'),
    ('WaitFor_variadic_iterator', None, ['yaclib/async/wait_for.hpp'], 'yaclib::WaitFor', 'async/wait_for.hpp', 'WaitFor', 'template'),
    ('WaitUntil_variadic_iterator', None, ['yaclib/async/wait_until.hpp'], 'yaclib::WaitUntil', 'async/wait_until.hpp', 'WaitUntil', 'template'),
    # ---- WaitGroup / OneShotEvent (C16)
    ('OneShotEvent_SetImpl', 'src/algo/one_shot_event.cpp', None, 'SetImpl', 'one_shot_event.cpp', 'SetImpl', 0),
    ('OneShotEvent_TryAdd', 'src/algo/one_shot_event.cpp', None, 'yaclib::OneShotEvent', 'one_shot_event.cpp', 'TryAdd', 0),
    ('OneShotEvent_Ready', 'src/algo/one_shot_event.cpp', None, 'yaclib::OneShotEvent', 'one_shot_event.cpp', 'Ready', 0),
    ('OneShotEvent_Wait', 'src/algo/one_shot_event.cpp', None, 'yaclib::OneShotEvent', 'one_shot_event.cpp', 'Wait', 0),
    ('OneShotEvent_Set', 'src/algo/one_shot_event.cpp', None, 'yaclib::OneShotEvent', 'one_shot_event.cpp', 'Set', 0),
    ('OneShotEvent_TimedWait', None, ['yaclib/algo/one_shot_event.hpp'], 'yaclib::OneShotEvent', 'one_shot_event.hpp', 'TimedWait', 'template'),
    ('OneShotEvent_ExtendedAwaiter_Call', None, ['yaclib/algo/one_shot_event.hpp'], 'yaclib::OneShotEvent', 'one_shot_event.hpp', 'Call', 0),
    ('OneShotEvent_Waiter_Call', None, ['yaclib/algo/one_shot_event.hpp'], 'yaclib::OneShotEvent', 'one_shot_event.hpp', 'Call', 1),
    ('OneShotEvent_TimedWaiter_Call', None, ['yaclib/algo/one_shot_event.hpp'], 'yaclib::OneShotEvent', 'one_shot_event.hpp', 'Call', 2),
    ('OneShotEvent_await_ready', None, ['yaclib/algo/one_shot_event.hpp'], 'yaclib::OneShotEvent', 'one_shot_event.hpp', 'await_ready', 0),
    ('OneShotEvent_OnAwaiter_await_ready', None, ['yaclib/algo/one_shot_event.hpp'], 'yaclib::OneShotEvent', 'one_shot_event.hpp', 'await_ready', 1),
    ('OneShotEvent_await_suspend', None, ['yaclib/algo/one_shot_event.hpp'], 'yaclib::OneShotEvent', 'one_shot_event.hpp', 'await_suspend', 'template'),
    ('WaitGroup_Add', None, ['yaclib/algo/wait_group.hpp'], 'yaclib::WaitGroup', 'wait_group.hpp', 'Add', 0),
    ('WaitGroup_Done', None, ['yaclib/algo/wait_group.hpp'], 'yaclib::WaitGroup', 'wait_group.hpp', 'Done', 0),
    ('WaitGroup_Wait', None, ['yaclib/algo/wait_group.hpp'], 'yaclib::WaitGroup', 'wait_group.hpp', 'Wait', 0),
    ('WaitGroup_WaitFor', None, ['yaclib/algo/wait_group.hpp'], 'yaclib::WaitGroup', 'wait_group.hpp', 'WaitFor', 'template'),
    ('WaitGroup_InsertRange', None, ['yaclib/algo/wait_group.hpp'], 'yaclib::WaitGroup', 'wait_group.hpp', 'InsertRange', 'template'),
    ('WaitGroup_InsertCore', None, ['yaclib/algo/wait_group.hpp'], 'yaclib::WaitGroup', 'wait_group.hpp', 'InsertCore', 'template'),
    ('WaitGroup_InsertIt', None, ['yaclib/algo/wait_group.hpp'], 'yaclib::WaitGroup', 'wait_group.hpp', 'InsertIt', 'template'),
    ('DropCallback_Impl', None, ['yaclib/algo/detail/wait_event.hpp'], 'yaclib::detail::DropCallback', 'wait_event.hpp', 'Impl', 'template'),
    # ---- strand (C07)
    ('Strand_Submit', 'src/exe/strand.cpp', None, 'yaclib::Strand', 'strand.cpp', 'Submit', 0),
    ('Strand_Call', 'src/exe/strand.cpp', None, 'yaclib::Strand', 'strand.cpp', 'Call', 0),
    ('Strand_Drop', 'src/exe/strand.cpp', None, 'yaclib::Strand', 'strand.cpp', 'Drop', 0),
    # ---- coroutine Mutex (C14)
    ('MutexImpl_TryLockAwait', None, ['yaclib/coro/mutex.hpp'], 'yaclib::detail::MutexImpl', 'coro/mutex.hpp', 'TryLockAwait', 0),
    ('MutexImpl_AwaitLock', None, ['yaclib/coro/mutex.hpp'], 'yaclib::detail::MutexImpl', 'coro/mutex.hpp', 'AwaitLock', 0),
    ('MutexImpl_TryUnlockAwait', None, ['yaclib/coro/mutex.hpp'], 'yaclib::detail::MutexImpl', 'coro/mutex.hpp', 'TryUnlockAwait', 0),
    ('MutexImpl_BatchingPossible', None, ['yaclib/coro/mutex.hpp'], 'yaclib::detail::MutexImpl', 'coro/mutex.hpp', 'BatchingPossible', 0),
    ('MutexImpl_UnlockHereAwait', None, ['yaclib/coro/mutex.hpp'], 'yaclib::detail::MutexImpl', 'coro/mutex.hpp', 'UnlockHereAwait', 0),
    ('MutexImpl_AwaitUnlock', None, ['yaclib/coro/mutex.hpp'], 'yaclib::detail::MutexImpl', 'coro/mutex.hpp', 'AwaitUnlock', 0),
    ('MutexImpl_AwaitUnlockOn', None, ['yaclib/coro/mutex.hpp'], 'yaclib::detail::MutexImpl', 'coro/mutex.hpp', 'AwaitUnlockOn', 0),
    ('MutexImpl_TryLock', None, ['yaclib/coro/mutex.hpp'], 'yaclib::detail::MutexImpl', 'coro/mutex.hpp', 'TryLock', 0),
    ('MutexImpl_UnlockHere', None, ['yaclib/coro/mutex.hpp'], 'yaclib::detail::MutexImpl', 'coro/mutex.hpp', 'UnlockHere', 0),
    ('MutexImpl_GetHead', None, ['yaclib/coro/mutex.hpp'], 'yaclib::detail::MutexImpl', 'coro/mutex.hpp', 'GetHead', 0),
    ('UnlockAwaiter_await_ready', None, ['yaclib/coro/mutex.hpp'], 'yaclib::detail::UnlockAwaiter', 'coro/mutex.hpp', 'await_ready', 0),
    ('UnlockAwaiter_await_suspend', None, ['yaclib/coro/mutex.hpp'], 'yaclib::detail::UnlockAwaiter', 'coro/mutex.hpp', 'await_suspend', 'template'),
    ('UnlockOnAwaiter_await_ready', None, ['yaclib/coro/mutex.hpp'], 'yaclib::detail::UnlockOnAwaiter', 'coro/mutex.hpp', 'await_ready', 0),
    ('UnlockOnAwaiter_await_suspend', None, ['yaclib/coro/mutex.hpp'], 'yaclib::detail::UnlockOnAwaiter', 'coro/mutex.hpp', 'await_suspend', 'template'),
    ('LockAwaiter_await_ready', None, ['yaclib/coro/mutex.hpp'], 'yaclib::detail::LockAwaiter', 'mutex_awaiter.hpp', 'await_ready', 0),
    ('LockAwaiter_await_suspend', None, ['yaclib/coro/mutex.hpp'], 'yaclib::detail::LockAwaiter', 'mutex_awaiter.hpp', 'await_suspend', 'template'),
    ('GuardAwaiter_await_resume', None, ['yaclib/coro/mutex.hpp'], 'yaclib::detail::GuardAwaiter', 'mutex_awaiter.hpp', 'await_resume', 0),
    ('LockStickyAwaiter_await_ready', None, ['yaclib/coro/mutex.hpp'], 'yaclib::detail::LockStickyAwaiter', 'guard_sticky.hpp', 'await_ready', 0),
    ('LockStickyAwaiter_await_suspend', None, ['yaclib/coro/mutex.hpp'], 'yaclib::detail::LockStickyAwaiter', 'guard_sticky.hpp', 'await_suspend', 'template'),
    ('UnlockStickyAwaiter_await_ready', None, ['yaclib/coro/mutex.hpp'], 'yaclib::detail::UnlockStickyAwaiter', 'guard_sticky.hpp', 'await_ready', 0),
    ('UnlockStickyAwaiter_await_suspend', None, ['yaclib/coro/mutex.hpp'], 'yaclib::detail::UnlockStickyAwaiter', 'guard_sticky.hpp', 'await_suspend', 'template'),
    ('GuardStickyAwaiter_await_ready', None, ['yaclib/coro/mutex.hpp'], 'yaclib::detail::GuardStickyAwaiter', 'guard_sticky.hpp', 'await_ready', 0),
    ('GuardStickyAwaiter_await_suspend', None, ['yaclib/coro/mutex.hpp'], 'yaclib::detail::GuardStickyAwaiter', 'guard_sticky.hpp', 'await_suspend', 'template'),
    ('GuardStickyAwaiter_await_resume', None, ['yaclib/coro/mutex.hpp'], 'yaclib::detail::GuardStickyAwaiter', 'guard_sticky.hpp', 'await_resume', 0),
    ('StickyGuard_Lock', None, ['yaclib/coro/mutex.hpp'], 'yaclib::StickyGuard', 'guard_sticky.hpp', 'Lock', 0),
    ('StickyGuard_Unlock', None, ['yaclib/coro/mutex.hpp'], 'yaclib::StickyGuard', 'guard_sticky.hpp', 'Unlock', 0),
    ('Guard_dtor', None, ['yaclib/coro/mutex.hpp'], 'yaclib::detail::Guard', 'coro/guard.hpp', '~Guard<M, Shared>', 0),
    ('Guard_Lock', None, ['yaclib/coro/mutex.hpp'], 'yaclib::detail::Guard', 'coro/guard.hpp', 'Lock', 0),
    ('Guard_TryLock', None, ['yaclib/coro/mutex.hpp'], 'yaclib::detail::Guard', 'coro/guard.hpp', 'TryLock', 0),
    ('Guard_Unlock', None, ['yaclib/coro/mutex.hpp'], 'yaclib::detail::Guard', 'coro/guard.hpp', 'Unlock', 0),
    ('Guard_UnlockOn', None, ['yaclib/coro/mutex.hpp'], 'yaclib::detail::Guard', 'coro/guard.hpp', 'UnlockOn', 0),
    ('Guard_UnlockHere', None, ['yaclib/coro/mutex.hpp'], 'yaclib::detail::Guard', 'coro/guard.hpp', 'UnlockHere', 0),
    ('Guard_TryLockImpl', None, ['yaclib/coro/mutex.hpp'], 'yaclib::detail::Guard', 'coro/guard.hpp', 'TryLockImpl', 0),
    ('Mutex_TryGuard', None, ['yaclib/coro/mutex.hpp'], 'yaclib::Mutex', 'coro/mutex.hpp', 'TryGuard', 0),
    ('Mutex_Guard', None, ['yaclib/coro/mutex.hpp'], 'yaclib::Mutex', 'coro/mutex.hpp', 'Guard', 0),
    ('Mutex_GuardSticky', None, ['yaclib/coro/mutex.hpp'], 'yaclib::Mutex', 'coro/mutex.hpp', 'GuardSticky', 0),
    ('Mutex_Lock', None, ['yaclib/coro/mutex.hpp'], 'yaclib::Mutex', 'coro/mutex.hpp', 'Lock', 0),
    ('Mutex_Unlock', None, ['yaclib/coro/mutex.hpp'], 'yaclib::Mutex', 'coro/mutex.hpp', 'Unlock', 0),
    ('Mutex_UnlockOn', None, ['yaclib/coro/mutex.hpp'], 'yaclib::Mutex', 'coro/mutex.hpp', 'UnlockOn', 0),
    # text tie: the YACLIB_TRANSFER / YACLIB_RESUME / YACLIB_SUSPEND block of coro.hpp (both transfer configurations); the macros
    # are used only by MutexImpl::AwaitUnlock / AwaitUnlockOn
    ('CoMutexSrc_coro_transfer_macros', 'include/yaclib/coro/coro.hpp', None, None, None,
     (r'#if YACLIB_SYMMETRIC_TRANSFER != 0\s*#\s*define YACLIB_TRANSFER', r'#\s*define YACLIB_SUSPEND\(\) return true\s*#endif'), 'text'),
    # ---- coroutine SharedMutex (C15)
    ('SharedMutexImpl_TryLockSharedAwait', None, ['yaclib/coro/shared_mutex.hpp'], 'yaclib::detail::SharedMutexImpl', 'coro/shared_mutex.hpp', 'TryLockSharedAwait', 0),
    ('SharedMutexImpl_TryLockAwait', None, ['yaclib/coro/shared_mutex.hpp'], 'yaclib::detail::SharedMutexImpl', 'coro/shared_mutex.hpp', 'TryLockAwait', 0),
    ('SharedMutexImpl_AwaitLockShared', None, ['yaclib/coro/shared_mutex.hpp'], 'yaclib::detail::SharedMutexImpl', 'coro/shared_mutex.hpp', 'AwaitLockShared', 0),
    ('SharedMutexImpl_AwaitLock', None, ['yaclib/coro/shared_mutex.hpp'], 'yaclib::detail::SharedMutexImpl', 'coro/shared_mutex.hpp', 'AwaitLock', 0),
    ('SharedMutexImpl_TryLockShared', None, ['yaclib/coro/shared_mutex.hpp'], 'yaclib::detail::SharedMutexImpl', 'coro/shared_mutex.hpp', 'TryLockShared', 0),
    ('SharedMutexImpl_TryLock', None, ['yaclib/coro/shared_mutex.hpp'], 'yaclib::detail::SharedMutexImpl', 'coro/shared_mutex.hpp', 'TryLock', 0),
    ('SharedMutexImpl_UnlockHereShared', None, ['yaclib/coro/shared_mutex.hpp'], 'yaclib::detail::SharedMutexImpl', 'coro/shared_mutex.hpp', 'UnlockHereShared', 0),
    ('SharedMutexImpl_UnlockHere', None, ['yaclib/coro/shared_mutex.hpp'], 'yaclib::detail::SharedMutexImpl', 'coro/shared_mutex.hpp', 'UnlockHere', 0),
    ('SharedMutexImpl_Run', None, ['yaclib/coro/shared_mutex.hpp'], 'yaclib::detail::SharedMutexImpl', 'coro/shared_mutex.hpp', 'Run', 0),
    ('SharedMutexImpl_RunWriter', None, ['yaclib/coro/shared_mutex.hpp'], 'yaclib::detail::SharedMutexImpl', 'coro/shared_mutex.hpp', 'RunWriter', 0),
    ('SharedMutexImpl_PassReaders', None, ['yaclib/coro/shared_mutex.hpp'], 'yaclib::detail::SharedMutexImpl', 'coro/shared_mutex.hpp', 'PassReaders', 0),
    ('SharedMutexImpl_RunReaders', None, ['yaclib/coro/shared_mutex.hpp'], 'yaclib::detail::SharedMutexImpl', 'coro/shared_mutex.hpp', 'RunReaders', 0),
    ('SharedMutexImpl_SlowUnlock', None, ['yaclib/coro/shared_mutex.hpp'], 'yaclib::detail::SharedMutexImpl', 'coro/shared_mutex.hpp', 'SlowUnlock', 0),
    ('Spinlock_lock', None, ['yaclib/coro/shared_mutex.hpp'], 'yaclib::detail::Spinlock', 'spinlock.hpp', 'lock', 0),
    ('Spinlock_unlock', None, ['yaclib/coro/shared_mutex.hpp'], 'yaclib::detail::Spinlock', 'spinlock.hpp', 'unlock', 0),
    ('SharedMutex_Lock', None, ['yaclib/coro/shared_mutex.hpp'], 'yaclib::SharedMutex', 'coro/shared_mutex.hpp', 'Lock', 0),
    ('SharedMutex_LockShared', None, ['yaclib/coro/shared_mutex.hpp'], 'yaclib::SharedMutex', 'coro/shared_mutex.hpp', 'LockShared', 0),
    ('SharedMutex_TryGuard', None, ['yaclib/coro/shared_mutex.hpp'], 'yaclib::SharedMutex', 'coro/shared_mutex.hpp', 'TryGuard', 0),
    ('SharedMutex_TryGuardShared', None, ['yaclib/coro/shared_mutex.hpp'], 'yaclib::SharedMutex', 'coro/shared_mutex.hpp', 'TryGuardShared', 0),
    ('SharedMutex_Guard', None, ['yaclib/coro/shared_mutex.hpp'], 'yaclib::SharedMutex', 'coro/shared_mutex.hpp', 'Guard', 0),
    ('SharedMutex_GuardShared', None, ['yaclib/coro/shared_mutex.hpp'], 'yaclib::SharedMutex', 'coro/shared_mutex.hpp', 'GuardShared', 0),
    # ---- FairThreadPool (C08): every member function + the FIFO list it uses
    ('FairThreadPool_ctor', 'src/runtime/fair_thread_pool.cpp', None, 'yaclib::FairThreadPool', 'fair_thread_pool.cpp', 'FairThreadPool', 0),
    ('FairThreadPool_Submit', 'src/runtime/fair_thread_pool.cpp', None, 'yaclib::FairThreadPool', 'fair_thread_pool.cpp', 'Submit', 0),
    ('FairThreadPool_SoftStop', 'src/runtime/fair_thread_pool.cpp', None, 'yaclib::FairThreadPool', 'fair_thread_pool.cpp', 'SoftStop', 0),
    ('FairThreadPool_Stop', 'src/runtime/fair_thread_pool.cpp', None, 'yaclib::FairThreadPool', 'fair_thread_pool.cpp', 'Stop', 0),
    ('FairThreadPool_StopLocked', 'src/runtime/fair_thread_pool.cpp', None, 'yaclib::FairThreadPool', 'fair_thread_pool.cpp', 'Stop', 1),
    ('FairThreadPool_HardStop', 'src/runtime/fair_thread_pool.cpp', None, 'yaclib::FairThreadPool', 'fair_thread_pool.cpp', 'HardStop', 0),
    ('FairThreadPool_Wait', 'src/runtime/fair_thread_pool.cpp', None, 'yaclib::FairThreadPool', 'fair_thread_pool.cpp', 'Wait', 0),
    ('FairThreadPool_Loop', 'src/runtime/fair_thread_pool.cpp', None, 'yaclib::FairThreadPool', 'fair_thread_pool.cpp', 'Loop', 0),
    ('FairThreadPool_WasStop', 'src/runtime/fair_thread_pool.cpp', None, 'yaclib::FairThreadPool', 'fair_thread_pool.cpp', 'WasStop', 0),
    ('FairThreadPool_WantStop', 'src/runtime/fair_thread_pool.cpp', None, 'yaclib::FairThreadPool', 'fair_thread_pool.cpp', 'WantStop', 0),
    ('FairThreadPool_NoJobs', 'src/runtime/fair_thread_pool.cpp', None, 'yaclib::FairThreadPool', 'fair_thread_pool.cpp', 'NoJobs', 0),
    ('FairThreadPool_Alive', 'src/runtime/fair_thread_pool.cpp', None, 'yaclib::FairThreadPool', 'fair_thread_pool.cpp', 'Alive', 0),
    ('List_MoveCtor', 'src/util/intrusive_list.cpp', None, 'yaclib::detail::List', 'intrusive_list.cpp', 'List', 0),
    ('List_PushBack', 'src/util/intrusive_list.cpp', None, 'yaclib::detail::List', 'intrusive_list.cpp', 'PushBack', 0),
    ('List_Empty', 'src/util/intrusive_list.cpp', None, 'yaclib::detail::List', 'intrusive_list.cpp', 'Empty', 0),
    ('List_PopFront', 'src/util/intrusive_list.cpp', None, 'yaclib::detail::List', 'intrusive_list.cpp', 'PopFront', 0),
    # ---- fiber sync primitives of the FIBER backend (C18)
    ('FiberMutex_lock', 'src/fault/fiber/mutex.cpp', None, 'yaclib::detail::fiber::Mutex', 'fiber/mutex.cpp', 'lock', 0),
    ('FiberMutex_try_lock', 'src/fault/fiber/mutex.cpp', None, 'yaclib::detail::fiber::Mutex', 'fiber/mutex.cpp', 'try_lock', 0),
    ('FiberMutex_unlock', 'src/fault/fiber/mutex.cpp', None, 'yaclib::detail::fiber::Mutex', 'fiber/mutex.cpp', 'unlock', 0),
    ('FiberTimedMutex_TimedWaitHelper', None, ['yaclib/fault/detail/fiber/timed_mutex.hpp'], 'yaclib::detail::fiber::TimedMutex', 'fiber/timed_mutex.hpp', 'TimedWaitHelper', 'template'),
    ('FiberTimedMutex_try_lock_for', None, ['yaclib/fault/detail/fiber/timed_mutex.hpp'], 'yaclib::detail::fiber::TimedMutex', 'fiber/timed_mutex.hpp', 'try_lock_for', 'template'),
    ('FiberTimedMutex_try_lock_until', None, ['yaclib/fault/detail/fiber/timed_mutex.hpp'], 'yaclib::detail::fiber::TimedMutex', 'fiber/timed_mutex.hpp', 'try_lock_until', 'template'),
    ('FiberRecursiveMutex_lock', 'src/fault/fiber/recursive_mutex.cpp', None, 'yaclib::detail::fiber::RecursiveMutex', 'fiber/recursive_mutex.cpp', 'lock', 0),
    ('FiberRecursiveMutex_try_lock', 'src/fault/fiber/recursive_mutex.cpp', None, 'yaclib::detail::fiber::RecursiveMutex', 'fiber/recursive_mutex.cpp', 'try_lock', 0),
    ('FiberRecursiveMutex_unlock', 'src/fault/fiber/recursive_mutex.cpp', None, 'yaclib::detail::fiber::RecursiveMutex', 'fiber/recursive_mutex.cpp', 'unlock', 0),
    ('FiberRecursiveMutex_LockHelper', 'src/fault/fiber/recursive_mutex.cpp', None, 'yaclib::detail::fiber::RecursiveMutex', 'fiber/recursive_mutex.cpp', 'LockHelper', 0),
    ('FiberRecursiveTimedMutex_TimedWaitHelper', None, ['yaclib/fault/detail/fiber/recursive_timed_mutex.hpp'], 'yaclib::detail::fiber::RecursiveTimedMutex', 'fiber/recursive_timed_mutex.hpp', 'TimedWaitHelper', 'template'),
    ('FiberRecursiveTimedMutex_try_lock_for', None, ['yaclib/fault/detail/fiber/recursive_timed_mutex.hpp'], 'yaclib::detail::fiber::RecursiveTimedMutex', 'fiber/recursive_timed_mutex.hpp', 'try_lock_for', 'template'),
    ('FiberRecursiveTimedMutex_try_lock_until', None, ['yaclib/fault/detail/fiber/recursive_timed_mutex.hpp'], 'yaclib::detail::fiber::RecursiveTimedMutex', 'fiber/recursive_timed_mutex.hpp', 'try_lock_until', 'template'),
    ('FiberSharedMutex_lock', 'src/fault/fiber/shared_mutex.cpp', None, 'yaclib::detail::fiber::SharedMutex', 'fiber/shared_mutex.cpp', 'lock', 0),
    ('FiberSharedMutex_try_lock', 'src/fault/fiber/shared_mutex.cpp', None, 'yaclib::detail::fiber::SharedMutex', 'fiber/shared_mutex.cpp', 'try_lock', 0),
    ('FiberSharedMutex_unlock', 'src/fault/fiber/shared_mutex.cpp', None, 'yaclib::detail::fiber::SharedMutex', 'fiber/shared_mutex.cpp', 'unlock', 0),
    ('FiberSharedMutex_lock_shared', 'src/fault/fiber/shared_mutex.cpp', None, 'yaclib::detail::fiber::SharedMutex', 'fiber/shared_mutex.cpp', 'lock_shared', 0),
    ('FiberSharedMutex_try_lock_shared', 'src/fault/fiber/shared_mutex.cpp', None, 'yaclib::detail::fiber::SharedMutex', 'fiber/shared_mutex.cpp', 'try_lock_shared', 0),
    ('FiberSharedMutex_unlock_shared', 'src/fault/fiber/shared_mutex.cpp', None, 'yaclib::detail::fiber::SharedMutex', 'fiber/shared_mutex.cpp', 'unlock_shared', 0),
    ('FiberSharedMutex_LockHelper', 'src/fault/fiber/shared_mutex.cpp', None, 'yaclib::detail::fiber::SharedMutex', 'fiber/shared_mutex.cpp', 'LockHelper', 0),
    ('FiberSharedMutex_SharedLockHelper', 'src/fault/fiber/shared_mutex.cpp', None, 'yaclib::detail::fiber::SharedMutex', 'fiber/shared_mutex.cpp', 'SharedLockHelper', 0),
    ('FiberSharedTimedMutex_TimedWaitHelper', None, ['yaclib/fault/detail/fiber/shared_timed_mutex.hpp'], 'yaclib::detail::fiber::SharedTimedMutex', 'fiber/shared_timed_mutex.hpp', 'TimedWaitHelper', 'template'),
    ('FiberSharedTimedMutex_try_lock_for', None, ['yaclib/fault/detail/fiber/shared_timed_mutex.hpp'], 'yaclib::detail::fiber::SharedTimedMutex', 'fiber/shared_timed_mutex.hpp', 'try_lock_for', 'template'),
    ('FiberSharedTimedMutex_try_lock_until', None, ['yaclib/fault/detail/fiber/shared_timed_mutex.hpp'], 'yaclib::detail::fiber::SharedTimedMutex', 'fiber/shared_timed_mutex.hpp', 'try_lock_until', 'template'),
    ('FiberSharedTimedMutex_try_lock_shared_for', None, ['yaclib/fault/detail/fiber/shared_timed_mutex.hpp'], 'yaclib::detail::fiber::SharedTimedMutex', 'fiber/shared_timed_mutex.hpp', 'try_lock_shared_for', 'template'),
    ('FiberSharedTimedMutex_try_lock_shared_until', None, ['yaclib/fault/detail/fiber/shared_timed_mutex.hpp'], 'yaclib::detail::fiber::SharedTimedMutex', 'fiber/shared_timed_mutex.hpp', 'try_lock_shared_until', 'template'),
    ('FiberCondVar_notify_one', 'src/fault/fiber/condition_variable.cpp', None, 'yaclib::detail::fiber::ConditionVariable', 'fiber/condition_variable.cpp', 'notify_one', 0),
    ('FiberCondVar_notify_all', 'src/fault/fiber/condition_variable.cpp', None, 'yaclib::detail::fiber::ConditionVariable', 'fiber/condition_variable.cpp', 'notify_all', 0),
    ('FiberCondVar_wait', 'src/fault/fiber/condition_variable.cpp', None, 'yaclib::detail::fiber::ConditionVariable', 'fiber/condition_variable.cpp', 'wait', 0),
    ('FiberCondVar_WaitImpl', None, ['yaclib/fault/detail/fiber/condition_variable.hpp'], 'yaclib::detail::fiber::ConditionVariable', 'fiber/condition_variable.hpp', 'WaitImpl', 'template'),
    ('FiberCondVar_WaitImplWithPredicate', None, ['yaclib/fault/detail/fiber/condition_variable.hpp'], 'yaclib::detail::fiber::ConditionVariable', 'fiber/condition_variable.hpp', 'WaitImplWithPredicate', 'template'),
    ('FiberCondVar_wait_for', None, ['yaclib/fault/detail/fiber/condition_variable.hpp'], 'yaclib::detail::fiber::ConditionVariable', 'fiber/condition_variable.hpp', 'wait_for', 'template'),
    ('FiberCondVar_wait_until', None, ['yaclib/fault/detail/fiber/condition_variable.hpp'], 'yaclib::detail::fiber::ConditionVariable', 'fiber/condition_variable.hpp', 'wait_until', 'template'),
    ('FiberQueue_WaitNoTimeout', 'src/fault/fiber/queue.cpp', None, 'yaclib::detail::fiber::FiberQueue', 'fiber/queue.cpp', 'Wait', 0),
    ('FiberQueue_WaitTimed', None, ['yaclib/fault/detail/fiber/queue.hpp'], 'yaclib::detail::fiber::FiberQueue', 'fiber/queue.hpp', 'Wait', 'template'),
    ('FiberQueue_NotifyAll', 'src/fault/fiber/queue.cpp', None, 'yaclib::detail::fiber::FiberQueue', 'fiber/queue.cpp', 'NotifyAll', 0),
    ('FiberQueue_NotifyOne', 'src/fault/fiber/queue.cpp', None, 'yaclib::detail::fiber::FiberQueue', 'fiber/queue.cpp', 'NotifyOne', 0),
    ('FiberQueue_ScheduleAndRemove', 'src/fault/fiber/queue.cpp', None, 'yaclib::detail::fiber::FiberQueue', 'fiber/queue.cpp', 'ScheduleAndRemove', 0),
    ('FiberThread_join', 'src/fault/fiber/thread.cpp', None, 'yaclib::detail::fiber::Thread', 'fiber/thread.cpp', 'join', 0),
    ('FiberThread_AfterJoinOrDetach', 'src/fault/fiber/thread.cpp', None, 'yaclib::detail::fiber::Thread', 'fiber/thread.cpp', 'AfterJoinOrDetach', 0),
    ('FiberBase_Exit', 'src/fault/fiber/fiber_base.cpp', None, 'yaclib::detail::fiber::FiberBase', 'fiber/fiber_base.cpp', 'Exit', 0),
    ('FiberBase_Resume', 'src/fault/fiber/fiber_base.cpp', None, 'yaclib::detail::fiber::FiberBase', 'fiber/fiber_base.cpp', 'Resume', 0),
    ('FiberBase_Suspend', 'src/fault/fiber/fiber_base.cpp', None, 'yaclib::detail::fiber::FiberBase', 'fiber/fiber_base.cpp', 'Suspend', 0),
    ('FiberBase_GetTLS', 'src/fault/fiber/fiber_base.cpp', None, 'yaclib::detail::fiber::FiberBase', 'fiber/fiber_base.cpp', 'GetTLS', 0),
    ('FiberBase_SetTLS', 'src/fault/fiber/fiber_base.cpp', None, 'yaclib::detail::fiber::FiberBase', 'fiber/fiber_base.cpp', 'SetTLS', 0),
    ('FiberTls_GetImpl', 'src/fault/fiber/thread_local_proxy.cpp', None, 'yaclib::detail::fiber::GetImpl', 'fiber/thread_local_proxy.cpp', 'GetImpl', 0),
    ('FiberTls_Set', 'src/fault/fiber/thread_local_proxy.cpp', None, 'yaclib::detail::fiber::Set', 'fiber/thread_local_proxy.cpp', 'Set', 0),
    ('FiberTls_SetDefault', 'src/fault/fiber/thread_local_proxy.cpp', None, 'yaclib::detail::fiber::SetDefault', 'fiber/thread_local_proxy.cpp', 'SetDefault', 0),
    ('FiberTlsProxy_assign_ptr', None, ['cstdint', 'yaclib/fault/detail/fiber/thread_local_proxy.hpp'], 'yaclib::detail::fiber::ThreadLocalPtrProxy', 'fiber/thread_local_proxy.hpp', 'operator=', 0),
    ('FiberTlsProxy_assign_move', None, ['cstdint', 'yaclib/fault/detail/fiber/thread_local_proxy.hpp'], 'yaclib::detail::fiber::ThreadLocalPtrProxy', 'fiber/thread_local_proxy.hpp', 'operator=', 1),
    ('FiberTlsProxy_assign_copy', None, ['cstdint', 'yaclib/fault/detail/fiber/thread_local_proxy.hpp'], 'yaclib::detail::fiber::ThreadLocalPtrProxy', 'fiber/thread_local_proxy.hpp', 'operator=', 2),
    ('FiberTlsProxy_assign_conv', None, ['cstdint', 'yaclib/fault/detail/fiber/thread_local_proxy.hpp'], 'yaclib::detail::fiber::ThreadLocalPtrProxy', 'fiber/thread_local_proxy.hpp', 'operator=', 'template'),
    ('FiberTlsProxy_ctor_default', None, ['cstdint', 'yaclib/fault/detail/fiber/thread_local_proxy.hpp'], 'yaclib::detail::fiber::ThreadLocalPtrProxy', 'fiber/thread_local_proxy.hpp', 'ThreadLocalPtrProxy<Type>', 0),
    ('FiberTlsProxy_ctor_ptr', None, ['cstdint', 'yaclib/fault/detail/fiber/thread_local_proxy.hpp'], 'yaclib::detail::fiber::ThreadLocalPtrProxy', 'fiber/thread_local_proxy.hpp', 'ThreadLocalPtrProxy<Type>', 1),
    ('FiberTlsProxy_ctor_copy', None, ['cstdint', 'yaclib/fault/detail/fiber/thread_local_proxy.hpp'], 'yaclib::detail::fiber::ThreadLocalPtrProxy', 'fiber/thread_local_proxy.hpp', 'ThreadLocalPtrProxy<Type>', 3),
    ('FiberTlsProxy_Get', None, ['cstdint', 'yaclib/fault/detail/fiber/thread_local_proxy.hpp'], 'yaclib::detail::fiber::ThreadLocalPtrProxy', 'fiber/thread_local_proxy.hpp', 'Get', 0),
    ('FiberSched_Sleep', 'src/fault/fiber/scheduler.cpp', None, 'yaclib::fault::Scheduler', 'fiber/scheduler.cpp', 'Sleep', 0),
    ('FiberSched_SleepPreemptive', 'src/fault/fiber/scheduler.cpp', None, 'yaclib::fault::Scheduler', 'fiber/scheduler.cpp', 'SleepPreemptive', 0),
    ('FiberSched_Schedule', 'src/fault/fiber/scheduler.cpp', None, 'yaclib::fault::Scheduler', 'fiber/scheduler.cpp', 'Schedule', 0),
    ('FiberSched_RescheduleCurrent', 'src/fault/fiber/scheduler.cpp', None, 'yaclib::fault::Scheduler', 'fiber/scheduler.cpp', 'RescheduleCurrent', 0),
    ('FiberSched_Suspend', 'src/fault/fiber/scheduler.cpp', None, 'yaclib::fault::Scheduler', 'fiber/scheduler.cpp', 'Suspend', 0),
    ('FiberThisThread_sleep', None, ['yaclib_std/thread'], 'yaclib_std::this_thread', 'detail/this_thread.hpp', 'sleep_until', 'template'),
    ('FiberThisThread_sleep_for', None, ['yaclib_std/thread'], 'yaclib_std::this_thread', 'detail/this_thread.hpp', 'sleep_for', 'template'),
    # the yaclib_std wrappers around them (injection points only)
    ('FaultMutex_lock', None, ['yaclib_std/mutex'], 'yaclib::detail::Mutex', 'fault/detail/mutex.hpp', 'lock', 0),
    ('FaultMutex_try_lock', None, ['yaclib_std/mutex'], 'yaclib::detail::Mutex', 'fault/detail/mutex.hpp', 'try_lock', 0),
    ('FaultMutex_unlock', None, ['yaclib_std/mutex'], 'yaclib::detail::Mutex', 'fault/detail/mutex.hpp', 'unlock', 0),
    ('FaultTimedMutex_try_lock_for', None, ['yaclib_std/mutex'], 'yaclib::detail::TimedMutex', 'fault/detail/timed_mutex.hpp', 'try_lock_for', 'template'),
    ('FaultTimedMutex_try_lock_until', None, ['yaclib_std/mutex'], 'yaclib::detail::TimedMutex', 'fault/detail/timed_mutex.hpp', 'try_lock_until', 'template'),
    ('FaultSharedMutex_lock_shared', None, ['yaclib_std/shared_mutex'], 'yaclib::detail::SharedMutex', 'fault/detail/shared_mutex.hpp', 'lock_shared', 0),
    ('FaultSharedMutex_try_lock_shared', None, ['yaclib_std/shared_mutex'], 'yaclib::detail::SharedMutex', 'fault/detail/shared_mutex.hpp', 'try_lock_shared', 0),
    ('FaultSharedMutex_unlock_shared', None, ['yaclib_std/shared_mutex'], 'yaclib::detail::SharedMutex', 'fault/detail/shared_mutex.hpp', 'unlock_shared', 0),
    ('FaultSharedTimedMutex_try_lock_for', None, ['yaclib_std/shared_mutex'], 'yaclib::detail::SharedTimedMutex', 'fault/detail/shared_timed_mutex.hpp', 'try_lock_for', 'template'),
    ('FaultSharedTimedMutex_try_lock_shared_for', None, ['yaclib_std/shared_mutex'], 'yaclib::detail::SharedTimedMutex', 'fault/detail/shared_timed_mutex.hpp', 'try_lock_shared_for', 'template'),
    ('FaultCondVar_wait', None, ['yaclib_std/condition_variable'], 'yaclib::detail::ConditionVariable', 'fault/detail/condition_variable.hpp', 'wait', 0),
    ('FaultCondVar_wait_for', None, ['yaclib_std/condition_variable'], 'yaclib::detail::ConditionVariable', 'fault/detail/condition_variable.hpp', 'wait_for', 'template'),
    ('FaultCondVar_notify_one', None, ['yaclib_std/condition_variable'], 'yaclib::detail::ConditionVariable', 'fault/detail/condition_variable.hpp', 'notify_one', 0),
    ('FaultCondVar_notify_all', None, ['yaclib_std/condition_variable'], 'yaclib::detail::ConditionVariable', 'fault/detail/condition_variable.hpp', 'notify_all', 0),
    ('FaultMutex_GetImpl', None, ['yaclib_std/mutex'], 'yaclib::detail::Mutex', 'fault/detail/mutex.hpp', 'GetImpl', 0),
    ('FaultSharedTimedMutex_try_lock_until', None, ['yaclib_std/shared_mutex'], 'yaclib::detail::SharedTimedMutex', 'fault/detail/shared_timed_mutex.hpp', 'try_lock_until', 'template'),
    ('FaultSharedTimedMutex_try_lock_shared_until', None, ['yaclib_std/shared_mutex'], 'yaclib::detail::SharedTimedMutex', 'fault/detail/shared_timed_mutex.hpp', 'try_lock_shared_until', 'template'),
    ('FaultCondVar_wait_pred', None, ['yaclib_std/condition_variable'], 'yaclib::detail::ConditionVariable', 'fault/detail/condition_variable.hpp', 'wait', 'template'),
    ('FaultCondVar_wait_until', None, ['yaclib_std/condition_variable'], 'yaclib::detail::ConditionVariable', 'fault/detail/condition_variable.hpp', 'wait_until', 'template'),
    ('FaultCondVar_From_lock', None, ['yaclib_std/condition_variable'], 'yaclib::detail::ConditionVariable', 'fault/detail/condition_variable.hpp', 'From', 0),
    ('FaultCondVar_From_pair', None, ['yaclib_std/condition_variable'], 'yaclib::detail::ConditionVariable', 'fault/detail/condition_variable.hpp', 'From', 1),
    ('FaultCondVar_CVStatusFrom_wait', None, ['yaclib_std/condition_variable'], 'yaclib::detail::CVStatusFrom', 'fault/detail/condition_variable.hpp', 'CVStatusFrom', 0),
    ('FaultCondVar_CVStatusFrom_cv', None, ['yaclib_std/condition_variable'], 'yaclib::detail::CVStatusFrom', 'fault/detail/condition_variable.hpp', 'CVStatusFrom', 1),
    ('FaultCondVarAny_notify_one', None, ['condition_variable', 'yaclib/fault/detail/condition_variable_any.hpp'], 'yaclib::detail::ConditionVariableAny', 'fault/detail/condition_variable_any.hpp', 'notify_one', 0),
    ('FaultCondVarAny_notify_all', None, ['condition_variable', 'yaclib/fault/detail/condition_variable_any.hpp'], 'yaclib::detail::ConditionVariableAny', 'fault/detail/condition_variable_any.hpp', 'notify_all', 0),
    ('FaultCondVarAny_wait', None, ['condition_variable', 'yaclib/fault/detail/condition_variable_any.hpp'], 'yaclib::detail::ConditionVariableAny', 'fault/detail/condition_variable_any.hpp', 'wait', 'template'),
    ('FaultCondVarAny_wait_for', None, ['condition_variable', 'yaclib/fault/detail/condition_variable_any.hpp'], 'yaclib::detail::ConditionVariableAny', 'fault/detail/condition_variable_any.hpp', 'wait_for', 'template'),
    ('FaultCondVarAny_wait_until', None, ['condition_variable', 'yaclib/fault/detail/condition_variable_any.hpp'], 'yaclib::detail::ConditionVariableAny', 'fault/detail/condition_variable_any.hpp', 'wait_until', 'template'),
    # ---- fiber scheduler / fault injector decision code (C17); the pure parts are also translated by x_fibersched.py
    ('Sched_RunLoop', 'src/fault/fiber/scheduler.cpp', None, 'yaclib::fault::Scheduler', 'fiber/scheduler.cpp', 'RunLoop', 0),
    ('Sched_Schedule', 'src/fault/fiber/scheduler.cpp', None, 'yaclib::fault::Scheduler', 'fiber/scheduler.cpp', 'Schedule', 0),
    ('Sched_GetNext', 'src/fault/fiber/scheduler.cpp', None, 'yaclib::fault::Scheduler', 'fiber/scheduler.cpp', 'GetNext', 0),
    ('Sched_RescheduleCurrent', 'src/fault/fiber/scheduler.cpp', None, 'yaclib::fault::Scheduler', 'fiber/scheduler.cpp', 'RescheduleCurrent', 0),
    ('Sched_Suspend', 'src/fault/fiber/scheduler.cpp', None, 'yaclib::fault::Scheduler', 'fiber/scheduler.cpp', 'Suspend', 0),
    ('Sched_Sleep', 'src/fault/fiber/scheduler.cpp', None, 'yaclib::fault::Scheduler', 'fiber/scheduler.cpp', 'Sleep', 0),
    ('Sched_SleepPreemptive', 'src/fault/fiber/scheduler.cpp', None, 'yaclib::fault::Scheduler', 'fiber/scheduler.cpp', 'SleepPreemptive', 0),
    ('Sched_WakeUpNeeded', 'src/fault/fiber/scheduler.cpp', None, 'yaclib::fault::Scheduler', 'fiber/scheduler.cpp', 'WakeUpNeeded', 0),
    ('Sched_AdvanceTime', 'src/fault/fiber/scheduler.cpp', None, 'yaclib::fault::Scheduler', 'fiber/scheduler.cpp', 'AdvanceTime', 0),
    ('Sched_TickTime', 'src/fault/fiber/scheduler.cpp', None, 'yaclib::fault::Scheduler', 'fiber/scheduler.cpp', 'TickTime', 0),
    ('Sched_GetTimeNs', 'src/fault/fiber/scheduler.cpp', None, 'yaclib::fault::Scheduler', 'fiber/scheduler.cpp', 'GetTimeNs', 0),
    ('Sched_PollRandomElementFromList', 'src/fault/fiber/scheduler.cpp', None, 'yaclib::detail::fiber::PollRandomElementFromList', 'fiber/scheduler.cpp', 'PollRandomElementFromList', 0),
    ('Sched_BiList_PushBack', 'src/fault/fiber/bidirectional_intrusive_list.cpp', None, 'yaclib::detail::fiber::BiList', 'bidirectional_intrusive_list.cpp', 'PushBack', 0),
    ('Sched_BiList_PushAll', 'src/fault/fiber/bidirectional_intrusive_list.cpp', None, 'yaclib::detail::fiber::BiList', 'bidirectional_intrusive_list.cpp', 'PushAll', 0),
    ('Sched_BiList_PopBack', 'src/fault/fiber/bidirectional_intrusive_list.cpp', None, 'yaclib::detail::fiber::BiList', 'bidirectional_intrusive_list.cpp', 'PopBack', 0),
    ('Sched_BiList_Empty', 'src/fault/fiber/bidirectional_intrusive_list.cpp', None, 'yaclib::detail::fiber::BiList', 'bidirectional_intrusive_list.cpp', 'Empty', 0),
    ('Sched_BiList_GetElement', 'src/fault/fiber/bidirectional_intrusive_list.cpp', None, 'yaclib::detail::fiber::BiList', 'bidirectional_intrusive_list.cpp', 'GetElement', 0),
    ('Sched_BiList_MoveAssign', 'src/fault/fiber/bidirectional_intrusive_list.cpp', None, 'yaclib::detail::fiber::BiList', 'bidirectional_intrusive_list.cpp', 'operator=', 0),
    ('Sched_Node_Erase', 'src/fault/fiber/bidirectional_intrusive_list.cpp', None, 'yaclib::detail::fiber::Node', 'bidirectional_intrusive_list.cpp', 'Erase', 0),
    ('Sched_Queue_Wait', 'src/fault/fiber/queue.cpp', None, 'yaclib::detail::fiber::FiberQueue', 'fiber/queue.cpp', 'Wait', 0),
    ('Sched_Queue_WaitTimed', None, ['yaclib/fault/detail/fiber/queue.hpp'], 'yaclib::detail::fiber::FiberQueue', 'fiber/queue.hpp', 'Wait', 'template'),
    ('Sched_Queue_NotifyOne', 'src/fault/fiber/queue.cpp', None, 'yaclib::detail::fiber::FiberQueue', 'fiber/queue.cpp', 'NotifyOne', 0),
    ('Sched_Queue_NotifyAll', 'src/fault/fiber/queue.cpp', None, 'yaclib::detail::fiber::FiberQueue', 'fiber/queue.cpp', 'NotifyAll', 0),
    ('Sched_Queue_ScheduleAndRemove', 'src/fault/fiber/queue.cpp', None, 'yaclib::detail::fiber::FiberQueue', 'fiber/queue.cpp', 'ScheduleAndRemove', 0),
    ('Sched_Thread_join', 'src/fault/fiber/thread.cpp', None, 'yaclib::detail::fiber::Thread', 'fiber/thread.cpp', 'join', 0),
    ('Sched_FiberBase_Exit', 'src/fault/fiber/fiber_base.cpp', None, 'yaclib::detail::fiber::FiberBase', 'fiber/fiber_base.cpp', 'Exit', 0),
    ('Sched_ScheduleFiber', 'src/fault/fiber/wakeup_helper.cpp', None, 'yaclib::detail::fiber::ScheduleFiber', 'fiber/wakeup_helper.cpp', 'ScheduleFiber', 0),
    ('Sched_SystemClock_now', 'src/fault/fiber/system_clock.cpp', None, 'yaclib::detail::fiber::SystemClock', 'fiber/system_clock.cpp', 'now', 0),
    ('Sched_this_thread_sleep', None, ['yaclib_std/thread'], 'yaclib_std::this_thread::sleep_', 'yaclib_std/detail/this_thread.hpp', 'sleep_until', 'template'),
    ('Sched_this_thread_sleep_for', None, ['yaclib_std/thread'], 'yaclib_std::this_thread::sleep_', 'yaclib_std/detail/this_thread.hpp', 'sleep_for', 'template'),
    ('Fault_InjectFault', 'src/fault/inject.cpp', None, 'yaclib::InjectFault', 'fault/inject.cpp', 'InjectFault', 0),
    ('Fault_MaybeInject', 'src/fault/injector.cpp', None, 'yaclib::detail::Injector', 'fault/injector.cpp', 'MaybeInject', 0),
    ('Fault_NeedInject', 'src/fault/injector.cpp', None, 'yaclib::detail::Injector', 'fault/injector.cpp', 'NeedInject', 0),
    ('Fault_Reset', 'src/fault/injector.cpp', None, 'yaclib::detail::Injector', 'fault/injector.cpp', 'Reset', 0),
    ('Fault_GetState', 'src/fault/injector.cpp', None, 'yaclib::detail::Injector', 'fault/injector.cpp', 'GetState', 0),
    ('Fault_SetState', 'src/fault/injector.cpp', None, 'yaclib::detail::Injector', 'fault/injector.cpp', 'SetState', 0),
    ('Fault_SetSeed', 'src/fault/util.cpp', None, 'yaclib::detail::', 'fault/util.cpp', 'SetSeed', 0),
    ('Fault_GetRandNumber', 'src/fault/util.cpp', None, 'yaclib::detail::', 'fault/util.cpp', 'GetRandNumber', 0),
    ('Fault_GetRandCount', 'src/fault/util.cpp', None, 'yaclib::detail::', 'fault/util.cpp', 'GetRandCount', 0),
    ('Fault_ForwardToRandCount', 'src/fault/util.cpp', None, 'yaclib::detail::', 'fault/util.cpp', 'ForwardToRandCount', 0),
    ('Fault_ShouldFailAtomicWeak', 'src/fault/atomic.cpp', None, 'yaclib::detail::ShouldFailAtomicWeak', 'fault/atomic.cpp', 'ShouldFailAtomicWeak', 0),
    ('Fault_cfg_ForwardToFaultRandomCount', 'src/fault/config.cpp', None, 'yaclib::fiber::', 'fault/config.cpp', 'ForwardToFaultRandomCount', 0),
    ('Fault_cfg_GetFaultRandomCount', 'src/fault/config.cpp', None, 'yaclib::fiber::', 'fault/config.cpp', 'GetFaultRandomCount', 0),
    ('Fault_cfg_SetInjectorState', 'src/fault/config.cpp', None, 'yaclib::fiber::', 'fault/config.cpp', 'SetInjectorState', 0),
    ('Fault_cfg_GetInjectorState', 'src/fault/config.cpp', None, 'yaclib::fiber::', 'fault/config.cpp', 'GetInjectorState', 0),
    ('Fault_cfg_SetSeed', 'src/fault/config.cpp', None, 'yaclib::SetSeed', 'fault/config.cpp', 'SetSeed', 0),
    # ---- program-level pipeline (C02 / C03 / C05 / C12 / C20): Core routing, lazy start, executors, the one allocation
    ('Core_Call', None, ['yaclib/algo/detail/core.hpp'], 'yaclib::detail::Core', 'detail/core.hpp', 'Call', 0),
    ('Core_Drop', None, ['yaclib/algo/detail/core.hpp'], 'yaclib::detail::Core', 'detail/core.hpp', 'Drop', 0),
    ('Core_Impl', None, ['yaclib/algo/detail/core.hpp'], 'yaclib::detail::Core', 'detail/core.hpp', 'Impl', 'template'),
    ('Core_Here', None, ['yaclib/algo/detail/core.hpp'], 'yaclib::detail::Core', 'detail/core.hpp', 'Here', 0),
    ('Core_CallImpl', None, ['yaclib/algo/detail/core.hpp'], 'yaclib::detail::Core', 'detail/core.hpp', 'CallImpl', 'template'),
    ('Core_Done', None, ['yaclib/algo/detail/core.hpp'], 'yaclib::detail::Core', 'detail/core.hpp', 'Done', 'template'),
    ('Core_CallResolveState', None, ['yaclib/algo/detail/core.hpp'], 'yaclib::detail::Core', 'detail/core.hpp', 'CallResolveState', 'template'),
    ('Core_CallResolveAsync', None, ['yaclib/algo/detail/core.hpp'], 'yaclib::detail::Core', 'detail/core.hpp', 'CallResolveAsync', 'template'),
    ('Core_CallResolveVoid', None, ['yaclib/algo/detail/core.hpp'], 'yaclib::detail::Core', 'detail/core.hpp', 'CallResolveVoid', 'template'),
    ('Core_ctor', None, ['yaclib/algo/detail/core.hpp'], 'yaclib::detail::Core', 'detail/core.hpp', 'Core<Ret, Arg, E, Func, Type, kAsync>', 0),
    ('Core_Tag', None, ['yaclib/algo/detail/core.hpp'], 'yaclib::detail::Tag', 'detail/core.hpp', 'Tag', 'template'),
    ('MakeCore', None, ['yaclib/algo/detail/core.hpp'], 'yaclib::detail::MakeCore', 'detail/core.hpp', 'MakeCore', 'template'),
    ('MoveToCaller', None, ['yaclib/algo/detail/core.hpp'], 'yaclib::detail::MoveToCaller', 'detail/core.hpp', 'MoveToCaller', 0),
    ('InlineCore_Loop', None, ['yaclib/algo/detail/inline_core.hpp'], 'yaclib::detail::Loop', 'inline_core.hpp', 'Loop', 0),
    ('InlineCore_Step', None, ['yaclib/algo/detail/inline_core.hpp'], 'yaclib::detail::Step', 'inline_core.hpp', 'Step', 'template'),
    ('InlineCore_Noop', None, ['yaclib/algo/detail/inline_core.hpp'], 'yaclib::detail::Noop', 'inline_core.hpp', 'Noop', 'template'),
    ('BaseCore_TransferExecutorTo', None, ['yaclib/algo/detail/base_core.hpp'], 'yaclib::detail::BaseCore', 'base_core.hpp', 'TransferExecutorTo', 'template'),
    ('ResultCore_Impl', None, ['yaclib/algo/detail/result_core.hpp'], 'yaclib::detail::ResultCore', 'result_core.hpp', 'Impl', 'template'),
    ('UniqueCore_Here', None, ['yaclib/algo/detail/unique_core.hpp'], 'yaclib::detail::UniqueCore', 'unique_core.hpp', 'Here', 0),
    ('FuncCore_ctor', None, ['yaclib/algo/detail/func_core.hpp'], 'yaclib::detail::FuncCore', 'func_core.hpp', 'FuncCore<Func>', 0),
    ('PromiseCore_Call', None, ['yaclib/algo/detail/promise_core.hpp'], 'yaclib::detail::PromiseCore', 'promise_core.hpp', 'Call', 0),
    ('PromiseCore_Drop', None, ['yaclib/algo/detail/promise_core.hpp'], 'yaclib::detail::PromiseCore', 'promise_core.hpp', 'Drop', 0),
    ('PromiseCore_Here', None, ['yaclib/algo/detail/promise_core.hpp'], 'yaclib::detail::PromiseCore', 'promise_core.hpp', 'Here', 0),
    ('ReadyCore_ctor', None, ['yaclib/lazy/make.hpp'], 'yaclib::detail::ReadyCore', 'lazy/make.hpp', 'ReadyCore<V, E>', 'template'),
    ('ReadyCore_Call', None, ['yaclib/lazy/make.hpp'], 'yaclib::detail::ReadyCore', 'lazy/make.hpp', 'Call', 0),
    ('ReadyCore_Drop', None, ['yaclib/lazy/make.hpp'], 'yaclib::detail::ReadyCore', 'lazy/make.hpp', 'Drop', 0),
    ('ReadyCore_Here', None, ['yaclib/lazy/make.hpp'], 'yaclib::detail::ReadyCore', 'lazy/make.hpp', 'Here', 0),
    ('MakeTask', None, ['yaclib/lazy/make.hpp'], 'yaclib::MakeTask', 'lazy/make.hpp', 'MakeTask', 'template'),
    ('MakeFuture', None, ['yaclib/async/make.hpp'], 'yaclib::MakeFuture', 'async/make.hpp', 'MakeFuture', 'template'),
    ('MakeContract', None, ['yaclib/async/contract.hpp'], 'yaclib::MakeContract', 'async/contract.hpp', 'MakeContract', 'template'),
    ('MakeContractOn', None, ['yaclib/async/contract.hpp'], 'yaclib::MakeContract', 'async/contract.hpp', 'MakeContractOn', 'template'),
    ('detail_Run', None, ['yaclib/async/run.hpp'], 'yaclib::detail::Run', 'async/run.hpp', 'Run', 'template'),
    ('detail_Schedule', None, ['yaclib/lazy/schedule.hpp'], 'yaclib::detail::Schedule', 'lazy/schedule.hpp', 'Schedule', 'template'),
    ('Task_Start', 'src/lazy/task_impl.cpp', None, 'yaclib::detail::Start', 'task_impl.cpp', 'Start', 'template'),
    ('Task_dtor', None, ['yaclib/lazy/task.hpp'], 'yaclib::Task', 'lazy/task.hpp', '~Task<V, E>', 0),
    # C20: every header on the co_await / Wait path, whole text (comments and white space dropped): "co_await of futures and
    # Wait* allocate nothing" rests on the awaiter / event SELECTION in these files (Extracted/AllocSites.lean)
    ('CoSrc_await_hpp', 'include/yaclib/coro/await.hpp', None, None, None, None, 'text'),
    ('CoSrc_await_inline_hpp', 'include/yaclib/coro/await_inline.hpp', None, None, None, None, 'text'),
    ('CoSrc_await_on_hpp', 'include/yaclib/coro/await_on.hpp', None, None, None, None, 'text'),
    ('CoSrc_await_sticky_hpp', 'include/yaclib/coro/await_sticky.hpp', None, None, None, None, 'text'),
    ('CoSrc_await_awaiter_hpp', 'include/yaclib/coro/detail/await_awaiter.hpp', None, None, None, None, 'text'),
    ('CoSrc_await_on_awaiter_hpp', 'include/yaclib/coro/detail/await_on_awaiter.hpp', None, None, None, None, 'text'),
    ('CoSrc_shared_event_hpp', 'include/yaclib/algo/detail/shared_event.hpp', None, None, None, None, 'text'),
    ('CoSrc_wait_event_hpp', 'include/yaclib/algo/detail/wait_event.hpp', None, None, None, None, 'text'),
    ('CoSrc_wait_impl_hpp', 'include/yaclib/async/detail/wait_impl.hpp', None, None, None, None, 'text'),
    # free jobs (C05, Model/FreeJob.lean): yaclib::Submit(executor, f) and the UniqueJob it allocates
    ('Submit_free', None, ['yaclib/exe/submit.hpp'], 'yaclib::Submit', 'exe/submit.hpp', 'Submit', 'template'),
    ('MakeUniqueJob', None, ['yaclib/exe/submit.hpp'], 'yaclib::detail::MakeUniqueJob', 'unique_job.hpp', 'MakeUniqueJob', 'template'),
    ('UniqueJob_Call', None, ['yaclib/exe/submit.hpp'], 'yaclib::detail::UniqueJob', 'unique_job.hpp', 'Call', 0),
    ('UniqueJob_Drop', None, ['yaclib/exe/submit.hpp'], 'yaclib::detail::UniqueJob', 'unique_job.hpp', 'Drop', 0),
    ('SafeCall_Call', None, ['yaclib/exe/submit.hpp'], 'yaclib::detail::SafeCall', 'safe_call.hpp', 'Call', 0),
    # whole text of the three small files a free job is made of (skeletons since the catch-type change of vlib/skel.py name what a
    # handler catches; the text ties also pin the forwarding expressions and the storage type `Store = std::decay_t<Func>`)
    ('FreeSrc_safe_call_hpp', 'include/yaclib/util/detail/safe_call.hpp', None, None, None, None, 'text'),
    ('FreeSrc_unique_job_hpp', 'include/yaclib/exe/detail/unique_job.hpp', None, None, None, None, 'text'),
    ('FreeSrc_submit_hpp', 'include/yaclib/exe/submit.hpp', None, None, None, None, 'text'),
    # C02: callback classification (the spelling of a parameter must not matter) / C05: Share carries the executor
    ('TraitSrc_type_traits_impl_hpp', 'include/yaclib/util/detail/type_traits_impl.hpp', None, None, None, None, 'text'),
    ('TraitSrc_type_traits_hpp', 'include/yaclib/util/type_traits.hpp', None, None, None, None, 'text'),
    ('ShareSrc_share_hpp', 'include/yaclib/async/share.hpp', None, None, None, None, 'text'),
    ('ShareSrc_split_hpp', 'include/yaclib/async/split.hpp', None, None, None, None, 'text'),
    ('ShareSrc_connect_hpp', 'include/yaclib/async/connect.hpp', None, None, None, None, 'text'),
    # C02: the Result algebra (Model/ResultAlg.lean)
    ('ResultSrc_result_hpp', 'include/yaclib/util/result.hpp', None, None, None, None, 'text'),
    ('Task_ThenOn', None, ['yaclib/lazy/task.hpp'], 'yaclib::Task', 'lazy/task.hpp', 'Then', 0),
    ('Task_ThenInherit', None, ['yaclib/lazy/task.hpp'], 'yaclib::Task', 'lazy/task.hpp', 'Then', 1),
    ('Task_ThenInline', None, ['yaclib/lazy/task.hpp'], 'yaclib::Task', 'lazy/task.hpp', 'ThenInline', 0),
    ('Task_Cancel', None, ['yaclib/lazy/task.hpp'], 'yaclib::Task', 'lazy/task.hpp', 'Cancel', 0),
    ('Task_Detach', None, ['yaclib/lazy/task.hpp'], 'yaclib::Task', 'lazy/task.hpp', 'Detach', 0),
    ('Task_DetachOn', None, ['yaclib/lazy/task.hpp'], 'yaclib::Task', 'lazy/task.hpp', 'Detach', 1),
    ('Task_ToFuture', None, ['yaclib/lazy/task.hpp'], 'yaclib::Task', 'lazy/task.hpp', 'ToFuture', 0),
    ('Task_ToFutureOn', None, ['yaclib/lazy/task.hpp'], 'yaclib::Task', 'lazy/task.hpp', 'ToFuture', 1),
    ('FutureBase_ThenOn', None, ['yaclib/async/future.hpp'], 'yaclib::Future', 'async/future.hpp', 'Then', 0),
    ('FutureOn_ThenInherit', None, ['yaclib/async/future.hpp'], 'yaclib::Future', 'async/future.hpp', 'Then', 1),
    ('Future_ThenInline', None, ['yaclib/async/future.hpp'], 'yaclib::Future', 'async/future.hpp', 'ThenInline', 0),
    ('FutureBase_DetachInline', None, ['yaclib/async/future.hpp'], 'yaclib::Future', 'async/future.hpp', 'DetachInline', 0),
    ('FutureBase_DetachOn', None, ['yaclib/async/future.hpp'], 'yaclib::Future', 'async/future.hpp', 'Detach', 1),
    ('FutureOn_DetachInherit', None, ['yaclib/async/future.hpp'], 'yaclib::Future', 'async/future.hpp', 'Detach', 2),
    ('Inline_Submit', 'src/exe/inline.cpp', None, 'Inline', 'exe/inline.cpp', 'Submit', 0),
    ('Inline_Alive', 'src/exe/inline.cpp', None, 'Inline', 'exe/inline.cpp', 'Alive', 0),
    ('Manual_Submit', 'src/exe/manual.cpp', None, 'yaclib::ManualExecutor', 'exe/manual.cpp', 'Submit', 0),
    ('Manual_Drain', 'src/exe/manual.cpp', None, 'yaclib::ManualExecutor', 'exe/manual.cpp', 'Drain', 0),
    ('MakeUnique', None, ['yaclib/util/helper.hpp'], 'yaclib::MakeUnique', 'util/helper.hpp', 'MakeUnique', 'template'),
    ('MakeShared', None, ['yaclib/util/helper.hpp'], 'yaclib::MakeShared', 'util/helper.hpp', 'MakeShared', 'template'),
    # ---- shared core: callback list + reference counter (C06)
    ('SharedCore_Retire', None, ['yaclib/algo/detail/shared_core.hpp'], 'yaclib::detail::SharedCore', 'shared_core.hpp', 'Retire', 0),
    ('SharedCore_Here', None, ['yaclib/algo/detail/shared_core.hpp'], 'yaclib::detail::SharedCore', 'shared_core.hpp', 'Here', 0),
    ('SharedCore_Next', None, ['yaclib/algo/detail/shared_core.hpp'], 'yaclib::detail::SharedCore', 'shared_core.hpp', 'Next', 0),
    ('SharedCore_SetCallback', None, ['yaclib/algo/detail/shared_core.hpp'], 'yaclib::detail::SharedCore', 'shared_core.hpp', 'SetCallback', 0),
    ('SharedCore_SetInline', None, ['yaclib/algo/detail/shared_core.hpp'], 'yaclib::detail::SharedCore', 'shared_core.hpp', 'SetInline', 'template'),
    ('SharedCore_SetResult', None, ['yaclib/algo/detail/shared_core.hpp'], 'yaclib::detail::SharedCore', 'shared_core.hpp', 'SetResult', 'template'),
    ('SharedFutureBase_Ready', None, ['yaclib/async/shared_future.hpp'], 'yaclib::SharedFutureBase', 'async/shared_future.hpp', 'Ready', 0),
    ('SharedFutureBase_GetMove', None, ['yaclib/async/shared_future.hpp'], 'yaclib::SharedFutureBase', 'async/shared_future.hpp', 'Get', 0),
    ('SharedFutureBase_GetConst', None, ['yaclib/async/shared_future.hpp'], 'yaclib::SharedFutureBase', 'async/shared_future.hpp', 'Get', 1),
    ('SharedFutureBase_TouchMove', None, ['yaclib/async/shared_future.hpp'], 'yaclib::SharedFutureBase', 'async/shared_future.hpp', 'Touch', 0),
    ('SharedFutureBase_TouchConst', None, ['yaclib/async/shared_future.hpp'], 'yaclib::SharedFutureBase', 'async/shared_future.hpp', 'Touch', 1),
    ('SharedFutureBase_ThenOn', None, ['yaclib/async/shared_future.hpp'], 'yaclib::SharedFutureBase', 'async/shared_future.hpp', 'Then', 'template'),
    ('SharedFutureBase_SubscribeInline', None, ['yaclib/async/shared_future.hpp'], 'yaclib::SharedFutureBase', 'async/shared_future.hpp', 'SubscribeInline', 'template'),
    ('SharedFutureBase_Subscribe', None, ['yaclib/async/shared_future.hpp'], 'yaclib::SharedFutureBase', 'async/shared_future.hpp', 'Subscribe', 'template'),
    ('SharedFuture_ThenInline', None, ['yaclib/async/shared_future.hpp'], 'yaclib::SharedFuture', 'async/shared_future.hpp', 'ThenInline', 'template'),
    ('SharedFutureBase_GetHandle', None, ['yaclib/async/shared_future.hpp'], 'yaclib::SharedFutureBase', 'async/shared_future.hpp', 'GetHandle', 0),
    ('SharedPromise_Set', None, ['yaclib/async/shared_promise.hpp'], 'yaclib::SharedPromise', 'async/shared_promise.hpp', 'Set', 'template'),
    ('SharedPromise_dtor', None, ['yaclib/async/shared_promise.hpp'], 'yaclib::SharedPromise', 'async/shared_promise.hpp', '~SharedPromise<V, E>', 0),
    ('MakeSharedContract', None, ['yaclib/async/shared_contract.hpp'], 'yaclib::MakeSharedContract', 'async/shared_contract.hpp', 'MakeSharedContract', 'template'),
    ('MakeSharedContractOn', None, ['yaclib/async/shared_contract.hpp'], 'yaclib::MakeSharedContract', 'async/shared_contract.hpp', 'MakeSharedContractOn', 'template'),
    ('Split', None, ['yaclib/async/split.hpp'], 'yaclib::Split', 'async/split.hpp', 'Split', 'template'),
    ('Share', None, ['yaclib/async/share.hpp'], 'yaclib::Share', 'async/share.hpp', 'Share', 'template'),
    ('SharedFutureOn_On', None, ['yaclib/async/shared_future.hpp'], 'yaclib::SharedFutureOn', 'async/shared_future.hpp', 'On', 0),
    ('SharedHandle_SetCallback', None, ['yaclib/algo/detail/base_core.hpp'], 'yaclib::detail::SharedHandle', 'base_core.hpp', 'SetCallback', 0),
    ('AtomicCounter_Add', None, ['yaclib/util/detail/atomic_counter.hpp'], 'yaclib::detail::AtomicCounter', 'atomic_counter.hpp', 'Add', 0),
    ('AtomicCounter_Sub', None, ['yaclib/util/detail/atomic_counter.hpp'], 'yaclib::detail::AtomicCounter', 'atomic_counter.hpp', 'Sub', 0),
    ('AtomicCounter_Get', None, ['yaclib/util/detail/atomic_counter.hpp'], 'yaclib::detail::AtomicCounter', 'atomic_counter.hpp', 'Get', 0),
    ('AtomicCounter_SubEqual', None, ['yaclib/util/detail/atomic_counter.hpp'], 'yaclib::detail::AtomicCounter', 'atomic_counter.hpp', 'SubEqual', 0),
    ('Helper_IncRef', None, ['yaclib/util/helper.hpp'], 'yaclib::detail::Helper', 'util/helper.hpp', 'IncRef', 0),
    ('Helper_DecRef', None, ['yaclib/util/helper.hpp'], 'yaclib::detail::Helper', 'util/helper.hpp', 'DecRef', 0),
    ('Helper_GetRef', None, ['yaclib/util/helper.hpp'], 'yaclib::detail::Helper', 'util/helper.hpp', 'GetRef', 0),
    ('IntrusivePtr_copy_from_raw', None, ['yaclib/util/intrusive_ptr.hpp'], 'yaclib::IntrusivePtr', 'intrusive_ptr_impl.hpp', 'IntrusivePtr<T>', 1),
    ('IntrusivePtr_dtor', None, ['yaclib/util/intrusive_ptr.hpp'], 'yaclib::IntrusivePtr', 'intrusive_ptr_impl.hpp', '~IntrusivePtr<T>', 0),
    ('When_ConsumeImpl', None, ['yaclib/async/when/when.hpp'], 'yaclib::when::ConsumeImpl', 'when/when.hpp', 'ConsumeImpl', 'template'),
    ('When_CombinatorCallback_Impl', None, ['yaclib/async/when/when.hpp'], 'yaclib::when::CombinatorCallback', 'when/when.hpp', 'Impl', 0),
    ('AwaitAwaiterBase_await_ready', None, ['yaclib/coro/detail/await_awaiter.hpp'], 'yaclib::detail::AwaitAwaiterBase', 'await_awaiter.hpp', 'await_ready', 0),
    # ---- combinators (C09 WhenAll / Join, C10 WhenAny): registration loop, combinator callback, strategies
    ('When_Consume', None, ['yaclib/async/when_all.hpp'], 'yaclib::when::Consume', 'when/when.hpp', 'Consume', 'template'),
    ('When_When', None, ['yaclib/async/when_all.hpp'], 'yaclib::when::When', 'when/when.hpp', 'When', 'template'),
    ('When_SingleCombinator_Set', None, ['yaclib/async/when_all.hpp'], 'yaclib::when::SingleCombinator', 'when/when.hpp', 'Set', 'template'),
    ('When_SingleCombinator_SetCore', None, ['yaclib/async/when_all.hpp'], 'yaclib::when::SingleCombinator', 'when/when.hpp', 'SetCore', 0),
    ('When_SingleCombinator_Impl', None, ['yaclib/async/when_all.hpp'], 'yaclib::when::SingleCombinator', 'when/when.hpp', 'Impl', 0),
    ('When_StaticCombinator_SetCore', None, ['yaclib/async/when_all.hpp'], 'yaclib::when::StaticCombinator', 'when/when.hpp', 'SetCore', 0),
    ('When_StaticCombinator_SetImpl', None, ['yaclib/async/when_all.hpp'], 'yaclib::when::StaticCombinator', 'when/when.hpp', 'SetImpl', 0),
    ('When_StaticCombinator_Set', None, ['yaclib/async/when_all.hpp'], 'yaclib::when::StaticCombinator', 'when/when.hpp', 'Set', 0),
    ('When_DynamicCombinator_Set', None, ['yaclib/async/when_all.hpp'], 'yaclib::when::DynamicCombinator', 'when/when.hpp', 'Set', 0),
    ('WhenAll_Register', None, ['yaclib/async/when_all.hpp'], 'yaclib::when::All', 'when/all.hpp', 'Register', 'template'),
    ('WhenAll_Consume', None, ['yaclib/async/when_all.hpp'], 'yaclib::when::All', 'when/all.hpp', 'Consume', 'template'),
    ('WhenAll_dtor_None', None, ['yaclib/async/when_all.hpp'], 'yaclib::when::All', 'when/all.hpp', '~All<yaclib::FailPolicy::None, type-parameter-0-0, type-parameter-0-1, type-parameter-0-2>', 0),
    ('WhenAll_dtor_FirstFail', None, ['yaclib/async/when_all.hpp'], 'yaclib::when::All', 'when/all.hpp', '~All<yaclib::FailPolicy::FirstFail, type-parameter-0-0, type-parameter-0-1, type-parameter-0-2>', 0),
    ('WhenAllTuple_Consume', None, ['yaclib/async/when_all.hpp'], 'yaclib::when::AllTuple', 'when/all_tuple.hpp', 'Consume', 'template'),
    ('WhenAllTuple_dtor_None', None, ['yaclib/async/when_all.hpp'], 'yaclib::when::AllTuple', 'when/all_tuple.hpp', '~AllTuple<yaclib::FailPolicy::None, type-parameter-0-0, type-parameter-0-1, type-parameter-0-2>', 0),
    ('WhenAllTuple_dtor_FirstFail', None, ['yaclib/async/when_all.hpp'], 'yaclib::when::AllTuple', 'when/all_tuple.hpp', '~AllTuple<yaclib::FailPolicy::FirstFail, type-parameter-0-0, type-parameter-0-1, type-parameter-0-2>', 0),
    ('WhenJoin_Consume', None, ['yaclib/async/when_all.hpp'], 'yaclib::when::Join', 'when/join.hpp', 'Consume', 'template'),
    ('WhenJoin_dtor_None', None, ['yaclib/async/when_all.hpp'], 'yaclib::when::Join', 'when/join.hpp', '~Join<yaclib::FailPolicy::None, void, type-parameter-0-0, type-parameter-0-1>', 0),
    ('WhenJoin_dtor_FirstFail', None, ['yaclib/async/when_all.hpp'], 'yaclib::when::Join', 'when/join.hpp', '~Join<yaclib::FailPolicy::FirstFail, void, type-parameter-0-0, type-parameter-0-1>', 0),
    ('WhenAny_Consume', None, ['yaclib/async/when_any.hpp'], 'yaclib::when::Any', 'when/any.hpp', 'Consume', 'template'),
    ('WhenAny_dtor_FirstFail', None, ['yaclib/async/when_any.hpp'], 'yaclib::when::Any', 'when/any.hpp', '~Any<yaclib::FailPolicy::FirstFail, type-parameter-0-0, type-parameter-0-1, type-parameter-0-2>', 0),
    ('WhenAny_DoneImpl', None, ['yaclib/async/when_any.hpp'], 'yaclib::when::Any', 'when/any.hpp', 'DoneImpl', 0),
    ('WhenAll_front', None, ['yaclib/async/when_all.hpp'], 'yaclib::WhenAll', 'async/when_all.hpp', 'WhenAll', 'template'),
    ('WhenAny_front', None, ['yaclib/async/when_any.hpp'], 'yaclib::WhenAny', 'async/when_any.hpp', 'WhenAny', 'template'),
    ('Join_front', None, ['yaclib/async/join.hpp'], 'yaclib::Join', 'async/join.hpp', 'Join', 'template'),
    # whole-declaration source ties for what has no function body (policy constants, callback tuples / node lookup, alias
    # selection of the combinator type, member initialisers such as `_state{2 * count}`, index metafunctions)
    ('WhenSrc_when_hpp', 'include/yaclib/async/when/when.hpp', None, None, None, None, 'text'),
    ('WhenSrc_all_hpp', 'include/yaclib/async/when/all.hpp', None, None, None, None, 'text'),
    ('WhenSrc_all_tuple_hpp', 'include/yaclib/async/when/all_tuple.hpp', None, None, None, None, 'text'),
    ('WhenSrc_join_hpp', 'include/yaclib/async/when/join.hpp', None, None, None, None, 'text'),
    ('WhenSrc_any_hpp', 'include/yaclib/async/when/any.hpp', None, None, None, None, 'text'),
    ('WhenSrc_when_all_hpp', 'include/yaclib/async/when_all.hpp', None, None, None, None, 'text'),
    ('WhenSrc_when_any_hpp', 'include/yaclib/async/when_any.hpp', None, None, None, None, 'text'),
    ('WhenSrc_async_join_hpp', 'include/yaclib/async/join.hpp', None, None, None, None, 'text'),
    ('WhenSrc_combinator_strategy_hpp', 'include/yaclib/util/combinator_strategy.hpp', None, None, None, None, 'text'),
    ('WhenSrc_fail_policy_hpp', 'include/yaclib/util/fail_policy.hpp', None, None, None, None, 'text'),
    ('WhenSrc_type_traits_inputs', 'include/yaclib/util/type_traits.hpp', None, None, None,
     (r'template <typename T>\s*inline constexpr bool is_future_base_v', r'is_combinator_input_v = [^;]*;'), 'text'),
    ('WhenSrc_type_traits_tuples', 'include/yaclib/util/type_traits.hpp', None, None, None,
     (r'template <typename T, typename\.\.\. List>\s*inline constexpr auto kCount', r'index_of_v = [^;]*;'), 'text'),
    ('When_StaticCombinator_GetCallbackHelper', None, ['yaclib/async/when_all.hpp'], 'yaclib::when::StaticCombinator', 'when/when.hpp', 'GetCallbackHelper', 0),
    ('When_StaticCombinator_InitImpl', None, ['yaclib/async/when_all.hpp'], 'yaclib::when::StaticCombinator', 'when/when.hpp', 'InitImpl', 0),
    ('When_CombinatorCallback_Here', None, ['yaclib/async/when_all.hpp'], 'yaclib::when::CombinatorCallback', 'when/when.hpp', 'Here', 0),
    ('When_SingleCombinator_Here', None, ['yaclib/async/when_all.hpp'], 'yaclib::when::SingleCombinator', 'when/when.hpp', 'Here', 0),
    ('TypeTraits_TranslateIndexImpl_Index', None, ['yaclib/util/type_traits.hpp'], 'yaclib::TranslateIndexImpl', 'util/type_traits.hpp', 'Index', 'template'),
    ('TypeTraits_IndexOf_Index', None, ['yaclib/util/type_traits.hpp'], 'yaclib::IndexOf', 'util/type_traits.hpp', 'Index', 'template'),
    # ---- coroutines: promise type and awaiters (C13)  (AwaitAwaiterBase_await_ready, AtomicCounter_SubEqual, BaseCore_* are above)
    ('Destroy_await_suspend', None, ['yaclib/coro/future.hpp'], 'yaclib::detail::Destroy', 'promise_type.hpp', 'await_suspend', 'template'),
    ('PromiseType_initial_suspend', None, ['yaclib/coro/future.hpp'], 'yaclib::detail::PromiseType', 'promise_type.hpp', 'initial_suspend', 0),
    ('PromiseType_unhandled_exception', None, ['yaclib/coro/future.hpp'], 'yaclib::detail::PromiseType', 'promise_type.hpp', 'unhandled_exception', 0),
    ('PromiseType_return_value', None, ['yaclib/coro/future.hpp'], 'yaclib::detail::PromiseType', 'promise_type.hpp', 'return_value', 'template'),
    ('PromiseType_Call', None, ['yaclib/coro/future.hpp'], 'yaclib::detail::PromiseType', 'promise_type.hpp', 'Call', 0),
    ('PromiseType_Drop', None, ['yaclib/coro/future.hpp'], 'yaclib::detail::PromiseType', 'promise_type.hpp', 'Drop', 0),
    ('PromiseType_Impl', None, ['yaclib/coro/future.hpp'], 'yaclib::detail::PromiseType', 'promise_type.hpp', 'Impl', 0),
    ('PromiseType_Here', None, ['yaclib/coro/future.hpp'], 'yaclib::detail::PromiseType', 'promise_type.hpp', 'Here', 0),
    ('PromiseType_Next', None, ['yaclib/coro/future.hpp'], 'yaclib::detail::PromiseType', 'promise_type.hpp', 'Next', 0),
    ('PromiseTypeDeleter_Delete', None, ['yaclib/coro/future.hpp'], 'yaclib::detail::PromiseTypeDeleter', 'promise_type.hpp', 'Delete', 'template'),
    ('AwaitAwaiter_await_suspend', None, ['yaclib/coro/await.hpp'], 'yaclib::detail::AwaitAwaiter', 'await_awaiter.hpp', 'await_suspend', 'template'),
    ('AwaitAwaiter_Call', None, ['yaclib/coro/await.hpp'], 'yaclib::detail::AwaitAwaiter', 'await_awaiter.hpp', 'Call', 0),
    ('AwaitEvent_Impl', None, ['yaclib/coro/await.hpp'], 'yaclib::detail::AwaitEvent', 'await_awaiter.hpp', 'Impl', 'template'),
    ('MultiAwaitAwaiter_await_ready', None, ['yaclib/coro/await.hpp'], 'yaclib::detail::MultiAwaitAwaiter', 'await_awaiter.hpp', 'await_ready', 0),
    ('MultiAwaitAwaiter_await_suspend', None, ['yaclib/coro/await.hpp'], 'yaclib::detail::MultiAwaitAwaiter', 'await_awaiter.hpp', 'await_suspend', 'template'),
    ('AwaitSingleAwaiter_await_ready', None, ['yaclib/coro/await.hpp'], 'yaclib::detail::AwaitSingleAwaiter', 'await_awaiter.hpp', 'await_ready', 0),
    ('AwaitSingleAwaiter_await_suspend', None, ['yaclib/coro/await.hpp'], 'yaclib::detail::AwaitSingleAwaiter', 'await_awaiter.hpp', 'await_suspend', 'template'),
    ('AwaitSingleAwaiter_await_resume_unique', None, ['yaclib/coro/await.hpp'], 'yaclib::detail::AwaitSingleAwaiter', 'await_awaiter.hpp', 'await_resume', 0),
    ('AwaitSingleAwaiter_await_resume_shared', None, ['yaclib/coro/await.hpp'], 'yaclib::detail::AwaitSingleAwaiter', 'await_awaiter.hpp', 'await_resume', 1),
    ('TransferAwaiter_await_suspend', None, ['yaclib/coro/await.hpp'], 'yaclib::detail::TransferAwaiter', 'await_awaiter.hpp', 'await_suspend', 'template'),
    ('TransferSingleAwaiter_await_suspend', None, ['yaclib/coro/await.hpp'], 'yaclib::detail::TransferSingleAwaiter', 'await_awaiter.hpp', 'await_suspend', 'template'),
    ('TransferSingleAwaiter_await_resume', None, ['yaclib/coro/await.hpp'], 'yaclib::detail::TransferSingleAwaiter', 'await_awaiter.hpp', 'await_resume', 0),
    ('AwaitOnEvent_Impl', None, ['yaclib/coro/await_on.hpp'], 'yaclib::detail::AwaitOnEvent', 'await_on_awaiter.hpp', 'Impl', 'template'),
    ('AwaitOnAwaiter_await_suspend', None, ['yaclib/coro/await_on.hpp'], 'yaclib::detail::AwaitOnAwaiter', 'await_on_awaiter.hpp', 'await_suspend', 'template'),
    ('MultiAwaitOnAwaiter_await_suspend', None, ['yaclib/coro/await_on.hpp'], 'yaclib::detail::MultiAwaitOnAwaiter', 'await_on_awaiter.hpp', 'await_suspend', 'template'),
    ('OnAwaiter_await_suspend', None, ['yaclib/coro/on.hpp'], 'yaclib::detail::OnAwaiter', 'on_awaiter.hpp', 'await_suspend', 'template'),
    ('Yield_await_suspend', None, ['yaclib/coro/yield.hpp', 'yaclib/coro/future.hpp'], 'yaclib::detail::Yield', 'yield.hpp', 'await_suspend', 'template'),
    ('CurrentAwaiter_await_suspend', None, ['yaclib/coro/current_executor.hpp', 'yaclib/coro/future.hpp'], 'yaclib::detail::CurrentAwaiter', 'current_executor.hpp', 'await_suspend', 'template'),
    ('CurrentAwaiter_await_resume', None, ['yaclib/coro/current_executor.hpp', 'yaclib/coro/future.hpp'], 'yaclib::detail::CurrentAwaiter', 'current_executor.hpp', 'await_resume', 0),
    ('SetCallbacksStatic', None, ['yaclib/coro/await.hpp'], 'yaclib::detail::SetCallbacksStatic', 'shared_event.hpp', 'SetCallbacksStatic', 'template'),
    ('SetCallbacksDynamic', None, ['yaclib/coro/await.hpp'], 'yaclib::detail::SetCallbacksDynamic', 'shared_event.hpp', 'SetCallbacksDynamic', 'template'),
    ('EventHelperCallback_Here', None, ['yaclib/coro/await.hpp'], 'yaclib::detail::EventHelperCallback', 'shared_event.hpp', 'Here', 0),
]


def _source_text(repo, rel, region):
    """Normalised source text (comments dropped, white space collapsed) of a file, or of the region between the first
    match of region[0] and the first following match of region[1] (both included).  For what has no function body: class
    level constants, alias templates, metafunctions, member initialisers."""
    import re
    path = os.path.join(repo, rel)
    try:
        txt = open(path).read()
    except OSError as e:
        raise A.ExtractError('cannot read %s: %s' % (rel, e))
    txt = re.sub(r'/\*.*?\*/', ' ', txt, flags=re.S)
    txt = re.sub(r'//[^\n]*', ' ', txt)
    if region is not None:
        m = re.search(region[0], txt)
        if not m:
            raise A.ExtractError('%s: start of region %r not found' % (rel, region[0]))
        e = re.compile(region[1]).search(txt, m.end())
        if not e:
            raise A.ExtractError('%s: end of region %r not found' % (rel, region[1]))
        txt = txt[m.start():e.end()]
    return ' '.join(txt.split())


def _collect(docs, suffix, name):
    """function-like decls named `name` with a body, defined in a file ending with `suffix`, in file order.
    Returns list of (is_template_pattern, node)."""
    out = []

    def visit(n, in_template, first_in_template):
        k = n.get('kind')
        if k in ('CXXMethodDecl', 'FunctionDecl', 'CXXDestructorDecl', 'CXXConstructorDecl'):
            if n.get('name') == name and A.body(n) is not None and (n.get('_file') or '').endswith(suffix):
                out.append((in_template and first_in_template, n))
            return
        if k == 'FunctionTemplateDecl':
            first = True
            for c in A.kids(n):
                if c.get('kind') in ('CXXMethodDecl', 'FunctionDecl', 'CXXDestructorDecl', 'CXXConstructorDecl'):
                    visit(c, True, first)
                    first = False
            return
        if k in ('ClassTemplateSpecializationDecl',):
            return  # implicit instantiations repeat the pattern
        for c in A.kids(n):
            visit(c, in_template, first_in_template)

    for d in docs:
        visit(d, False, False)
    return out


def generate(repo, cfg_include, workdir, kernels=KERNELS):
    cache = {}
    defs = []
    problems = []
    # the same kernel may be listed by several properties: keep the first of identical entries, report conflicting ones
    uniq, seen_ids = [], {}
    for k in kernels:
        if k[0] in seen_ids:
            if seen_ids[k[0]] != k:
                problems.append('%s: listed twice with different definitions' % k[0])
            continue
        seen_ids[k[0]] = k
        uniq.append(k)
    kernels = uniq
    # one clang run per distinct (TU, filter): do them in parallel; a failing run is retried (and reported) below
    from concurrent.futures import ThreadPoolExecutor

    def _prefetch(key):
        tu, includes, flt = key
        try:
            if tu is None:
                path = os.path.join(workdir, 'tu_%s.cpp' % abs(hash(key)))
                with open(path, 'w') as f:
                    for inc in includes:
                        f.write('#include <%s>\n' % inc)
            else:
                path = os.path.join(repo, tu)
            return key, A.dump(path, flt, cfg_include, repo=repo)
        except Exception:
            return key, None
    keys = []
    for (kid, tu, includes, flt, suffix, name, sel) in kernels:
        if sel == 'text':
            continue
        key = (tu, tuple(includes or ()), flt)
        if key not in keys:
            keys.append(key)
    with ThreadPoolExecutor(max_workers=min(16, os.cpu_count() or 4)) as ex:
        for key, docs in ex.map(_prefetch, keys):
            if docs is not None:
                cache[key] = docs
    for (kid, tu, includes, flt, suffix, name, sel) in kernels:
        if sel == 'text':
            # (id, file relative to /repo, None, None, None, None | (start regex, end regex), 'text')
            try:
                sk = _source_text(repo, tu, name)
            except A.ExtractError as e:
                problems.append('%s: %s' % (kid, e))
                sk = 'EXTRACTION FAILED: ' + str(e).split('\n')[0][:200]
            defs.append((kid, sk))
            continue
        key = (tu, tuple(includes or ()), flt)
        try:
            if key not in cache:
                if tu is None:
                    path = os.path.join(workdir, 'tu_%s.cpp' % abs(hash(key)))
                    with open(path, 'w') as f:
                        for inc in includes:
                            f.write('#include <%s>\n' % inc)
                else:
                    path = os.path.join(repo, tu)
                cache[key] = A.dump(path, flt, cfg_include, repo=repo)
            found = _collect(cache[key], suffix, name)
            if sel == 'template':
                cands = [n for (is_pat, n) in found if is_pat]
                if not cands:
                    cands = [n for (_, n) in found]
                # several overloads (e.g. Connect): concatenate their skeletons in file order
                sk = ' || '.join(_dedup([skel.function_skeleton(n) for n in cands]))
            else:
                sks = _dedup([skel.function_skeleton(n) for (_, n) in found])
                if sel >= len(sks):
                    raise A.ExtractError('%s: only %d bodies named %s in *%s' % (kid, len(sks), name, suffix))
                sk = sks[sel]
            if not sk:
                raise A.ExtractError('%s: no body found' % kid)
        except A.ExtractError as e:
            problems.append('%s: %s' % (kid, e))
            sk = 'EXTRACTION FAILED: ' + str(e).split('\n')[0][:200]
        defs.append((kid, sk))
    out = ['/- GENERATED by vlib/x_kernels.py from /repo on every check run. Do not edit. -/',
           'namespace Yaclib.Extracted.Kernels', '']
    for kid, sk in defs:
        out.append('def %s : String :=\n  %s\n' % (kid, _q(sk)))
    out.append('end Yaclib.Extracted.Kernels\n')
    return '\n'.join(out), problems, dict(defs)


def _dedup(xs):
    seen = []
    for x in xs:
        if x not in seen:
            seen.append(x)
    return seen


def _q(s):
    return '"' + s.replace('\\', '\\\\').replace('"', '\\"') + '"'
