"""Failing-input search at the memory-model level for the lock-like properties (C14, C15).

When an obligation of such a property breaks (e.g. the skeleton tie: a memory order was edited) and the schedule
explorer finds nothing — the FIBER backend is sequentially consistent, and so is x86 for most of these edits — the
property's clause "what one critical section wrote is visible in the next" is searched with the C04 machinery
restricted to the given source files:
  (a) Extracted/Orders.lean is regenerated and the `insufficient` / `unknown` lists of Model/OrdersCheck.lean are
      evaluated; a site of ours whose order is weaker than its role needs is reported together with the model-level
      witness (the necessity theorems of Mem/Lock.lean: a run of the lock protocol with that order ends with race = true);
  (b) the ThreadSanitizer harness (harness/c04_tsan.cpp, real threads, TSAN library of the current tree) runs the given
      scenario; its race report is the implementation-level replay.
"""
import os
import re

from . import common as C

WITNESS = {
    'pubRmw': 'Yaclib.RA.MP.mp_relaxed_publication_races (Mem/MP.lean): the publishing RMW without release — the writer writes the '
              'datum, publishes; a reader that observes the published word (acquire) reads the datum: no happens-before edge, race = true '
              '(for SetImpl: the waiter that arrives after zero observes allDone and reads what was done before Done())',
    'counterSub': 'Yaclib.RA.RC.rc_relaxed_decrement_races / rc_relaxed_guard_races (Mem/RC.lean): every decrement must release and the '
                  'one that concludes it was the last must acquire; with either missing the two-holder run ends with race = true',
    'acqFence': 'Yaclib.RA.RC.rc_relaxed_guard_races (Mem/RC.lean): the thread that reaches zero does not acquire the other holders\' '
                'releases: race = true',
    'lockAcq': 'Yaclib.RA.Lock.lock_relaxed_acquire_races (Mem/Lock.lean): thread 0 takes the lock, writes the protected '
               'datum, releases; thread 1 takes the lock with a relaxed RMW and writes the datum: no happens-before edge, race = true',
    'lockRel': 'Yaclib.RA.Lock.lock_relaxed_release_races (Mem/Lock.lean): thread 0 takes the lock, writes the protected '
               'datum, releases with a relaxed RMW; thread 1 takes the lock (acquire) and writes the datum: race = true',
    'lockBoth': 'Yaclib.RA.Lock.lock_relaxed_acquire_races / lock_relaxed_release_races (Mem/Lock.lean): an RMW that both '
                'enters and leaves a section needs acquire and release; with either missing the two-thread run ends with race = true',
}


def search(res, prop, tier, files, tsan_scenario):
    """Returns True if a concrete failing input was found (and reported through res.violation)."""
    from checks import C04
    sites, xerr = C04.extract()
    ins, unk, everr = ([], [], xerr or '') if xerr else C04.eval_lists()
    mine = lambda l: [x for x in l if any(f in x for f in files)]
    ins_m, unk_m = mine(ins), mine(unk)
    tsan = None
    try:
        tsan = C04.tsan_run(150 if tier == 'quick' else 800, [tsan_scenario])[0]
        if (ins_m or unk_m) and not tsan['reports']:
            # the role table already gives the model-level witness; look harder for the implementation-level one
            # (a race detector on real threads is probabilistic)
            tsan = C04.tsan_run(4000, [tsan_scenario])[0]
    except C.BuildError as e:
        tsan = {'scenario': tsan_scenario, 'reports': 0, 'exit': -1, 'summary': [], 'yaclib_frames': [], 'stderr_head': str(e)[:400]}
    res.coverage['memory_order_search'] = {'insufficient_sites': ins_m, 'unknown_sites': unk_m, 'tsan': tsan, 'eval_error': everr[:300]}
    if not ins_m and not unk_m and not (tsan and tsan['reports']):
        return False
    lines = []
    if tsan and tsan['reports']:
        lines += ['tsan-scenario: %s' % tsan_scenario,
                  'replay: build harness/c04_tsan.cpp against the ThreadSanitizer library of the tree and run `c04_tsan %s 500` '
                  '(python3 check.py replay <this file> does that)' % tsan_scenario,
                  'ThreadSanitizer: %d report(s)' % tsan['reports']] + tsan['summary'] + tsan['yaclib_frames']
    for s in ins_m:
        role = (re.search(r'role=some \((?:[\w.]*\.)?(\w+)\)', s) or re.search(r'role=.*?(\w+)\)?$', s))
        role = role.group(1) if role else '?'
        lines += ['insufficient-site: ' + s,
                  'model-level witness: ' + WITNESS.get(role, 'the role table of Model/OrdersRequired.lean requires a stronger order for this role (%s)' % role)]
    for s in unk_m:
        lines += ['site-without-role: ' + s]
    what = []
    if ins_m:
        what.append('memory order too weak at ' + '; '.join(re.sub(r' orders=.*', '', s) + ' (' + (re.search(r'orders=\S+', s) or [''])[0] + ')'
                                                             if re.search(r'orders=\S+', s) else s for s in ins_m)[:300])
    if tsan and tsan['reports']:
        what.append('ThreadSanitizer reports a data race between critical sections in scenario %s: %s'
                    % (tsan_scenario, '; '.join(tsan['yaclib_frames'][:2]) or (tsan['summary'] or ['?'])[0]))
    if unk_m and not what:
        what.append('atomic site without a role: ' + unk_m[0])
    res.violation('\n'.join(lines), '; '.join(what)[:600], name='%s_%s_memory_order.txt' % (prop, tier))
    return True


def refine_no_input(res, prop, tier, files, tsan_scenario):
    """If everything the check reported so far is `no-failing-input-found`, run the memory-model search; when it finds a
    concrete input, that replaces the input-less report."""
    if not res.violations or not all(v[1] for v in res.violations):
        return
    old = list(res.violations)
    res.violations[:] = []
    if search(res, prop, tier, files, tsan_scenario):
        for (path, _, _) in old:
            try:
                os.remove(path)
            except OSError:
                pass
    else:
        res.violations[:] = old


def replay(path):
    """replay of a file written by `search`; None if the file is not one of ours"""
    txt = open(path).read()
    m = re.search(r'^tsan-scenario: (\S+)', txt, re.M)
    if m:
        from checks import C04
        r = C04.tsan_run(500, [m.group(1)])[0]
        print(r)
        return 1 if r['reports'] else 0
    if 'insufficient-site: ' in txt:
        from checks import C04
        C04.extract()
        ins, unk, _ = C04.eval_lists()
        want = re.findall(r'^insufficient-site: (.*)$', txt, re.M)
        still = [w for w in want if w in ins]
        print('\n'.join(['still insufficient: ' + w for w in still]) or 'the sites named in the replay are sufficient now')
        return 1 if still else 0
    return None
