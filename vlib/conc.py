"""Generic driver for the schedule-explorer based correspondence checks (T3 for concurrent kernels)."""
import json
import os
import re
import subprocess
import time

from . import common as C
from . import x_kernels


def extract_kernels():
    """Regenerate Extracted/Kernels.lean from the current tree. Returns list of problems (fail closed)."""
    lib = C.build_lib('fiber')
    with C.Lock('kernels'):
        import hashlib
        # keyed by the kernel list AND the translator sources (a change of the skeleton printer must not be served stale)
        h = hashlib.sha1(repr(x_kernels.KERNELS).encode())
        for mod in ('x_kernels.py', 'skel.py', 'cxxast.py'):
            with open(os.path.join(os.path.dirname(os.path.abspath(__file__)), mod), 'rb') as f:
                h.update(f.read())
        stamp = os.path.join(lib, 'kernels-%s.lean' % h.hexdigest()[:10])
        if os.path.exists(stamp):
            text = open(stamp).read()
            problems = json.load(open(stamp + '.problems'))
        else:
            text, problems, _ = x_kernels.generate(C.REPO, os.path.join(lib, 'include'), C.WORK)
            with open(stamp, 'w') as f:
                f.write(text)
            json.dump(problems, open(stamp + '.problems', 'w'))
        C.write_if_changed(os.path.join(C.LEAN, 'YaclibModel/Extracted/Kernels.lean'), text)
    return problems


def run_harness(binary, args, timeout=3600):
    t0 = time.time()
    r = subprocess.run([binary] + args, capture_output=True, text=True, timeout=timeout)
    out = r.stdout
    stats = None
    samples = []
    violations = []
    cur = None
    for line in out.split('\n'):
        if stats is None and line.startswith('{'):
            try:
                stats = json.loads(line)
                continue
            except ValueError:
                pass
        if line.startswith('SAMPLE '):
            samples.append(line[7:])
        elif line == '=====':
            cur = []
            violations.append(cur)
        elif cur is not None:
            cur.append(line)
    if stats is None:
        # the process died without a report (the crash handler normally prints one): still a finding, not a build problem
        stats = {'executions': 1, 'distinct_traces': 0, 'violations': 1, 'deadlocks': 0, 'scenarios': 0, 'mode': 'crashed'}
        violations = [['violation: the harness process died (exit %d) while running the library under test' % r.returncode,
                       'scenario: ?', 'command: %s %s' % (binary, ' '.join(args)), 'output: ' + (out[-800:] + r.stderr[-800:]).replace('\n', ' | ')]]
    stats['wall_s'] = round(time.time() - t0, 2)
    return stats, samples, ['\n'.join(v) for v in violations]


def validate(model, trace_file):
    drv = os.path.join(C.LEAN, '.lake/build/bin/ymdriver_' + model)
    if not os.path.exists(drv):
        return None
    with open(trace_file) as f:
        r = subprocess.run([drv], stdin=f, capture_output=True, text=True)
    ok = 0
    mism = []
    rules = {}
    for line in r.stdout.split('\n'):
        if line.startswith('ok '):
            ok += 1
        elif line.startswith('mismatch') or line.startswith('bad-header'):
            mism.append(line)
        elif line.startswith('rules '):
            for kv in line[6:].split():
                k, v = kv.rsplit('=', 1)
                rules[k] = int(v)
    return {'ok': ok, 'mismatches': mism, 'rules': rules, 'exit': r.returncode}


def violation_key(v):
    """scenario header + message: used to match known findings"""
    m = re.search(r'^violation: (.*)$', v, re.M)
    s = re.search(r'^scenario: (.*)$', v, re.M)
    return (s.group(1) if s else '?'), (m.group(1) if m else '?')


def concurrent_check(res, prop, tier, harness_src, model, expected_rules, quick_args, thorough_args, search_args=None,
                     known=None, unmodelled_ok=(), lib_kind='fiber'):
    """The whole T3 + verdict logic for one property. `known`: list of dict(match=<regex on 'scenario | message'>, what=<text>)."""
    problems = extract_kernels()
    ok, broken = C.proof_stage(res, prop, drivers=['ymdriver_' + model])
    broken = ['translator x_kernels: ' + p for p in problems] + broken
    binary = C.build_harness(prop.lower(), lib_kind, [harness_src])
    trace_file = os.path.join(C.WORK, '%s_%s_%d_traces.txt' % (prop, tier, os.getpid()))  # per process: concurrent runs of one check
    args = list(quick_args if tier == 'quick' else thorough_args) + ['--seed', str(C.seed()), '--out', trace_file]
    stats, samples, violations = run_harness(binary, args)
    val = validate(model, trace_file)
    try:
        os.remove(trace_file)
    except OSError:
        pass
    all_stats = [stats]
    # failing-input search when something no longer checks
    need_search = bool(broken) or (val is not None and val['mismatches']) or bool(getattr(res, 'support_changed', None))
    if need_search and not violations and search_args:
        for sa in search_args:
            st2, _, v2 = run_harness(binary, list(sa) + ['--seed', str(C.seed())])
            all_stats.append(st2)
            if v2:
                violations = v2
                break
    # open known findings come from the committed file (never written at run time); `known=` adds check-local ones
    known = list(known or []) + [k for k in C.load_findings().get('open', []) if k.get('property') == prop]
    reported = 0
    seen_keys = set()
    for v in violations:
        scen, msg = violation_key(v)
        key = scen + ' | ' + msg
        kf = next((k for k in known if re.search(k['match'], key)), None)
        if kf is not None:
            if kf['what'] not in seen_keys:
                seen_keys.add(kf['what'])
                res.known_finding(kf['what'])
            continue
        short = re.sub(r'[^A-Za-z0-9]+', '_', msg)[:40]
        if short in seen_keys:
            continue
        seen_keys.add(short)
        res.violation(v, msg + ' [' + scen + ']', name='%s_%s_%s.txt' % (prop, tier, short))
        reported += 1
    if reported == 0 and not (violations and not reported and not need_search):
        if val is not None and val['mismatches']:
            res.violation('\n'.join(val['mismatches'][:10]),
                          'correspondence broken: an implementation trace is not a trace of the model %s (%s)' % (model, val['mismatches'][0][:160]),
                          no_input=True, name='%s_%s_correspondence.txt' % (prop, tier))
        elif broken:
            res.violation('\n'.join(broken), 'proof obligations of %s no longer check: %s' % (prop, broken[0][:200]),
                          no_input=True, name='%s_%s_obligations.txt' % (prop, tier))
    rules = val['rules'] if val else {}
    covered = [r for r in expected_rules if rules.get(r, 0) > 0]
    uncovered = [r for r in expected_rules if rules.get(r, 0) == 0]
    res.coverage.update({
        'evaluations': sum(s['executions'] for s in all_stats),
        'distinct_nontrivial': stats['distinct_traces'],
        'rule': 'hook-controlled schedule exploration of the real library (FIBER backend): %s; every distinct trace is validated '
                'step by step against the Lean model\'s executable `next`; distinct = distinct canonical traces' % ' '.join(args[:-4]),
        'samples': samples[:3],
        'traces_validated_against_impl': val['ok'] if val else 0,
        'trace_mismatches': len(val['mismatches']) if val else None,
        'rules_total': len(expected_rules), 'rules_covered': len(covered), 'rules_uncovered': uncovered,
        'rules_not_exhibitable_by_impl': list(unmodelled_ok),
        'rule_counts': rules,
        'explorer': all_stats,
        'exhaustive': bool(stats.get('mode') == 'dfs' and stats.get('truncated_scenarios') == 0),
        'broken_obligations': broken,
    })
    return stats, val


def replay(prop, path, lib_kind='fiber', harness_src=None):
    scen = None
    choices = ''
    for line in open(path):
        if line.startswith('scenario: '):
            scen = line[len('scenario: '):].strip()
        elif line.startswith('choices: '):
            choices = line[len('choices: '):].strip()
    if scen is None:
        print(open(path).read())
        print('(this replay names a broken obligation / correspondence, there is no schedule to re-run)')
        return 1
    binary = C.build_harness(prop.lower(), lib_kind, [harness_src or prop.lower() + '.cpp'])
    r = subprocess.run([binary, '--only', scen, '--choices', choices], capture_output=True, text=True)
    print(r.stdout)
    return 1 if '"violations": 0' not in r.stdout else 0
