"""T1 translator for C17: the decision functions of the fiber fault-injection layer -> pure Lean functions,
plus the forbidden-source lint of the fault layer.

Generated file: lean/YaclibModel/Extracted/FiberSched.lean   (regenerated on every check run)

Every translated C++ function becomes a Lean function in which
  * every piece of mutable state the body touches (file statics such as `sRandCount`, members such as `_count`,
    `_time`) is an explicit argument and, if written, a component of the result tuple
    (canonical order `STATE_ORDER`, then the C++ return value);
  * the random engine is abstract: a type `E` with `draw : E -> E x Nat` (one call of `eng()`) and
    `seedEngine : Nat -> E` (`eng.seed(x)` / construction from a seed);
  * `BiList` positions are cursors of `Base/SchedImp.lean` (`hd/nxt/prv`, the list is represented by its length);
  * unsigned integers are natural numbers: implicit wrap-around of `+`/`++`/`*` is NOT modelled (the stated
    no-overflow assumption of C17), unsigned `-` is truncated subtraction (every subtraction in the translated bodies
    is dominated by a guard that makes it exact), explicit or implicit *narrowing* conversions are kept (`u32`);
  * `#ifdef YACLIB_VERIF` hook blocks `if (verif::gHooks.X != nullptr) {...}` and YACLIB_ASSERT/DEBUG stubs are dropped
    (with a null hook the block is skipped; the C17 harness installs only trace hooks).
The translator fails closed: any construct outside this fragment raises ExtractError (-> broken tie in the check).
"""
import json
import os
import re

from . import cxxast as A
from . import skel

# ------------------------------------------------------------------------------------------------ state vocabulary
STATE_ORDER = ['sSeed', 'sRandCount', 'eng', '_count', '_pause', 'sYieldFrequency', 'sSleepTime', 'sInjectedCount',
               'sAtomicFailFrequency', 'sTickLength', 'sRandomListPick', '_time']
LEAN_NAME = {'_count': 'count', '_pause': 'pause', '_time': 'time'}
STATE_TYPE = {'eng': 'E', '_pause': 'Bool'}
ATOMIC_MEMBERS = {'_count'}

INT_TYPES = {
    # name: (bits, unsigned)
    'unsigned int': (32, True), 'std::uint32_t': (32, True), 'uint32_t': (32, True),
    'std::__atomic_base<unsigned int>::__int_type': (32, True),
    'unsigned long': (64, True), 'std::uint64_t': (64, True), 'uint64_t': (64, True), 'std::size_t': (64, True),
    'size_t': (64, True), 'unsigned long long': (64, True),
    'int': (32, False), 'long': (64, False), 'long long': (64, False),
}
ENGINE_RESULT = 'std::mersenne_twister_engine<'

END = '@@END@@'
CONT = '@@CONT@@'
BREAK = '@@BREAK@@'


def lname(c):
    return LEAN_NAME.get(c, c)


def _clean(qt):
    return re.sub(r'\b(const|volatile)\b', '', qt or '').strip()


def tag_of(qt, allow_ptr):
    q = _clean(qt)
    if q.endswith('*'):
        if allow_ptr:
            return 'Cur'
        raise A.ExtractError('pointer-typed variable outside a cursor function: ' + qt)
    if q == 'bool':
        return 'Bool'
    if q in INT_TYPES:
        if not INT_TYPES[q][1]:
            raise A.ExtractError('signed integer variable: ' + qt)
        return 'Nat'
    if q.startswith(ENGINE_RESULT) and q.endswith('::result_type'):
        return 'Nat'
    raise A.ExtractError('unsupported variable type: ' + qt)


LEAN_TYPE = {'Nat': 'Nat', 'Bool': 'Bool', 'E': 'E', 'Cur': 'Nat', 'OptCur': 'Option Nat', 'Len': 'Nat'}


class Code:
    """a let-chain under construction"""

    def __init__(self):
        self.lines = []
        self.assigned = []  # C++ names, in order of first assignment

    def let(self, names, pattern, rhs):
        self.lines.append('let %s := %s' % (pattern, rhs))
        for n in names:
            if n not in self.assigned:
                self.assigned.append(n)

    def raw(self, text, names=()):
        self.lines.append(text)
        for n in names:
            if n not in self.assigned:
                self.assigned.append(n)


def _indent(s, n=2):
    return '\n'.join(' ' * n + l for l in s.split('\n'))


def _tuple(xs):
    xs = list(xs)
    return xs[0] if len(xs) == 1 else '(' + ', '.join(xs) + ')'


def is_hook_block(n):
    """`if (verif::gHooks.X != nullptr) { ... }` without else"""
    if n.get('kind') != 'IfStmt' or n.get('hasElse') or n.get('hasInit') or n.get('hasVar'):
        return False
    ks = A.kids(n)
    c = A.strip(ks[0])
    if c.get('kind') != 'BinaryOperator' or c.get('opcode') != '!=':
        return False
    l, r = [A.strip(x) for x in A.kids(c)]
    if r.get('kind') != 'CXXNullPtrLiteralExpr' or l.get('kind') != 'MemberExpr':
        return False
    b = A.strip(A.kids(l)[0]) if A.kids(l) else {}
    return b.get('kind') == 'DeclRefExpr' and b.get('referencedDecl', {}).get('name') == 'gHooks'


def is_verif_call(n):
    """`verif::OnSync(...)` style statement (instrumentation only)"""
    n = A.strip(n)
    if n.get('kind') != 'CallExpr':
        return False
    c = A.strip(A.kids(n)[0])
    return c.get('kind') == 'DeclRefExpr' and c.get('referencedDecl', {}).get('name') in ('OnSync',)


def skip_stmt(s):
    return A.is_assert_stub(s) or s.get('kind') == 'NullStmt' or is_hook_block(s) or is_verif_call(s)


def writes_of(n, acc=None):
    """names syntactically written inside n (plain variables / members only; used for the loop-counter check)"""
    if acc is None:
        acc = []
    k = n.get('kind')
    ks = A.kids(n)

    def nm(x):
        x = A.strip(x)
        if x.get('kind') == 'DeclRefExpr':
            return x['referencedDecl']['name']
        if x.get('kind') == 'MemberExpr':
            return x.get('name')
        return None

    if k == 'UnaryOperator' and n.get('opcode') in ('++', '--'):
        acc.append(nm(ks[0]))
    elif k == 'CompoundAssignOperator' or (k == 'BinaryOperator' and n.get('opcode') == '='):
        acc.append(nm(ks[0]))
    elif k == 'CXXOperatorCallExpr':
        callee = A.strip(ks[0])
        if callee.get('referencedDecl', {}).get('name') in ('operator=', 'operator++', 'operator--', 'operator+=',
                                                             'operator-='):
            acc.append(nm(ks[1]))
    for c in ks:
        writes_of(c, acc)
    return acc


class Tr:
    def __init__(self, spec, known):
        self.spec = spec
        self.known = known  # C++ name -> compiled spec
        self.cursor = spec.get('cursor', False)
        self.scope = {}  # C++ name -> tag
        self.order = []  # declaration order of locals
        for s in spec.get('reads', []) + spec.get('writes', []):
            self.scope[s] = STATE_TYPE.get(s, 'Nat')
        for (p, t) in spec.get('params', []):
            self.scope[p] = t
        for (_, (a, t)) in spec.get('atoms', {}).items():
            self.scope['@' + a] = t
        self.writes = list(spec.get('writes', []))
        self.tmp = 0
        self.zero = set()  # locals known to hold literal 0
        self.uses_draw = False
        self.uses_seed = False
        self.codes = [Code()]
        self.notes = []

    # ----------------------------------------------------------------------------------------- helpers
    @property
    def code(self):
        return self.codes[-1]

    def fresh(self):
        self.tmp += 1
        return 'r%d' % self.tmp

    def err(self, msg, n=None):
        where = ''
        if n is not None:
            try:
                where = ' at `%s`' % skel.stmt(n)[:160]
            except Exception:
                pass
        raise A.ExtractError('%s: %s%s' % (self.spec['id'], msg, where))

    def assign(self, cname, rhs, n=None):
        if cname not in self.scope:
            self.err('assignment to unknown variable %s' % cname, n)
        if cname in STATE_ORDER and cname not in self.writes:
            self.err('writes state variable %s which the spec does not declare as written' % cname, n)
        if cname in [p for (p, _) in self.spec.get('params', [])] and self.scope[cname] == 'Len':
            self.err('assignment to list parameter', n)
        self.code.let([cname], lname(cname), rhs)
        self.zero.discard(cname)

    def atom(self, n):
        atoms = self.spec.get('atoms')
        if not atoms:
            return None
        try:
            key = skel.expr(n)
        except Exception:
            return None
        if key in atoms:
            return atoms[key]
        return None

    def var_name(self, n):
        """C++ name of a plain variable / this-member lvalue, else None"""
        n = A.strip(n)
        k = n.get('kind')
        if k == 'DeclRefExpr' and n.get('referencedDecl', {}).get('kind') in ('VarDecl', 'ParmVarDecl'):
            return n['referencedDecl']['name']
        if k == 'MemberExpr':
            ks = A.kids(n)
            if ks and A.strip(ks[0]).get('kind') == 'CXXThisExpr':
                return n.get('name')
        return None

    def strip_casts(self, n):
        """like A.strip but checks every implicit cast it removes"""
        while True:
            k = n.get('kind')
            ks = A.kids(n)
            if k in ('ParenExpr', 'ExprWithCleanups', 'MaterializeTemporaryExpr', 'CXXBindTemporaryExpr', 'ConstantExpr',
                     'FullExpr') and len(ks) == 1:
                n = ks[0]
                continue
            if k == 'ImplicitCastExpr' and len(ks) == 1:
                ck = n.get('castKind')
                if ck in ('LValueToRValue', 'NoOp', 'FunctionToPointerDecay', 'NullToPointer', 'UncheckedDerivedToBase',
                          'DerivedToBase', 'ArrayToPointerDecay'):
                    n = ks[0]
                    continue
                if ck == 'IntegralCast':
                    return ('intcast', n, ks[0])
                if ck == 'IntegralToBoolean':
                    return ('tobool', n, ks[0])
                self.err('unsupported implicit cast %s' % ck, n)
            return ('plain', n, None)

    def int_cast(self, outer, inner, explicit):
        """value of `inner` converted to the integer type of `outer`"""
        src = _clean(inner.get('type', {}).get('qualType'))
        dst = _clean(outer.get('type', {}).get('qualType'))
        e = self.expr(inner)
        core = A.strip(inner)
        if core.get('kind') == 'IntegerLiteral':
            v = int(core.get('value'))
            if dst in INT_TYPES and 0 <= v < (1 << INT_TYPES[dst][0]) - (0 if INT_TYPES[dst][1] else (1 << (INT_TYPES[dst][0] - 1))):
                return e
            self.err('literal %s does not fit %s' % (v, dst), outer)
        if src.startswith(ENGINE_RESULT):
            src = 'unsigned long'
        if dst.startswith(ENGINE_RESULT):
            dst = 'unsigned long'
        if src not in INT_TYPES or dst not in INT_TYPES:
            self.err('integral conversion between unsupported types %s -> %s' % (src, dst), outer)
        (sb, su), (db, du) = INT_TYPES[src], INT_TYPES[dst]
        if not su or not du:
            self.err('signed integral conversion %s -> %s' % (src, dst), outer)
        if db >= sb:
            return e
        if db == 32:
            return '(u32 %s)' % e
        self.err('narrowing conversion %s -> %s' % (src, dst), outer)

    # ----------------------------------------------------------------------------------------- expressions
    def cursor_expr(self, n):
        """BiList position expressions; returns Lean term or None"""
        if not self.cursor:
            return None
        n = A.strip(n)
        k = n.get('kind')
        ks = A.kids(n)
        if k == 'UnaryOperator' and n.get('opcode') == '&':
            if self.var_name(ks[0]) == '_head':
                return '(hd len)'
            return None
        if k == 'MemberExpr' and n.get('name') in ('next', 'prev'):
            f = 'nxt' if n['name'] == 'next' else 'prv'
            base = A.strip(ks[0])
            if self.var_name(base) == '_head' and not n.get('isArrow'):
                return '(%s len (hd len))' % f
            if n.get('isArrow'):
                bn = self.var_name(base)
                if bn is not None and self.scope.get(bn) == 'Cur':
                    return '(%s len %s)' % (f, lname(bn))
                inner = self.cursor_expr(base)
                if inner is not None:
                    return '(%s len %s)' % (f, inner)
            return None
        return None

    def tag(self, n):
        """type tag of an expression"""
        kind, node, inner = self.strip_casts(n)
        if kind == 'intcast':
            return 'Nat'
        if kind == 'tobool':
            return 'Bool'
        n = node
        at = self.atom(n)
        if at:
            return at[1]
        vn = self.var_name(n)
        if vn is not None and vn in self.scope:
            return self.scope[vn]
        k = n.get('kind')
        if self.cursor_expr(n) is not None:
            return 'Cur'
        if k == 'CXXNullPtrLiteralExpr':
            return 'Null'
        if k == 'CXXBoolLiteralExpr':
            return 'Bool'
        if k == 'BinaryOperator' and n.get('opcode') in ('==', '!=', '<', '>', '<=', '>=', '&&', '||'):
            return 'Bool'
        if k == 'UnaryOperator' and n.get('opcode') == '!':
            return 'Bool'
        if k in ('CallExpr', 'CXXMemberCallExpr'):
            nm = self.callee_name(n)
            if nm in self.known:
                return self.known[nm]['ret'] or 'Unit'
        if k == 'ConditionalOperator':
            return self.tag(A.kids(n)[1])
        return 'Nat'

    def callee_name(self, n):
        ks = A.kids(n)
        c = A.strip(ks[0])
        ck = c.get('kind')
        if ck == 'DeclRefExpr':
            return c.get('referencedDecl', {}).get('name')
        if ck == 'MemberExpr':
            return c.get('name')
        return None

    def cond(self, n):
        """Lean proposition (decidable) for a C++ condition"""
        kind, node, inner = self.strip_casts(n)
        if kind == 'tobool':
            return '(%s ≠ 0)' % self.expr(inner)
        if kind == 'intcast':
            self.err('integer used as condition', n)
        n = node
        k = n.get('kind')
        ks = A.kids(n)
        if self.atom(n) is None:
            if k == 'BinaryOperator' and n.get('opcode') in ('==', '!=', '<', '>', '<=', '>='):
                ta, tb = self.tag(ks[0]), self.tag(ks[1])
                op = {'==': '=', '!=': '≠', '<': '<', '>': '>', '<=': '≤', '>=': '≥'}[n['opcode']]
                if 'Cur' in (ta, tb) or 'Null' in (ta, tb) or 'OptCur' in (ta, tb):
                    if n['opcode'] not in ('==', '!='):
                        self.err('ordering comparison of pointers', n)
                    if 'Null' in (ta, tb) or 'OptCur' in (ta, tb):
                        self.err('comparison with nullptr is not in the fragment', n)
                a = self.expr(ks[0])
                b = self.expr(ks[1])
                return '(%s %s %s)' % (a, op, b)
            if k == 'BinaryOperator' and n.get('opcode') in ('&&', '||'):
                a = self.cond(ks[0])
                self.codes.append(Code())
                b = self.cond(ks[1])
                c = self.codes.pop()
                if c.lines:
                    self.err('side effect in the right operand of a condition (only supported in value position)', n)
                return '(%s %s %s)' % (a, '∧' if n['opcode'] == '&&' else '∨', b)
            if k == 'UnaryOperator' and n.get('opcode') == '!':
                return '(¬ %s)' % self.cond(ks[0])
        if self.tag(n) != 'Bool':
            self.err('condition of unsupported type', n)
        return '(%s = true)' % self.expr(n)

    def expr(self, n):
        kind, node, inner = self.strip_casts(n)
        if kind == 'intcast':
            return self.int_cast(node, inner, False)
        if kind == 'tobool':
            return '(decide (%s ≠ 0))' % self.expr(inner)
        n = node
        at = self.atom(n)
        if at:
            return at[0]
        k = n.get('kind')
        ks = A.kids(n)
        ce = self.cursor_expr(n)
        if ce is not None:
            return ce
        vn = self.var_name(n)
        if vn is not None:
            if vn not in self.scope:
                self.err('reference to unknown variable %s (not a parameter, local or declared state)' % vn, n)
            if vn in ATOMIC_MEMBERS:
                self.err('direct use of atomic member %s' % vn, n)
            return lname(vn)
        if k == 'IntegerLiteral':
            return str(int(n.get('value')))
        if k == 'CXXBoolLiteralExpr':
            return 'true' if n.get('value') else 'false'
        if k in ('CXXStaticCastExpr', 'CXXFunctionalCastExpr', 'CStyleCastExpr'):
            ck = n.get('castKind')
            if ck == 'NoOp':
                return self.expr(ks[0])
            if ck == 'IntegralCast':
                return self.int_cast(n, ks[0], True)
            self.err('unsupported explicit cast %s' % ck, n)
        if k == 'UnaryOperator':
            oc = n.get('opcode')
            if oc in ('++', '--'):
                v = self.var_name(ks[0])
                if v is None or self.scope.get(v) != 'Nat':
                    self.err('++/-- on unsupported operand', n)
                op = '+' if oc == '++' else '-'
                if n.get('isPostfix'):
                    r = self.fresh()
                    self.code.let([], r, lname(v))
                    self.assign(v, '%s %s 1' % (lname(v), op), n)
                    return r
                self.assign(v, '%s %s 1' % (lname(v), op), n)
                return lname(v)
            if oc == '!':
                return '(!%s)' % self.expr(ks[0])
            self.err('unsupported unary operator %s' % oc, n)
        if k == 'CompoundAssignOperator':
            v = self.var_name(ks[0])
            oc = n.get('opcode')
            if v is None or oc not in ('+=', '-='):
                self.err('unsupported compound assignment', n)
            rhs = self.expr(ks[1])
            self.assign(v, '%s %s %s' % (lname(v), oc[0], rhs), n)
            return lname(v)
        if k == 'BinaryOperator':
            oc = n.get('opcode')
            if oc == '=':
                v = self.var_name(ks[0])
                if v is None:
                    self.err('unsupported assignment target', n)
                rhs = self.expr(ks[1])
                rt = self.tag(ks[1])
                if self.scope.get(v) != rt and not (self.scope.get(v) == 'Nat' and rt == 'Nat'):
                    self.err('assignment between different kinds (%s := %s)' % (self.scope.get(v), rt), n)
                self.assign(v, rhs, n)
                return lname(v)
            if oc in ('+', '-', '*', '/', '%'):
                if self.tag(ks[0]) != 'Nat' or self.tag(ks[1]) != 'Nat':
                    self.err('arithmetic on non-integers', n)
                a = self.expr(ks[0])
                b = self.expr(ks[1])
                return '(%s %s %s)' % (a, oc, b)
            if oc in ('==', '!=', '<', '>', '<=', '>='):
                return '(decide %s)' % self.cond(n)
            if oc in ('&&', '||'):
                a = self.expr(ks[0])
                self.codes.append(Code())
                b = self.expr(ks[1])
                c = self.codes.pop()
                if not c.lines:
                    return '(%s %s %s)' % (a, oc, b)
                # short-circuit with effects on the right: evaluate the right operand conditionally
                merged = self.merge_vars(c.assigned)
                t = self.fresh()
                short = 'false' if oc == '&&' else 'true'
                pat = _tuple([lname(v) for v in merged] + [t])
                run = '\n'.join(c.lines + [_tuple([lname(v) for v in merged] + [b])])
                skip = _tuple([lname(v) for v in merged] + [short])
                if oc == '&&':
                    self.code.raw('let %s := (\n  if %s = true then\n%s\n  else\n    %s)' % (pat, a, _indent(run, 4), skip), merged)
                else:
                    self.code.raw('let %s := (\n  if %s = true then\n    %s\n  else\n%s)' % (pat, a, skip, _indent(run, 4)), merged)
                for v in merged:
                    self.zero.discard(v)
                return t
            self.err('unsupported binary operator %s' % oc, n)
        if k == 'ConditionalOperator':
            c = self.cond(ks[0])
            self.codes.append(Code())
            a = self.expr(ks[1])
            ca = self.codes.pop()
            self.codes.append(Code())
            b = self.expr(ks[2])
            cb = self.codes.pop()
            if ca.lines or cb.lines:
                self.err('side effects inside ?: are not in the fragment', n)
            return '(if %s then %s else %s)' % (c, a, b)
        if k == 'CXXOperatorCallExpr':
            callee = A.strip(ks[0]).get('referencedDecl', {}).get('name')
            if callee == 'operator()' and len(ks) == 2 and self.var_name(ks[1]) == 'eng':
                # eng(): one draw of the engine
                self.uses_draw = True
                r = self.fresh()
                if 'eng' not in self.writes:
                    self.err('draws from the engine but does not declare `eng` as written', n)
                self.code.let(['eng'], '(eng, %s)' % r, 'draw eng')
                return r
            if callee == 'operator=' and len(ks) == 3 and self.var_name(ks[1]) in ATOMIC_MEMBERS:
                v = self.var_name(ks[1])
                rhs = self.expr(ks[2])
                self.assign_atomic(v, rhs, n)
                return lname(v)
            self.err('unsupported operator call %s' % callee, n)
        if k in ('CallExpr', 'CXXMemberCallExpr'):
            return self.call(n)
        self.err('unsupported expression kind %s' % k, n)

    def assign_atomic(self, v, rhs, n):
        if v not in self.scope:
            self.err('atomic member %s not declared as state' % v, n)
        if v not in self.writes:
            self.err('writes state variable %s which the spec does not declare as written' % v, n)
        self.code.let([v], lname(v), rhs)

    def merge_vars(self, assigned):
        """variables assigned inside a conditional region that live outside it, canonical order"""
        vs = [v for v in assigned if v in self.scope]
        st = [v for v in STATE_ORDER if v in vs]
        loc = [v for v in self.order if v in vs and v not in st]
        par = [v for v in vs if v not in st and v not in loc]
        return st + par + loc

    def call(self, n):
        ks = A.kids(n)
        c = A.strip(ks[0])
        ck = c.get('kind')
        args = [a for a in ks[1:] if A.strip(a).get('kind') != 'CXXDefaultArgExpr']
        name = self.callee_name(n)
        if ck == 'MemberExpr':
            base = A.strip(A.kids(c)[0]) if A.kids(c) else None
            bname = self.var_name(base) if base is not None else None
            # std::atomic members
            if bname in ATOMIC_MEMBERS:
                if bname not in self.scope:
                    self.err('atomic member %s not declared as state' % bname, n)
                if name == 'fetch_add' and len(args) == 2:
                    a = self.expr(args[0])
                    r = self.fresh()
                    self.code.let([], r, lname(bname))
                    self.assign_atomic(bname, '%s + %s' % (lname(bname), a), n)
                    return r
                if name == 'load' and len(args) == 1:
                    return lname(bname)
                if name == 'store' and len(args) == 2:
                    self.assign_atomic(bname, self.expr(args[0]), n)
                    return '()'
                self.err('unsupported atomic member call %s' % name, n)
            if bname == 'eng' and name == 'seed' and len(args) == 1:
                self.uses_seed = True
                if 'eng' not in self.writes:
                    self.err('reseeds the engine but does not declare `eng` as written', n)
                self.code.let(['eng'], 'eng', 'seedEngine %s' % self.expr(args[0]))
                return '()'
            is_this = base is not None and base.get('kind') == 'CXXThisExpr'
            if name in self.known and (is_this or (bname is not None and self.scope.get(bname) == 'Len')):
                return self.call_known(name, args, n, None if is_this else lname(bname))
            self.err('unsupported member call %s' % name, n)
        if ck == 'DeclRefExpr' and name in self.known:
            return self.call_known(name, args, n, None)
        self.err('call to unknown function %s' % name, n)

    def call_known(self, name, args, n, len_arg):
        sp = self.known[name]
        if sp.get('atoms'):
            self.err('callee %s has opaque atoms' % name, n)
        if len(args) != len(sp.get('params', [])):
            self.err('arity mismatch in call to %s' % name, n)
        pre = []
        if sp['uses_draw']:
            self.uses_draw = True
            pre.append('draw')
        if sp['uses_seed']:
            self.uses_seed = True
            pre.append('seedEngine')
        if sp.get('cursor'):
            if len_arg is None:
                if not self.cursor:
                    self.err('call to list method %s outside a list method' % name, n)
                len_arg = 'len'
            pre.append(len_arg)
        for s in sp.get('reads', []):
            if s not in self.scope:
                self.err('callee %s reads state %s which the caller does not declare' % (name, s), n)
            pre.append(lname(s))
        vals = [self.expr(a) for a in args]
        outs = []
        for s in sp.get('writes', []):
            if s not in self.writes:
                self.err('callee %s writes state %s which the caller does not declare as written' % (name, s), n)
            outs.append(s)
        r = None
        pat = [lname(s) for s in outs]
        if sp['ret']:
            r = self.fresh()
            pat.append(r)
        call = '%s %s' % (sp['lean'], ' '.join(pre + vals))
        if not outs and sp['ret']:
            return '(%s)' % call.strip()  # pure callee: inline
        if not pat:
            self.err('call to %s has no effect' % name, n)
        self.code.let(outs, _tuple(pat), call.strip())
        for s in outs:
            self.zero.discard(s)
        return r if r else '()'

    # ----------------------------------------------------------------------------------------- statements
    def contains_exit(self, n):
        return bool(A.find_all(n, lambda x: x.get('kind') in ('ReturnStmt', 'BreakStmt', 'ContinueStmt', 'GotoStmt')))

    def flat(self, s):
        return A.kids(s) if s.get('kind') == 'CompoundStmt' else [s]

    def ret_term(self, value):
        outs = [lname(s) for s in STATE_ORDER if s in self.writes]
        if value is not None:
            outs.append(value)
        if not outs:
            self.err('function has neither a result nor a written state variable')
        return _tuple(outs)

    def block(self, stmts, mode):
        """translate a statement list into a term; mode: 'fn' | 'loop' | 'merge'
        returns the term (string); uses a fresh Code frame"""
        self.codes.append(Code())
        saved_scope = dict(self.scope)
        saved_order = list(self.order)
        saved_zero = set(self.zero)
        try:
            tail = self._block(stmts, mode)
            code = self.codes[-1]
            term = '\n'.join(code.lines + [tail])
            return term, code.assigned
        finally:
            self.codes.pop()
            self.scope = saved_scope
            self.order = saved_order
            self.zero = saved_zero

    def _block(self, stmts, mode):
        for i, s in enumerate(stmts):
            rest = stmts[i + 1:]
            k = s.get('kind')
            ks = A.kids(s)
            if skip_stmt(s):
                continue
            if k == 'CompoundStmt':
                return self._block(ks + rest, mode)
            if k == 'DeclStmt':
                for d in ks:
                    self.decl(d)
                continue
            if k == 'ReturnStmt':
                if mode != 'fn':
                    self.err('return inside a loop or a merged branch', s)
                return self.ret_value(ks[0] if ks else None, s)
            if k == 'BreakStmt':
                if mode != 'loop':
                    self.err('break outside a translated loop', s)
                return BREAK
            if k == 'IfStmt':
                return self.if_stmt(s, rest, mode)
            if k == 'WhileStmt':
                if len(ks) != 2:
                    self.err('while with a condition variable', s)
                self.loop(ks[0], self.flat(ks[1]), None, s)
                continue
            if k == 'ForStmt':
                # children: init, condvar(None dropped by kids?), cond, inc, body
                raw = s.get('inner', [])
                if len(raw) != 5 or (isinstance(raw[1], dict) and raw[1].get('kind')):
                    self.err('unsupported for statement shape', s)
                init, _, cnd, inc, body = raw
                if init.get('kind') is not None:
                    if init.get('kind') != 'DeclStmt':
                        self.err('unsupported for-init', s)
                    for d in A.kids(init):
                        self.decl(d)
                if cnd.get('kind') is None or inc.get('kind') is None:
                    self.err('for without condition or increment', s)
                self.loop(cnd, self.flat(body), inc, s)
                continue
            # `x.Erase(); return x;`  — the returned node has been unlinked (pointer surgery is the model's eraseIdx)
            if self.is_erase(s):
                v = self.var_name(A.kids(A.strip(A.kids(A.strip(s))[0]))[0])
                nxt = [r for r in rest if not skip_stmt(r)]
                if not nxt or nxt[0].get('kind') != 'ReturnStmt' or self.var_name(A.kids(nxt[0])[0]) != v:
                    self.err('Erase() of a node that is not the returned node', s)
                self.notes.append('%s: the returned node `%s` is unlinked from the list (Node::Erase)' % (self.spec['id'], v))
                continue
            # expression statement
            e = A.strip(s)
            if e.get('kind') in ('UnaryOperator', 'CompoundAssignOperator', 'BinaryOperator', 'CallExpr', 'CXXMemberCallExpr',
                                 'CXXOperatorCallExpr'):
                before = len(self.code.lines)
                self.expr(s)
                if len(self.code.lines) == before:
                    self.err('expression statement without effect', s)
                continue
            self.err('unsupported statement kind %s' % k, s)
        if mode == 'fn':
            if self.spec.get('ret'):
                self.err('control reaches the end of a non-void function')
            return self.ret_term(None)
        if mode == 'loop':
            return CONT
        return END

    def is_erase(self, s):
        e = A.strip(s)
        if e.get('kind') != 'CXXMemberCallExpr':
            return False
        c = A.strip(A.kids(e)[0])
        if c.get('kind') != 'MemberExpr' or c.get('name') != 'Erase' or len(A.kids(e)) != 1:
            return False
        v = self.var_name(A.kids(c)[0])
        return v is not None and self.scope.get(v) in ('Cur', 'OptCur')

    def ret_value(self, e, s):
        rt = self.spec.get('ret')
        if e is None:
            if rt:
                self.err('return without value in a non-void function', s)
            return self.ret_term(None)
        if not rt:
            self.err('return with value in a void function', s)
        t = self.tag(e)
        if rt == 'OptCur':
            if t == 'Null':
                return self.ret_term('none')
            if t == 'Cur':
                return self.ret_term('(some %s)' % self.expr(e))
            if t == 'OptCur':
                return self.ret_term(self.expr(e))
            self.err('unsupported pointer result', s)
        if rt == 'Bool':
            if t != 'Bool':
                self.err('non-boolean result of a bool function', s)
            return self.ret_term(self.expr(e))
        if rt == 'Nat':
            if t != 'Nat':
                self.err('non-integer result', s)
            return self.ret_term(self.expr(e))
        self.err('unsupported result type %s' % rt, s)

    def decl(self, d):
        if d.get('kind') != 'VarDecl':
            self.err('unsupported declaration %s' % d.get('kind'))
        name = d['name']
        if name in self.scope or name in ('len', 'draw', 'seedEngine') or name in LEAN_NAME.values():
            self.err('redeclaration / shadowing of %s' % name)
        init = [c for c in A.kids(d) if not c.get('kind', '').endswith('Attr')]
        qt = d.get('type', {}).get('qualType', '')
        if not init or (A.strip(init[0]).get('kind') == 'InitListExpr' and not A.kids(A.strip(init[0]))):
            # `Node* node{};`
            t = tag_of(qt, self.cursor)
            if t != 'Cur':
                self.err('uninitialised non-pointer local %s' % name)
            self.scope[name] = 'Cur'
            self.order.append(name)
            self.code.let([], name, '(hd len + 1)')  # nullptr: not a position of the list
            return
        et = self.tag(init[0])
        if et == 'OptCur':
            t = 'OptCur'
        else:
            t = tag_of(qt, self.cursor)
            if et == 'Null':
                self.err('local initialised with nullptr')
            if et != t:
                self.err('initialiser of kind %s for a variable of kind %s (%s)' % (et, t, name))
        e = self.expr(init[0])
        self.scope[name] = t
        self.order.append(name)
        self.code.let([], name, e)
        core = A.strip(init[0])
        while core.get('kind') == 'ImplicitCastExpr':
            core = A.kids(core)[0]
        if t == 'Nat' and core.get('kind') == 'IntegerLiteral' and int(core.get('value')) == 0:
            self.zero.add(name)
        else:
            self.zero.discard(name)

    def if_stmt(self, s, rest, mode):
        ks = A.kids(s)
        if s.get('hasInit') or s.get('hasVar') or s.get('isConstexpr'):
            self.err('unsupported if form', s)
        cond = self.cond(ks[0])
        then = self.flat(ks[1])
        els = self.flat(ks[2]) if s.get('hasElse') and len(ks) > 2 else []
        if self.contains_exit(ks[1]) or (els and self.contains_exit(ks[2])):
            # duplicate the continuation into both branches
            t1, a1 = self.block(then + rest, mode)
            t2, a2 = self.block(els + rest, mode)
            for v in a1 + a2:
                if v not in self.code.assigned:
                    self.code.assigned.append(v)
            return 'if %s then\n%s\nelse\n%s' % (cond, _indent(t1), _indent(t2))
        t1, a1 = self.block(then, 'merge')
        t2, a2 = self.block(els, 'merge')
        merged = self.merge_vars(a1 + [v for v in a2 if v not in a1])
        if not merged:
            self.err('if statement without effect', s)
        tup = _tuple([lname(v) for v in merged])
        t1 = t1.replace(END, tup)
        t2 = t2.replace(END, tup)
        self.code.raw('let %s := (\n  if %s then\n%s\n  else\n%s)' % (tup, cond, _indent(t1, 4), _indent(t2, 4)), merged)
        for v in merged:
            self.zero.discard(v)
        return self._block(rest, mode)

    def loop(self, cnd, body, inc, s):
        """while (cnd) { body; inc }  ->  whileLoop fuel (fun st => cnd) (fun st => body) st"""
        c = A.strip(cnd)
        if c.get('kind') != 'BinaryOperator' or c.get('opcode') not in ('!=', '<', '>'):
            self.err('loop condition is not a counter comparison', s)
        l, r = A.kids(c)
        x = self.var_name(l)
        if x is None or self.scope.get(x) != 'Nat' or x in STATE_ORDER:
            self.err('loop counter is not a local integer', s)
        oc = c['opcode']
        want = '--' if oc == '>' else '++'
        stmts = [b for b in body if not skip_stmt(b)] + ([inc] if inc is not None else [])
        incs = [b for b in stmts if A.strip(b).get('kind') == 'UnaryOperator' and A.strip(b).get('opcode') == want and
                self.var_name(A.kids(A.strip(b))[0]) == x]
        others = [b for b in stmts if b not in incs]
        if len(incs) != 1 or any(x in writes_of(b) for b in others):
            self.err('loop counter %s is not stepped exactly once per iteration' % x, s)
        bound_writes = set()
        for b in stmts:
            bound_writes.update(w for w in writes_of(b) if w)
        bound_names = {self.var_name(v) for v in A.find_all(r, lambda y: self.var_name(y) is not None)}
        if bound_names & bound_writes:
            self.err('loop bound is modified inside the loop', s)
        if A.find_all(r, lambda y: y.get('kind') in ('CallExpr', 'CXXMemberCallExpr', 'CXXOperatorCallExpr')):
            self.err('loop bound contains a call', s)
        if oc == '!=' and x not in self.zero:
            self.err('`!=` loop whose counter is not known to start at 0', s)
        bound = self.expr(r)
        fuel = '(%s - %s)' % ((lname(x), bound) if oc == '>' else (bound, lname(x)))
        # condition (pure)
        self.codes.append(Code())
        cterm = self.cond(cnd)
        cc = self.codes.pop()
        if cc.lines:
            self.err('side effect in a loop condition', s)
        bterm, assigned = self.block(stmts, 'loop')
        st = self.merge_vars(assigned)
        if x not in st:
            self.err('loop does not modify its counter', s)
        tup = _tuple([lname(v) for v in st])
        bterm = bterm.replace(CONT, '(true, %s)' % tup).replace(BREAK, '(false, %s)' % tup)
        self.code.raw('let %s := whileLoop %s\n  (fun %s => decide %s)\n  (fun %s =>\n%s)\n  %s' %
                      (tup, fuel, tup, cterm, tup, _indent(bterm, 4), tup), st)
        for v in st:
            self.zero.discard(v)

    # ----------------------------------------------------------------------------------------- whole function
    def function(self, body_stmts):
        term, _ = self.block(body_stmts, 'fn')
        return term

    def condition(self, cnd):
        self.codes.append(Code())
        t = self.cond(cnd)
        c = self.codes.pop()
        if c.lines:
            self.err('side effect in an extracted condition')
        return 'decide %s' % t


# ------------------------------------------------------------------------------------------------ what is extracted
# id: Lean name; cname: C++ function name (as called); src/flt/suffix: where its body is
FUNCS = [
    dict(id='SetSeed', cname='SetSeed', src='src/fault/util.cpp', flt='yaclib::detail::SetSeed', suffix='fault/util.cpp',
         params=[('new_seed', 'Nat')], reads=[], writes=['sSeed', 'sRandCount', 'eng'], ret=None),
    dict(id='GetSeed', cname='GetSeed', src='src/fault/util.cpp', flt='yaclib::detail::GetSeed', suffix='fault/util.cpp',
         params=[], reads=['sSeed'], writes=[], ret='Nat'),
    dict(id='GetRandNumber', cname='GetRandNumber', src='src/fault/util.cpp', flt='yaclib::detail::GetRandNumber',
         suffix='fault/util.cpp', params=[('max', 'Nat')], reads=['sRandCount', 'eng'], writes=['sRandCount', 'eng'],
         ret='Nat'),
    dict(id='GetRandCount', cname='GetRandCount', src='src/fault/util.cpp', flt='yaclib::detail::GetRandCount',
         suffix='fault/util.cpp', params=[], reads=['sRandCount'], writes=[], ret='Nat'),
    dict(id='ForwardToRandCount', cname='ForwardToRandCount', src='src/fault/util.cpp',
         flt='yaclib::detail::ForwardToRandCount', suffix='fault/util.cpp', params=[('random_count', 'Nat')],
         reads=['sRandCount', 'eng'], writes=['sRandCount', 'eng'], ret=None),
    dict(id='Injector.Reset', cname='Reset', src='src/fault/injector.cpp', flt='yaclib::detail::Injector::Reset',
         suffix='fault/injector.cpp', params=[], reads=['sRandCount', 'eng', '_count', 'sYieldFrequency'],
         writes=['sRandCount', 'eng', '_count'], ret=None),
    dict(id='Injector.NeedInject', cname='NeedInject', src='src/fault/injector.cpp',
         flt='yaclib::detail::Injector::NeedInject', suffix='fault/injector.cpp', params=[],
         reads=['sRandCount', 'eng', '_count', '_pause', 'sYieldFrequency'], writes=['sRandCount', 'eng', '_count'],
         ret='Bool'),
    dict(id='Injector.GetState', cname='GetState', src='src/fault/injector.cpp', flt='yaclib::detail::Injector::GetState',
         suffix='fault/injector.cpp', params=[], reads=['_count'], writes=[], ret='Nat'),
    dict(id='Injector.SetState', cname='SetState', src='src/fault/injector.cpp', flt='yaclib::detail::Injector::SetState',
         suffix='fault/injector.cpp', params=[('state', 'Nat')], reads=['_count'], writes=['_count'], ret=None),
    dict(id='Injector.GetSleepTime', cname='GetSleepTime', src='src/fault/injector.cpp',
         flt='yaclib::detail::Injector::GetSleepTime', suffix='fault/injector.cpp', params=[], reads=['sSleepTime'],
         writes=[], ret='Nat'),
    dict(id='GetFaultSleepTime', cname='GetFaultSleepTime', src='src/fault/config.cpp', flt='yaclib::GetFaultSleepTime',
         suffix='fault/config.cpp', params=[], reads=['sSleepTime'], writes=[], ret='Nat'),
    dict(id='ShouldFailAtomicWeak', cname='ShouldFailAtomicWeak', src='src/fault/atomic.cpp',
         flt='yaclib::detail::ShouldFailAtomicWeak', suffix='fault/atomic.cpp', params=[],
         reads=['sRandCount', 'eng', 'sAtomicFailFrequency'], writes=['sRandCount', 'eng'], ret='Bool'),
    dict(id='BiList.GetElement', cname='GetElement', src='src/fault/fiber/bidirectional_intrusive_list.cpp',
         flt='yaclib::detail::fiber::BiList::GetElement', suffix='bidirectional_intrusive_list.cpp',
         params=[('ind', 'Nat'), ('reversed', 'Bool')], reads=[], writes=[], ret='OptCur', cursor=True),
    dict(id='PollRandomElementFromList', cname='PollRandomElementFromList', src='src/fault/fiber/scheduler.cpp',
         flt='yaclib::detail::fiber::PollRandomElementFromList', suffix='fiber/scheduler.cpp', params=[('list', 'Len')],
         reads=['sRandCount', 'eng', 'sRandomListPick'], writes=['sRandCount', 'eng'], ret='OptCur'),
    dict(id='Scheduler.TickTime', cname='TickTime', src='src/fault/fiber/scheduler.cpp',
         flt='yaclib::fault::Scheduler::TickTime', suffix='fiber/scheduler.cpp', params=[], reads=['sTickLength', '_time'],
         writes=['_time'], ret=None),
    dict(id='Scheduler.GetTimeNs', cname='GetTimeNs', src='src/fault/fiber/scheduler.cpp',
         flt='yaclib::fault::Scheduler::GetTimeNs', suffix='fiber/scheduler.cpp', params=[], reads=['_time'], writes=[],
         ret='Nat'),
    dict(id='Scheduler.AdvanceTime', cname='AdvanceTime', src='src/fault/fiber/scheduler.cpp',
         flt='yaclib::fault::Scheduler::AdvanceTime', suffix='fiber/scheduler.cpp', params=[], reads=['_time'],
         writes=['_time'], ret=None, atoms={'operator->(_sleep_list.begin()).first': ('minKey', 'Nat')}),
    # --- parts of functions whose remaining structure (std::map iteration, list surgery, context switches) is tied by
    #     the T2 skeletons `Sched_*` of vlib/x_kernels.py
    dict(id='Scheduler.WakeUpNeeded.stop', cname=None, fname='WakeUpNeeded', src='src/fault/fiber/scheduler.cpp',
         flt='yaclib::fault::Scheduler::WakeUpNeeded', suffix='fiber/scheduler.cpp', params=[], reads=['_time'], writes=[],
         ret='Bool', part=('cond', 0), atoms={'operator->(it).first': ('key', 'Nat')}),
    dict(id='Scheduler.Sleep.skip', cname=None, fname='Sleep', src='src/fault/fiber/scheduler.cpp',
         flt='yaclib::fault::Scheduler::Sleep', suffix='fiber/scheduler.cpp', params=[('ns', 'Nat')], reads=['_time'],
         writes=[], ret='Bool', part=('cond', 0)),
    dict(id='Scheduler.SleepPreemptive.deadline', cname=None, fname='SleepPreemptive', src='src/fault/fiber/scheduler.cpp',
         flt='yaclib::fault::Scheduler::SleepPreemptive', suffix='fiber/scheduler.cpp', params=[('ns', 'Nat')],
         reads=['sRandCount', 'eng', 'sSleepTime'], writes=['sRandCount', 'eng'], ret=None, part=('stmts', 0, 1),
         out_params=['ns']),
]

# file statics / member defaults read as constants: (Lean name, file, filter, kind, variable, expected type tag)
CONSTS = [
    ('default_sSeed', 'src/fault/util.cpp', 'yaclib::detail::sSeed', 'sSeed'),
    ('default_sRandCount', 'src/fault/util.cpp', 'yaclib::detail::sRandCount', 'sRandCount'),
    ('default_sYieldFrequency', 'src/fault/injector.cpp', 'yaclib::detail::sYieldFrequency', 'sYieldFrequency'),
    ('default_sSleepTime', 'src/fault/injector.cpp', 'yaclib::detail::sSleepTime', 'sSleepTime'),
    ('default_sInjectedCount', 'src/fault/injector.cpp', 'yaclib::detail::sInjectedCount', 'sInjectedCount'),
    ('default_sAtomicFailFrequency', 'src/fault/atomic.cpp', 'yaclib::detail::sAtomicFailFrequency', 'sAtomicFailFrequency'),
    ('default_sTickLength', 'src/fault/fiber/scheduler.cpp', 'yaclib::fault::sTickLength', 'sTickLength'),
    ('default_sRandomListPick', 'src/fault/fiber/scheduler.cpp', 'yaclib::detail::fiber::sRandomListPick', 'sRandomListPick'),
]
FIELD_DEFAULTS = [
    # (Lean name, TU, filter, class, field, tag)
    ('default_Scheduler_time', 'src/fault/fiber/scheduler.cpp', 'yaclib::fault::Scheduler', 'Scheduler', '_time', 'Nat'),
    ('default_Injector_count', 'src/fault/injector.cpp', 'yaclib::detail::Injector', 'Injector', '_count', 'Nat'),
    ('default_Injector_pause', 'src/fault/injector.cpp', 'yaclib::detail::Injector', 'Injector', '_pause', 'Bool'),
]


class Dumps:
    def __init__(self, repo, cfg_include):
        self.repo = repo
        self.inc = cfg_include
        self.cache = {}

    def get(self, src, flt, verif=True):
        key = (src, flt, verif)
        if key not in self.cache:
            path = src if os.path.isabs(src) else os.path.join(self.repo, src)
            if verif:
                self.cache[key] = A.dump(path, flt, self.inc, repo=self.repo)
            else:
                self.cache[key] = dump_noverif(path, flt, self.inc, self.repo)
        return self.cache[key]


def dump_noverif(path, flt, inc, repo):
    """like cxxast.dump but without -DYACLIB_VERIF (the production configuration)"""
    import subprocess
    cmd = [A.CLANG, '-std=c++20', '-fsyntax-only', '-I' + os.path.join(repo, 'include'), '-I' + os.path.join(repo, 'src'),
           '-I' + inc, '-Xclang', '-ast-dump=json', '-Xclang', '-ast-dump-filter=' + flt, path]
    r = subprocess.run(cmd, capture_output=True, text=True)
    if r.returncode != 0:
        raise A.ExtractError('clang failed on %s: %s' % (path, r.stderr[-2000:]))
    dec = json.JSONDecoder()
    s = r.stdout
    i, n, docs = 0, len(r.stdout), []
    while i < n:
        while i < n and s[i].isspace():
            i += 1
        if i >= n:
            break
        d, i = dec.raw_decode(s, i)
        docs.append(d)
    A._annotate_files(docs, path)
    return docs


def find_function(dumps, spec):
    docs = dumps.get(spec['src'], spec['flt'])
    fname = spec.get('fname') or spec['cname']
    found = []
    for d in docs:
        for m in A.methods(d):
            if m.get('name') == fname and A.body(m) is not None and (m.get('_file') or '').endswith(spec['suffix']):
                found.append(m)
    sk = []
    uniq = []
    for m in found:
        s = skel.function_skeleton(m)
        if s not in sk:
            sk.append(s)
            uniq.append(m)
    if len(uniq) != 1:
        raise A.ExtractError('%s: expected exactly one body of %s in *%s, found %d' % (spec['id'], fname, spec['suffix'], len(uniq)))
    return uniq[0]


def translate_function(dumps, spec, known):
    m = find_function(dumps, spec)
    cps = [(c.get('name'), c.get('type', {}).get('qualType', '')) for c in A.kids(m) if c.get('kind') == 'ParmVarDecl']
    if [p for (p, _) in cps] != [p for (p, _) in spec['params']]:
        raise A.ExtractError('%s: parameter list changed: %s' % (spec['id'], cps))
    for (p, qt), (_, t) in zip(cps, spec['params']):
        q = _clean(qt)
        if t == 'Len':
            ok = q.rstrip('&').strip().endswith('BiList')
        elif t == 'Bool':
            ok = q == 'bool'
        else:
            ok = q in INT_TYPES and INT_TYPES[q][1]
        if not ok:
            raise A.ExtractError('%s: parameter %s has unexpected type %s' % (spec['id'], p, qt))
    rq = A.qual(m).split('(')[0].strip()
    want = spec.get('ret')
    part = spec.get('part')
    if part is None:
        if want is None and rq != 'void':
            raise A.ExtractError('%s: result type changed to %s' % (spec['id'], rq))
        if want == 'Bool' and rq != 'bool':
            raise A.ExtractError('%s: result type changed to %s' % (spec['id'], rq))
        if want == 'Nat' and not (_clean(rq) in INT_TYPES and INT_TYPES[_clean(rq)][1]):
            raise A.ExtractError('%s: result type changed to %s' % (spec['id'], rq))
        if want == 'OptCur' and not rq.endswith('*'):
            raise A.ExtractError('%s: result type changed to %s' % (spec['id'], rq))
    tr = Tr(spec, known)
    body = [s for s in A.kids(A.body(m))]
    if part is None:
        term = tr.function(body)
    elif part[0] == 'cond':
        ifs = A.find_all(A.body(m), lambda x: x.get('kind') == 'IfStmt' and not is_hook_block(x))
        if part[1] >= len(ifs):
            raise A.ExtractError('%s: condition %d not found' % (spec['id'], part[1]))
        term = tr.condition(A.kids(ifs[part[1]])[0])
    elif part[0] == 'stmts':
        live = [s for s in body if not skip_stmt(s)]
        sel = live[part[1]:part[2]]
        if len(sel) != part[2] - part[1]:
            raise A.ExtractError('%s: statement range not found' % spec['id'])
        saved_ret = spec.get('ret')
        tr.spec = dict(spec, ret=None)
        # parameters modified by the selected statements are returned too
        tr.writes = list(spec['writes'])
        term, assigned = tr.block(sel, 'merge')
        outs = [lname(s) for s in STATE_ORDER if s in spec['writes']] + list(spec.get('out_params', []))
        for a in assigned:
            if a not in spec['writes'] and a not in spec.get('out_params', []) and a in tr.scope and a not in tr.order:
                raise A.ExtractError('%s: modifies %s which is not returned' % (spec['id'], a))
        term = term.replace(END, _tuple(outs))
    else:
        raise A.ExtractError('bad part')
    spec = dict(spec)
    spec['uses_draw'] = tr.uses_draw
    spec['uses_seed'] = tr.uses_seed
    spec['lean'] = spec['id']
    # signature
    binders = []
    if tr.uses_draw:
        binders.append('(draw : E → E × Nat)')
    if tr.uses_seed:
        binders.append('(seedEngine : Nat → E)')
    if spec.get('cursor'):
        binders.append('(len : Nat)')
    presets = spec.get('presets', [])
    for s in spec.get('reads', []):
        binders.append('(%s : %s)' % (lname(s), LEAN_TYPE[STATE_TYPE.get(s, 'Nat')]))
    for (p, t) in spec['params']:
        binders.append('(%s : %s)' % (p, LEAN_TYPE[t]))
    for (_, (a, t)) in spec.get('atoms', {}).items():
        binders.append('(%s : %s)' % (a, LEAN_TYPE[t]))
    outs = [LEAN_TYPE[STATE_TYPE.get(s, 'Nat')] for s in STATE_ORDER if s in spec['writes']]
    if part is not None and part[0] == 'stmts':
        outs += ['Nat' for _ in spec.get('out_params', [])]
    elif part is not None and part[0] == 'cond':
        outs = ['Bool']
    elif spec.get('ret'):
        outs.append(LEAN_TYPE[spec['ret']])
    ty = ' × '.join(outs)
    text = 'def %s %s : %s :=\n%s\n' % (spec['id'], ' '.join(binders), ty, _indent(term))
    text = re.sub(r'def (\S+)  :', r'def \1 :', text)
    return spec, text, tr.notes, skel.function_skeleton(m)


def read_const(dumps, src, flt, var):
    docs = dumps.get(src, flt)
    ds = [d for d in docs if d.get('kind') == 'VarDecl' and d.get('name') == var and
          (d.get('_file') or '').endswith(src.split('/', 1)[1])]
    if len(ds) != 1:
        raise A.ExtractError('constant %s: expected one definition in %s, found %d' % (var, src, len(ds)))
    d = ds[0]
    if d.get('storageClass') != 'static' or d.get('tls'):
        raise A.ExtractError('constant %s is no longer a plain file static' % var)
    q = _clean(d.get('type', {}).get('qualType'))
    if q not in INT_TYPES or not INT_TYPES[q][1]:
        raise A.ExtractError('constant %s has type %s' % (var, q))
    init = [c for c in A.kids(d)]
    core = init[0] if init else None
    while core is not None and core.get('kind') in ('ImplicitCastExpr', 'ConstantExpr'):
        core = A.kids(core)[0]
    if core is None or core.get('kind') != 'IntegerLiteral':
        raise A.ExtractError('constant %s is not initialised by an integer literal' % var)
    return int(core['value'])


def read_field_default(dumps, src, flt, cls, field, tag):
    docs = dumps.get(src, flt)
    vals = []
    for d in docs:
        for r in A.find_all(d, lambda x: x.get('kind') == 'CXXRecordDecl' and x.get('name') == cls and A.kids(x)):
            for f in A.kids(r):
                if f.get('kind') == 'FieldDecl' and f.get('name') == field:
                    init = A.kids(f)
                    core = init[0] if init else None
                    while core is not None and core.get('kind') in ('ImplicitCastExpr', 'ConstantExpr', 'InitListExpr',
                                                                    'CXXConstructExpr', 'ExprWithCleanups') and A.kids(core):
                        core = A.kids(core)[0]
                    if core is None:
                        raise A.ExtractError('field %s::%s has no default initialiser' % (cls, field))
                    if core.get('kind') == 'IntegerLiteral' and tag == 'Nat':
                        vals.append(str(int(core['value'])))
                    elif core.get('kind') == 'CXXBoolLiteralExpr' and tag == 'Bool':
                        vals.append('true' if core.get('value') else 'false')
                    else:
                        raise A.ExtractError('field %s::%s: unsupported default initialiser %s' % (cls, field, core.get('kind')))
    vals = sorted(set(vals))
    if len(vals) != 1:
        raise A.ExtractError('field %s::%s: expected one default, found %s' % (cls, field, vals))
    return vals[0]


def engine_decl(dumps):
    docs = dumps.get('src/fault/util.cpp', 'yaclib::detail::eng')
    ds = [d for d in docs if d.get('kind') == 'VarDecl' and d.get('name') == 'eng' and (d.get('_file') or '').endswith('fault/util.cpp')]
    if len(ds) != 1:
        raise A.ExtractError('engine variable `eng` not found')
    d = ds[0]
    ty = _clean(d.get('type', {}).get('qualType'))
    init = [skel.expr(c) for c in A.kids(d)]
    return ty, d.get('storageClass') or '', d.get('tls') or '', ', '.join(init)


# ------------------------------------------------------------------------------------------------ lint
LINT_SCOPE = ('src/fault/', 'include/yaclib/fault/', 'include/yaclib_std/')
REAL_CLOCK = re.compile(r'(?<![A-Za-z0-9_])std::chrono::(_V2::)?(system_clock|steady_clock|high_resolution_clock|utc_clock|tai_clock|gps_clock|file_clock)\b')
RANDOM_DEVICE = re.compile(r'(?<![A-Za-z0-9_])std::random_device\b')
STD_HASH = re.compile(r'(?<![A-Za-z0-9_])std::hash<')
UNORDERED = re.compile(r'(?<![A-Za-z0-9_])std::unordered_(map|set|multimap|multiset)<')
PTR_ORDERED = re.compile(r'(?<![A-Za-z0-9_])std::(map|set|multimap|multiset|priority_queue|less|greater)<[^,<>]*\*\s*[,>]')
ITER_MEMBERS = {'begin', 'cbegin', 'rbegin', 'crbegin', 'bucket', 'begin(size_type)'}
C_TIME = {'time', 'clock', 'clock_gettime', 'gettimeofday', 'rand', 'srand', 'random', 'getpid', 'gettid', 'rdtsc',
          '__rdtsc', 'getrandom', 'arc4random'}


def _types_of(n):
    t = n.get('type')
    if not isinstance(t, dict):
        return ''
    return (t.get('qualType') or '') + ' ' + (t.get('desugaredQualType') or '')


def _line_of(n, last):
    for key in ('loc',):
        loc = n.get(key)
        if isinstance(loc, dict):
            loc = A._loc(loc)
            if 'line' in loc:
                return loc['line']
    r = n.get('range', {}).get('begin')
    if isinstance(r, dict):
        r = A._loc(r)
        if 'line' in r:
            return r['line']
    return last


def lint_docs(docs, repo, hits, files_seen):
    """walk the AST; clang prints `line` only when it changes, so track it along the traversal like `file`"""
    state = {'line': 0}

    def in_scope(f):
        if not f:
            return None
        f = os.path.normpath(f)
        rel = os.path.relpath(f, repo) if f.startswith(repo) else None
        if rel and rel.startswith(LINT_SCOPE):
            return rel
        return None

    def note_line(loc):
        if isinstance(loc, dict):
            for key in ('spellingLoc', 'expansionLoc'):
                if key in loc:
                    note_line(loc[key])
            if 'line' in loc:
                state['line'] = loc['line']

    def hit(rel, kind, detail):
        h = (rel, state['line'], kind + (': ' + detail if detail else ''))
        if h not in hits:
            hits.append(h)

    def visit(n, range_for_unordered=False):
        if 'loc' in n:
            note_line(n['loc'])
        if 'range' in n:
            note_line(n['range'].get('begin'))
        rel = in_scope(n.get('_file'))
        k = n.get('kind')
        if rel:
            files_seen.add(rel)
            ty = _types_of(n)
            if k not in ('TypedefDecl', 'TypeAliasDecl') or True:
                m = REAL_CLOCK.search(ty)
                if m:
                    hit(rel, 'real-clock', m.group(0))
                m = RANDOM_DEVICE.search(ty)
                if m:
                    hit(rel, 'random-device', '')
                m = STD_HASH.search(ty)
                if m:
                    hit(rel, 'std-hash', '')
                m = PTR_ORDERED.search(ty)
                if m:
                    hit(rel, 'pointer-ordered-container', m.group(0))
            if k in ('CXXReinterpretCastExpr', 'CStyleCastExpr', 'CXXFunctionalCastExpr', 'CXXStaticCastExpr',
                     'ImplicitCastExpr') and n.get('castKind') == 'PointerToIntegral':
                hit(rel, 'pointer-to-integer-cast', _clean(n.get('type', {}).get('qualType')))
            if k == 'CXXReinterpretCastExpr' and re.search(r'\b(u?intptr_t|size_t|unsigned long|uint64_t|long)\b', _clean(n.get('type', {}).get('qualType'))):
                hit(rel, 'pointer-to-integer-cast', _clean(n.get('type', {}).get('qualType')))
            if k == 'BinaryOperator' and n.get('opcode') in ('<', '>', '<=', '>='):
                ks = A.kids(n)
                if len(ks) == 2 and all(_clean(A.strip(x).get('type', {}).get('qualType')).endswith('*') for x in ks):
                    hit(rel, 'pointer-ordering-comparison', '')
            if k == 'CXXForRangeStmt':
                for c in A.kids(n):
                    if c.get('kind') == 'DeclStmt':
                        for v in A.kids(c):
                            if v.get('kind') == 'VarDecl' and v.get('name') == '__range1' or (v.get('name') or '').startswith('__range'):
                                if UNORDERED.search(_types_of(v)):
                                    hit(rel, 'unordered-iteration', 'range-for')
            if k in ('CXXMemberCallExpr',):
                ks = A.kids(n)
                c = A.strip(ks[0]) if ks else {}
                if c.get('kind') == 'MemberExpr' and c.get('name') in ITER_MEMBERS:
                    base = A.kids(c)
                    bt = _types_of(A.strip(base[0])) if base else ''
                    if UNORDERED.search(bt):
                        hit(rel, 'unordered-iteration', c.get('name') + '()')
            if k in ('CXXDependentScopeMemberExpr', 'UnresolvedMemberExpr') and n.get('member') in ITER_MEMBERS:
                base = A.kids(n)
                bt = _types_of(A.strip(base[0])) if base else ''
                if UNORDERED.search(bt):
                    hit(rel, 'unordered-iteration', str(n.get('member')) + '()')
            if k == 'StringLiteral' and '%p' in (n.get('value') or ''):
                hit(rel, 'address-printing', '%p')
            if k == 'DeclRefExpr':
                rd = n.get('referencedDecl', {})
                if rd.get('kind') == 'FunctionDecl' and rd.get('name') in C_TIME:
                    hit(rel, 'libc-nondeterminism', rd.get('name'))
                if rd.get('name') == 'now' and REAL_CLOCK.search(_types_of(n)):
                    hit(rel, 'real-clock', 'now()')
        for c in n.get('inner', []):
            if isinstance(c, dict) and c.get('kind') is not None:
                visit(c)

    for d in docs:
        visit(d)


def fiber_translation_units(repo, lib_dir):
    """the translation units of the FIBER build that belong to the fault layer (from the build's compile database)"""
    p = os.path.join(lib_dir, 'compile_commands.json')
    tus = []
    try:
        for e in json.load(open(p)):
            f = os.path.normpath(e['file'])
            if f.startswith(os.path.join(repo, 'src/fault') + os.sep):
                tus.append(os.path.relpath(f, repo))
    except (OSError, ValueError, KeyError):
        tus = []
    if not tus:
        for d, _, fs in os.walk(os.path.join(repo, 'src/fault')):
            for f in fs:
                if f.endswith('.cpp'):
                    tus.append(os.path.relpath(os.path.join(d, f), repo))
    return sorted(set(tus))


def header_tu(repo, workdir):
    """a generated TU that includes every header of the fault layer and of yaclib_std (FIBER configuration)"""
    incs = []
    for base in ('include/yaclib/fault', 'include/yaclib_std'):
        for d, dn, fs in os.walk(os.path.join(repo, base)):
            dn.sort()
            for f in sorted(fs):
                rel = os.path.relpath(os.path.join(d, f), os.path.join(repo, 'include'))
                if '/detail/' in '/' + rel and base == 'include/yaclib_std':
                    continue  # included through the public yaclib_std/<name> headers
                incs.append(rel)
    path = os.path.join(workdir, 'tu_c17_headers.cpp')
    with open(path, 'w') as f:
        for i in incs:
            f.write('#include <%s>\n' % i)
    return path, incs


def lint(repo, lib_dir, workdir, dumps):
    inc = os.path.join(lib_dir, 'include')
    tus = fiber_translation_units(repo, lib_dir)
    hpath, hincs = header_tu(repo, workdir)
    prod, verif = [], []
    files = set()
    # the dumps are independent clang runs: fetch them in parallel
    from concurrent.futures import ThreadPoolExecutor
    jobs = [(tu, v) for v in (False, True) for tu in tus + [hpath]]
    with ThreadPoolExecutor(max_workers=min(12, os.cpu_count() or 4)) as ex:
        list(ex.map(lambda j: dumps.get(j[0], 'yaclib', verif=j[1]), jobs))
    for tu in tus + [hpath]:
        lint_docs(dumps.get(tu, 'yaclib', verif=False), repo, prod, files)
    for tu in tus + [hpath]:
        lint_docs(dumps.get(tu, 'yaclib', verif=True), repo, verif, set())
    verif_only = [h for h in verif if h not in prod]
    # which type each clock name of yaclib_std::chrono is in this (FIBER) configuration
    aliases = []
    for d in dumps.get(hpath, 'yaclib', verif=False):
        for n in A.find_all(d, lambda x: x.get('kind') in ('TypeAliasDecl', 'TypedefDecl', 'UsingDecl', 'UsingShadowDecl') and
                            (x.get('_file') or '').endswith('yaclib_std/detail/clock.hpp')):
            if n.get('kind') not in ('TypeAliasDecl', 'TypedefDecl'):
                raise A.ExtractError('clock.hpp: unsupported clock declaration %s %s' % (n.get('kind'), n.get('name')))
            t = n.get('type', {})
            e = (n.get('name'), _clean(t.get('desugaredQualType') or t.get('qualType')))
            if e not in aliases:
                aliases.append(e)
    if not aliases:
        raise A.ExtractError('clock.hpp: no clock alias found in the FIBER configuration')
    return sorted(prod), sorted(verif_only), sorted(files), tus, sorted(aliases)


# ------------------------------------------------------------------------------------------------ output
HEADER = '''/- GENERATED by vlib/x_fibersched.py from /repo/src/fault/{util,injector,config,atomic}.cpp,
   /repo/src/fault/fiber/{scheduler,bidirectional_intrusive_list}.cpp (FIBER configuration, clang AST).
   Do not edit: regenerated on every check run.  Conventions: see the translator's docstring and
   Base/SchedImp.lean.  State variables are explicit arguments; written ones are returned (before the C++ result). -/
import YaclibModel.Base.SchedImp

set_option linter.unusedVariables false

namespace Yaclib.Extracted.FiberSched
open Yaclib.SchedImp

variable {E : Type}

'''


def _q(s):
    return '"' + s.replace('\\', '\\\\').replace('"', '\\"') + '"'


def snapshot_config(lib_dir, workdir):
    """copy the generated configuration header and the compile database of the FIBER build: the library cache
    directory can be replaced by a concurrent check while the translator is still running"""
    import shutil
    dst = os.path.join(workdir, 'c17_cfg')
    os.makedirs(os.path.join(dst, 'include', 'yaclib'), exist_ok=True)
    for rel in ('include/yaclib/config.hpp', 'compile_commands.json'):
        last = None
        for _ in range(3):
            try:
                shutil.copyfile(os.path.join(lib_dir, rel), os.path.join(dst, rel + '.tmp'))
                os.replace(os.path.join(dst, rel + '.tmp'), os.path.join(dst, rel))
                last = None
                break
            except OSError as e:
                last = e
        if last is not None and rel.endswith('config.hpp'):
            raise A.ExtractError('cannot read the configuration header of the FIBER build: %s' % last)
    return dst


def _inputs_hash(repo, lib_dir):
    """content hash of everything the generated file depends on"""
    import hashlib
    h = hashlib.sha1()
    files = [os.path.join(lib_dir, 'include/yaclib/config.hpp'), os.path.join(lib_dir, 'compile_commands.json'),
             os.path.abspath(__file__), os.path.join(os.path.dirname(os.path.abspath(__file__)), 'cxxast.py'),
             os.path.join(os.path.dirname(os.path.abspath(__file__)), 'skel.py')]
    for base in ('include', 'src', 'CMakeLists.txt', 'cmake'):  # the whole tree: any header can reach the fault layer's TUs
        p = os.path.join(repo, base)
        if os.path.isfile(p):
            files.append(p)
        for d, dn, fs in os.walk(p):
            dn.sort()
            files += [os.path.join(d, f) for f in sorted(fs)]
    for f in files:
        h.update(f.encode())
        try:
            with open(f, 'rb') as fh:
                h.update(hashlib.sha1(fh.read()).digest())
        except OSError:
            h.update(b'?')
    return h.hexdigest()[:16]


def generate(repo, lib_dir, workdir, use_cache=True):
    lib_dir = snapshot_config(lib_dir, workdir)
    # the translation is a function of the files hashed here (the fault layer, its headers, the build configuration
    # and the translator itself): re-use the previous output when none of them changed
    stamp = os.path.join(workdir, 'fibersched-%s.lean' % _inputs_hash(repo, lib_dir))
    if use_cache and os.path.exists(stamp):
        with open(stamp) as f:
            return f.read()
    text = _generate(repo, lib_dir, workdir)
    for f in os.listdir(workdir):
        if f.startswith('fibersched-') and f.endswith('.lean'):
            os.remove(os.path.join(workdir, f))
    with open(stamp + '.tmp', 'w') as f:
        f.write(text)
    os.replace(stamp + '.tmp', stamp)
    return text


def _generate(repo, lib_dir, workdir):
    inc = os.path.join(lib_dir, 'include')
    dumps = Dumps(repo, inc)
    out = [HEADER]
    out.append('/-! defaults (file statics and default member initialisers) -/\n')
    for (ln, src, flt, var) in CONSTS:
        out.append('def %s : Nat := %d' % (ln, read_const(dumps, src, flt, var)))
    for (ln, src, flt, cls, field, tag) in FIELD_DEFAULTS:
        out.append('def %s : %s := %s' % (ln, tag, read_field_default(dumps, src, flt, cls, field, tag)))
    ty, sc, tls, init = engine_decl(dumps)
    out.append('/-- the engine: (type, storage class, thread_local kind, initialiser) -/')
    out.append('def engineDecl : String × String × String × String := (%s, %s, %s, %s)\n' % (_q(ty), _q(sc), _q(tls), _q(init)))
    known = {}
    notes = []
    sources = []
    out.append('/-! translated bodies -/\n')
    for spec in FUNCS:
        sp, text, ns, sk = translate_function(dumps, spec, known)
        if sp.get('cname'):
            known[sp['cname']] = sp
        out.append(text)
        notes += ns
        sources.append((sp['id'], sk))
    out.append('/-- side conditions recorded by the translator -/')
    out.append('def translatorNotes : List String := [\n' + ',\n'.join('  ' + _q(n) for n in notes) + '\n]\n')
    out.append('/-! the normalised C++ body each definition above was translated from (same normal form as the T2 kernel\n'
               '    skeletons of vlib/x_kernels.py: Props/C17.lean proves that T1 and T2 read the same bodies) -/')
    for a, b in sources:
        out.append('def source_%s : String :=\n  %s' % (a.replace('.', '_'), _q(b)))
    out.append('')
    out.append('def sources : List (String × String) := [\n' + ',\n'.join('  (%s, %s)' % (_q(a), _q(b)) for a, b in sources) + '\n]\n')
    prod, verif_only, files, tus, clock_aliases = lint(repo, lib_dir, workdir, dumps)
    out.append('/-! lint: forbidden sources of nondeterminism in the fault layer (FIBER configuration; files under\n'
               '    src/fault/, include/yaclib/fault/, include/yaclib_std/).  `lintHits` is the production configuration (without\n'
               '    YACLIB_VERIF); `lintHitsVerifOnly` are additional hits that exist only inside `#ifdef YACLIB_VERIF` instrumentation. -/\n')
    out.append('def lintTranslationUnits : List String := [' + ', '.join(_q(t) for t in tus) + ']\n')
    out.append('def lintFiles : List String := [\n' + ',\n'.join('  ' + _q(f) for f in files) + '\n]\n')
    out.append('def lintHits : List (String × Nat × String) := [' +
               ', '.join('(%s, %d, %s)' % (_q(a), b, _q(c)) for a, b, c in prod) + ']\n')
    out.append('def lintHitsVerifOnly : List (String × Nat × String) := [' +
               ', '.join('(%s, %d, %s)' % (_q(a), b, _q(c)) for a, b, c in verif_only) + ']\n')
    out.append('/-- the clock names `yaclib_std::chrono::X` declared by include/yaclib_std/detail/clock.hpp in this configuration and\n'
               '    the type each of them is (desugared) -/')
    out.append('def clockAliases : List (String × String) := [' + ', '.join('(%s, %s)' % (_q(a), _q(b)) for a, b in clock_aliases) + ']\n')
    out.append('end Yaclib.Extracted.FiberSched\n')
    return '\n'.join(out)
