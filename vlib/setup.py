"""check.py setup: build what can be built ahead of time (lake project, FIBER library)."""
from . import common as C


def main():
    ok, errors, text = C.lake_build(['YaclibModel'])
    if not ok:
        C.log(text[-3000:])
    # every driver executable on its own: one broken model must not take the others down
    import re
    for name in re.findall(r'^name = "(ymdriver_\w+)"', open(C.LEAN + '/lakefile.toml').read(), re.M):
        ok, errors, text = C.lake_build([name])
    if not ok:
        C.log(text[-3000:])
        # not fatal for setup: the per-property checks report broken obligations themselves
    for kind in ('fiber',):
        try:
            C.build_lib(kind)
        except C.BuildError as e:
            C.log(str(e))
    return 0
