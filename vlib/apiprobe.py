"""API instantiation sweep as a check stage (harness/api_probe_<area>.cpp, notes/api_probe.md).

Twice a public API of the library turned out not to COMPILE for any argument because no test instantiated it
(AwaitSticky(fs...), /repo 268e868; MakeSharedContractOn<V, E>(e), /repo 9e60e6b).  The probe TUs ODR-use every public function /
member template over a representative argument matrix; this stage compiles the TUs of the areas a property is about against the
current tree and reports a compile / link / smoke failure as a violation of that property.

Per area two things happen (in parallel, cached per library tree + probe sources + flags, the way build_harness caches):
  * `g++ -fsyntax-only` of the whole TU: every instantiation of the matrix is checked, no code generation (2-7 s instead of 10-20 s);
  * the TU is compiled with -DAPI_PROBE_SMOKE_ONLY (without the matrix) at -O0, linked against libyaclib.a and run: undefined
    symbols (`extern template`, out-of-line members) and a tiny behavioural smoke test.
Thorough tier: the same syntax check against the FIBER library and a C++17 library without coroutines (non-coroutine areas), and
every `#ifdef API_PROBE_KNOWN_<n>` construct is compiled on its own: it is EXPECTED to fail; one that compiles is recorded as fixed.

    python3 -m vlib.apiprobe [area ...] [--thorough]     # by hand: timing table
"""
import concurrent.futures
import hashlib
import os
import re
import subprocess
import sys
import time

from . import common as C

HARNESS = os.path.join(C.VERIF, 'harness')
SHARED_SOURCES = ['api_probe.hpp', 'api_probe_cb.hpp']

# area -> (needs coroutines, the public headers it is about)
AREAS = {
    'util': (False, 'fwd.hpp log.hpp util/{result,intrusive_ptr,helper,cast,ref,func,type_traits,fail_policy,combinator_strategy}.hpp'),
    'exe': (False, 'exe/{executor,inline,job,manual,strand,submit}.hpp runtime/fair_thread_pool.hpp'),
    'async': (False, 'async/{future,promise,contract,make,run,connect,wait,wait_for,wait_until}.hpp'),
    'then': (False, 'async/future.hpp Then*/Detach*: full signature x return cross (void / int)'),
    'then2': (False, 'async/future.hpp Then*/Detach*: every method over value types x error types'),
    'shared': (False, 'async/{shared_future,shared_promise,shared_contract,share,split}.hpp + shared forms of connect/run/wait'),
    'lazy': (False, 'lazy/{task,make,schedule}.hpp'),
    'when': (False, 'async/when_all.hpp async/when/{when,all,all_tuple}.hpp'),
    'when2': (False, 'async/when_any.hpp async/join.hpp async/when/{any,join,when}.hpp util/combinator_strategy.hpp (user strategies)'),
    'wg': (False, 'algo/{wait_group,one_shot_event}.hpp'),
    'coro': (True, 'coro/{future,task,shared_future,await,await_inline,await_sticky,await_on,on,yield,current_executor,coro}.hpp'),
    'mutex': (True, 'coro/{mutex,shared_mutex,guard,guard_sticky}.hpp'),
}

# n -> (areas whose TU contains the construct, one line); notes/api_probe.md has reproducer, classification and proposed fix
KNOWN = {
    # 1, 2, 4, 7 were fixed in /repo (b3ff916, a50f9bd, 3ec8b78, dfc7662): their constructs are part of the regular matrix now
    3: (['when'], 'heterogeneous WhenAll<FirstFail> default-constructs its output tuple (open observation)'),
    5: (['async', 'when'], 'a value type that is a container of a move-only type (result of WhenAll over move-only futures) cannot be '
                           'instantiated (open observation)'),
    6: (['mutex'], 'guards of SharedMutex: Unlock() / UnlockOn(e) forward to members SharedMutex does not have (open observation)'),
}

# property -> the areas its check compiles (see the docstring; wired into checks/Cxx.py with `apiprobe.stage(res, 'Cxx', tier)`)
PROPERTY_AREAS = {
    'C01': ['async'],          # Future / Promise / Contract / Connect (same cache entries as C02's)
    'C02': ['util', 'exe', 'async', 'then', 'then2', 'lazy'],  # pipeline / async APIs
    'C05': ['exe'],            # executors, Submit
    'C06': ['shared'],
    'C09': ['when', 'when2'],  # WhenAll; Join is in when2
    'C10': ['when2'],          # WhenAny
    'C11': ['async', 'shared'],  # Wait / WaitFor / WaitUntil: unique forms in async, shared forms in shared
    'C12': ['lazy'],           # Task, Schedule, LazyContract
    'C13': ['coro'],
    'C14': ['mutex'],
    'C15': ['mutex'],
    'C16': ['wg'],
}

# a C++17 library without coroutines, for the non-coroutine headers (local kind, as checks/C13.py does for its transfer configurations)
C.LIB_KINDS.setdefault('plain17', (['-DCMAKE_BUILD_TYPE=RelWithDebInfo', '-DYACLIB_CXX_STANDARD=17', '-DYACLIB_LOG=DEBUG'],
                                   ['-std=c++17', '-DYACLIB_LOG_DEBUG']))


_LIBS = {}


def _lib(kind):
    """library directory of `kind` for the current tree (hashing the tree once per process and kind is enough)"""
    if kind not in _LIBS:
        _LIBS[kind] = C.build_lib(kind)
    return _LIBS[kind]


def _includes(lib):
    return ['-I' + os.path.join(C.REPO, 'include'), '-I' + os.path.join(lib, 'include'), '-I' + HARNESS]


def _key(area, flags):
    h = hashlib.sha1()
    for f in ['api_probe_%s.cpp' % area] + SHARED_SOURCES:
        with open(os.path.join(HARNESS, f), 'rb') as fh:
            h.update(fh.read())
    h.update(' '.join(flags).encode())
    return h.hexdigest()[:12]


def first_errors(stderr, n=6):
    """the first n error lines, each with the instantiation line of the probe that led to it"""
    out = []
    ctx = None
    seen = set()
    for line in stderr.split('\n'):
        if 'required from here' in line or re.search(r'api_probe\w*\.[ch]pp:\d+:\d+:\s+required from', line):
            ctx = line.strip()
        if re.search(r'\berror\b', line) or 'undefined reference' in line:
            key = re.sub(r'\[with .*', '', line)
            if key in seen:
                continue
            seen.add(key)
            if ctx:
                out.append('  ' + ctx[:300])
            out.append(line.strip()[:400])
            ctx = None
            if len([o for o in out if not o.startswith('  ')]) >= n:
                break
    return out


def _syntax(area, kind, extra=()):
    """-> dict(ok, cached, wall_s, cmd, errors)"""
    lib = _lib(kind)
    _, flags = C.LIB_KINDS[kind]
    flags = list(flags) + list(extra)
    stamp = os.path.join(lib, 'api_probe_%s-%s.syntax' % (area, _key(area, flags)))
    cmd = ['g++', '-O0', '-fsyntax-only'] + flags + _includes(lib) + [os.path.join(HARNESS, 'api_probe_%s.cpp' % area)]
    t0 = time.time()
    with C.Lock('apiprobe-%s-%s-%s' % (area, kind, hashlib.sha1(' '.join(extra).encode()).hexdigest()[:6])):
        if os.path.exists(stamp):
            return {'ok': True, 'cached': True, 'wall_s': 0.0, 'cmd': cmd, 'errors': []}
        rc, _, err = C.sh(cmd)
        if rc == 0:
            open(stamp, 'w').close()
    return {'ok': rc == 0, 'cached': False, 'wall_s': round(time.time() - t0, 2), 'cmd': cmd,
            'errors': first_errors(err) if rc != 0 else [], 'stderr': err if rc != 0 else ''}


def _smoke(area, kind):
    """-> dict(ok, stage, cached, wall_s, cmd, errors)"""
    lib = _lib(kind)
    _, flags = C.LIB_KINDS[kind]
    flags = list(flags) + ['-DAPI_PROBE_SMOKE_ONLY']
    binary = os.path.join(lib, 'api_probe_%s-%s.smoke' % (area, _key(area, flags)))
    cmd = ['g++', '-O0'] + flags + _includes(lib) + [os.path.join(HARNESS, 'api_probe_%s.cpp' % area),
                                                     os.path.join(lib, 'src', 'libyaclib.a'), '-lpthread', '-o', binary]
    t0 = time.time()
    cached = True
    with C.Lock('apiprobe-smoke-%s-%s' % (area, kind)):
        if not os.path.exists(binary):
            cached = False
            bcmd = cmd[:-1] + [binary + '.tmp']
            rc, _, err = C.sh(bcmd)
            if rc != 0:
                return {'ok': False, 'stage': 'compile/link', 'cached': False, 'wall_s': round(time.time() - t0, 2), 'cmd': cmd,
                        'errors': first_errors(err), 'stderr': err}
            os.rename(binary + '.tmp', binary)
    try:
        r = subprocess.run([binary], capture_output=True, text=True, timeout=120)
        rc, out = r.returncode, (r.stdout + r.stderr)[-1500:]
    except subprocess.TimeoutExpired:
        rc, out = -1, 'timeout after 120 s'
    return {'ok': rc == 0, 'stage': 'run', 'cached': cached, 'wall_s': round(time.time() - t0, 2), 'cmd': [binary],
            'errors': [] if rc == 0 else ['smoke test exit code %d' % rc] + out.split('\n')[-8:]}


def _known(n, area, kind='plain'):
    """a construct that is known not to compile: -> 'fails' (expected) / 'compiles' (fixed in this tree); cached per tree"""
    extra = ['-DAPI_PROBE_KNOWN_%d' % n]
    _, flags = C.LIB_KINDS[kind]
    stamp = os.path.join(_lib(kind), 'api_probe_%s-%s.known%d' % (area, _key(area, list(flags) + extra), n))
    if os.path.exists(stamp):
        return open(stamp).read().strip() or 'fails'
    r = _syntax(area, kind, extra=extra)
    verdict = 'compiles' if r['ok'] else 'fails'
    with open(stamp, 'w') as f:
        f.write(verdict + '\n')
    return verdict


def _cmdline(cmd):
    return ' '.join(cmd)


def run(res, prop, areas, tier='quick', smoke=True):
    """Compile (and smoke-run) the probe TUs of `areas` against the current tree; a failure is a violation of `prop`.
    Returns True when everything instantiates."""
    t0 = time.time()
    jobs = {}
    for kind in ['plain'] + (['fiber', 'plain17'] if tier == 'thorough' else []):
        _lib(kind)  # built (or found) before the workers start: they would only queue on its lock
    with concurrent.futures.ThreadPoolExecutor(max_workers=max(1, min(8, 2 * len(areas)))) as ex:
        for a in areas:
            jobs[(a, 'syntax', 'plain')] = ex.submit(_syntax, a, 'plain')
            if smoke:
                jobs[(a, 'smoke', 'plain')] = ex.submit(_smoke, a, 'plain')
            if tier == 'thorough':
                jobs[(a, 'syntax', 'fiber')] = ex.submit(_syntax, a, 'fiber')
                if not AREAS[a][0]:
                    jobs[(a, 'syntax', 'plain17')] = ex.submit(_syntax, a, 'plain17')
        known_jobs = {}
        if tier == 'thorough':
            for n, (kareas, _) in sorted(KNOWN.items()):
                for a in kareas:
                    if a in areas:
                        known_jobs[(n, a)] = ex.submit(_known, n, a)
        results = {k: f.result() for k, f in jobs.items()}
        known = {k: f.result() for k, f in known_jobs.items()}
    ok = True
    cov = {}
    for (a, what, kind), r in sorted(results.items()):
        cov.setdefault(a, {})['%s/%s' % (what, kind)] = ('ok' if r['ok'] else 'FAILED') + (' (cached)' if r['cached'] else ' %.1fs' % r['wall_s'])
        if r['ok']:
            continue
        ok = False
        head = r['errors'][0] if r['errors'] else 'no diagnostics'
        errs = [e for e in r['errors'] if not e.startswith('  ')]
        first = next((e for e in errs if e.startswith(os.path.join(C.REPO, ''))), errs[0] if errs else head)
        if what == 'syntax':
            msg = 'public API no longer instantiates: api_probe_%s.cpp (%s; library kind %s): %s' % (a, AREAS[a][1], kind, first[:300])
        elif r.get('stage') == 'run':
            msg = 'API smoke test of area %s fails at run time (api_probe_%s.cpp, -DAPI_PROBE_SMOKE_ONLY): %s' % (a, a, first[:300])
        else:
            msg = 'public API no longer compiles / links: api_probe_%s.cpp -DAPI_PROBE_SMOKE_ONLY (%s): %s' % (a, AREAS[a][1], first[:300])
        text = 'api-probe-area: %s\napi-probe-stage: %s\napi-probe-kind: %s\ncommand: %s\n\n%s\n' % (
            a, what, kind, _cmdline(r['cmd']), '\n'.join(r['errors']))
        res.violation(text, msg, name='%s_apiprobe_%s_%s_%s.txt' % (prop, a, what, kind))
    fixed = sorted({n for (n, a), v in known.items() if v == 'compiles'})
    if known:
        cov['known_constructs'] = {'API_PROBE_KNOWN_%d (%s)' % (n, a): v + (' as expected: ' if v == 'fails' else ' NOW: ') + KNOWN[n][1]
                                   for (n, a), v in sorted(known.items())}
    for n in fixed:
        res.notes.append('api probe: the construct under API_PROBE_KNOWN_%d compiles on this tree (%s): the guard can be removed' % (n, KNOWN[n][1]))
    cov['wall_s'] = round(time.time() - t0, 2)
    res.coverage.setdefault('api_probe', {}).update(cov)
    return ok


def stage(res, prop, tier):
    """the stage of property `prop` (PROPERTY_AREAS); to be called before the harness stages: when a public API of the area
    no longer instantiates, the property's own harness usually does not build either and the check stops at its BuildError"""
    return run(res, prop, PROPERTY_AREAS[prop], tier=tier)


def headers_standalone(res, prop, headers, kind='plain', name_prefix=None):
    """every header of the list compiles as the only include of a TU (parallel, cached per tree). Returns the failed ones."""
    lib = _lib(kind)
    _, flags = C.LIB_KINDS[kind]

    def one(h):
        key = hashlib.sha1((h + ' '.join(flags)).encode()).hexdigest()[:12]
        stamp = os.path.join(lib, 'api_probe_hdr-%s.syntax' % key)
        if os.path.exists(stamp):
            return h, True, ''
        cmd = ['g++', '-fsyntax-only'] + list(flags) + _includes(lib) + ['-x', 'c++', '-']
        r = subprocess.run(cmd, input='#include <%s>\n' % h, capture_output=True, text=True)
        if r.returncode == 0:
            open(stamp, 'w').close()
        return h, r.returncode == 0, 'command: echo \'#include <%s>\' | %s\n\n%s' % (h, _cmdline(cmd), '\n'.join(first_errors(r.stderr)) or r.stderr[:1500])

    with concurrent.futures.ThreadPoolExecutor(max_workers=8) as ex:
        out = list(ex.map(one, headers))
    bad = [(h, txt) for (h, ok, txt) in out if not ok]
    for h, txt in bad:
        res.violation('api-probe-header: %s\n%s\n' % (h, txt), '%s does not compile on its own (what it declares cannot be used at all)' % h,
                      name='%s_probe_%s.txt' % (name_prefix or prop, re.sub(r'\W+', '_', h)))
    return [h for h, _ in bad]


def replay(path):
    """re-run a replay written by this stage: 1 = still failing, 0 = fine now, None = not one of ours"""
    txt = open(path).read()
    m = re.search(r'^api-probe-header: (\S+)', txt, re.M)
    if m:
        class _R:  # minimal Result
            def violation(self, *a, **k):
                pass
        bad = headers_standalone(_R(), 'replay', [m.group(1)])
        print('%s: %s' % (m.group(1), 'still does not compile on its own' if bad else 'compiles'))
        return 1 if bad else 0
    m = re.search(r'^api-probe-area: (\S+)', txt, re.M)
    if not m:
        return None
    area = m.group(1)
    stage = re.search(r'^api-probe-stage: (\S+)', txt, re.M).group(1)
    kind = re.search(r'^api-probe-kind: (\S+)', txt, re.M).group(1)
    r = _syntax(area, kind) if stage == 'syntax' else _smoke(area, kind)
    print(_cmdline(r['cmd']))
    print('\n'.join(r['errors']) if not r['ok'] else 'ok')
    return 0 if r['ok'] else 1


def main(argv):
    thorough = '--thorough' in argv
    areas = [a for a in argv if not a.startswith('--')] or list(AREAS)
    res = C.Result('APIPROBE', 'thorough' if thorough else 'quick')
    t0 = time.time()
    ok = run(res, 'APIPROBE', areas, tier=res.tier)
    for a, v in sorted(res.coverage['api_probe'].items()):
        print('%-16s %s' % (a, v))
    for n in res.notes:
        print('note:', n)
    for (path, _, msg) in res.violations:
        print('VIOLATION', path, msg.split('\n')[0][:200])
    print('%s in %.1f s' % ('all areas instantiate' if ok else 'FAILED', time.time() - t0))
    return 0 if ok else 1


if __name__ == '__main__':
    sys.exit(main(sys.argv[1:]))
