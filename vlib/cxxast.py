"""clang-14 JSON AST helpers for the translators (T1/T2 of DESIGN.md).

The translators fail closed: anything they do not understand raises ExtractError, which the
check turns into a broken tie (never a default value).
"""
import json
import os
import subprocess

CLANG = 'clang++-14'


class ExtractError(Exception):
    pass


def dump(src, flt, cfg_include, repo='/repo', std='c++20', extra=()):
    """Return the list of top-level AST documents whose qualified name contains `flt`."""
    cmd = [CLANG, '-std=' + std, '-fsyntax-only', '-DYACLIB_VERIF', '-I' + os.path.join(repo, 'include'),
           '-I' + os.path.join(repo, 'src'), '-I' + cfg_include, *extra,
           '-Xclang', '-ast-dump=json', '-Xclang', '-ast-dump-filter=' + flt, src]
    r = subprocess.run(cmd, capture_output=True, text=True)
    if r.returncode != 0:
        raise ExtractError('clang failed on %s: %s' % (src, r.stderr[-2000:]))
    s = r.stdout
    dec = json.JSONDecoder()
    i = 0
    docs = []
    n = len(s)
    while i < n:
        while i < n and s[i].isspace():
            i += 1
        if i >= n:
            break
        d, j = dec.raw_decode(s, i)
        docs.append(d)
        i = j
    _annotate_files(docs, src)
    return docs


def _annotate_files(docs, main_src):
    """clang prints `file` only when it changes (in traversal order); make it explicit on every node."""
    cur = [None]

    def visit_loc(loc):
        if not isinstance(loc, dict):
            return
        for key in ('spellingLoc', 'expansionLoc'):
            if key in loc:
                visit_loc(loc[key])
        if 'file' in loc:
            cur[0] = loc['file']
        elif 'offset' in loc and cur[0] is not None:
            loc['file'] = cur[0]

    def visit(n):
        if 'loc' in n:
            visit_loc(n['loc'])
        if 'range' in n:
            visit_loc(n['range'].get('begin'))
            visit_loc(n['range'].get('end'))
        n['_file'] = cur[0]
        for c in n.get('inner', []):
            if isinstance(c, dict):
                visit(c)

    for d in docs:
        visit(d)


_src_cache = {}


def source(path):
    if path not in _src_cache:
        with open(path, 'rb') as f:
            _src_cache[path] = f.read()
    return _src_cache[path]


def _loc(loc):
    if 'expansionLoc' in loc:
        return loc['expansionLoc']
    return loc


def text(node):
    """Source text of a node (from its range)."""
    b = _loc(node['range']['begin'])
    e = _loc(node['range']['end'])
    f = b.get('file') or node.get('_file')
    if f is None or 'offset' not in b or 'offset' not in e:
        raise ExtractError('no source range for %s' % node.get('kind'))
    data = source(f)
    return data[b['offset']: e['offset'] + e.get('tokLen', 0)].decode()


def first_token(node):
    b = _loc(node['range']['begin'])
    f = b.get('file') or node.get('_file')
    data = source(f)
    return data[b['offset']: b['offset'] + b.get('tokLen', 0)].decode()


def kids(n):
    return [c for c in n.get('inner', []) if isinstance(c, dict) and c.get('kind') is not None]


def find_all(n, pred, acc=None):
    if acc is None:
        acc = []
    if pred(n):
        acc.append(n)
    for c in kids(n):
        find_all(c, pred, acc)
    return acc


def strip(n):
    """Drop implicit casts, parens, cleanups, materialisations."""
    while n.get('kind') in ('ImplicitCastExpr', 'ParenExpr', 'ExprWithCleanups', 'MaterializeTemporaryExpr',
                            'CXXBindTemporaryExpr', 'ConstantExpr', 'FullExpr') and len(kids(n)) == 1:
        n = kids(n)[0]
    return n


def is_assert_stub(n):
    """YACLIB_ASSERT / YACLIB_DEBUG / YACLIB_WARN expand to `do { if (false) {...} } while (false)` (or a log call)."""
    if n.get('kind') != 'DoStmt':
        return False
    try:
        t = first_token(n)
    except Exception:
        return False
    return t.startswith('YACLIB_')


def methods(doc, name=None):
    ms = find_all(doc, lambda n: n.get('kind') in ('CXXMethodDecl', 'CXXConstructorDecl', 'CXXDestructorDecl',
                                                   'FunctionDecl'))
    if name is not None:
        ms = [m for m in ms if m.get('name') == name]
    return ms


def body(m):
    for c in kids(m):
        if c.get('kind') in ('CompoundStmt', 'CXXTryStmt'):
            return c
    return None


def qual(m):
    return m.get('type', {}).get('qualType', '')
