"""T1 translator for C18: which std name is which type per backend (the yaclib_std alias headers).

Generated file: lean/YaclibModel/Extracted/FiberAlias.lean
  selectorTable : (public header, selector macro, value)        from `#define YACLIB_FAULT_<X> <value>` in include/yaclib_std/<header>
  aliasTable    : (detail header, backend, kind, name, target)  from include/yaclib_std/detail/<header>.hpp, per `#if <macro> == 2 / #elif … == 1 /
                  #else` branch (backend fiber / thread / off); kinds: alias (`using X = T;`), using (`using std::…;`), object
                  (`inline constexpr auto* x = &f;`), function (a function (template) defined in the branch), macro (`#define X(args) body`),
                  absent (the branch is empty or commented out: the name does not exist in that backend)
Text based (these headers are flat); fails closed on any line it does not understand.
"""
import os
import re

from .cxxast import ExtractError

PUBLIC = ['mutex', 'shared_mutex', 'condition_variable', 'thread', 'chrono', 'thread_local']
DETAIL = ['mutex', 'timed_mutex', 'recursive_mutex', 'recursive_timed_mutex', 'shared_mutex', 'shared_timed_mutex',
          'condition_variable', 'condition_variable_any', 'thread', 'this_thread', 'clock', 'thread_local']
BACKEND = {'2': 'fiber', '1': 'thread', 'else': 'off'}


def _strip_comments(text):
    text = re.sub(r'/\*.*?\*/', lambda m: '\n' * m.group(0).count('\n'), text, flags=re.S)
    return [re.sub(r'//.*$', '', l).rstrip() for l in text.split('\n')]


def selectors(repo):
    rows = []
    for h in PUBLIC:
        for l in _strip_comments(open(os.path.join(repo, 'include/yaclib_std', h)).read()):
            m = re.match(r'^\s*#\s*define\s+(YACLIB_FAULT_\w+)\s+(\S+)\s*$', l)
            if m:
                rows.append((h, m.group(1), m.group(2)))
            elif re.match(r'^\s*#\s*define\b', l):
                raise ExtractError('yaclib_std/%s: unexpected #define: %s' % (h, l.strip()))
    return rows


def aliases(repo):
    rows = []
    for h in DETAIL:
        path = os.path.join(repo, 'include/yaclib_std/detail', h + '.hpp')
        lines = _strip_comments(open(path).read())
        branch = None      # backend name while inside the top-level #if
        macro = None
        depth = 0          # nesting of #if inside the branch
        ns = False
        body = 0           # brace depth inside a function body
        found = {}
        for raw in lines:
            l = raw.strip()
            if not l or l == '#pragma once':
                continue
            m = re.match(r'^#\s*(if|elif)\s+(\w+)\s*==\s*(\d)$', l)
            if m and depth == 0 and (m.group(1) == 'if') == (branch is None):
                if macro is not None and m.group(2) != macro:
                    raise ExtractError('%s.hpp: two selector macros' % h)
                macro = m.group(2)
                if m.group(3) not in BACKEND:
                    raise ExtractError('%s.hpp: unknown backend value %s' % (h, m.group(3)))
                branch = BACKEND[m.group(3)]
                found.setdefault(branch, [])
                continue
            if l == '#else' and depth == 0 and branch is not None:
                branch = 'off'
                found.setdefault(branch, [])
                continue
            if l == '#endif' and depth == 0 and branch is not None:
                branch = None
                continue
            if branch is None and re.match(r'^#\s*include\s*[<"]', l):
                continue
            if branch is None:
                raise ExtractError('%s.hpp: text outside the backend selection: %s' % (h, l))
            if re.match(r'^#\s*(if|ifdef|ifndef)\b', l):
                depth += 1
                continue
            if re.match(r'^#\s*endif\b', l):
                depth -= 1
                continue
            if re.match(r'^#\s*include\s*[<"]', l):
                continue
            m = re.match(r'^#\s*define\s+(\w+)\(([^)]*)\)\s+(.*)$', l)
            if m:
                found[branch].append(('macro', m.group(1), re.sub(r'\s+', ' ', m.group(3))))
                continue
            if re.match(r'^#', l):
                raise ExtractError('%s.hpp: unexpected directive: %s' % (h, l))
            if body > 0:
                body += l.count('{') - l.count('}')
                continue
            if re.match(r'^namespace [\w:]+ \{$', l):
                ns = True
                continue
            if l == '}':
                ns = False
                continue
            m = re.match(r'^using (\w+) = (.+);$', l)
            if m:
                found[branch].append(('alias', m.group(1), m.group(2)))
                continue
            m = re.match(r'^using ([\w:]+);$', l)
            if m:
                found[branch].append(('using', m.group(1).split('::')[-1], m.group(1)))
                continue
            m = re.match(r'^inline constexpr auto\* (\w+) = &([\w:]+);$', l)
            if m:
                found[branch].append(('object', m.group(1), m.group(2)))
                continue
            if re.match(r'^template <.*>$', l):
                continue
            m = re.match(r'^(?:inline )?[\w:<>& ]+? (\w+)\((.*)\) \{$', l)
            if m:
                found[branch].append(('function', m.group(1), re.sub(r'\s+', ' ', m.group(2))))
                body = 1
                continue
            raise ExtractError('%s.hpp [%s]: line not understood: %s' % (h, branch, l))
        if 'off' not in found or 'fiber' not in found:
            raise ExtractError('%s.hpp: no fiber branch or no #else' % h)
        found.setdefault('thread', found['off'])  # no `== 1` branch: the #else serves the THREAD backend too
        for b in ('fiber', 'thread', 'off'):
            if not found[b]:
                rows.append((h, b, 'absent', '-', '-'))
            for (kind, name, target) in found[b]:
                rows.append((h, b, kind, name, target))
    return rows


WRAPPERS = ['mutex', 'timed_mutex', 'recursive_mutex', 'recursive_timed_mutex', 'shared_mutex', 'shared_timed_mutex',
            'condition_variable', 'condition_variable_any']


def wrappers(repo):
    """(header, class or '-', kind, text) for include/yaclib/fault/detail/<header>.hpp: the class shells of the injection wrappers.
    kinds: include, class (text = bases), using / using[!MACRO] (a using-declaration or alias, possibly under `#ifndef MACRO`),
    method / function (text = the whole signature; the bodies are tied as kernels), access."""
    rows = []
    for h in WRAPPERS:
        path = os.path.join(repo, 'include/yaclib/fault/detail', h + '.hpp')
        lines = _strip_comments(open(path).read())
        guard = []
        toks = []  # (guard, text) per source line, directives handled here
        for raw in lines:
            l = raw.strip()
            if not l or l == '#pragma once':
                continue
            m = re.match(r'^#\s*include\s*[<"]([^>"]+)[>"]$', l)
            if m:
                rows.append((h, '-', 'include', m.group(1)))
                continue
            m = re.match(r'^#\s*ifndef\s+(\w+)$', l)
            if m:
                guard.append('!' + m.group(1))
                continue
            if re.match(r'^#\s*endif$', l) and guard:
                guard.pop()
                continue
            if l.startswith('#'):
                raise ExtractError('fault/detail/%s.hpp: unexpected directive: %s' % (h, l))
            toks.append((','.join(guard), l))
        cls = '-'
        depth = 0       # brace depth
        cdepth = None   # depth of the class body
        acc = []
        accg = ''
        skip = None     # depth to return to while skipping a function body
        for (g, l) in toks:
            i = 0
            while i < len(l):
                ch = l[i]
                if skip is not None:
                    if ch == '{':
                        depth += 1
                    elif ch == '}':
                        depth -= 1
                        if depth == skip:
                            skip = None
                    i += 1
                    continue
                if ch == '{':
                    text = re.sub(r'\s+', ' ', ''.join(acc)).strip()
                    acc = []
                    m = re.match(r'^namespace [\w:]+$', text)
                    if m:
                        depth += 1
                        i += 1
                        continue
                    m = re.match(r'^template <typename Impl> class (\w+) : (.+)$', text)
                    if m and cdepth is None:
                        cls = m.group(1)
                        rows.append((h, cls, 'class', m.group(2)))
                        cdepth = depth
                        depth += 1
                        i += 1
                        continue
                    if re.search(r'\w+\(.*\)( noexcept)?$', text):
                        rows.append((h, cls, 'method' if cdepth is not None else 'function', text))
                        skip = depth
                        depth += 1
                        i += 1
                        continue
                    raise ExtractError('fault/detail/%s.hpp: block not understood: %s' % (h, text))
                if ch == '}':
                    if ''.join(acc).strip():
                        raise ExtractError('fault/detail/%s.hpp: dangling text: %s' % (h, ''.join(acc)))
                    depth -= 1
                    if cdepth is not None and depth == cdepth:
                        cdepth = None
                        cls = '-'
                    i += 1
                    continue
                if ch == ';':
                    text = re.sub(r'\s+', ' ', ''.join(acc)).strip()
                    acc = []
                    if text:
                        m = re.match(r'^using (.+)$', text)
                        if not m:
                            raise ExtractError('fault/detail/%s.hpp: declaration not understood: %s' % (h, text))
                        rows.append((h, cls, 'using' + ('[%s]' % accg if accg else ''), m.group(1)))
                    i += 1
                    continue
                if ch == ':' and re.match(r'^\s*(public|private|protected)$', ''.join(acc)):
                    rows.append((h, cls, 'access', ''.join(acc).strip()))
                    acc = []
                    i += 1
                    continue
                if not ''.join(acc).strip():
                    accg = g
                acc.append(ch)
                i += 1
            acc.append(' ')
        if depth != 0 or ''.join(acc).strip():
            raise ExtractError('fault/detail/%s.hpp: unbalanced' % h)
    return rows


def _q(s):
    return '"' + s.replace('\\', '\\\\').replace('"', '\\"') + '"'


def generate(repo, namespace='Yaclib.Extracted.FiberAlias'):
    sel = selectors(repo)
    al = aliases(repo)
    wr = wrappers(repo)
    out = ['/- GENERATED by vlib/x_alias.py from /repo/include/yaclib_std/{%s} and /repo/include/yaclib_std/detail/*.hpp.' % ','.join(PUBLIC),
           '   Do not edit: regenerated on every check run. -/', 'namespace %s' % namespace, '',
           '/-- (public header, selector macro, value) -/',
           'def selectorTable : List (String × String × String) := [',
           ',\n'.join('  (%s, %s, %s)' % tuple(_q(x) for x in r) for r in sel), ']', '',
           '/-- (detail header, backend, kind, name, what it stands for) -/',
           'def aliasTable : List (String × String × String × String × String) := [',
           ',\n'.join('  (%s, %s, %s, %s, %s)' % tuple(_q(x) for x in r) for r in al), ']', '',
           '/-- (wrapper header in include/yaclib/fault/detail, class, kind, text): the class shells of the injection wrappers -/',
           'def wrapperTable : List (String × String × String × String) := [',
           ',\n'.join('  (%s, %s, %s, %s)' % tuple(_q(x) for x in r) for r in wr), ']', '',
           'end %s' % namespace, '']
    return '\n'.join(out)
