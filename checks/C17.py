"""C17 — fiber fault-injection runs are reproducible from their seed (DESIGN.md §3 C17).

T1  vlib/x_fibersched.py regenerates Extracted/FiberSched.lean (decision functions, defaults, lint table) from /repo;
T2  kernel skeletons `Sched_*`/`Fault_*` (vlib/x_kernels.py);
    → `lake build YaclibModel.Props.C17` re-proves every theorem against them;
T3  harness/c17.cpp on the real library (FIBER + VERIF, only trace hooks installed, the library's own PRNG decides):
      (a) every configuration run twice in one process (SetSeed + SetInjectorState in between),
      (b) the same batch in several processes with perturbed environment / argv[0] / heap layout / ASLR,
      (c) checkpoint → restore in another process with ForwardToFaultRandomCount/SetInjectorState,
      (d) the extracted decision functions and the scheduler model against the implementation on recorded raw draws
          (`ymdriver_fibersched`).
Any difference in (a)–(c) is a VIOLATION with a replay file; a difference in (d) is a broken correspondence.
"""
import hashlib
import os
import random
import re
import shutil
import subprocess
import time

from vlib import common as C
from vlib import conc
from vlib import x_fibersched

PROGS = ['cas', 'pool', 'strand', 'timed', 'coro', 'sleep', 'clocks', 'all']
PROGS2 = ['mixA', 'mixB', 'mixC', 'mixD', 'mixE']
FREQ = [1, 2, 3, 5, 16, 16, 64]
PICK = [1, 2, 3, 10, 10, 50]
AFAIL = [0, 2, 3, 13, 13, 40]
SLEEP = [1, 2, 7, 100, 100]
TICK = [1, 10, 10, 37]
DIGEST_FIELDS = ['hash', 'lines', 'resumes', 'atomics', 'syncs', 'injected', 'rand', 'spurious', 'casfail', 'events',
                 'nevents', 'result']


def open_findings():
    """open entries of known_findings.json for this property: [{id, match, what}]"""
    out = []
    for e in C.load_findings().get('open', []):
        if isinstance(e, dict) and e.get('property') == 'C17' and e.get('match'):
            out.append(e)
    return out


def report(res, key, replay_text, message, name, seen):
    """a failing input: KNOWN-FINDING if its key matches an open finding of C17, VIOLATION otherwise"""
    for e in open_findings():
        if re.search(e['match'], key):
            if e.get('id') not in seen:
                seen.add(e.get('id'))
                res.known_finding(e['what'] + ' [this run: ' + message[:600] + ']')
            return True
    res.violation(replay_text, message, name=name)
    return False


def workdir():
    d = os.path.join(C.WORK, 'c17')
    os.makedirs(d, exist_ok=True)
    return d


def extract(res):
    """regenerate Extracted/FiberSched.lean + Extracted/Kernels.lean; returns list of problems (fail closed)"""
    problems = []
    lib = C.build_lib('fiber')
    try:
        text = x_fibersched.generate(C.REPO, lib, workdir())
        C.write_if_changed(os.path.join(C.LEAN, 'YaclibModel/Extracted/FiberSched.lean'), text)
    except Exception as e:  # the translator fails closed: the generated file keeps its previous content, the tie is broken
        problems.append('translator x_fibersched failed: ' + str(e).split('\n')[0][:400])
    try:
        problems += ['translator x_kernels: ' + p for p in conc.extract_kernels() if p.startswith(('Sched_', 'Fault_'))]
    except Exception as e:
        problems.append('translator x_kernels failed: ' + str(e).split('\n')[0][:300])
    return problems


def lint_selftest():
    """the lint must flag a translation unit that does read the forbidden sources (non-vacuity of `lint_clean`)"""
    d = workdir()
    src = os.path.join(C.REPO, 'src/fault/__c17_lint_probe__.cpp')  # path only: the file lives in the work dir
    probe = os.path.join(d, 'lint_probe.cpp')
    with open(probe, 'w') as f:
        f.write('''#include <chrono>
#include <cstdint>
#include <cstdio>
#include <functional>
#include <map>
#include <random>
#include <unordered_map>
namespace yaclib::probe {
struct N { int x; };
inline std::unordered_map<int, int> gMap;
inline std::map<N*, int> gByAddress;
inline long Clock() { return std::chrono::steady_clock::now().time_since_epoch().count(); }
inline unsigned Dev() { std::random_device d; return d(); }
inline std::uintptr_t Addr(N* n) { return reinterpret_cast<std::uintptr_t>(n); }
inline bool Less(N* a, N* b) { return a < b; }
inline int Iterate() { int s = 0; for (auto& kv : gMap) s += kv.second; return s + static_cast<int>(gMap.begin()->first); }
inline std::size_t H(int x) { return std::hash<int>{}(x); }
inline void Print(N* n) { std::printf("%p", static_cast<void*>(n)); }
inline int Lookup(int k) { auto it = gMap.find(k); return it == gMap.end() ? 0 : it->second; }
}  // namespace yaclib::probe
''')
    lib = C.build_lib('fiber')
    cfg = x_fibersched.snapshot_config(lib, d)
    docs = x_fibersched.dump_noverif(probe, 'yaclib', os.path.join(cfg, 'include'), C.REPO)
    # pretend the probe lives in the fault layer
    def retarget(n):
        if n.get('_file') == probe:
            n['_file'] = src
        for c in n.get('inner', []):
            if isinstance(c, dict):
                retarget(c)
    for doc in docs:
        retarget(doc)
    hits, files = [], set()
    x_fibersched.lint_docs(docs, C.REPO, hits, files)
    kinds = sorted({h[2].split(':')[0] for h in hits})
    want = ['address-printing', 'pointer-ordered-container', 'pointer-ordering-comparison', 'pointer-to-integer-cast',
            'random-device', 'real-clock', 'std-hash', 'unordered-iteration']
    missing = [k for k in want if k not in kinds]
    # the lookup-only use of the unordered map (find / end) must NOT be flagged: exactly the two iteration sites are
    n_iter = len([h for h in hits if h[2].startswith('unordered-iteration')])
    return missing, kinds, n_iter


def harness_binary():
    """the harness, copied out of the library cache (which a concurrent check may replace)"""
    h = C.build_harness('c17', 'fiber', ['c17.cpp'])
    # keyed by the library tree (the directory build_harness put it in) and by the harness source
    dst = os.path.join(workdir(), 'c17-%s-%s' % (os.path.basename(os.path.dirname(h))[:16], os.path.basename(h).split('-')[-1]))
    if not os.path.exists(dst):
        shutil.copyfile(h, dst + '.tmp')
        os.chmod(dst + '.tmp', 0o755)
        os.replace(dst + '.tmp', dst)
    return dst


VARIANTS = [
    # (name, argv0, extra env, pre-malloc bytes, wrapper)
    ('plain', None, {}, 0, []),
    ('padded-env', 'c17_with_a_much_longer_name_in_argv0_' + 'x' * 150, {'C17_PAD': 'p' * 4096, 'C17_PAD2': 'q' * 777}, 100003, []),
    ('big-heap', 'c', {'MALLOC_ARENA_MAX': '1', 'C17_PAD': 'r' * 13}, 7340033, []),
    ('no-aslr', None, {'MALLOC_PERTURB_': '165', 'C17_PAD': 's' * 20000}, 31, ['setarch', '-R']),
]


def run_batch(binary, lines, variant, dump=None, timeout=900, dump_only=None):
    """returns (records, crashed_key). records: key -> list of dict(pass=…, fields…) and 'ckpt' -> (count, state)"""
    name, argv0, env_extra, premalloc, wrapper = variant
    env = dict(os.environ)
    env.update(env_extra)
    args = ['batch', '--pre-malloc', str(premalloc)] + (['--dump', dump] if dump else []) + \
        (['--dump-only', dump_only] if dump_only else [])
    if wrapper and shutil.which(wrapper[0]):
        cmd = wrapper + [binary] + args
        exe = None
    else:
        cmd = [argv0 or binary] + args
        exe = binary
    r = subprocess.run(cmd, executable=exe, input='\n'.join(lines) + '\n', capture_output=True, text=True, env=env,
                       timeout=timeout)
    recs = {}
    open_key = None
    done = False
    for line in r.stdout.split('\n'):
        t = line.split()
        if not t:
            continue
        if t[0] == 'begin':
            open_key = t[1]
            recs.setdefault(open_key, {'digests': [], 'ckpt': None, 'errors': []})
        elif t[0] == 'end':
            open_key = None
        elif t[0] == 'digest':
            d = dict(kv.split('=', 1) for kv in t[2:])
            recs[t[1]]['digests'].append(d)
        elif t[0] == 'ckpt':
            d = dict(kv.split('=', 1) for kv in t[2:])
            recs[t[1]]['ckpt'] = (int(d['count']), int(d['state']))
        elif t[0] == 'error':
            recs.setdefault(t[1], {'digests': [], 'ckpt': None, 'errors': []})['errors'].append(line)
        elif t[0] == 'done':
            done = True
    crashed = None
    if not done:
        crashed = (open_key or '?', r.returncode, r.stderr[-400:])
    return recs, crashed


def run_all(binary, lines, variant):
    """run a batch; a crashing configuration is recorded and the rest is resumed after it"""
    out = {}
    crashes = []
    todo = list(lines)
    while todo:
        recs, crashed = run_batch(binary, todo, variant)
        out.update({k: v for k, v in recs.items() if not crashed or k != crashed[0]})
        if not crashed:
            break
        key = crashed[0]
        crashes.append(crashed)
        idx = next((i for i, l in enumerate(todo) if l.split()[1] == key), None)
        if idx is None:
            break
        todo = todo[idx + 1:]
    return out, crashes


def key_safe(line):
    return re.sub(r'[^A-Za-z0-9]+', '_', line.split()[1])[:30]


def digest_tuple(d):
    return tuple(d.get(f) for f in DIGEST_FIELDS)


def first_difference(binary, history_a, key_a, variant_a, pass_a, history_b, key_b, variant_b, pass_b, values=False):
    """re-run both batches (a configuration's predecessors in the process are part of its history) with a full trace
    dump of the one configuration; returns (description, line_a, line_b) of the first differing line"""
    d = os.path.join(workdir(), 'dump')
    shutil.rmtree(d, ignore_errors=True)
    os.makedirs(os.path.join(d, 'a'))
    os.makedirs(os.path.join(d, 'b'))
    if values:
        os.environ['C17_DEBUG_VALUES'] = '1'
    try:
        run_batch(binary, history_a, variant_a, dump=os.path.join(d, 'a'), dump_only=key_a)
        run_batch(binary, history_b, variant_b, dump=os.path.join(d, 'b'), dump_only=key_b)
    finally:
        os.environ.pop('C17_DEBUG_VALUES', None)
    try:
        ta = [l for l in open(os.path.join(d, 'a', '%s.%d.txt' % (key_a, pass_a))).read().split('\n')]
        tb = [l for l in open(os.path.join(d, 'b', '%s.%d.txt' % (key_b, pass_b))).read().split('\n')]
    except OSError as e:
        return 'no trace dump (%s)' % e, None, None
    va = [l for l in ta if not l.startswith('#')]
    vb = [l for l in tb if not l.startswith('#')]
    for i, (x, y) in enumerate(zip(va, vb)):
        if x != y:
            ctx = va[max(0, i - 3):i]
            extra = ''
            if values:
                ia = ta.index(x, 0) if x in ta else -1
                # the raw words printed after the differing line in each dump
                def words(t, n):
                    seen = -1
                    for j, l in enumerate(t):
                        if not l.startswith('#'):
                            seen += 1
                            if seen == n:
                                return t[j + 1] if j + 1 < len(t) and t[j + 1].startswith('#') else ''
                    return ''
                extra = ' raw: [%s] vs [%s]' % (words(ta, i).strip('# '), words(tb, i).strip('# '))
            return 'first differing trace line %d: `%s` vs `%s` (after: %s)%s' % (i + 1, x, y, ' | '.join(ctx), extra), x, y
    if len(va) != len(vb):
        return 'one trace is a strict prefix of the other (%d vs %d lines)' % (len(va), len(vb)), None, None
    return 'full traces agree; the difference is in the counters / result only', None, None


def is_cas_outcome_only(x, y):
    """two trace lines `A <fiber> <op> <orders> <ok>` of a CAS that differ in the outcome only"""
    if x is None or y is None:
        return False
    a, b = x.split(), y.split()
    return len(a) == 5 and len(b) == 5 and a[0] == b[0] == 'A' and a[:4] == b[:4] and a[2] in ('3', '4') and a[4] != b[4]


def gen_configs(rng, tier):
    seeds = [rng.randrange(1, 2 ** 31) for _ in range(5 if tier == 'quick' else 24)]
    per = 14 if tier == 'quick' else 60
    lines = []
    meta = {}
    n = 0
    for seed in seeds:
        for prog in PROGS:
            for j in range(per):
                if j == 0:
                    cfg = dict(freq=16, pick=10, afail=13, sleep=100, tick=10)  # the defaults
                else:
                    cfg = dict(freq=rng.choice(FREQ), pick=rng.choice(PICK), afail=rng.choice(AFAIL), sleep=rng.choice(SLEEP),
                               tick=rng.choice(TICK))
                size = rng.choice([1, 1, 2, 3]) if prog != 'all' else rng.choice([1, 2])
                key = 'c%d' % n
                n += 1
                line = 'run %s prog=%s size=%d seed=%d freq=%d pick=%d afail=%d sleep=%d tick=%d passes=2 reset=seed+state' % (
                    key, prog, size, seed, cfg['freq'], cfg['pick'], cfg['afail'], cfg['sleep'], cfg['tick'])
                lines.append(line)
                meta[key] = line
    return lines, meta


def gen_restore(rng, tier):
    """checkpoint/restore configurations: random ones, plus
    * draws with max = 1 (yield frequency 1: every Injector::Reset draws GetRandNumber(1); sleep time 1: every timed wait
      does; pick width 1): the count must still equal the number of engine outputs consumed;
    * for the small frequencies 2, 4, 16 the checkpoint is walked through the whole injector period with 0..frequency extra
      injection points, so that every injector state 0..frequency is restored — `frequency` itself is the state "the next
      injection point is a forced yield"."""
    lines = []
    n = 0

    def add(prog, size, seed, freq, pick, afail, sleep, tick, extra=''):
        nonlocal n
        lines.append('rec r%d prog=%s size=%d seed=%d freq=%d pick=%d afail=%d sleep=%d tick=%d%s' % (
            n, prog, size, seed, freq, pick, afail, sleep, tick, extra))
        n += 1
    for _ in range(40 if tier == 'quick' else 400):
        add(rng.choice(PROGS2), rng.choice([1, 1, 2]), rng.randrange(1, 2 ** 31), rng.choice(FREQ), rng.choice(PICK), rng.choice(AFAIL),
            rng.choice(SLEEP), rng.choice(TICK))
    for i in range(2 if tier == 'quick' else 10):
        for (freq, sleep, pick) in ((1, 100, 10), (16, 1, 10), (1, 1, 1), (3, 1, 1)):
            add(PROGS2[(i + freq + sleep) % len(PROGS2)], 1, rng.randrange(1, 2 ** 31), freq, pick, rng.choice([2, 13]), sleep, 10)
    for i in range(1 if tier == 'quick' else 6):
        for freq in (2, 4, 16):
            seed = rng.randrange(1, 2 ** 31)
            prog = PROGS2[(i + freq) % len(PROGS2)]
            for k in range(freq + 1):
                add(prog, 1, seed, freq, 10, 13, 100, 10, ' ckextra=%d' % k)
    return lines


def compare_sched(impl, model):
    """scheduler script: implementation observations vs model observations, verbatim.  Since /repo 33a96a1 there is no
    tolerated divergence: a crash of the scheduler or an `ub` of the model is a failure.
    returns (kind, detail) with kind in ok | crash | mismatch"""
    try:
        io, iu = impl.split(' = ')[1].rsplit(' used=', 1)
        mo, mu = model.split(' = ')[1].rsplit(' used=', 1)
    except (IndexError, ValueError):
        return 'mismatch', 'unparsable `%s` / `%s`' % (impl[-120:], model[-120:])
    script = impl.split('script=')[1].split(' = ')[0]
    I, M = io.split(','), mo.split(',')
    if 'crash' in I:
        return 'crash', 'the scheduler crashed after observation %d (%s); the model expects %s next' % (
            len(I) - 1, ','.join(I[-5:-1]), ','.join(M[len(I) - 1:len(I) + 2]) or 'nothing')
    for i, (x, y) in enumerate(zip(I, M)):
        if x != y:
            return 'mismatch', 'observation %d is `%s` in the implementation and `%s` in the model (script %s)' % (i, x, y, script[:200])
    if len(I) != len(M):
        return 'mismatch', 'the implementation made %d observations, the model %d (script %s)' % (len(I), len(M), script[:200])
    if iu != mu:
        return 'mismatch', 'draws used %s vs %s (script %s)' % (iu, mu, script[:200])
    return 'ok', ''


def model_differential(res, binary, tier):
    """(d): decision functions + scheduler scripts, implementation vs Lean model on the recorded raw draws; F3 lines"""
    drv = os.path.join(C.LEAN, '.lake/build/bin/ymdriver_fibersched')
    r = subprocess.run([binary, 'pure', '--seed', str(C.seed())], capture_output=True, text=True, timeout=600)
    impl = [l for l in r.stdout.split('\n') if l]
    stats = {'GE': 0, 'POLL': 0, 'NI': 0, 'RN': 0, 'SS': 0, 'FW': 0, 'FWD': 0, 'F3': 0, 'SCHED': 0, 'SCHED_requests': 0, 'SCHED_crashes': 0}
    problems = []
    f3 = {'experiments': 0, 'with_draws_before_SetSeed': 0, 'failures': 0, 'example': None}
    if not impl or impl[-1] != 'done':
        return stats, ['harness `pure` mode did not finish (exit %d): %s' % (r.returncode, r.stderr[-300:])], 0, f3
    r2 = subprocess.run([binary, 'sched', '--seed', str(C.seed()), '--count', '400' if tier == 'quick' else '6000'],
                        capture_output=True, text=True, timeout=1800)
    simpl = [l for l in r2.stdout.split('\n') if l]
    if not simpl or simpl[-1] != 'done':
        problems.append('harness `sched` mode did not finish (exit %d): %s' % (r2.returncode, r2.stderr[-300:]))
        simpl = []
    impl = impl[:-1] + simpl
    for l in impl:
        k = l.split()[0]
        if k in stats:
            stats[k] += 1
        if k == 'FWD':
            d = dict(kv.split('=') for kv in l.split()[1:])
            if not (d['same'] == '1' and d['mirror'] == '1' and d['count'] == d['k'] == d['forwarded']):
                problems.append('ForwardToFaultRandomCount does not reproduce the engine state: ' + l)
        if k == 'F3':
            d = dict(kv.split('=') for kv in l.split()[1:])
            f3['experiments'] += 1
            f3['with_draws_before_SetSeed'] += int(d['drawn_before_SetSeed']) > 0
            if d['restored_with_recorded_count'] != d['original'] or d['count_after_restore'] != d['recorded_count']:
                f3['failures'] += 1
                f3['example'] = f3['example'] or l
    if not os.path.exists(drv):
        return stats, problems + ['ymdriver_fibersched is not built: the extracted functions were not validated against the implementation'], 0, f3
    m = subprocess.run([drv], input='\n'.join(impl) + '\n', capture_output=True, text=True, timeout=1800)
    model = [l for l in m.stdout.split('\n') if l]
    if len(model) != len(impl):
        problems.append('model driver answered %d lines for %d inputs (%s)' % (len(model), len(impl), m.stderr[-200:]))
    validated = 0
    samples = []
    crashes = 0
    for a, b in zip(impl, model):
        if a.startswith('SCHED '):
            kind, detail = compare_sched(a, b)
            if kind == 'ok':
                validated += 1
                stats['SCHED_requests'] += a.split('script=')[1].split(' = ')[0].count(';') + 1
                if len(samples) < 2:
                    samples.append(re.sub(r'raws=\S+', 'raws=…', a)[:400])
            elif kind == 'crash':
                crashes += 1
                stats['SCHED_crashes'] += 1
                if crashes <= 2:
                    res.violation(re.sub(r'raws=\S+', 'raws=…', a) + '\n# harness: c17 sched --seed %d (script number %d of the stream)\n# %s' % (
                        C.seed(), stats['SCHED_crashes'], detail),
                        'the fiber scheduler crashed on a scheduler script (%s): %s' % (a.split(' raws=')[0], detail),
                        name='C17_%s_sched_crash_%d.txt' % (tier, crashes))
            elif len(problems) < 5:
                problems.append('scheduler model vs implementation: ' + detail + ' [' + a.split(' raws=')[0] + ']')
        elif a.startswith('F3 '):
            continue
        elif a == b:
            validated += 1
        elif len(problems) < 5:
            problems.append('implementation `%s` vs model `%s`' % (a[:300], b[:300]))
    stats['samples'] = samples
    return stats, problems, validated, f3


F3_PROGRAM = '''# minimal program (public API only, no fibers needed: outside a fiber InjectFault decides and its yield is a no-op):
#   auto decisions = [](int n) { std::string s; for (int i = 0; i < n; ++i) { auto b = yaclib::GetInjectedCount(); yaclib::InjectFault();
#                                s += yaclib::GetInjectedCount() != b ? '1' : '0'; } return s; };
#   yaclib::SetFaultFrequency(3);
#   decisions(20);                                              // the process has drawn numbers (an earlier test, say)
#   yaclib::SetSeed(42); yaclib::fiber::SetInjectorState(0);
#   decisions(30);                                              // the run of interest, up to the checkpoint
#   auto count = yaclib::fiber::GetFaultRandomCount(); auto state = yaclib::fiber::GetInjectorState();   // recorded pair
#   auto original = decisions(64);
#   // --- "another process": from a fresh start the three documented calls
#   yaclib::SetSeed(42); yaclib::fiber::ForwardToFaultRandomCount(count); yaclib::fiber::SetInjectorState(state);
#   assert(decisions(64) == original);                          // failed before /repo f49f13c: `count` included the draws made before SetSeed(42)
'''


def run(res, tier):
    t0 = time.time()
    rng = random.Random(C.seed() * 104729 + 17)
    res.assumptions += [
        'FIBER backend, one OS thread (the engine is thread_local; all fibers of a run live on the thread that created the scheduler)',
        'integers are natural numbers in the model: no wrap-around of the virtual time (2^64 ns), the draw counter or the 32-bit injector counter (the latter is proved bounded)',
        'client programs use time through durations only (sleep_for / wait_for / WaitFor; an absolute deadline is now() + d) and do not print fiber ids or addresses: a restored run starts at virtual time 0 with other fiber ids',
        'the restore experiment restores inside the root fiber of the new process (starting a fiber consumes a draw) at a checkpoint where all other fibers were joined: the scheduler state is not part of the recorded pair',
        'fault configuration values are positive (0 for the yield frequency, the pick width or the sleep time divides by zero: F2 in notes/C17.md); atomic fail frequency 1 makes every weak CAS fail forever and is excluded',
        'hardware_concurrency is pinned by SetHardwareConcurrency (its default reads the machine)',
    ]
    seen_findings = set()
    problems = extract(res)
    ok, broken = C.proof_stage(res, 'C17', drivers=['ymdriver_fibersched'])
    broken = problems + broken
    try:
        missing, kinds, n_iter = lint_selftest()
        if missing:
            broken.append('lint self-test: the lint no longer flags %s in a probe that reads them' % ', '.join(missing))
        if n_iter != 2:
            broken.append('lint self-test: %d unordered-iteration hits on the probe (2 expected: range-for and begin(); find/end are lookups)' % n_iter)
    except Exception as e:
        broken.append('lint self-test failed to run: ' + str(e).split('\n')[0][:300])
        kinds = []
    binary = harness_binary()

    # ---- (a) + (b): run pairs inside one process and across perturbed processes
    lines, meta = gen_configs(rng, tier)
    variants = VARIANTS if tier != 'quick' else VARIANTS[:4]
    results = {}
    crashes = {}
    for v in variants:
        results[v[0]], cr = run_all(binary, lines, v)
        crashes[v[0]] = cr
    runs = 0
    distinct = set()
    mism = []
    dist = {'programs': {}, 'resumes': 0, 'injected': 0, 'rand': 0, 'spurious': 0, 'casfail': 0, 'events': 0, 'trace_lines': 0}
    base = results[variants[0][0]]
    for key, line in meta.items():
        ref = None
        for v in variants:
            rec = results[v[0]].get(key)
            if rec is None or len(rec['digests']) != 2:
                continue
            for d in rec['digests']:
                runs += 1
                t = digest_tuple(d)
                if ref is None:
                    ref = (t, v, int(d['pass']))
                    distinct.add(t[0])
                    prog = line.split('prog=')[1].split()[0]
                    dist['programs'][prog] = dist['programs'].get(prog, 0) + 1
                    for f, g in (('resumes', 'resumes'), ('injected', 'injected'), ('rand', 'rand'), ('spurious', 'spurious'),
                                 ('casfail', 'casfail'), ('nevents', 'events'), ('lines', 'trace_lines')):
                        dist[g] += int(d[f])
                elif t != ref[0]:
                    mism.append((key, line, ref, (t, v, int(d['pass']))))
    reported = 0
    for (key, line, a, b) in mism[:3]:
        which = 'same process, pass %d vs pass %d' % (a[2], b[2]) if a[1][0] == b[1][0] else \
            'process `%s` pass %d vs process `%s` pass %d' % (a[1][0], a[2], b[1][0], b[2])
        fields = [f for f, x, y in zip(DIGEST_FIELDS, a[0], b[0]) if x != y]
        hist = lines[:lines.index(line) + 1]
        why, _, _ = first_difference(binary, hist, key, a[1], a[2], hist, key, b[1], b[2])
        res.violation('%s\n# comparison: %s\n# differing digest fields: %s\n# %s\n# variants: %s | %s\n'
                      '# history: the %d configurations generated before this one by gen_configs(PRNG(VERIF_SEED), tier) ran in the same process' % (
            line, which, ', '.join(fields), why, a[1][0], b[1][0], len(hist) - 1),
            'two runs of the same (program, seed, configuration) differ (%s): %s' % (which, why),
            name='C17_%s_rerun_%d.txt' % (tier, reported))
        reported += 1
    crash_keys = sorted({c[0] for v in crashes.values() for c in v})
    for key in crash_keys[:3]:
        per = {vn: [c for c in cr if c[0] == key] for vn, cr in crashes.items()}
        everywhere = all(per[vn] for vn in per)
        line = meta.get(key, key)
        res.violation('%s\n# the harness process died while running this configuration (%s)\n# %s' % (
            line, 'in every process variant' if everywhere else 'NOT in every process variant: ' + str({k: bool(v) for k, v in per.items()}),
            str(next(iter([c for v in per.values() for c in v]), ''))[:500]),
            'the harness crashed on a configuration' + ('' if everywhere else ' in some processes only (not reproducible)'),
            name='C17_%s_crash_%s.txt' % (tier, key))

    # ---- what has to be reset between in-process runs (documentation; differences here are expected)
    probe_lines = []
    for i in range(12):
        s = rng.randrange(1, 2 ** 31)
        for mode in ('seed', 'none'):
            probe_lines.append('run p%d_%s prog=all size=1 seed=%d freq=5 pick=3 afail=3 passes=2 reset=%s' % (i, mode, s, mode))
    pr, _ = run_all(binary, probe_lines, VARIANTS[0])
    reset_needed = {}
    for mode in ('seed', 'none'):
        ks = [k for k in pr if k.endswith('_' + mode) and len(pr[k]['digests']) == 2]
        reset_needed['differs_when_reset_is_' + mode] = '%d/%d' % (
            len([k for k in ks if digest_tuple(pr[k]['digests'][0]) != digest_tuple(pr[k]['digests'][1])]), len(ks))

    # ---- (c) checkpoint / restore across processes
    rlines = gen_restore(rng, tier)
    rec, rcr = run_all(binary, rlines, VARIANTS[0])
    rep_lines = []
    neg_lines = []
    for l in rlines:
        key = l.split()[1]
        r = rec.get(key)
        if r is None or r['ckpt'] is None or len(r['digests']) != 1:
            continue
        count, state = r['ckpt']
        rep_lines.append(l.replace('rec ', 'rep ', 1) + ' count=%d state=%d' % (count, state))
        neg_lines.append(l.replace('rec %s' % key, 'rep %s_n' % key, 1) + ' count=%d state=%d' % (count + 1, state))
    rep, pcr = run_all(binary, rep_lines, VARIANTS[1])
    neg, _ = run_all(binary, neg_lines[:15], VARIANTS[2])
    restored = 0
    rmism = []
    for l in rep_lines:
        key = l.split()[1]
        a = rec[key]['digests'][0]
        b = rep.get(key, {'digests': []})['digests']
        if len(b) != 1:
            continue
        restored += 1
        distinct.add(a['hash'])
        if digest_tuple(a) != digest_tuple(b[0]):
            rmism.append((key, l, a, b[0]))
    for (key, l, a, b) in rmism[:3]:
        rec_line = next(x for x in rlines if x.split()[1] == key)
        why, _, _ = first_difference(binary, rlines[:rlines.index(rec_line) + 1], key, VARIANTS[0], 0,
                                     rep_lines[:rep_lines.index(l) + 1], key, VARIANTS[1], 1)
        fields = [f for f in DIGEST_FIELDS if a.get(f) != b.get(f)]
        res.violation('%s\n%s\n# comparison: continuation after the checkpoint (process A) vs continuation after restore (process B)\n'
                      '# differing digest fields: %s\n# %s' % (rec_line, l, ', '.join(fields), why),
                      'the run restored from (random count, injector state) does not continue like the original: ' + why,
                      name='C17_%s_restore_%d.txt' % (tier, reported))
        reported += 1
    for c in (rcr + pcr)[:2]:
        res.violation(str(c), 'the harness crashed in the restore experiment on configuration %s' % c[0],
                      name='C17_%s_restore_crash.txt' % tier)
    neg_diff = len([k for k in neg if len(neg[k]['digests']) == 1 and
                    digest_tuple(neg[k]['digests'][0]) != digest_tuple(rec[k[:-2]]['digests'][0])])

    # checkpoint states reached (state == frequency is the interesting one)
    ck_states = {}
    for l in rlines:
        r = rec.get(l.split()[1])
        if r and r['ckpt']:
            f = int(l.split('freq=')[1].split()[0])
            st = r['ckpt'][1]
            kind = 'state==freq' if st == f else ('state>freq' if st > f else 'state<freq')
            ck_states[kind] = ck_states.get(kind, 0) + 1
    if not ck_states.get('state==freq'):
        broken.append('the restore experiment never checkpointed with injector state == yield frequency')

    # ---- the fault configuration applied ONCE per process; every later run is preceded by SetSeed + SetInjectorState only
    #      (what the property says).  Each run must equal the same run made first thing in a new process.
    once_cfg = dict(freq=4, pick=10, afail=13, sleep=100, tick=10)
    once_lines = []
    for i in range(10 if tier == 'quick' else 60):
        prog = ['cas', 'strand', 'pool', 'all', 'coro'][i % 5]
        once_lines.append('run o%d prog=%s size=%d seed=%d freq=%d pick=%d afail=%d sleep=%d tick=%d passes=2 reset=seed+state apply=%d' % (
            i, prog, 1 + i % 2, rng.randrange(1, 2 ** 31), once_cfg['freq'], once_cfg['pick'], once_cfg['afail'], once_cfg['sleep'],
            once_cfg['tick'], 1 if i == 0 else 0))
    once, ocr = run_all(binary, once_lines, VARIANTS[0])
    once_diff = 0
    for i, l in enumerate(once_lines[1:], 1):
        key = l.split()[1]
        alone, acr = run_all(binary, [l.replace(' apply=0', ' apply=1')], VARIANTS[i % 2])
        ta = [digest_tuple(d) for d in alone.get(key, {'digests': []})['digests']]
        tb = [digest_tuple(d) for d in once.get(key, {'digests': []})['digests']]
        runs += len(ta) + len(tb)
        if len(ta) != 2 or len(tb) != 2 or len(set(ta + tb)) != 1:
            once_diff += 1
            if once_diff <= 2:
                why, _, _ = first_difference(binary, [l.replace(' apply=0', ' apply=1')], key, VARIANTS[i % 2], 0,
                                             once_lines[:i + 1], key, VARIANTS[0], 0 if (tb and ta and tb[0] != ta[0]) else 1)
                res.violation('%s\n# comparison: this run as the first run of a new process (configuration applied, then SetSeed + '
                              'SetInjectorState(0)) vs. as run number %d of a process in which the same configuration was applied once at '
                              'the start and only SetSeed + SetInjectorState(0) precede each run\n# history in that process:\n# %s\n# %s' % (
                                  l, i + 1, '\n# '.join(once_lines[:i]), why),
                              'a run after re-seeding and resetting the injector differs from the same run in a new process '
                              '(configuration applied once per process): ' + why, name='C17_%s_applyonce_%d.txt' % (tier, once_diff))
    for c in ocr[:1]:
        res.violation(str(c), 'the harness crashed in the apply-once experiment on configuration %s' % c[0], name='C17_%s_applyonce_crash.txt' % tier)

    # ---- fibers with equal virtual wake-up times on a fragmented heap (fiber objects not in ascending address order):
    #      pass 0 on the heap as it is, pass 1 after FragmentHeap (frag=2), and in another process fragmented before pass 0
    frag_lines = []
    for i in range(8 if tier == 'quick' else 60):
        frag_lines.append('run f%d prog=%s size=%d seed=%d freq=%d pick=%d afail=13 sleep=100 tick=%d passes=2 reset=seed+state' % (
            i, ['sleep', 'sleep', 'mixD', 'all'][i % 4], 1 + i % 3, rng.randrange(1, 2 ** 31), rng.choice([2, 5, 16]), rng.choice([2, 10]),
            rng.choice([1, 10])))
    fa, fcr1 = run_all(binary, [l + ' frag=2' for l in frag_lines], VARIANTS[0])
    fb, fcr2 = run_all(binary, [l + ' frag=1' for l in frag_lines], VARIANTS[2])
    frag_diff = 0
    for l in frag_lines:
        key = l.split()[1]
        ts = [(digest_tuple(d), 'same process: pass %s (pass 1 after FragmentHeap)' % d['pass']) for d in fa.get(key, {'digests': []})['digests']] + \
             [(digest_tuple(d), 'other process, heap fragmented before pass 0: pass %s' % d['pass']) for d in fb.get(key, {'digests': []})['digests']]
        runs += len(ts)
        if len(ts) != 4 or len({t for t, _ in ts}) != 1:
            frag_diff += 1
            if frag_diff <= 2:
                other = next((w for t, w in ts if t != ts[0][0]), 'missing run')
                same_proc = other.startswith('same')
                why, _, _ = first_difference(binary, [l + ' frag=2'], key, VARIANTS[0], 0,
                                             [l + (' frag=2' if same_proc else ' frag=1')], key, VARIANTS[0] if same_proc else VARIANTS[2],
                                             1 if same_proc else 0)
                res.violation('%s frag=2\n%s frag=1\n# comparison: %s vs %s\n# %s' % (l, l, ts[0][1], other, why),
                              'two runs of the same (program, seed, configuration) differ when the heap is fragmented (fiber objects no '
                              'longer allocated in ascending order): ' + why, name='C17_%s_fragmented_%d.txt' % (tier, frag_diff))
    for c in (fcr1 + fcr2)[:1]:
        res.violation(str(c), 'the harness crashed in the fragmented-heap experiment on configuration %s' % c[0], name='C17_%s_frag_crash.txt' % tier)

    # ---- the same comparison WITHOUT the address quarantine: what the allocator contributes (see notes/C17.md, F1).
    #      A difference whose first symptom is the outcome of a CAS after identical operation histories can only come
    #      from the compared word, i.e. from an address handed out again (ABA): known finding.  Anything else: violation.
    raw_rng = random.Random(C.seed() * 7 + 5)
    raw_lines, raw_meta = gen_configs(raw_rng, 'thorough' if tier == 'quick' else 'thorough')
    raw_lines = [l + ' quarantine=0' for l in raw_lines][: (4000 if tier == 'quick' else len(raw_lines))]
    raw = {}
    for v in (VARIANTS[0], VARIANTS[1], VARIANTS[2]):
        raw[v[0]], _ = run_all(binary, raw_lines, v)
    raw_runs = 0
    raw_diff = []
    for l in raw_lines:
        key = l.split()[1]
        ref = None
        for v in (VARIANTS[0], VARIANTS[1], VARIANTS[2]):
            for d in raw[v[0]].get(key, {'digests': []})['digests']:
                raw_runs += 1
                t = digest_tuple(d)
                if ref is None:
                    ref = (t, v, int(d['pass']))
                elif t != ref[0] and key not in [x[0] for x in raw_diff]:
                    raw_diff.append((key, l, ref, (t, v, int(d['pass']))))
    aba = 0
    cas_first = 0
    for (key, l, a, b) in raw_diff[:4]:
        hist = raw_lines[:raw_lines.index(l) + 1]
        why, x, y = first_difference(binary, hist, key, a[1], a[2], hist, key, b[1], b[2], values=True)
        # decisive test: the same history with the quarantine on (no address is handed out twice within a run)
        qhist = [h.replace(' quarantine=0', ' quarantine=1') for h in hist]
        qa, _ = run_all(binary, qhist, a[1])
        qb, _ = run_all(binary, qhist, b[1])
        qt = {digest_tuple(d) for q in (qa, qb) for d in q.get(key, {'digests': []})['digests']}
        if is_cas_outcome_only(x, y):
            cas_first += 1
        if len(qt) == 1:
            aba += 1
            key = 'F1 allocator address reuse: differs without the address quarantine, reproduces with it; first difference: %s' % (
                'outcome of a compare_exchange after identical operation histories' if is_cas_outcome_only(x, y) else 'other')
            report(res, key,
                   '%s\n# history: the %d configurations before it (gen_configs(PRNG(VERIF_SEED*7+5), thorough), quarantine=0)\n# %s' % (l, len(hist) - 1, why),
                   '%d of %d configurations do not reproduce without the address quarantine; e.g. `%s` after %d earlier configurations '
                   'in the process: %s' % (len(raw_diff), len(raw_lines), l, len(hist) - 1, why[:400]),
                   'C17_%s_F1_%s.txt' % (tier, key_safe(l)), seen_findings)
        else:
            res.violation('%s\n# history: the %d configurations before it (gen_configs(PRNG(VERIF_SEED*7+5), thorough)), with and without '
                          'address quarantine\n# %s' % (l, len(hist) - 1, why),
                          'two runs differ even when no address is reused within a run: ' + why,
                          name='C17_%s_raw_%s.txt' % (tier, key))

    # ---- former F3 (fixed in /repo f49f13c), armed: checkpoint in a process that drew numbers BEFORE SetSeed, the pair exactly
    #      as GetFaultRandomCount()/GetInjectorState() report it, restored in a fresh process
    f3 = {'cross_process_pairs': 0, 'cross_process_failures': 0}
    f3_lines = gen_restore(random.Random(C.seed() * 31 + 3), 'quick')[:8 if tier == 'quick' else 40]
    f3_lines = [l.replace('rec r', 'rec w', 1) + ' warm=1' for l in f3_lines]
    wrec, _ = run_all(binary, f3_lines, VARIANTS[0])
    wrep = []
    for l in f3_lines:
        r = wrec.get(l.split()[1])
        if r and r['ckpt'] and len(r['digests']) == 1:
            wrep.append(l.replace('rec ', 'rep ', 1).replace(' warm=1', '') + ' count=%d state=%d' % r['ckpt'])
    wout, _ = run_all(binary, wrep, VARIANTS[1])
    for l in wrep:
        k = l.split()[1]
        b = wout.get(k, {'digests': []})['digests']
        if len(b) == 1:
            f3['cross_process_pairs'] += 1
            if digest_tuple(b[0]) != digest_tuple(wrec[k]['digests'][0]):
                f3['cross_process_failures'] += 1
                if f3['cross_process_failures'] <= 2:
                    rec_line = next(x for x in f3_lines if x.split()[1] == k)
                    res.violation('%s\n%s\n# the recording process ran a program that draws numbers before SetSeed (warm=1); the pair is what '
                                  'GetFaultRandomCount()/GetInjectorState() reported at the checkpoint\n%s' % (rec_line, l, F3_PROGRAM),
                                  'a (GetFaultRandomCount, GetInjectorState) pair recorded in a process that drew numbers before SetSeed does '
                                  'not restore in a fresh process', name='C17_%s_restore_after_predraws_%d.txt' % (tier, f3['cross_process_failures']))
    if len(wrep) != len(f3_lines) or f3['cross_process_pairs'] != len(wrep):
        broken.append('restore-after-predraws experiment incomplete: %d recorded, %d replayed of %d' % (len(wrep), f3['cross_process_pairs'], len(f3_lines)))

    # ---- (d) the extracted functions / the model against the implementation
    mstats, mproblems, validated, f3pure = model_differential(res, binary, tier)
    f3.update({'pure_' + k: v for k, v in f3pure.items() if k != 'example'})
    if f3pure['failures']:
        res.violation('# harness: c17 pure --seed %d\n%s\n%s' % (C.seed(), f3pure['example'], F3_PROGRAM),
                      'restoring with the recorded (GetFaultRandomCount, GetInjectorState) pair does not continue like the original '
                      '(%d/%d experiments outside fibers, %d of them with draws before SetSeed)' % (
                          f3pure['failures'], f3pure['experiments'], f3pure['with_draws_before_SetSeed']),
                      name='C17_%s_restore_pure.txt' % tier)
    if f3pure['experiments'] == 0 or f3pure['with_draws_before_SetSeed'] == 0:
        broken.append('the restore-after-predraws monitor (harness lines `F3`) did not run')
    if not res.violations:
        if mproblems:
            res.violation('\n'.join(mproblems), 'correspondence broken: the Lean model (extracted decision functions) and the '
                          'implementation disagree and no pair of differing runs was found: ' + mproblems[0][:200],
                          no_input=True, name='C17_%s_correspondence.txt' % tier)
        elif broken:
            res.violation('\n'.join(broken), 'proof obligations of C17 no longer check: ' + broken[0][:200], no_input=True,
                          name='C17_%s_obligations.txt' % tier)
    samples = []
    for key in list(meta)[:2]:
        d = base.get(key)
        if d and d['digests']:
            samples.append(meta[key] + ' -> ' + ' '.join('%s=%s' % (f, d['digests'][0][f]) for f in DIGEST_FIELDS))
    if rep_lines:
        samples.append(rep_lines[0] + ' -> same digest as the recorded continuation')
    res.coverage.update({
        'evaluations': runs + 2 * restored + validated,
        'distinct_nontrivial': len(distinct),
        'rule': 'client programs (contended weak CAS, FairThreadPool, Strand, timed waits, coroutines, all of them) x seeds from '
                'PRNG(VERIF_SEED) x yield frequency x pick width x atomic fail frequency x sleep jitter x tick, each run twice per '
                'process in %d processes with perturbed environment/argv[0]/heap/ASLR and compared pairwise; plus checkpoint/restore '
                'pairs across processes; distinct = distinct trace hashes' % len(variants),
        'samples': samples,
        'traces_validated_against_impl': validated,
        'distribution': dict(dist, configurations=len(meta), runs_compared=runs, process_variants=[v[0] for v in variants],
                             restore_pairs=restored, restore_negative_controls='%d/%d differ when the count is off by one' % (neg_diff, len(neg)),
                             reset_between_inprocess_runs=reset_needed, model_differential=mstats,
                             without_address_quarantine=dict(configurations=len(raw_lines), runs=raw_runs, differing=len(raw_diff),
                                                             examined=min(4, len(raw_diff)), reproduce_with_quarantine=aba, first_difference_is_a_cas_outcome=cas_first),
                             restore_after_draws_before_SetSeed=f3, checkpoint_injector_states=ck_states,
                             apply_config_once=dict(runs=len(once_lines), differing=once_diff),
                             fragmented_heap=dict(configurations=len(frag_lines), differing=frag_diff),
                             lint_selftest_kinds=kinds),
        'compared': DIGEST_FIELDS,
        'broken_obligations': broken,
        'residual': 'address-, clock- or iteration-order dependence cannot be exhibited by a model: it is covered only by the lint '
                    '(lint_clean, with a self-test on a probe) and by the perturbed re-runs',
        'wall_runs_s': round(time.time() - t0, 1),
    })
    res.notes.append('documentation-only findings are listed in notes/C17.md: division by zero for configuration value 0 (F2); '
                     'D8 / D12 (scheduler crashes) were fixed in /repo 33a96a1 and are no longer tolerated anywhere in this check')
    # every open finding of this property is announced on every run: F1 depends on what the allocator hands out, so a run
    # may not re-exhibit it; the line then says so (it suppresses nothing: suppression happens in report() by `match` only)
    for e in open_findings():
        if e.get('id') not in seen_findings:
            seen_findings.add(e.get('id'))
            res.known_finding(e['what'] + ' [this run: not re-exhibited: %d of %d configurations differed without the address '
                              'quarantine (%d runs)]' % (len(raw_diff), len(raw_lines), raw_runs))


def replay(path):
    lines = [l.rstrip('\n') for l in open(path)]
    cfg = [l for l in lines if l.startswith(('run ', 'rec ', 'rep '))]
    if not cfg:
        print('\n'.join(lines))
        print('(this replay names a broken obligation / correspondence, there is no run to repeat)')
        return 1
    binary = harness_binary()
    bad = 0
    if cfg[0].startswith('run '):
        seen = {}
        for v in VARIANTS:
            recs, crashed = run_batch(binary, [cfg[0]], v)
            for k, r in recs.items():
                for d in r['digests']:
                    print('%-12s pass=%s %s' % (v[0], d['pass'], ' '.join('%s=%s' % (f, d[f]) for f in DIGEST_FIELDS)))
                    seen.setdefault(digest_tuple(d), []).append((v[0], d['pass']))
            if crashed:
                print('%-12s CRASH %s' % (v[0], crashed))
                bad += 1
        if len(seen) > 1:
            bad += 1
    else:
        rec_line = next(l for l in cfg if l.startswith('rec '))
        a, _ = run_batch(binary, [rec_line], VARIANTS[0])
        key = rec_line.split()[1]
        count, state = a[key]['ckpt']
        rep_line = rec_line.replace('rec ', 'rep ', 1).replace(' warm=1', '') + ' count=%d state=%d' % (count, state)
        b, _ = run_batch(binary, [rep_line], VARIANTS[1])
        da, db = a[key]['digests'][0], b[key]['digests'][0]
        print('recorded  ' + ' '.join('%s=%s' % (f, da[f]) for f in DIGEST_FIELDS))
        print('restored  ' + ' '.join('%s=%s' % (f, db[f]) for f in DIGEST_FIELDS))
        if digest_tuple(da) != digest_tuple(db):
            bad += 1
    print('VIOLATION reproduced' if bad else 'no difference')
    return 1 if bad else 0
