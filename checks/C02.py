"""C02 — program-level pipeline check (DESIGN.md §3 C02): theorems of Props/C02.lean, T1 dispatch tables, T2 kernel skeletons,
T3 differential of harness/pipe.cpp (real library) against the Lean mechanism `mech` and the sequential reading `spec`."""
from vlib import apiprobe
from vlib import pipecheck


def run(res, tier):
    apiprobe.stage(res, 'C02', tier)  # every public form of the pipeline / async API still instantiates (vlib/apiprobe.py)
    pipecheck.run(res, 'C02', tier)


def replay(path):
    r = apiprobe.replay(path)
    if r is not None:
        return r
    return pipecheck.replay('C02', path)
