"""C01 — Promise → Future hand-off, exactly once, intact (DESIGN.md §3 C01)."""
from vlib import apiprobe
from vlib import common as C
from vlib import conc

RULES = ['pXchg.empty', 'pXchg.cont', 'pXchg.drop', 'pXchg.event', 'pXchg.target', 'pInvoke', 'pSubmit', 'pInvokeSub',
         'pForward', 'pEvLock', 'pEvUnlock', 'cAttLoad.empty', 'cAttLoad.full', 'cCasOk', 'cCasFail', 'cInvoke', 'cSubmit',
         'cInvokeSub', 'cForward', 'cReadyLoad', 'cReady.true', 'cReady.false', 'cGetcLoad', 'cGetc.some', 'cGetc.none',
         'cWaitLock', 'cWaitSleep', 'cWaitDone', 'cGot']
STALE = ['cAttLoad.empty.stale', 'cAttLoad.full.stale', 'cReadyLoad.stale', 'cGetcLoad.stale']


def run(res, tier):
    res.assumptions += [
        'two threads (one producer, one consumer) as the property quantifies; the consumer program is any list of Ready/Get const&/Wait followed by one consuming operation',
        'the model allows stale pre-check loads; the FIBER backend never produces them (model behaviours ⊇ implementation behaviours)',
        'blocking is modelled through MutexEvent\'s mutex; wait queues / condition variable internals are the fiber scheduler\'s (C18)',
    ]
    apiprobe.stage(res, 'C01', tier)  # every public form of the area still instantiates (vlib/apiprobe.py, harness/api_probe_*.cpp)
    conc.concurrent_check(
        res, 'C01', tier, 'c01.cpp', 'unique', RULES,
        quick_args=['--mode', 'dfs', '--pb', '2', '--wb', '1'],
        thorough_args=['--mode', 'dfs', '--pb', '5', '--wb', '1', '--max-exec', '2000000', '--big'],
        search_args=[['--mode', 'dfs', '--pb', '3', '--wb', '2', '--max-exec', '300000'],
                     ['--mode', 'random', '--random-runs', '3000']],
        unmodelled_ok=STALE)


def replay(path):
    r = apiprobe.replay(path)
    if r is not None:
        return r
    return conc.replay('C01', path)
