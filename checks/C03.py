"""C03 — everything the library owns is released exactly once, on every path (DESIGN.md §3 C03).

Sequential / program-level part: theorems of Props/C03.lean over the pipeline model, T1 dispatch tables, T2 kernel
skeletons, T3 differential of harness/pipe.cpp (instance-counted functors, live heap blocks after every line) against
the Lean mechanism `mech` and the sequential reading `spec` (vlib/pipecheck.py).

Concurrent part: Props/C03.lean also carries the ownership corollaries of the concurrent models (Unique, Shared, When,
Coro, Strand, Pool, Wait, Event, CoMutex, CoSharedMutex); on the implementation every schedule-explorer harness is re-run
with the ownership monitor of harness/common/own.hpp (vlib/owncheck.py): leak at quiescence / double free / write after
free / crash on poisoned memory, each with scenario + choice string as replay."""
from vlib import owncheck
from vlib import pipecheck


def run(res, tier):
    pipecheck.run(res, 'C03', tier)
    n0 = len(res.violations)
    owncheck.stage(res, tier)
    if any(not no_input for (_, no_input, _) in res.violations[n0:]):
        # the monitor found a failing schedule: a broken obligation (e.g. a T2 tie of one of the imported concurrent models)
        # is then not `no-failing-input-found` (DESIGN §2.4: found ⇒ the input is the violation)
        res.violations = [v for v in res.violations if not (v[1] and v[0].endswith('_obligations.txt'))]


def replay(path):
    if owncheck.is_own_replay(path):
        return owncheck.replay(path)
    return pipecheck.replay('C03', path)
