"""C03 — program-level pipeline check (DESIGN.md §3 C03): theorems of Props/C03.lean, T1 dispatch tables, T2 kernel skeletons,
T3 differential of harness/pipe.cpp (real library) against the Lean mechanism `mech` and the sequential reading `spec`."""
from vlib import pipecheck


def run(res, tier):
    pipecheck.run(res, 'C03', tier)


def replay(path):
    return pipecheck.replay('C03', path)
