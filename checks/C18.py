"""C18 — yaclib_std locks, condition variables and threads under fibers (DESIGN.md §3 C18)."""
import os

from vlib import common as C
from vlib import conc
from vlib import x_fibersync

MX = ['mx.lockStart', 'mx.lockAcq', 'mx.lockAcq.relock', 'mx.lockPark', 'mx.lockPark.relock', 'mx.tryOk', 'mx.tryFail',
      'mx.unlock.none', 'mx.unlock.wake', 'mx.tlfFast', 'mx.tlfPark', 'mx.tlfPark.now', 'mx.tlfRecheckAcq', 'mx.tlfRepark',
      'mx.tlfTimeout', 'mx.cvWait', 'mx.cvWaitFor', 'mx.cvWaitFor.now', 'mx.cvTimeout', 'mx.notifyOne.none',
      'mx.notifyOne.wake', 'mx.notifyAll', 'mx.sleepStart', 'mx.sleepWake', 'mx.finish']
RM = ['rm.lockFast', 'rm.lockFast.again', 'rm.lockPark', 'rm.lockRecheckAcq', 'rm.lockRepark', 'rm.tryOk', 'rm.tryOk.again',
      'rm.tryFail', 'rm.unlock.last', 'rm.unlock.last.wake', 'rm.unlock.inner', 'rm.tlfFast', 'rm.tlfPark', 'rm.tlfRecheckAcq',
      'rm.tlfRepark', 'rm.tlfTimeout', 'rm.sleepStart', 'rm.sleepWake', 'rm.finish']
SM = ['sm.xFast', 'sm.xPark', 'sm.xRecheckAcq', 'sm.xRepark', 'sm.tryXOk', 'sm.tryXFail', 'sm.unlock', 'sm.unlock.writer',
      'sm.unlock.readers', 'sm.unlock.readers.writer', 'sm.sFast', 'sm.sPark', 'sm.sRecheckAcq', 'sm.sRepark', 'sm.trySOk',
      'sm.trySFail', 'sm.unlockS.none', 'sm.unlockS.wake', 'sm.unlockS.inner', 'sm.txFast', 'sm.txPark', 'sm.txRecheckAcq',
      'sm.txRepark', 'sm.txTimeout', 'sm.tsFast', 'sm.tsPark', 'sm.tsRecheckAcq', 'sm.tsRepark', 'sm.tsTimeout',
      'sm.sleepStart', 'sm.sleepWake', 'sm.finish']
TH = ['th.joinStart.running', 'th.joinStart.finished', 'th.joinRet', 'th.work', 'th.finish', 'th.set', 'th.set.null',
      'th.set.null.initialised', 'th.get.own', 'th.get.own.null', 'th.get.own.null.initialised', 'th.get.default',
      'th.get.initialiser', 'th.copy', 'th.copy.null', 'th.sleepStart', 'th.sleepWake']
RULES = MX + RM + SM + TH


def extract(res):
    """T1: regenerate Extracted/FiberSync.lean (the method bodies of the locks as Lean functions) from the current tree.
    The translator fails closed: on failure the generated file does not compile and the bridge theorems are broken."""
    lib = C.build_lib('fiber')
    try:
        text = x_fibersync.generate(C.REPO, os.path.join(lib, 'include'), C.WORK)
        res.coverage['translator_x_fibersync'] = 'ok'
    except Exception as e:  # noqa: BLE001
        msg = str(e).split('\n')[0][:300].replace('"', "'")
        text = x_fibersync.HEADER + '\n-- the translator failed: nothing below is trustworthy\nexample : "x_fibersync failed: %s" = "" := rfl\n' % msg
        res.coverage['translator_x_fibersync'] = 'FAILED: ' + msg
    C.write_if_changed(os.path.join(C.LEAN, 'YaclibModel/Extracted/FiberSync.lean'), text)


def link_probe(res):
    """regression probe for D11 (fixed 72143ee): a program that calls the cv_status-returning timed waits must link"""
    try:
        C.build_harness('c18_link', 'fiber', ['c18_link.cpp'])
        return 'links'
    except C.BuildError as e:
        if 'undefined reference' in str(e):
            res.violation(str(e)[-3000:], 'yaclib_std::condition_variable::wait_for/wait_until without predicate do not link '
                          '(harness/c18_link.cpp)', name='C18_link_probe.txt')
            return 'undefined reference'
        raise


def run(res, tier):
    res.assumptions += [
        'cooperative scheduler abstraction: a fiber runs atomically between switch points; any fiber that is not blocked may move next '
        '(a superset of the real run queue; injected yields are invisible); NotifyOne wakes a scheduler-chosen waiter',
        'the caller of unlock / unlock_shared / cv.wait holds the lock in that mode (std precondition); otherwise every fiber may start '
        'any operation at any time (all op sequences, unboundedly many fibers)',
        'virtual time: labels that read the clock carry the time, it never decreases; jitter of timed waits is a label parameter',
        'the harness suppresses preemptions between `call` and `ret` of an operation and offers one right after `ret` (the wrapper\'s '
        'injection points touch no shared state); blocking switches inside the primitives are all explored',
        'fiber_dbg build: the library\'s own YACLIB_DEBUG/ASSERT are turned into callbacks and used as an extra monitor',
    ]
    extract(res)
    res.coverage['link_probe_cv_wait_for'] = link_probe(res)
    # open findings (none for C18 at the moment) come from /verif/known_findings.json through conc.concurrent_check
    conc.concurrent_check(
        res, 'C18', tier, 'c18.cpp', 'fibersync', RULES,
        quick_args=['--mode', 'dfs', '--pb', '2', '--wb', '0', '--max-exec', '30000', '--random-scenarios', '16'],
        thorough_args=['--mode', 'dfs', '--pb', '3', '--wb', '0', '--max-exec', '400000', '--random-scenarios', '80'],
        search_args=[['--mode', 'dfs', '--pb', '3', '--wb', '0', '--max-exec', '200000', '--random-scenarios', '40'],
                     ['--mode', 'random', '--random-runs', '5000', '--random-scenarios', '40']],
        known=[], lib_kind='fiber_dbg')


def replay(path):
    return conc.replay('C18', path, lib_kind='fiber_dbg')
