"""C18 — yaclib_std locks, condition variables and threads under fibers (DESIGN.md §3 C18)."""
import os

from vlib import common as C
from vlib import conc
from vlib import x_fibersync

MX = ['mx.lockStart', 'mx.lockAcq', 'mx.lockAcq.relock', 'mx.lockPark', 'mx.lockPark.relock', 'mx.tryOk', 'mx.tryFail',
      'mx.unlock.none', 'mx.unlock.wake', 'mx.tlfFast', 'mx.tlfPark', 'mx.tlfPark.d8', 'mx.tlfWokenAcq',
      'mx.tlfWokenAcq.barge', 'mx.tlfTimeout', 'mx.cvWait', 'mx.cvWaitFor', 'mx.cvWaitFor.d8', 'mx.cvTimeout',
      'mx.notifyOne.none', 'mx.notifyOne.wake', 'mx.notifyAll', 'mx.sleepStart', 'mx.sleepWake', 'mx.finish']
RM = ['rm.lockFast', 'rm.lockFast.again', 'rm.lockPark', 'rm.tryOk', 'rm.tryOk.again', 'rm.tryFail', 'rm.unlock.last',
      'rm.unlock.inner', 'rm.tlfFast', 'rm.tlfPark', 'rm.tlfTimeout', 'rm.sleepStart', 'rm.sleepWake', 'rm.finish']
SM = ['sm.xFast', 'sm.xPark', 'sm.xWokenAcq', 'sm.xWokenAcq.barge', 'sm.tryXOk', 'sm.tryXFail', 'sm.unlock.none',
      'sm.unlock.wake', 'sm.unlock.shared', 'sm.sFast', 'sm.sPark', 'sm.sWokenAcq', 'sm.sWokenAcq.barge', 'sm.trySOk',
      'sm.trySFail', 'sm.unlockS.none', 'sm.unlockS.wake', 'sm.unlockS.inner', 'sm.txFast', 'sm.txPark', 'sm.txWokenAcq',
      'sm.txWokenAcq.barge', 'sm.txTimeout', 'sm.tsFast', 'sm.tsPark', 'sm.tsWokenAcq', 'sm.tsWokenAcq.barge',
      'sm.tsTimeout', 'sm.sleepStart', 'sm.sleepWake', 'sm.finish']
TH = ['th.joinStart.running', 'th.joinStart.finished', 'th.joinRet', 'th.work', 'th.finish', 'th.setP', 'th.getP.own',
      'th.getP.default', 'th.setQ', 'th.copyQP', 'th.copyQP.same', 'th.getQ.own', 'th.getQ.default', 'th.getL', 'th.sleepStart', 'th.sleepWake']
RULES = MX + RM + SM + TH
# Step rules of the models that the implementation cannot reach: D4 (nobody ever notifies the recursive mutex' queue)
# makes the continuation after the wait dead code
UNREACHABLE = ['rm.lockWokenAcq', 'rm.tlfWokenAcq']
# rules that exist only in the `fixed` / `patch` / `loop` variants of the models (the proposed repairs, notes/C18_proposed_patches.diff);
# they are exercised by running the harness with `--fixed` on a library that has the patch applied (see notes/C18.md)
REPAIRED_ONLY = ['mx.tlfRecheckAcq', 'mx.tlfRepark', 'rm.lockRecheckAcq', 'rm.lockRepark', 'rm.unlock.last.wake', 'rm.tlfRecheckAcq',
                 'rm.tlfRepark', 'sm.unlockF.none', 'sm.unlockF.wake', 'sm.xRecheckAcq', 'sm.xRepark', 'sm.sParkF', 'sm.sRecheckAcq',
                 'sm.sRepark', 'sm.txFastF', 'sm.txRecheckAcq', 'sm.txRepark', 'sm.tsRecheckAcq', 'sm.tsRepark']

D4 = ('D4 fiber::RecursiveMutex::unlock never notifies its wait queue: a fiber blocked in recursive(_timed)_mutex::lock() '
      'sleeps forever although the mutex was released (scenario `rec f0=L,L,U,U f1=L,U`)')
D5 = ('D5 fiber::SharedTimedMutex::TimedWaitHelper always ends in SharedLockHelper(): an exclusive try_lock_for/until registers as '
      'a shared owner, so try_lock_shared succeeds next to it, and its unlock() leaves _shared_owners_count at 1 '
      '(scenario `sharedt f0=LS,US f1=F50,U f2=TS,US`)')
D5B = ('D5 (aftermath, sequential use) after an exclusive try_lock_for + unlock and one reader the shared_timed_mutex stays _occupied '
       'with no holder: lock() parks forever, try_lock fails (scenario `sharedt f0=F50,U f1=LS,US f2=L,U`)')
D6T = ('D6 fiber::TimedMutex::TimedWaitHelper takes the lock after a wake-up without re-checking _occupied: two holders of a '
       'timed_mutex after barging (scenario `timed f0=L,U f1=F50,U f2=L,U`)')
D6S = ('D6 fiber::SharedMutex::lock / lock_shared / SharedTimedMutex::TimedWaitHelper take the lock after a wake-up without re-checking: '
       'writer next to reader after barging (scenario `shared f0=LS,US f1=L,U f2=LS,US`)')
D7 = ('D7 fiber::SharedMutex::lock_shared parks on the exclusive queue and unlock() wakes one fiber of it: a reader stays parked while '
      'the lock is held by readers only (scenario `shared f0=L,U f1=LS,J2,US f2=LS,US`)')
D567 = ('D5/D6/D7 (consequence) shared(_timed)_mutex flags no longer describe the holders after one of the defective paths was taken')
D8 = ('D8 Scheduler::SleepPreemptive dereferences _sleep_list.end() when the jittered deadline equals the current virtual time '
      '(the library\'s own YACLIB_DEBUG fires; scenario `timed f0=L,U f1=F0,U`)')
D12 = ('D12 Scheduler::RunLoop calls GetNext() on an empty run queue when a stale empty sleep-list bucket older than now exists '
       '(a timed waiter was notified before its deadline and resumed after it) and the only other fibers sleep: null dereference in '
       'PollRandomElementFromList (scenario `cv f0=L,WF20,U f1=L,WF20,U f2=N1`)')
D13 = ('D13 ThreadLocalPtrProxy indices are per pointee type but the TLS maps are keyed by the index alone: thread-local pointers of '
       'different types alias (scenario `tls f0=GL,P1,GL f1=GL,G`)')
D14 = ('D14 ThreadLocalPtrProxy::operator=(const ThreadLocalPtrProxy&) writes the process-wide default instead of the fiber\'s slot: '
       '`q = p` leaks to other fibers (scenario `tls f0=P1,C,GQ,E,GQ f1=GQ,P2,E,GQ`)')
D11 = ('D11 yaclib_std::condition_variable::wait_for/wait_until without predicate do not link: CVStatusFrom is declared constexpr in '
       'fault/detail/condition_variable.hpp and defined only in src/fault/condition_variable.cpp (probe harness/c18_link.cpp)')

KNOWN = [
    dict(match=r'prim=rect? .*\| f\d+ is parked in an exclusive acquisition forever although the lock is available', what=D4),
    dict(match=r'prim=timed .*\| incompatible holders: f\d+ acquired exclusive by try_lock_for while held by', what=D6T),
    dict(match=r'prim=timed .*\| library assertion fired: timed_mutex\.hpp:\d+ .*about to be locked twice', what=D6T),
    dict(match=r'prim=sharedt .*\| incompatible holders: (f\d+ acquired exclusive by try_lock_for|.*:X\d*\(try_lock_for\))', what=D5),
    dict(match=r'prim=sharedt .*\| f\d+ is parked in an? (exclusive|shared) acquisition forever although the lock is available \(holders: none\)', what=D5B),
    dict(match=r'prim=sharedt .*\| try_lock(_shared)? returned false although', what=D5B),
    dict(match=r'prim=shared .*\| f\d+ is parked in a shared acquisition forever although the lock is available', what=D7),
    dict(match=r'prim=sharedt? .*\| incompatible holders: f\d+ acquired (exclusive by lock|shared by lock_shared|shared by try_lock_shared_for) while', what=D6S),
    dict(match=r'prim=sharedt? .*\| (incompatible holders|f\d+ is parked in an? (exclusive|shared) acquisition forever|library assertion fired: shared_timed_mutex\.hpp)', what=D567),
    dict(match=r'\| library assertion fired: scheduler\.cpp:\d+ it == _sleep_list\.end\(\)', what=D8),
    dict(match=r'prim=(cv|timed|rect|sharedt|thread) .*\| the library crashed with signal 11 inside the fiber scheduler', what=D12),
    dict(match=r'prim=tls .*\| a thread-local pointer of another type', what=D13),
    dict(match=r'prim=tls .*\| second thread-local pointer', what=D14),
]


def link_probe(res):
    """D11: does a program that calls the cv_status-returning timed waits link?"""
    try:
        C.build_harness('c18_link', 'fiber', ['c18_link.cpp'])
        return 'links'
    except C.BuildError as e:
        if 'undefined reference' in str(e) and 'CVStatusFrom' in str(e):
            res.known_finding(D11)
            return 'undefined reference to yaclib::detail::CVStatusFrom(WaitStatus)'
        raise


def extract(res):
    """T1: regenerate Extracted/FiberSync.lean (the method bodies of the locks as Lean functions) from the current tree.
    The translator fails closed: on failure the generated file does not compile and the bridge theorems are broken."""
    lib = C.build_lib('fiber')
    try:
        text = x_fibersync.generate(C.REPO, os.path.join(lib, 'include'), C.WORK)
        res.coverage['translator_x_fibersync'] = 'ok'
    except Exception as e:  # noqa: BLE001
        msg = str(e).split('\n')[0][:300].replace('"', "'")
        text = x_fibersync.HEADER + '\n-- the translator failed: nothing below is trustworthy\nexample : "x_fibersync failed: %s" = "" := rfl\n' % msg
        res.coverage['translator_x_fibersync'] = 'FAILED: ' + msg
    C.write_if_changed(os.path.join(C.LEAN, 'YaclibModel/Extracted/FiberSync.lean'), text)


def run(res, tier):
    res.assumptions += [
        'cooperative scheduler abstraction: a fiber runs atomically between switch points; any fiber that is not blocked may move next '
        '(a superset of the real run queue; injected yields are invisible); NotifyOne wakes a scheduler-chosen waiter',
        'the caller of unlock / unlock_shared / cv.wait holds the lock in that mode (std precondition); otherwise every fiber may start '
        'any operation at any time (all op sequences, unboundedly many fibers)',
        'virtual time: labels that read the clock carry the time, it never decreases; jitter of timed waits is a label parameter',
        'the harness suppresses preemptions between `call` and `ret` of an operation and offers one right after `ret` (the wrapper\'s '
        'injection points touch no shared state); blocking switches inside the primitives are all explored',
        'fiber_dbg build: the library\'s own YACLIB_DEBUG/ASSERT are turned into callbacks and used as an extra monitor (D8)',
    ]
    extract(res)
    res.coverage['link_probe_cv_wait_for'] = link_probe(res)
    stats, val = conc.concurrent_check(
        res, 'C18', tier, 'c18.cpp', 'fibersync', RULES,
        quick_args=['--mode', 'dfs', '--pb', '2', '--wb', '0', '--max-exec', '30000', '--random-scenarios', '16'],
        thorough_args=['--mode', 'dfs', '--pb', '3', '--wb', '0', '--max-exec', '400000', '--random-scenarios', '80'],
        search_args=[['--mode', 'dfs', '--pb', '3', '--wb', '0', '--max-exec', '200000', '--random-scenarios', '40'],
                     ['--mode', 'random', '--random-runs', '5000', '--random-scenarios', '40']],
        known=KNOWN, unmodelled_ok=UNREACHABLE, lib_kind='fiber_dbg')
    res.coverage['rules_of_repaired_variants_not_expected_on_this_tree'] = REPAIRED_ONLY
    seen_repaired = [r for r in REPAIRED_ONLY if (val or {}).get('rules', {}).get(r, 0) > 0]
    if seen_repaired:
        res.notes.append('rules of the repaired model variants were exercised: %s' % seen_repaired)
    res.coverage['known_defects_exhibited'] = sorted({m.split(' ')[0] for m in res.known})


def replay(path):
    return conc.replay('C18', path, lib_kind='fiber_dbg')
