"""C18 — yaclib_std locks, condition variables and threads under fibers (DESIGN.md §3 C18)."""
import os
import re

from vlib import common as C
from vlib import conc
from vlib import x_alias
from vlib import x_fibersync

MX = ['mx.lockStart', 'mx.lockAcq', 'mx.lockAcq.relock', 'mx.lockPark', 'mx.lockPark.relock', 'mx.tryOk', 'mx.tryFail',
      'mx.unlock.none', 'mx.unlock.wake', 'mx.tlfFast', 'mx.tlfPark', 'mx.tlfPark.now', 'mx.tlfRecheckAcq', 'mx.tlfRepark',
      'mx.tlfTimeout', 'mx.cvWait', 'mx.cvWaitFor', 'mx.cvWaitFor.now', 'mx.cvWaitUntil', 'mx.cvWaitUntil.past', 'mx.cvTimeout', 'mx.notifyOne.none',
      'mx.notifyOne.wake', 'mx.notifyAll', 'mx.sleepStart', 'mx.sleepWake', 'mx.finish']
RM = ['rm.lockFast', 'rm.lockFast.again', 'rm.lockPark', 'rm.lockRecheckAcq', 'rm.lockRepark', 'rm.tryOk', 'rm.tryOk.again',
      'rm.tryFail', 'rm.unlock.last', 'rm.unlock.last.wake', 'rm.unlock.inner', 'rm.tlfFast', 'rm.tlfPark', 'rm.tlfRecheckAcq',
      'rm.tlfRepark', 'rm.tlfTimeout', 'rm.sleepStart', 'rm.sleepWake', 'rm.finish']
SM = ['sm.xFast', 'sm.xPark', 'sm.xRecheckAcq', 'sm.xRepark', 'sm.tryXOk', 'sm.tryXFail', 'sm.unlock', 'sm.unlock.writer',
      'sm.unlock.readers', 'sm.unlock.readers.writer', 'sm.sFast', 'sm.sPark', 'sm.sRecheckAcq', 'sm.sRepark', 'sm.trySOk',
      'sm.trySFail', 'sm.unlockS.none', 'sm.unlockS.wake', 'sm.unlockS.inner', 'sm.txFast', 'sm.txPark', 'sm.txRecheckAcq',
      'sm.txRepark', 'sm.txTimeout', 'sm.tsFast', 'sm.tsPark', 'sm.tsRecheckAcq', 'sm.tsRepark', 'sm.tsTimeout',
      'sm.sleepStart', 'sm.sleepWake', 'sm.finish']
TH = ['th.joinStart.running', 'th.joinStart.finished', 'th.joinRet', 'th.work', 'th.finish', 'th.set', 'th.set.null',
      'th.set.null.initialised', 'th.get.own', 'th.get.own.null', 'th.get.own.null.initialised', 'th.get.default',
      'th.get.initialiser', 'th.copy', 'th.copy.null', 'th.sleepStart', 'th.sleepWake']
RULES = MX + RM + SM + TH


def extract(res):
    """T1: regenerate Extracted/FiberSync.lean (the method bodies of the locks as Lean functions) from the current tree.
    The translator fails closed: on failure the generated file does not compile and the bridge theorems are broken."""
    lib = C.build_lib('fiber')
    try:
        text = x_fibersync.generate(C.REPO, os.path.join(lib, 'include'), C.WORK)
        res.coverage['translator_x_fibersync'] = 'ok'
    except Exception as e:  # noqa: BLE001
        msg = str(e).split('\n')[0][:300].replace('"', "'")
        text = x_fibersync.HEADER + '\n-- the translator failed: nothing below is trustworthy\nexample : "x_fibersync failed: %s" = "" := rfl\n' % msg
        res.coverage['translator_x_fibersync'] = 'FAILED: ' + msg
    C.write_if_changed(os.path.join(C.LEAN, 'YaclibModel/Extracted/FiberSync.lean'), text)


def extract_alias(res):
    """T1 (text): regenerate Extracted/FiberAlias.lean — which std name is which type per backend (yaclib_std alias headers) and the
    class shells of the injection wrappers; Props/C18.lean proves the tables are the expected ones.  Fails closed."""
    try:
        text = x_alias.generate(C.REPO)
        res.coverage['translator_x_alias'] = 'ok'
    except Exception as e:  # noqa: BLE001
        msg = str(e).split('\n')[0][:300].replace('"', "'")
        text = ('namespace Yaclib.Extracted.FiberAlias\n-- the translator failed: nothing below is trustworthy\n'
                'example : "x_alias failed: %s" = "" := rfl\nend Yaclib.Extracted.FiberAlias\n' % msg)
        res.coverage['translator_x_alias'] = 'FAILED: ' + msg
    C.write_if_changed(os.path.join(C.LEAN, 'YaclibModel/Extracted/FiberAlias.lean'), text)


def link_probe(res):
    """every member of every yaclib_std lock / cv / thread type, every overload, every clock, must compile and link
    (harness/c18_link.cpp; regression for D11, fixed 72143ee)"""
    try:
        C.build_harness('c18_link', 'fiber', ['c18_link.cpp'])
        return 'links'
    except C.BuildError as e:
        res.violation(str(e)[-3000:], 'a program that calls every member of the yaclib_std lock, condition variable and thread types '
                      'does not build under FIBER (harness/c18_link.cpp): ' + (re.findall(r'(?:error|undefined reference)[^\n]*', str(e)) or ['?'])[0][:200],
                      name='C18_link_probe.txt')
        return 'does not build'


def native_handle_probe(res):
    """D15: native_handle() of the lock types (harness/c18_link_nh.cpp).  An open entry of known_findings.json turns the failure
    into KNOWN-FINDING; anything else about this probe is a violation."""
    try:
        C.build_harness('c18_link_nh', 'fiber', ['c18_link_nh.cpp'])
        return 'links'
    except C.BuildError as e:
        syms = sorted(set(re.findall(r"undefined reference to `([^']+)'", str(e))))
        if syms and all(x.endswith('::native_handle()') for x in syms):
            key = 'D15 native_handle does not link: ' + ', '.join(syms)
        else:
            key = 'native_handle probe does not build: ' + (re.findall(r'error[^\n]*', str(e)) or ['?'])[0][:200]
        for k in C.load_findings().get('open', []):
            if isinstance(k, dict) and k.get('property') == 'C18' and k.get('match') and re.search(k['match'], key):
                res.known_finding(k['what'])
                return 'known finding ' + str(k.get('id'))
        res.violation(str(e)[-3000:], key + ' (harness/c18_link_nh.cpp)', name='C18_link_probe_native_handle.txt')
        return 'does not build'


def run(res, tier):
    res.assumptions += [
        'cooperative scheduler abstraction: a fiber runs atomically between switch points; any fiber that is not blocked may move next '
        '(a superset of the real run queue; injected yields are invisible); NotifyOne wakes a scheduler-chosen waiter',
        'the caller of unlock / unlock_shared / cv.wait holds the lock in that mode (std precondition); otherwise every fiber may start '
        'any operation at any time (all op sequences, unboundedly many fibers)',
        'virtual time: labels that read the clock carry the time, it never decreases; jitter of timed waits is a label parameter',
        'the harness suppresses preemptions between `call` and `ret` of an operation and offers one right after `ret` (the wrapper\'s '
        'injection points touch no shared state); blocking switches inside the primitives are all explored',
        'fiber_dbg build: the library\'s own YACLIB_DEBUG/ASSERT are turned into callbacks and used as an extra monitor',
    ]
    extract(res)
    extract_alias(res)
    res.coverage['link_probe_every_member'] = link_probe(res)
    res.coverage['link_probe_native_handle'] = native_handle_probe(res)
    # open findings come from /verif/known_findings.json (D15 above; scenario findings through conc.concurrent_check)
    conc.concurrent_check(
        res, 'C18', tier, 'c18.cpp', 'fibersync', RULES,
        quick_args=['--mode', 'dfs', '--pb', '2', '--wb', '0', '--max-exec', '30000', '--random-scenarios', '16'],
        thorough_args=['--mode', 'dfs', '--pb', '3', '--wb', '0', '--max-exec', '400000', '--random-scenarios', '80'],
        search_args=[['--mode', 'dfs', '--pb', '3', '--wb', '0', '--max-exec', '200000', '--random-scenarios', '40'],
                     ['--mode', 'random', '--random-runs', '5000', '--random-scenarios', '40']],
        known=[], lib_kind='fiber_dbg')


def replay(path):
    return conc.replay('C18', path, lib_kind='fiber_dbg')
