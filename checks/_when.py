"""Shared by C09 / C10: the AddressSanitizer pass over the combinator harness (memory errors such as a registration loop
that reads the combinator after another thread freed it are invisible to the plain explorer)."""
import os
import re

from vlib import common as C
from vlib import conc


def sanitizer_pass(res, prop, tier, family, harness_src):
    """Reduced scenario set (every scenario with a shared input + the iterator forms), all schedules under a preemption
    bound, harness and library built with -fsanitize=address,undefined (library assertions on).  Always run: it costs a few
    seconds once the sanitizer build of the current tree is cached; a finding replaces a `no-failing-input-found` verdict."""
    binary = C.build_harness(prop.lower() + '_asan', 'fiber_asan', [harness_src])
    broken = bool(res.coverage.get('broken_obligations')) or bool(res.coverage.get('trace_mismatches'))
    # quick tier: one preemption (enough for "everything completes between two steps of the registration loop");
    # thorough tier, or when an obligation / the correspondence is broken and a failing input is wanted: two
    pb = '2' if (tier != 'quick' or broken) else '1'
    args = ['--family', family, '--sanitizer-pass', '--mode', 'dfs', '--pb', pb, '--pb3', '1', '--wb', '0' if pb == '1' else '1',
            '--seed', str(C.seed())]
    old = os.environ.get('ASAN_OPTIONS')
    os.environ['ASAN_OPTIONS'] = 'detect_leaks=0:abort_on_error=0:halt_on_error=1'
    try:
        stats, _, violations = conc.run_harness(binary, args)
    finally:
        if old is None:
            del os.environ['ASAN_OPTIONS']
        else:
            os.environ['ASAN_OPTIONS'] = old
    seen = set()
    found = 0
    for v in violations:
        scen, msg = conc.violation_key(v)
        short = re.sub(r'[^A-Za-z0-9]+', '_', msg)[:40]
        if short in seen:
            continue
        seen.add(short)
        if found == 0:
            # a failing input exists after all: drop the verdicts that said none was found
            res.violations = [x for x in res.violations if not x[1]]
        res.violation(v, msg + ' [' + scen + '] (sanitizer build)', name='%s_%s_asan_%s.txt' % (prop, tier, short))
        found += 1
    res.coverage['sanitizer_pass'] = {
        'rule': 'same harness built with -fsanitize=address,undefined against the fiber_asan library; scenarios with a shared '
                'input and the iterator forms; ' + ' '.join(args[:-2]),
        'explorer': stats, 'violations': found,
    }
    res.coverage['evaluations'] = res.coverage.get('evaluations', 0) + stats['executions']
    return found


def replay(prop, path):
    """replays of the sanitizer pass need the sanitizer build"""
    if '_asan_' in os.path.basename(path) or 'sanitizer report:' in open(path).read():
        os.environ.setdefault('ASAN_OPTIONS', 'detect_leaks=0')
        scen = choices = None
        for line in open(path):
            if line.startswith('scenario: '):
                scen = line[len('scenario: '):].strip()
            elif line.startswith('choices: '):
                choices = line[len('choices: '):].strip()
        binary = C.build_harness(prop.lower() + '_asan', 'fiber_asan', [prop.lower() + '.cpp'])
        import subprocess
        r = subprocess.run([binary, '--only', scen, '--choices', choices or ''], capture_output=True, text=True)
        print(r.stdout)
        print(r.stderr[-3000:])
        return 1 if ('"violations": 0' not in r.stdout or r.returncode != 0) else 0
    return conc.replay(prop, path)
