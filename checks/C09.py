"""C09 — WhenAll / Join complete once, at the right moment, with inputs in input order (DESIGN.md §3 C09)."""
from vlib import apiprobe
from vlib import conc

from . import _when

RULES = ['regSet.installed', 'regSet.inline', 'fire', 'retire', 'loadFlag.notdone', 'loadFlag.done', 'xchgFlag.win',
         'xchgFlag.lose', 'setOut', 'dec.notlast', 'dec.last', 'dec.notlast.store', 'dec.last.store', 'dtorRel', 'dtorSet',
         'obs.out', 'obs.invalid']
# 'crash': proved unreachable (Props/C09.lean no_crash) since the D2 fix (/repo 2b9a400); the harness' crash monitor stays armed
NOT_EXHIBITABLE = ['loadFlag.stale', 'dtorThrow', 'crash']


def run(res, tier):
    res.assumptions += [
        'the input interface of the When model ("the combinator callback of input i is entered exactly once: inline by the '
        'registering thread only if the input was already complete, else by the completing thread after the callback was '
        'installed") is a THEOREM, not an assumption: for unique inputs the composition with n instances of the C01 model '
        '(WhenU, input_interface_sound, incl. quiescence), for SharedFuture inputs the composition with n instances of the C06 '
        'model with arbitrary other observers (WhenS, shared_input_interface_sound; entries synchronised, Retire() of the entered '
        'callback is C06 retire_moves_only_as_sole_owner; quiescence of WhenS is not lifted: not-lost per instance is C06 '
        'quiescent_complete); that every shared input has its own callback node is the node theorem; packs mixing unique and '
        'shared inputs: WhenM (instance i of either kind), mixed_input_interface_sound',
        'every input eventually completes (a dropped Promise completes its Future with StopError), so "quiescent" means finished',
        'the model allows stale pre-check loads of the done flag; the FIBER backend never produces them',
        'values are abstract (identified by the index of the input they came from); moves/copies of payloads are checked by the '
        'harness with an instrumented value type, not by the model',
    ]
    apiprobe.stage(res, 'C09', tier)  # every public form of the area still instantiates (vlib/apiprobe.py, harness/api_probe_*.cpp)
    conc.concurrent_check(
        res, 'C09', tier, 'c09.cpp', 'when', RULES,
        quick_args=['--family', 'all', '--mode', 'dfs', '--pb', '2', '--pb3', '2', '--wb', '1'],
        thorough_args=['--family', 'all', '--mode', 'dfs', '--pb', '3', '--pb3', '3', '--wb', '2', '--max-exec', '3000000'],
        search_args=[['--family', 'all', '--mode', 'dfs', '--pb', '3', '--pb3', '2', '--wb', '1', '--max-exec', '400000'],
                     ['--family', 'all', '--mode', 'random', '--random-runs', '3000']],
        unmodelled_ok=NOT_EXHIBITABLE)
    _when.sanitizer_pass(res, 'C09', tier, 'all', 'c09.cpp')


def replay(path):
    r = apiprobe.replay(path)
    if r is not None:
        return r
    return _when.replay('C09', path)
