"""C07 — Strand: one job at a time, in submission order, none lost (DESIGN.md §3 C07)."""
from vlib import conc

RULES = ['sLoad.mark', 'sLoad.null', 'sLoad.job', 'sCasOk.mark', 'sCasOk.null', 'sCasOk.job', 'sCasFail', 'sCasSpur',
         'sSched', 'aCall', 'aBegin', 'aEnd.more', 'aEnd.last', 'aLoad.null', 'aLoad.busy', 'aCasOk', 'aCasFail',
         'aResub', 'aDropX', 'aDrop.more', 'aDrop.last']
STALE = ['sLoad.mark.stale', 'sLoad.null.stale', 'sLoad.job.stale', 'sCasFail.stale', 'aLoad.null.stale']


def run(res, tier):
    res.assumptions += [
        'the underlying executor honours the IExecutor contract (every submitted activation is started exactly once, as Call or '
        'as Drop, at any time, on any thread, also inline in Submit, concurrently with anything); nothing else is assumed of it',
        'jobs are opaque: a job body that submits to the same strand is covered as an additional submitter thread '
        '(body entry and exit are separate steps)',
        'the model allows stale pre-check loads and stale reads of a failed CAS; the FIBER backend never produces them '
        '(model behaviours ⊇ implementation behaviours)',
        'IncRef/DecRef of the strand\'s own reference counter are folded into the neighbouring steps (C03); happens-before '
        'between consecutive jobs is C04',
        'strands over strands: mechanised (ExecContract, strand_refines_contract, tower_satisfies_contract, '
        'tower_level_properties, tower_quiescent_all_done for towers of any height over any contract-honouring base); the '
        'composition over-approximates the code (the upper thread does not wait for the lower Submit it called); the '
        'harness tower scenarios validate the projection onto the traced level',
    ]
    conc.concurrent_check(
        res, 'C07', tier, 'c07.cpp', 'strand', RULES,
        quick_args=['--mode', 'dfs', '--pb', '2', '--wb', '1', '--size', '0'],
        thorough_args=['--mode', 'dfs', '--pb', '3', '--wb', '1', '--size', '1', '--max-exec', '150000'],
        search_args=[['--mode', 'dfs', '--pb', '3', '--wb', '1', '--size', '0', '--max-exec', '300000'],
                     ['--mode', 'random', '--size', '1', '--random-runs', '3000']],
        unmodelled_ok=STALE)


def replay(path):
    return conc.replay('C07', path)
