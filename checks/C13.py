"""C13 — coroutines resume once, after the awaited event, with its outcome, where asked (DESIGN.md §3 C13)."""
import os
import re
import subprocess

from vlib import apiprobe
from vlib import common as C
from vlib import conc
from vlib import memsearch

RULES = ['start.single', 'start.sticky', 'start.on', 'start.multi', 'start.msticky', 'start.mon', 'start.task', 'start.resched',
         'start.current', 'rdLoad.empty', 'rdLoad.cbs', 'rdLoad.result', 'ready.true', 'ready.false', 'ready.false.cbs',
         'mready.true', 'mready.false', 'regLoad.go', 'regLoad.fail', 'cas.ok', 'cas.retry', 'cas.fail', 'msub', 'mload',
         'msuspend.last', 'msuspend.notlast', 'tstore', 'submit', 'exCall', 'exDrop', 'resume.inl', 'resume.cell', 'resume.exec',
         'envSwap+resume.cell', 'current', 'tdtor', 'ret', 'ldtor.leave', 'ldtor.destroy', 'publish', 'publish.dropped', 'fdtor',
         'pXchg.empty', 'pXchg.mine', 'pXchg.foreign', 'envPush', 'fire.single', 'fire.sticky', 'fire.on', 'fire.task',
         'fire.multi.last', 'fire.multi.notlast', 'fire.msticky.last', 'fire.msticky.notlast', 'fire.mon.last', 'fire.mon.notlast']
# model behaviours the sequentially consistent FIBER backend cannot show (the driver insists on current values)
STALE = ['rdLoad/regLoad returning an older class of the word', 'mload returning an older (larger) counter value']

# the two other transfer configurations of the coroutine layer (thorough tier): local library kinds, nothing edited in vlib
EXTRA_KINDS = {
    'fiber_nosym': 'CORO;DISABLE_SYMMETRIC_TRANSFER',      # YACLIB_SYMMETRIC_TRANSFER=0, YACLIB_FINAL_SUSPEND_TRANSFER=0
    'fiber_nofinal': 'CORO;DISABLE_FINAL_SUSPEND_TRANSFER',  # YACLIB_SYMMETRIC_TRANSFER=1, YACLIB_FINAL_SUSPEND_TRANSFER=0
}
for _k, _flags in EXTRA_KINDS.items():
    C.LIB_KINDS.setdefault(_k, (['-DCMAKE_BUILD_TYPE=RelWithDebInfo', '-DYACLIB_FAULT=FIBER', '-DYACLIB_CXX_STANDARD=20',
                                 '-DYACLIB_FLAGS=' + _flags, '-DYACLIB_DEFINITIONS=YACLIB_VERIF'],
                                ['-std=c++20', '-fcoroutines', '-DYACLIB_VERIF']))

MEM_FILES = ['include/yaclib/coro/detail/await_awaiter.hpp', 'include/yaclib/coro/detail/await_on_awaiter.hpp',
             'include/yaclib/coro/detail/promise_type.hpp', 'include/yaclib/coro/detail/on_awaiter.hpp',
             'include/yaclib/algo/detail/shared_event.hpp', 'include/yaclib/coro/yield.hpp', 'include/yaclib/coro/current_executor.hpp']

PROBE_HEADERS = ['yaclib/coro/await.hpp', 'yaclib/coro/await_inline.hpp', 'yaclib/coro/await_on.hpp', 'yaclib/coro/await_sticky.hpp',
                 'yaclib/coro/on.hpp', 'yaclib/coro/yield.hpp', 'yaclib/coro/current_executor.hpp', 'yaclib/coro/future.hpp',
                 'yaclib/coro/task.hpp', 'yaclib/coro/shared_future.hpp']


def probe_headers(res, tier='quick'):
    """every public header of the awaiters must compile on its own (await_sticky.hpp did not before /repo 268e868), and every
    public form of the coroutine layer must instantiate (harness/api_probe_coro.cpp through vlib/apiprobe.py)"""
    failed = apiprobe.headers_standalone(res, 'C13', PROBE_HEADERS, kind='fiber')
    res.coverage['header_probe'] = {'headers': PROBE_HEADERS, 'failed': failed}
    apiprobe.stage(res, 'C13', tier)  # a form that no longer instantiates is reported; the harness may still build and say more
    return not failed


def other_configs(res, tier):
    """the same harness against the library built without symmetric transfer / without final-suspend transfer"""
    known = [k for k in C.load_findings().get('open', []) if k.get('property') == 'C13']
    out = {}
    for kind in EXTRA_KINDS:
        binary = C.build_harness('c13', kind, ['c13.cpp'])
        trace_file = os.path.join(C.WORK, 'C13_%s_%s_%d_traces.txt' % (tier, kind, os.getpid()))
        stats, _, violations = conc.run_harness(binary, ['--mode', 'dfs', '--pb', '2', '--wb', '1', '--seed', str(C.seed()), '--out', trace_file])
        val = conc.validate('coro', trace_file)
        try:
            os.remove(trace_file)
        except OSError:
            pass
        out[kind] = {'explorer': stats, 'traces_validated': val['ok'] if val else 0,
                     'trace_mismatches': len(val['mismatches']) if val else None}
        seen = set()
        for v in violations:
            scen, msg = conc.violation_key(v)
            key = scen + ' | ' + msg
            kf = next((k for k in known if re.search(k['match'], key)), None)
            if kf is not None:
                if kf['what'] not in res.known:
                    res.known_finding(kf['what'])
                continue
            short = re.sub(r'[^A-Za-z0-9]+', '_', msg)[:40]
            if short in seen:
                continue
            seen.add(short)
            res.violation(v, '[%s] %s [%s]' % (kind, msg, scen), name='C13_%s_%s_%s.txt' % (tier, kind, short))
        if val is not None and val['mismatches']:
            res.violation('\n'.join(val['mismatches'][:10]),
                          'correspondence broken in configuration %s: %s' % (kind, val['mismatches'][0][:160]), no_input=True,
                          name='C13_%s_%s_correspondence.txt' % (tier, kind))
    res.coverage['other_transfer_configurations'] = out


def run(res, tier):
    res.assumptions += [
        'the model is ONE coroutine against its environment: the other coroutines / subscribers of a SharedFuture are the environment steps envPush / envSwap (any number, any moment); the trace validator checks the projection of every coroutine of a multi-coroutine run',
        'w.WF (arity of each awaiter, no awaited object twice in one awaiter) and w.WFT (Task awaiters await Tasks) are API preconditions; unique futures are awaited by their single owner',
        'executors are contract executors: every submitted coroutine is Called or Dropped exactly once (C05/C07/C08 prove it for the library\'s executors); the harness uses an instrumented queue drained by a worker fiber, or a stopped one',
        'the compiler\'s coroutine lowering (await_ready / await_suspend / await_resume protocol, frame allocation, destruction of locals and parameters) is trusted; the harness wraps every awaiter in a forwarding awaiter with unchanged return types',
        'the model allows stale pre-check loads; the FIBER backend never produces them and the validator insists on current values',
        'the coroutine\'s own result word is not traced: its Result is validated at event level (the observer callback); Call/Drop/Submit are events of the instrumented executor',
        'default transfer configuration (YACLIB_SYMMETRIC_TRANSFER=1, YACLIB_FINAL_SUSPEND_TRANSFER=1) in both tiers; the thorough tier repeats the run with DISABLE_SYMMETRIC_TRANSFER and DISABLE_FINAL_SUSPEND_TRANSFER builds',
    ]
    if not probe_headers(res, tier):
        # the harness includes the same headers: it cannot be built
        C.proof_stage(res, 'C13', drivers=['ymdriver_coro'])
        return
    conc.concurrent_check(
        res, 'C13', tier, 'c13.cpp', 'coro', RULES,
        quick_args=['--mode', 'dfs', '--pb', '2', '--wb', '1', '--max-exec', '120000'],
        thorough_args=['--mode', 'dfs', '--pb', '3', '--wb', '1', '--max-exec', '600000', '--thorough'],
        search_args=[['--mode', 'dfs', '--pb', '3', '--wb', '1', '--max-exec', '150000'],
                     ['--mode', 'random', '--random-runs', '3000']],
        unmodelled_ok=STALE)
    if tier == 'thorough':
        other_configs(res, tier)
    # an obligation broke (e.g. a tie: a memory order of an awaiter was edited) and no schedule shows anything — the FIBER backend
    # is sequentially consistent: search the clause "resumes only AFTER what it awaited has happened" at the memory-model level
    # (role table of C04 restricted to the awaiter files + the ThreadSanitizer scenario `coawait`, vlib/memsearch.py)
    memsearch.refine_no_input(res, 'C13', tier, MEM_FILES, 'coawait')


def replay(path):
    r = apiprobe.replay(path)
    if r is not None:
        return r
    r = memsearch.replay(path)
    return conc.replay('C13', path) if r is None else r
