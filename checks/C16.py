"""C16 — WaitGroup / OneShotEvent release every waiter exactly when the count hits zero (DESIGN.md §3 C16)."""
import os

from vlib import apiprobe
from vlib import common as C
from vlib import conc
from vlib import memsearch

RULES = ['tAdd', 'tDone.zero', 'tDone.more', 'tInsAdd', 'tInsLoad.empty', 'tInsLoad.full', 'tInsCas.attachOk', 'tInsCas.attachFail',
         'tInsCas.consumeOk', 'tInsCas.consumeFail', 'tInsSub.more', 'tFulfil.empty', 'tFulfil.call', 'tFulfil.drop',
         'tCbSub.zero', 'tCbSub.more', 'tReadyLoad', 'tReady.true', 'tReady.false',
         'tXchgHead.empty', 'tXchgHead.list', 'tRunLock.blocking', 'tRunLock.timed', 'tRunUnlock', 'tRunDec.free', 'tRunDec.keep',
         'tRunRel', 'tStart.check.done', 'tStart.check.list', 'tStart.try.done', 'tStart.try.list', 'tTryLoad.done', 'tTryLoad.list',
         'tCasOk', 'tCasFail.done', 'tCasFail.retry', 'tCasSpur.retry', 'tCasSpur.done', 'tResume',
         'tBLock.wait', 'tBLock.ready', 'tBSleep', 'tBWake', 'tBTimeout', 'tBLockT.ready', 'tBLockT.false', 'tBUnlockRet',
         'tBDec.free', 'tBDec.keep', 'tRep.blocking.true', 'tRep.blocking.true.late', 'tRep.timed.true', 'tRep.timed.true.late',
         'tRep.timed.false']
# behaviours of the model the FIBER backend / the scenarios never show: stale loads, spurious wake-ups, rule violations
NOT_EXHIBITABLE = ['tInsLoad.empty.stale', 'tStart.check.stale', 'tStart.try.stale', 'tTryLoad.stale', 'tBWake.spurious',
                   'tXchgHead.crash', 'tFulfil.result', 'tInsSub.zero']


MEM_FILES = ['src/algo/one_shot_event.cpp', 'include/yaclib/algo/one_shot_event.hpp', 'include/yaclib/algo/wait_group.hpp',
             'include/yaclib/algo/detail/wait_event.hpp', 'include/yaclib/util/detail/atomic_counter.hpp',
             'include/yaclib/util/detail/set_deleter.hpp']


def run(res, tier):
    res.assumptions += [
        'any number of threads / futures / waiters in the theorems; the documented rule "Add only while the count is non-zero" is '
        'the decidable token discipline Workload.ok (every scenario of the harness satisfies it)',
        'coroutine waiters are abstracted as jobs: suspension = the successful push, resumption (inline or through the '
        'executor) = one `rel` event; what the coroutine does afterwards is not part of C16',
        'the model allows stale head / word loads and spurious wake-ups; the FIBER backend never produces them',
        'real clocks are replaced by a nondeterministic timeout step (model) / the FIBER virtual clock (harness)',
        'WaitGroup::Reset / OneShotEvent::Reset / Call are documented not thread-safe resp. not used by WaitGroup: not modelled',
    ]
    apiprobe.stage(res, 'C16', tier)  # every public form of the area still instantiates (vlib/apiprobe.py, harness/api_probe_*.cpp)
    conc.concurrent_check(
        res, 'C16', tier, 'c16.cpp', 'event', RULES,
        quick_args=['--mode', 'dfs', '--pb', '2', '--wb', '1', '--max-exec', '30000'],
        thorough_args=['--thorough', '--mode', 'dfs', '--pb', '3', '--wb', '1', '--max-exec', '150000'],
        search_args=[['--thorough', '--mode', 'dfs', '--pb', '3', '--wb', '1', '--max-exec', '150000'],
                     ['--thorough', '--mode', 'random', '--random-runs', '20000']],
        unmodelled_ok=NOT_EXHIBITABLE)
    # an obligation broke (e.g. a tie: a memory order was edited) and no schedule shows anything — the FIBER backend is
    # sequentially consistent: search the clause "what was done before Done() / completion is visible after Wait / co_await"
    # with the C04 machinery restricted to the WaitGroup's files (role table + ThreadSanitizer scenario `waitgroup`:
    # a waiter arriving after zero, and a non-last Done-er whose writes are read after the release)
    memsearch.refine_no_input(res, 'C16', tier, MEM_FILES, 'waitgroup')
    if tier == 'thorough':
        # the same scenarios under AddressSanitizer: the heap waiter of a timed wait (two owners) and the consumed cores
        binary = C.build_harness('c16', 'fiber_asan', ['c16.cpp'])
        os.environ['ASAN_OPTIONS'] = 'detect_stack_use_after_return=1:detect_leaks=0'
        try:
            stats, _, violations = conc.run_harness(
                binary, ['--thorough', '--mode', 'dfs', '--pb', '2', '--wb', '1', '--max-exec', '15000', '--seed', str(C.seed())])
            res.coverage['asan'] = stats
            for v in violations[:3]:
                scen, msg = conc.violation_key(v)
                res.violation(v, 'under ASAN: ' + msg + ' [' + scen + ']', name='C16_thorough_asan.txt')
        except C.BuildError as e:
            res.violation(str(e), 'the ASAN build of the C16 harness aborted (sanitizer report?)', name='C16_thorough_asan_abort.txt',
                          no_input=True)


def replay(path):
    r = apiprobe.replay(path)
    if r is not None:
        return r
    r = memsearch.replay(path)
    return conc.replay('C16', path) if r is None else r
