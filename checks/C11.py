"""C11 — Wait returns only when ready; a timed-out wait leaves the futures intact (DESIGN.md §3 C11)."""
import os

from vlib import apiprobe
from vlib import common as C
from vlib import conc
from vlib import memsearch

RULES = ['wCall.timed', 'wCall.untimed', 'wCall.untimed.ret',
         'wRegLoad.empty', 'wRegLoad.full', 'wRegLoad.full.ret', 'wRegCasOk', 'wRegCasFail', 'wRegCasFail.ret',
         'wRegSpur.retry', 'wRegSpur.full',
         'wSub1.zero', 'wSub1.more', 'wLock1.ready', 'wLock1.wait', 'wSleep', 'wWake.timed.ready', 'wWake.final.true',
         'wWake.final.false', 'wTimeout', 'wLockT.ready', 'wLockT.reset',
         'wRstLoad.result', 'wRstLoad.result.ret', 'wRstLoad.cb', 'wRstCasOk', 'wRstCasOk.ret', 'wRstCasFail',
         'wSub2.zero', 'wSub2.more', 'wUnlockRet', 'wRet.timed.true', 'wRet.timed.false', 'wRet.untimed.true',
         'wFin.none', 'wFin.attach', 'wFin.get', 'wAttLoad.empty', 'wAttLoad.full', 'wAttCasOk', 'wAttCasFail', 'wInvoke', 'wGot',
         'pXchg.empty', 'pXchg.ev', 'pXchg.ev.one', 'pXchg.cont', 'pSub.zero', 'pSub.more', 'pLock', 'pUnlock', 'pInvoke']
# behaviours of the model the FIBER backend never shows (stale pre-check loads, spurious wake-ups)
NOT_EXHIBITABLE = ['wRegLoad.empty.stale', 'wRegLoad.full.stale', 'wRstLoad.cb.stale', 'wRstLoad.result.stale',
                   'wAttLoad.empty.stale', 'wAttLoad.full.stale', 'wWake.spurious', 'wRegSpur.full.ret']


MEM_FILES = ['include/yaclib/async/detail/wait_impl.hpp', 'src/algo/base_core.cpp', 'src/util/mutex_event.cpp',
             'include/yaclib/util/detail/mutex_event.hpp', 'include/yaclib/util/detail/atomic_counter.hpp']


def run(res, tier):
    res.assumptions += [
        'one waiter thread and one producer thread per future, as the property quantifies; n, the list of wait calls '
        '(ranges, timed or not) and the consuming operations are arbitrary in the theorems',
        'the model allows stale pre-check loads and spurious wake-ups; the FIBER backend never produces them '
        '(model behaviours ⊇ implementation behaviours)',
        'real clocks are replaced by a nondeterministic timeout step (model) / the FIBER virtual clock (harness)',
        'condition-variable internals (wait queues) are the fiber scheduler\'s (C18); the model has the mutex and the flag',
        'visibility of the result after Wait returns (happens-before) is C04; here: interleaving level',
    ]
    apiprobe.stage(res, 'C11', tier)  # every public form of the area still instantiates (vlib/apiprobe.py, harness/api_probe_*.cpp)
    conc.concurrent_check(
        res, 'C11', tier, 'c11.cpp', 'wait', RULES,
        quick_args=['--mode', 'dfs', '--pb', '2', '--wb', '1', '--max-exec', '30000'],
        thorough_args=['--thorough', '--mode', 'dfs', '--pb', '3', '--wb', '1', '--max-exec', '120000'],
        search_args=[['--thorough', '--mode', 'dfs', '--pb', '3', '--wb', '1', '--max-exec', '150000'],
                     ['--thorough', '--mode', 'random', '--random-runs', '20000']],
        unmodelled_ok=NOT_EXHIBITABLE)
    # an obligation broke (e.g. a tie: a memory order was edited) and no schedule shows anything — the FIBER backend is
    # sequentially consistent: search "what a producer did before Set is visible after Wait(fs...) returned" with the C04
    # machinery restricted to the wait's files (role table + ThreadSanitizer scenario `wait_two_producers`: the producer
    # whose data is read is not the one that completes last and wakes the waiter)
    memsearch.refine_no_input(res, 'C11', tier, MEM_FILES, 'wait_two_producers')
    if tier == 'thorough':
        # the same scenarios under AddressSanitizer (stack-use-after-return on the waiter's stack event would show here);
        # only the monitors run, the debug build's extra assertion loads are not part of the model
        binary = C.build_harness('c11', 'fiber_asan', ['c11.cpp'])
        os.environ['ASAN_OPTIONS'] = 'detect_stack_use_after_return=1:detect_leaks=0'
        try:
            stats, _, violations = conc.run_harness(
                binary, ['--thorough', '--mode', 'dfs', '--pb', '2', '--wb', '1', '--max-exec', '15000', '--seed', str(C.seed())])
            res.coverage['asan'] = stats
            for v in violations[:3]:
                scen, msg = conc.violation_key(v)
                res.violation(v, 'under ASAN: ' + msg + ' [' + scen + ']', name='C11_thorough_asan.txt')
        except C.BuildError as e:
            # a sanitizer report kills the process before the explorer can print its report
            res.violation(str(e), 'the ASAN build of the C11 harness aborted (sanitizer report?)', name='C11_thorough_asan_abort.txt',
                          no_input=True)


def replay(path):
    r = apiprobe.replay(path)
    if r is not None:
        return r
    r = memsearch.replay(path)
    return conc.replay('C11', path) if r is None else r
