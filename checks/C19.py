"""C19 — yaclib_std::atomic computes exactly what std::atomic computes (DESIGN.md §3 C19)."""
import os
import random
import subprocess

from vlib import common as C
from vlib import x_atomic

INT_TYPES = ['u8', 'i8', 'u16', 'i16', 'u32', 'i32', 'u64', 'i64']
BITS = {'u8': 8, 'i8': 8, 'u16': 16, 'i16': 16, 'u32': 32, 'i32': 32, 'u64': 64, 'i64': 64, 'vu8': 8, 'vi32': 32, 'vu64': 64}
VOLATILE = ['vu8', 'vi32', 'vu64', 'vbool', 'vptr', 'vf64', 'vflag']
CAS_S = ['cas_strong', 'cas_strong3', 'cas_strong4r']
CAS_W = ['cas_weak', 'cas_weak3', 'cas_weak4r']
ARITH1 = ['fetch_add', 'fetch_sub', 'add_assign', 'sub_assign']
BIT1 = ['fetch_and', 'fetch_or', 'fetch_xor', 'and_assign', 'or_assign', 'xor_assign']
INC = ['pre_inc', 'post_inc', 'pre_dec', 'post_dec']


def boundary(bits, rng):
    m = (1 << bits) - 1
    c = [0, 1, 2, m, m - 1, 1 << (bits - 1), (1 << (bits - 1)) - 1, (1 << (bits - 1)) + 1, 0x55555555555555555 & m,
         0xAAAAAAAAAAAAAAAA & m, 10, 12]
    return rng.choice(c) if rng.random() < 0.7 else rng.randrange(0, m + 1)


F64 = [0, 0x3ff0000000000000, 0x4000000000000000, 0xbff0000000000000, 0x3fb999999999999a, 0x7fefffffffffffff,
       0x0000000000000001, 0x4340000000000000, 0x3fd5555555555555]
F32 = [0, 0x3f800000, 0x40000000, 0xbf800000, 0x3dcccccd, 0x7f7fffff, 0x00000001, 0x4b800000]


def gen_sequence(ty, rng, length):
    lines = []
    vol = ty in VOLATILE
    cas = [] if vol else CAS_S + CAS_W      # volatile compare_exchange / ++ / -- of the fault layer do not compile
    inc = [] if vol else INC
    if ty in BITS:
        val = lambda: str(boundary(BITS[ty], rng))
        ops = ['store', 'load', 'exchange'] + cas + ARITH1 + BIT1 + inc
    elif ty in ('bool', 'vbool'):
        val = lambda: str(rng.randrange(2))
        ops = ['store', 'load', 'exchange'] + cas
    elif ty in ('ptr', 'vptr'):
        val = lambda: str(rng.choice([0, 1, -1, 7, -8, 100, -100, rng.randrange(-500, 500)]))
        ops = ['store', 'load', 'exchange'] + cas + ARITH1 + inc
    elif ty in ('f64', 'vf64'):
        val = lambda: str(rng.choice(F64))
        ops = ['store', 'load', 'exchange'] + cas + ARITH1
    elif ty == 'f32':
        val = lambda: str(rng.choice(F32))
        ops = ['store', 'load', 'exchange'] + cas + ARITH1
    elif ty in ('flag', 'vflag'):
        lines.append('new %s %d' % (ty, rng.randrange(2)))
        for _ in range(length):
            lines.append(rng.choice(['test_and_set', 'clear', 'test_and_set']))
        return lines
    cur = val()
    lines.append('new %s %s' % (ty, cur))
    for _ in range(length):
        op = rng.choice(ops)
        if op in ('store', 'exchange'):
            lines.append('%s %s' % (op, val()))
        elif op == 'load' or op in INC:
            lines.append(op)
        elif op in CAS_S or op in CAS_W:
            e = val()
            l = '%s %s %s' % (op, e, val())
            if op in CAS_W:
                l += ' %d' % (1 if rng.random() < 0.3 else 0)
            lines.append(l)
            if rng.random() < 0.5:
                # retry with the same (stale) `expected`: a spurious failure must have written the current value back
                lines.append(l.rsplit(' ', 1)[0] + ' 0' if op in CAS_W else l)
        else:
            lines.append('%s %s' % (op, val()))
    return lines


def gen_exact_cas(ty, rng):
    """sequences in which the CAS expects exactly the stored value (success paths)"""
    if ty in ('flag', 'vflag'):
        return gen_sequence(ty, rng, 4)
    if ty in VOLATILE:
        return gen_sequence(ty, rng, 5)
    bits = BITS.get(ty)
    v = str(boundary(bits, rng)) if bits else {'bool': '1', 'ptr': '5', 'f64': str(F64[1]), 'f32': str(F32[1])}[ty]
    d = str(boundary(bits, rng)) if bits else {'bool': '0', 'ptr': '-2', 'f64': str(F64[2]), 'f32': str(F32[2])}[ty]
    w = rng.choice(CAS_W)
    st = rng.choice(CAS_S)
    # success paths, then a spurious failure with a WRONG expected followed by a retry that must now succeed
    return ['new %s %s' % (ty, v), '%s %s %s' % (st, v, d), 'load', '%s %s %s 0' % (w, d, v), 'load',
            '%s %s %s 1' % (w, v, d), 'load', '%s %s %s' % (st, d, v), '%s %s %s 1' % (w, d, v), '%s %s %s 0' % (w, v, d),
            'load']


def run_stream(cmd, text):
    r = subprocess.run(cmd, input=text, capture_output=True, text=True)
    if r.returncode != 0:
        raise C.BuildError('%s exited %d: %s' % (cmd, r.returncode, r.stderr[-1000:]))
    return r.stdout.split('\n')[:-1] if r.stdout.endswith('\n') else r.stdout.split('\n')


def split_sequences(lines):
    seqs = []
    for i, l in enumerate(lines):
        if l.startswith('new '):
            seqs.append([])
        if seqs:
            seqs[-1].append(i)
    return seqs


def shrink(seq_lines, fails):
    """greedy removal of ops (never the `new` line) while `fails(lines)` stays true"""
    cur = list(seq_lines)
    changed = True
    while changed and len(cur) > 2:
        changed = False
        for i in range(len(cur) - 1, 0, -1):
            cand = cur[:i] + cur[i + 1:]
            if len(cand) >= 2 and fails(cand):
                cur = cand
                changed = True
    return cur


def extract():
    lib = C.build_lib('fiber')
    try:
        text = x_atomic.generate(C.REPO, os.path.join(lib, 'include'), C.WORK)
    except Exception as e:  # translator fails closed
        return None, str(e)
    C.write_if_changed(os.path.join(C.LEAN, 'YaclibModel/Extracted/FiberAtomic.lean'), text)
    return text, None


def corpus_lines():
    p = os.path.join(C.VERIF, 'corpus', 'C19')
    out = []
    if os.path.isdir(p):
        for f in sorted(os.listdir(p)):
            for l in open(os.path.join(p, f)):
                l = l.strip()
                if l and not l.startswith('#'):
                    out.append(l)
    return out


def differential(res, lines, with_model):
    """returns (property_failures, correspondence_failures, stats)"""
    text = '\n'.join(lines) + '\n'
    h = C.build_harness('c19', 'fiber', ['c19.cpp'], define_verif=False, extra_flags=['-Wno-volatile'])
    outs = {impl: run_stream([h, impl], text) for impl in ('std', 'fiber', 'thread')}
    drv = os.path.join(C.LEAN, '.lake/build/bin/ymdriver_atomic')
    if with_model:
        outs['model'] = run_stream([drv, 'model'], text)
        outs['spec'] = run_stream([drv, 'spec'], text)
    n = len(lines)
    for k, v in outs.items():
        if len(v) != n:
            raise C.BuildError('stream %s produced %d lines for %d inputs' % (k, len(v), n))
    seqs = split_sequences(lines)
    prop_fail = []
    corr_fail = []
    stats = {'ops': {}, 'types': {}, 'cas_success': 0, 'cas_fail': 0, 'spurious': 0, 'bad_op': 0}
    for idxs in seqs:
        ty = lines[idxs[0]].split()[1]
        stats['types'][ty] = stats['types'].get(ty, 0) + 1
        modelled = with_model and ty not in ('f32', 'f64', 'flag', 'vf64', 'vflag')
        for i in idxs:
            op = lines[i].split()[0]
            stats['ops'][op] = stats['ops'].get(op, 0) + 1
            o = outs['std'][i]
            if o.startswith('cas 1'):
                stats['cas_success'] += 1
            elif o.startswith('cas 0'):
                stats['cas_fail'] += 1
            if op in CAS_W and lines[i].endswith(' 1'):
                stats['spurious'] += 1
            if o == 'bad-op':
                stats['bad_op'] += 1
            bad = None
            if outs['fiber'][i] != o:
                bad = ('fiber', outs['fiber'][i], o)
            elif outs['thread'][i] != o:
                bad = ('thread', outs['thread'][i], o)
            if bad:
                prop_fail.append((idxs, i, bad))
                break
            if modelled:
                if outs['model'][i] != outs['fiber'][i]:
                    corr_fail.append((idxs, i, ('model-vs-fiber', outs['model'][i], outs['fiber'][i])))
                    break
                if outs['spec'][i] != o:
                    corr_fail.append((idxs, i, ('spec-vs-std::atomic', outs['spec'][i], o)))
                    break
    return prop_fail, corr_fail, stats, seqs


def run(res, tier):
    rng = random.Random(C.seed() * 7919 + 19)
    res.assumptions += [
        'single-threaded op sequences (the property is about values, not interleavings)',
        'signed overflow in the fiber implementation is undefined behaviour in C++; the model and the compared binaries wrap (two\'s complement), as every supported compiler does',
        'floating-point carriers are compared between the three C++ implementations only (the theorems are parametric in the carrier)',
        'volatile objects: the fault layer\'s volatile compare_exchange_* (fiber) and ++/-- (wrapper) overloads do not compile when instantiated, so they are not exercised; all other volatile overloads are',
    ]
    text, xerr = extract()
    broken = []
    if xerr:
        broken.append('translator x_atomic failed: ' + xerr)
        ok = False
    else:
        ok, broken = C.proof_stage(res, 'C19', drivers=['ymdriver_atomic'])
    # ---- correspondence / failing-input search
    nseq = 1500 if tier == 'quick' else 40000
    lines = corpus_lines()
    types = INT_TYPES + ['bool', 'ptr', 'f64', 'f32', 'flag'] + VOLATILE
    for ty in types:
        for _ in range(20 if tier == 'quick' else 200):
            lines += gen_exact_cas(ty, rng)
    # exhaustive single-op table per type: every op on boundary values
    for ty in INT_TYPES:
        for op in ARITH1 + BIT1:
            for a in (12, 1, (1 << BITS[ty]) - 1):
                lines += ['new %s 12' % ty, '%s %d' % (op, a % (1 << BITS[ty])), 'load']
        for op in INC:
            for v in (0, 12, (1 << BITS[ty]) - 1):
                lines += ['new %s %d' % (ty, v), op, 'load']
    for _ in range(nseq):
        ty = rng.choice(types)
        lines += gen_sequence(ty, rng, rng.randrange(1, 14))
    lines += ['new u8 1', 'bogus 1', 'fetch_add', 'new zz 1', 'load']  # malformed stream
    drv_ok = os.path.exists(os.path.join(C.LEAN, '.lake/build/bin/ymdriver_atomic'))
    prop_fail, corr_fail, stats, seqs = differential(res, lines, with_model=drv_ok)
    h = C.build_harness('c19', 'fiber', ['c19.cpp'], define_verif=False, extra_flags=['-Wno-volatile'])

    def fails_prop(cand):
        t = '\n'.join(cand) + '\n'
        a = run_stream([h, 'std'], t)
        return run_stream([h, 'fiber'], t) != a or run_stream([h, 'thread'], t) != a

    reported = set()
    for (idxs, i, bad) in prop_fail:
        seq = [lines[j] for j in idxs if j <= i]
        small = shrink(seq, fails_prop)
        key = ' ; '.join(small[1:])
        ty = small[0].split()[1]
        opkey = (bad[0], small[-1].split()[0] if len(small) > 1 else '', 'ptr' if ty == 'ptr' else 'int')
        if opkey in reported:
            continue
        reported.add(opkey)
        msg = '%s backend differs from std::atomic on `%s`: got `%s`, std::atomic gives `%s`' % (bad[0], ' ; '.join(small), bad[1], bad[2])
        res.violation('\n'.join(small), msg, name='C19_%s_%s_%s.txt' % (tier, bad[0], opkey[1] + '_' + opkey[2]))
    if not prop_fail:
        if corr_fail:
            (idxs, i, bad) = corr_fail[0]
            seq = [lines[j] for j in idxs if j <= i]
            res.violation('\n'.join(seq) + '\n# correspondence %s: model `%s` vs implementation `%s`' % bad,
                          'correspondence broken (%s) and no input on which the implementations differ from std::atomic' % bad[0],
                          no_input=True, name='C19_%s_correspondence.txt' % tier)
        elif broken:
            res.violation('\n'.join(broken), 'proof obligations of C19 no longer check: ' + broken[0], no_input=True,
                          name='C19_%s_obligations.txt' % tier)
    distinct = len({tuple(lines[j] for j in idxs) for idxs in seqs if len(idxs) > 1})
    res.coverage.update({
        'evaluations': len(seqs), 'distinct_nontrivial': distinct,
        'rule': 'op sequences from PRNG(VERIF_SEED) over 13 types with boundary operands + per-op table + exact-CAS sequences + corpus; '
                'distinct = distinct sequences with at least one operation',
        'samples': [' ; '.join(lines[j] for j in idxs) for idxs in seqs[len(seqs) // 2: len(seqs) // 2 + 3]],
        'traces_validated_against_impl': len(seqs) if drv_ok else 0,
        'distribution': stats,
        'streams_compared': ['std::atomic', 'FIBER yaclib_std::atomic', 'THREAD wrapper over std::atomic'] +
                            (['Lean model (extracted fiber bodies)', 'Lean Spec'] if drv_ok else []),
        'broken_obligations': broken,
    })


def replay(path):
    lines = [l.strip() for l in open(path) if l.strip() and not l.startswith('#')]
    h = C.build_harness('c19', 'fiber', ['c19.cpp'], define_verif=False, extra_flags=['-Wno-volatile'])
    t = '\n'.join(lines) + '\n'
    outs = {impl: run_stream([h, impl], t) for impl in ('std', 'fiber', 'thread')}
    bad = 0
    for i, l in enumerate(lines):
        row = [outs[k][i] for k in ('std', 'fiber', 'thread')]
        flag = '' if row[0] == row[1] == row[2] else '   <-- differs'
        bad += bool(flag)
        print('%-28s std=%-22s fiber=%-22s thread=%-22s%s' % (l, row[0], row[1], row[2], flag))
    print('VIOLATION reproduced' if bad else 'no difference')
    return 1 if bad else 0
