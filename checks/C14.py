"""C14 — coroutine Mutex: mutual exclusion and no lost wake-up (DESIGN.md §3 C14)."""
from vlib import apiprobe
from vlib import common as C
from vlib import conc
from vlib import memsearch
import os
import re

# the coroutine layer's other transfer configuration (same definition as checks/C13.py): YACLIB_TRANSFER is then
# `handle.resume(); return true` instead of a symmetric transfer; the macro is used only by AwaitUnlock / AwaitUnlockOn
C.LIB_KINDS.setdefault('fiber_nosym', (['-DCMAKE_BUILD_TYPE=RelWithDebInfo', '-DYACLIB_FAULT=FIBER', '-DYACLIB_CXX_STANDARD=20',
                                        '-DYACLIB_FLAGS=CORO;DISABLE_SYMMETRIC_TRANSFER', '-DYACLIB_DEFINITIONS=YACLIB_VERIF'],
                                       ['-std=c++20', '-fcoroutines', '-DYACLIB_VERIF']))


def nosym_pass(res, tier):
    """Second pass against the library built without symmetric transfer: reduced scenario set (batched hand-over with
    Unlock / UnlockOn / sticky unlock, k = 3, all four option combinations) in the quick tier, everything in the thorough
    tier; the traces are validated against the same model (it does not depend on the transfer mode)."""
    binary = C.build_harness('c14', 'fiber_nosym', ['c14.cpp'])
    trace_file = os.path.join(C.WORK, 'C14_%s_nosym_%d_traces.txt' % (tier, os.getpid()))
    if tier == 'quick':
        args = ['--set', 'nosym', '--mode', 'dfs', '--pb', '2', '--wb', '1']
    else:
        args = ['--set', 'full', '--mode', 'dfs', '--pb', '3', '--wb', '1', '--max-exec', '40000']
    stats, samples, violations = conc.run_harness(binary, args + ['--seed', str(C.seed()), '--out', trace_file])
    val = conc.validate('comutex', trace_file)
    try:
        os.remove(trace_file)
    except OSError:
        pass
    seen = set()
    for v in violations:
        scen, msg = conc.violation_key(v)
        short = re.sub(r'[^A-Za-z0-9]+', '_', msg)[:40]
        if short in seen:
            continue
        seen.add(short)
        res.violation('config: fiber_nosym (library built with DISABLE_SYMMETRIC_TRANSFER)\n' + v,
                      msg + ' [non-symmetric transfer build; ' + scen + ']', name='C14_%s_nosym_%s.txt' % (tier, short))
    if not violations and val is not None and val['mismatches']:
        res.violation('config: fiber_nosym\n' + '\n'.join(val['mismatches'][:10]),
                      'correspondence broken in the non-symmetric transfer build: an implementation trace is not a trace of the model comutex (%s)'
                      % val['mismatches'][0][:160], no_input=True, name='C14_%s_nosym_correspondence.txt' % tier)
    res.coverage['nosym_pass'] = {'explorer': stats, 'traces_validated': val['ok'] if val else 0,
                                  'trace_mismatches': len(val['mismatches']) if val else None,
                                  'rule_counts': val['rules'] if val else {}}
    res.coverage['evaluations'] = res.coverage.get('evaluations', 0) + stats['executions']

RULES = ['tlLoad.free', 'tlLoad.locked', 'tlLoad.locked.try', 'tlCasOk', 'tlCasFail', 'tlCasFail.try', 'tryFail',
         'alLoad.free', 'alLoad.locked', 'alCasLock', 'alCasPush', 'alCasFail.spurious', 'alCasFail.changed',
         'enter', 'exit.unlock', 'exit.unlockOn', 'exit.here', 'exit.sticky.unlockOn', 'exit.sticky.here', 'resubmit',
         'ulLoad.empty', 'ulLoad.waiters', 'ulCasOk', 'ulCasFail', 'ulXchg', 'grant.took', 'grant.recv', 'grant.recv.inline',
         'ulLoad.empty.tail', 'ulLoad.waiters.tail', 'ulCasOk.tail', 'ulCasFail.tail', 'ulXchg.tail', 'grant.took.tail',
         'grant.recv.tail', 'grant.recv.inline.tail']
# behaviours of the model that the sequentially consistent FIBER backend cannot show (the driver requires loaded values to be current)
STALE = ['tlLoad.stale', 'alLoad.stale', 'ulLoad.empty.stale']


def run(res, tier):
    res.assumptions += [
        'two library configurations: the default one (symmetric transfer) with the full scenario set, and DISABLE_SYMMETRIC_TRANSFER with the batched hand-over scenarios (quick) / everything (thorough); the model is the same',
        'every holder releases and executors accept work (hypotheses of the property): in the model a holder\'s program continues with its release form and a granted coroutine is runnable; in the harness the instrumented executor never rejects',
        'the theorems are for any number of coroutines, any programs and all four <Batching,FIFO> combinations; the harness runs 2..3 coroutines x 1..2 rounds on an inline executor, a single-worker and a two-worker queue executor driven by harness fibers',
        'the model allows stale pre-check loads; the FIBER backend never produces them (model behaviours ⊇ implementation behaviours) and the validator insists on current values',
        'visibility of one critical section\'s writes in the next is C04 (memory model), not checked here beyond the overlap / lost-update monitor',
        'executor bookkeeping of the batched hand-over (executor swap, which executor resumes whom) is C13\'s resumption-context property; the model records only who is granted and whether in place',
    ]
    apiprobe.stage(res, 'C14', tier)  # every public form of the area still instantiates (vlib/apiprobe.py, harness/api_probe_*.cpp)
    conc.concurrent_check(
        res, 'C14', tier, 'c14.cpp', 'comutex', RULES,
        quick_args=['--mode', 'dfs', '--pb', '2', '--wb', '1', '--max-exec', '4000'],
        thorough_args=['--mode', 'dfs', '--pb', '3', '--wb', '1', '--max-exec', '100000'],
        search_args=[['--mode', 'dfs', '--pb', '3', '--wb', '1', '--max-exec', '60000'],
                     ['--mode', 'random', '--random-runs', '3000']],
        unmodelled_ok=STALE)
    nosym_pass(res, tier)
    # an obligation broke and no schedule shows anything: search the memory-model clause ("what one critical section wrote
    # is visible in the next") with the C04 machinery restricted to the mutex (vlib/memsearch.py)
    memsearch.refine_no_input(res, 'C14', tier, ['include/yaclib/coro/mutex.hpp'], 'comutex')


def replay(path):
    r = apiprobe.replay(path)
    if r is not None:
        return r
    r = memsearch.replay(path)
    if r is not None:
        return r
    if 'config: fiber_nosym' in open(path).read():
        return conc.replay('C14', path, lib_kind='fiber_nosym')
    return conc.replay('C14', path)
