"""C14 — coroutine Mutex: mutual exclusion and no lost wake-up (DESIGN.md §3 C14)."""
from vlib import common as C
from vlib import conc
from vlib import memsearch

RULES = ['tlLoad.free', 'tlLoad.locked', 'tlLoad.locked.try', 'tlCasOk', 'tlCasFail', 'tlCasFail.try', 'tryFail',
         'alLoad.free', 'alLoad.locked', 'alCasLock', 'alCasPush', 'alCasFail.spurious', 'alCasFail.changed',
         'enter', 'exit.unlock', 'exit.unlockOn', 'exit.here', 'exit.sticky.unlockOn', 'exit.sticky.here', 'resubmit',
         'ulLoad.empty', 'ulLoad.waiters', 'ulCasOk', 'ulCasFail', 'ulXchg', 'grant.took', 'grant.recv', 'grant.recv.inline',
         'ulLoad.empty.tail', 'ulLoad.waiters.tail', 'ulCasOk.tail', 'ulCasFail.tail', 'ulXchg.tail', 'grant.took.tail',
         'grant.recv.tail', 'grant.recv.inline.tail']
# behaviours of the model that the sequentially consistent FIBER backend cannot show (the driver requires loaded values to be current)
STALE = ['tlLoad.stale', 'alLoad.stale', 'ulLoad.empty.stale']


def run(res, tier):
    res.assumptions += [
        'every holder releases and executors accept work (hypotheses of the property): in the model a holder\'s program continues with its release form and a granted coroutine is runnable; in the harness the instrumented executor never rejects',
        'the theorems are for any number of coroutines, any programs and all four <Batching,FIFO> combinations; the harness runs 2..3 coroutines x 1..2 rounds on an inline executor, a single-worker and a two-worker queue executor driven by harness fibers',
        'the model allows stale pre-check loads; the FIBER backend never produces them (model behaviours ⊇ implementation behaviours) and the validator insists on current values',
        'visibility of one critical section\'s writes in the next is C04 (memory model), not checked here beyond the overlap / lost-update monitor',
        'executor bookkeeping of the batched hand-over (executor swap, which executor resumes whom) is C13\'s resumption-context property; the model records only who is granted and whether in place',
    ]
    conc.concurrent_check(
        res, 'C14', tier, 'c14.cpp', 'comutex', RULES,
        quick_args=['--mode', 'dfs', '--pb', '2', '--wb', '1'],
        thorough_args=['--mode', 'dfs', '--pb', '3', '--wb', '1', '--max-exec', '100000'],
        search_args=[['--mode', 'dfs', '--pb', '3', '--wb', '1', '--max-exec', '60000'],
                     ['--mode', 'random', '--random-runs', '3000']],
        unmodelled_ok=STALE)
    # an obligation broke and no schedule shows anything: search the memory-model clause ("what one critical section wrote
    # is visible in the next") with the C04 machinery restricted to the mutex (vlib/memsearch.py)
    memsearch.refine_no_input(res, 'C14', tier, ['include/yaclib/coro/mutex.hpp'], 'comutex')


def replay(path):
    r = memsearch.replay(path)
    return conc.replay('C14', path) if r is None else r
