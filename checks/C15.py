"""C15 — coroutine SharedMutex: writers exclude all, readers share, nobody is forgotten (DESIGN.md §3 C15)."""
from vlib import apiprobe
from vlib import common as C
from vlib import conc
from vlib import memsearch

RULES = ['rdFadd.fast', 'rdFadd.slow', 'spinOk', 'spinBusy', 'spinLoad.free', 'spinLoad.busy', 'rdUnlock.pass', 'rdUnlock.park',
         'enterR', 'enterW', 'exitR', 'exitW', 'rdFsub.free', 'rdFsub.pay', 'rwFsub.last', 'rwFsub.early', 'rwFsub.more',
         'runFirst', 'trLoad.free', 'trLoad.writer', 'trCasOk', 'trCasFail.spurious', 'trCasFail.changed', 'tryFailR',
         'tryFailW', 'twLoad.zero', 'twLoad.busy', 'twLoad.busy.try', 'twCasOk', 'twCasFail', 'twCasFail.try', 'wrFadd.free',
         'wrFadd.first', 'wrFadd.enq', 'wrPost.paid', 'wrPost.wait', 'wUnlock.acq', 'wUnlock.enq', 'tailUnlock', 'wuCasOk',
         'wuCasFail', 'wuFsub.runWriter', 'wuFsub.stored', 'wuFsub.readersPass', 'wuFsub.passOnly', 'rwStore',
         'uUnlock.runWriter', 'uUnlock.stored', 'uUnlock.readersPass', 'uUnlock.passOnly', 'runW', 'runR']
# behaviours of the model that the sequentially consistent FIBER backend cannot show (the driver requires loaded values to be current)
STALE = ['twLoad.stale', 'trLoad.stale', 'spinLoad.stale']


def run(res, tier):
    res.assumptions += [
        'holders release and executors accept work (hypotheses of the property): in the model a holder\'s program continues with its release and a coroutine handed to Run is runnable; in the harness the instrumented executor never rejects',
        'the theorems are for any number of coroutines, any programs and all four <FIFO,ReadersFIFO> combinations; the harness runs 2..3 coroutines x 1..2 rounds on an inline executor, a single-worker and a two-worker queue executor driven by harness fibers',
        'only UnlockHere / UnlockHereShared / guard destruction release a SharedMutex (Guard::Unlock/UnlockOn do not compile for it)',
        'Spinlock::lock busy-waits; the harness suspends a fiber whose spin load saw the lock taken until the unlocking store (every trace is still a trace of the real code); the failed exchange and the spin loads are validated against the model',
        'the packed 64-bit word is a pair of naturals and _readers_wait an integer in the model; no_borrow / pass_no_underflow / reg_bound / u32_compare_exact show that the machine arithmetic agrees for fewer than 2^30 coroutines',
        'every state reached by an implementation trace is additionally checked against an executable mirror of the proved invariant (Driver/CoSharedMutexCheck.lean)',
        'the model allows stale pre-check loads; the FIBER backend never produces them (model behaviours ⊇ implementation behaviours)',
    ]
    apiprobe.stage(res, 'C15', tier)  # every public form of the area still instantiates (vlib/apiprobe.py, harness/api_probe_*.cpp)
    conc.concurrent_check(
        res, 'C15', tier, 'c15.cpp', 'cosharedmutex', RULES,
        quick_args=['--mode', 'dfs', '--pb', '2', '--wb', '1', '--max-exec', '8000'],
        thorough_args=['--mode', 'dfs', '--pb', '3', '--wb', '1', '--max-exec', '60000'],
        search_args=[['--mode', 'dfs', '--pb', '3', '--wb', '1', '--max-exec', '60000'],
                     ['--mode', 'random', '--random-runs', '3000']],
        unmodelled_ok=STALE)
    # an obligation broke and no schedule shows anything: search the memory-model side with the C04 machinery restricted
    # to the shared mutex and its spinlock (vlib/memsearch.py)
    memsearch.refine_no_input(res, 'C15', tier, ['include/yaclib/coro/shared_mutex.hpp', 'include/yaclib/util/detail/spinlock.hpp'],
                              'cosharedmutex')


def replay(path):
    r = apiprobe.replay(path)
    if r is not None:
        return r
    r = memsearch.replay(path)
    return conc.replay('C15', path) if r is None else r
