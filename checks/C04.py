"""C04 — no data races; completion is visible (DESIGN.md §3 C04)."""
import os
import re
import subprocess

from vlib import common as C
from vlib import x_orders

SCENARIOS = ['handoff_continuation', 'handoff_get', 'shared_moveout', 'shared_subscribers', 'strand_counter', 'when_all',
             'when_any', 'pool_pipeline', 'handoff_race', 'strand_inline', 'strand_spawn', 'comutex', 'cosharedmutex', 'coawait',
             'waitgroup_late', 'waitgroup_two_doners', 'wait_two_producers']


# scenarios that exercise the atomic sites of a file (for the escalation of the failing-input search)
RELATED = {
    'coro/mutex.hpp': ['comutex'], 'coro/shared_mutex.hpp': ['cosharedmutex'], 'spinlock.hpp': ['cosharedmutex'],
    'exe/strand.cpp': ['strand_counter', 'strand_inline', 'strand_spawn'], 'base_core': ['handoff_continuation', 'handoff_get',
    'handoff_race', 'shared_subscribers', 'shared_moveout'], 'atomic_counter.hpp': ['shared_moveout', 'strand_counter',
    'waitgroup_two_doners', 'wait_two_producers'], 'one_shot_event': ['waitgroup_late', 'waitgroup_two_doners'],
    'wait_group.hpp': ['waitgroup_late', 'waitgroup_two_doners'], 'when/': ['when_all', 'when_any'],
    'coro/detail/': ['coawait'], 'shared_event.hpp': ['coawait'], 'fair_thread_pool': ['pool_pipeline'],
    'wait_impl.hpp': ['wait_two_producers', 'handoff_get'], 'shared_core.hpp': ['shared_moveout', 'shared_subscribers'],
    'result_core.hpp': ['shared_moveout', 'handoff_continuation'],
}


def extract():
    lib = C.build_lib('fiber')
    try:
        text, sites = x_orders.generate(C.REPO, os.path.join(lib, 'include'), C.WORK)
    except Exception as e:
        return None, str(e)
    C.write_if_changed(os.path.join(C.LEAN, 'YaclibModel/Extracted/Orders.lean'), text)
    return sites, None


def eval_lists():
    """names of the insufficient / unknown sites, computed by Lean from the regenerated table"""
    src = ('import YaclibModel.Model.OrdersCheck\nopen Yaclib.OrdersCheck\n'
           '#eval IO.println ("INSUFFICIENT\\n" ++ "\\n".intercalate (insufficient.map showSite))\n'
           '#eval IO.println ("UNKNOWN\\n" ++ "\\n".intercalate (unknown.map showSite))\n')
    path = os.path.join(C.WORK, 'c04_eval.lean')
    open(path, 'w').write(src)
    with C.Lock('lake'):
        C.sh(['lake', 'build', 'YaclibModel.Model.OrdersCheck'], cwd=C.LEAN)
        rc, out, err = C.sh(['lake', 'env', 'lean', path], cwd=C.LEAN)
    ins, unk, cur = [], [], None
    for line in out.split('\n'):
        if line == 'INSUFFICIENT':
            cur = ins
        elif line == 'UNKNOWN':
            cur = unk
        elif line.strip() and cur is not None:
            cur.append(line.strip())
    return ins, unk, (out + err if rc != 0 else '')


def tsan_run(iters, scenarios=SCENARIOS):
    h = C.build_harness('c04_tsan', 'tsan', ['c04_tsan.cpp'])
    results = []
    for sc in scenarios:
        r = subprocess.run([h, sc, str(iters)], capture_output=True, text=True,
                           env=dict(os.environ, TSAN_OPTIONS='halt_on_error=0 second_deadlock_stack=0'))
        n = r.stderr.count('WARNING: ThreadSanitizer')
        summary = re.findall(r'^SUMMARY: .*$', r.stderr, re.M)
        frames = re.findall(r'#\d+ (yaclib::[^\n]*?) (/repo/[^ ]+)', r.stderr)
        results.append({'scenario': sc, 'exit': r.returncode, 'reports': n, 'summary': summary[:2],
                        'yaclib_frames': ['%s %s' % f for f in frames[:6]], 'stderr_head': r.stderr[:400] if r.returncode not in (0, 66) else ''})
    return results


def run(res, tier):
    res.assumptions += [
        'memory model: promise-free release/acquire/relaxed with fences and C++20 release sequences; seq_cst treated as acq_rel; no consume; stores append to the modification order (DESIGN.md §2.2)',
        'that an atomic site plays the role the table assigns to it is hand-written (Model/OrdersRequired.lean), backed by the protocol models of C01/C06/C07/C14-C16',
        'x86 cannot exhibit most weak behaviours; ThreadSanitizer (which tracks happens-before per the C++ model) is the implementation-side witness',
    ]
    sites, xerr = extract()
    broken = []
    if xerr:
        broken.append('translator x_orders failed: ' + xerr)
    ok, b2 = C.proof_stage(res, 'C04')
    broken += b2
    ins, unk, everr = ([], [], '') if xerr else eval_lists()
    tsan = []
    if tier == 'thorough' or broken or ins or unk:
        tsan = tsan_run(150 if tier == 'quick' else 1500)
    racy = [t for t in tsan if t['reports'] > 0]
    if (broken or ins or unk) and not racy and tier == 'quick':
        # a race detector on real threads is probabilistic: before giving up on a failing input, look harder — all scenarios
        # with ten times the iterations, then the scenarios that exercise the files of the offending sites once more
        tsan = tsan_run(1500)
        racy = [t for t in tsan if t['reports'] > 0]
        if not racy:
            rel = sorted({sc for site in (ins + unk) for key, scs in RELATED.items() if key in site for sc in scs})
            if rel:
                more = tsan_run(8000, rel)
                tsan += more
                racy = [t for t in more if t['reports'] > 0]
    crashed = [t for t in tsan if t['exit'] not in (0, 66)]
    if racy:
        for t in racy:
            msg = 'ThreadSanitizer reports a data race inside the library in scenario %s: %s' % (t['scenario'], '; '.join(t['yaclib_frames'][:2]) or (t['summary'] or ['?'])[0])
            text = 'scenario: %s\nreplay: build harness/c04_tsan.cpp against the TSAN library and run `c04_tsan %s 500`\n%s\ninsufficient orders (from the regenerated table):\n%s' % (
                t['scenario'], t['scenario'], '\n'.join(t['summary'] + t['yaclib_frames']), '\n'.join(ins))
            res.violation(text, msg, name='C04_%s_%s.txt' % (tier, t['scenario']))
    elif crashed:
        res.violation(str(crashed), 'TSAN scenario crashed: ' + crashed[0]['scenario'], name='C04_%s_crash.txt' % tier)
    elif broken or ins or unk:
        what = (['insufficient order at: ' + s for s in ins] + ['atomic site without a role: ' + s for s in unk] + broken)
        res.violation('\n'.join(what), 'C04 obligations no longer check: ' + what[0][:200], no_input=True,
                      name='C04_%s_obligations.txt' % tier)
    n = len(sites or [])
    res.coverage.update({
        'evaluations': n + sum(1 for _ in tsan), 'distinct_nontrivial': n,
        'rule': 'every atomic operation site of the library proper (regenerated from the clang AST) checked against the role table; '
                'ThreadSanitizer scenarios on real threads when an obligation breaks (and always in the thorough tier)',
        'samples': ['%s %s %s.%s#%d %s/%s' % s for s in (sites or [])[:4]],
        'sites': n, 'insufficient_sites': ins, 'unknown_sites': unk, 'tsan': tsan,
        'broken_obligations': broken,
    })


def replay(path):
    sc = None
    for line in open(path):
        if line.startswith('scenario: '):
            sc = line.split(': ', 1)[1].strip()
    if sc is None:
        print(open(path).read())
        return 1
    r = tsan_run(500, [sc])[0]
    print(r)
    return 1 if r['reports'] else 0
