"""C06 — SharedFuture: every observer sees the one value once, never before it exists (DESIGN.md §3 C06)."""
from vlib import apiprobe
from vlib import common as C
from vlib import conc

RULES = ['fXchg.empty', 'fXchg.list', 'fDec1', 'fDec', 'fInvoke', 'fSet', 'fIncRef', 'fSubmit', 'fRefLoad', 'fForward.copy',
         'fForward.move', 'fEnter', 'oLoad.list', 'oLoad.result', 'oCasOk', 'oCasFail.list', 'oCasFail.result',
         'oCasSpur.list', 'oInvoke', 'oIncRef', 'oSubmit', 'oForward', 'oEnter', 'rRefLoad', 'rRetire.copy', 'rRetire.move', 'oWaited',
         'oGetc', 'oGetRef', 'oGot.copy', 'oGot.move', 'oRdLoad', 'oReady.false', 'oReady.true',
         'oTouch.some', 'oCopy', 'oDrop', 'jInvoke', 'jDec', 'chk.consume']
# Step constructors / outcomes the theorems show unreachable (`target_never_sees_ref_one`;
# a spurious CAS failure cannot return kResult because the word then differs from the expected value;
# `ready_sound` / `touch_never_reads_unconstructed`: Ready() == true with unconstructed storage and the read of it — these two
# were reachable, and exhibited on the real library, before /repo c9c07bc fixed D3)
UNREACHABLE = ['fTargetDec', 'fForwardPost', 'oCasSpur.result', 'oReady.true.unset', 'oTouch.none']


def run(res, tier):
    res.assumptions += [
        'one fulfilling thread — a SharedPromise (MakeSharedContract / MakeSharedContractOn) set or dropped, a SharedFuture coroutine, '
        'or an upstream unique core (Promise, coroutine Future, coroutine + ThenInline) whose callback the shared core is after '
        'Split / Connect(f, SharedPromise), entered through SharedCore::Here or (symmetric transfer) SharedCore::Next — '
        'any number of observer threads each running any list of operations on its own SharedFuture copies '
        '(attach inline / via executor / Wait / Connect-Share-Split target / When-style Retire, Get const&, Get &&, Ready, '
        'Ready-then-Touch, copy, destroy), executor jobs run by anybody at any later time',
        'the model allows stale pre-check loads of the callback word; the FIBER backend never produces them (model behaviours ⊇ '
        'implementation behaviours); the reference counter is read sequentially consistently (its memory orders are C04\'s matter, D9)',
        'MutexEvent::Set of a blocked Wait/Get is one step (the mutex / condition variable protocol is C01/C11\'s); '
        'co_await is covered through its two halves (await_ready = the Ready-then-read fast path, await_suspend = attach inline), '
        'When* through a callback that does what CombinatorCallback does with a shared input (Release the future, SetCallback; entered by '
        'the walk or inline; Retire() at once inside the entry — Managed strategies — or later on another thread — Owned strategies)',
        'Ready() is BaseCore::Ready() (word == kResult, /repo c9c07bc); the monitor that exhibited D3 on the pinned tree '
        '(Ready() == true => Touch() reads the set value) is still armed',
    ]
    apiprobe.stage(res, 'C06', tier)  # every public form of the area still instantiates (vlib/apiprobe.py, harness/api_probe_*.cpp)
    conc.concurrent_check(
        res, 'C06', tier, 'c06.cpp', 'shared', RULES,
        quick_args=['--mode', 'dfs', '--pb', '1', '--wb', '1'],
        thorough_args=['--mode', 'dfs', '--pb', '2', '--wb', '1', '--max-exec', '300000', '--big'],
        search_args=[['--mode', 'dfs', '--pb', '2', '--wb', '1', '--max-exec', '60000'],
                     ['--mode', 'random', '--random-runs', '2000']],
        unmodelled_ok=UNREACHABLE)


def replay(path):
    r = apiprobe.replay(path)
    if r is not None:
        return r
    return conc.replay('C06', path)
