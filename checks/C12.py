"""C12 — program-level pipeline check (DESIGN.md §3 C12): theorems of Props/C12.lean, T1 dispatch tables, T2 kernel skeletons,
T3 differential of harness/pipe.cpp (real library) against the Lean mechanism `mech` and the sequential reading `spec`."""
from vlib import apiprobe
from vlib import pipecheck


def run(res, tier):
    apiprobe.stage(res, 'C12', tier)  # every public form of the area still instantiates (vlib/apiprobe.py, harness/api_probe_*.cpp)
    pipecheck.run(res, 'C12', tier)


def replay(path):
    r = apiprobe.replay(path)
    if r is not None:
        return r
    return pipecheck.replay('C12', path)
