"""C10 — WhenAny completes once with the right winner for each fail policy (DESIGN.md §3 C10)."""
from vlib import apiprobe
from vlib import conc

from . import _when

RULES = ['regSet.installed', 'regSet.inline', 'fire', 'retire',
         'loadFlag.notdone', 'loadFlag.done', 'xchgFlag.win', 'xchgFlag.lose',
         'load3.value.go', 'load3.value.skip', 'load3.fail.go', 'load3.fail.skip', 'xchg3.win', 'xchg3.lose', 'cas3.ok', 'cas3.fail',
         'loadLf.notdone', 'loadLf.done', 'xchgLf.win', 'xchgLf.lose', 'fsubLf.last', 'fsubLf.notlast', 'fsubLf.wrapped',
         'setOut', 'dec.notlast', 'dec.last', 'dec.notlast.store', 'dec.last.store', 'dtorSet', 'obs.out', 'obs.invalid']
NOT_EXHIBITABLE = ['loadFlag.stale', 'load3.stale', 'loadLf.stale', 'dtorThrow']


def run(res, tier):
    res.assumptions += [
        'the input interface of the When model ("the combinator callback of input i is entered exactly once: inline by the '
        'registering thread only if the input was already complete, else by the completing thread after the callback was '
        'installed") is a THEOREM, not an assumption: for unique inputs the composition with n instances of the C01 model '
        '(WhenU, input_interface_sound, incl. quiescence), for SharedFuture inputs the composition with n instances of the C06 '
        'model with arbitrary other observers (WhenS, shared_input_interface_sound; entries synchronised, Retire() of the entered '
        'callback is C06 retire_moves_only_as_sole_owner; quiescence of WhenS is not lifted: not-lost per instance is C06 '
        'quiescent_complete); that every shared input has its own callback node is the node theorem; packs mixing unique and '
        'shared inputs: WhenM (instance i of either kind), mixed_input_interface_sound',
        'every input eventually completes (a dropped Promise completes its Future with StopError), so "quiescent" means finished',
        '"first" / "last" refer to the linearisation order of the read-modify-write operations on the strategy word',
        'Any<LastFail>: 2 * count fits a size_t (count < 2^63); the dynamic WhenAny with one input returns that input itself '
        '(no combinator): checked by the harness monitors only',
        'the model allows stale pre-check loads; the FIBER backend never produces them',
    ]
    apiprobe.stage(res, 'C10', tier)  # every public form of the area still instantiates (vlib/apiprobe.py, harness/api_probe_*.cpp)
    conc.concurrent_check(
        res, 'C10', tier, 'c10.cpp', 'when', RULES,
        quick_args=['--family', 'any', '--mode', 'dfs', '--pb', '2', '--pb3', '2', '--wb', '1'],
        thorough_args=['--family', 'any', '--mode', 'dfs', '--pb', '3', '--pb3', '3', '--wb', '2', '--max-exec', '3000000'],
        search_args=[['--family', 'any', '--mode', 'dfs', '--pb', '3', '--pb3', '2', '--wb', '1', '--max-exec', '400000'],
                     ['--family', 'any', '--mode', 'random', '--random-runs', '3000']],
        unmodelled_ok=NOT_EXHIBITABLE)
    _when.sanitizer_pass(res, 'C10', tier, 'any', 'c10.cpp')


def replay(path):
    r = apiprobe.replay(path)
    if r is not None:
        return r
    return _when.replay('C10', path)
