/- Generic trace validator: implementation traces ⊆ model traces (refinement check, DESIGN §2.3 T3).

   input:  run <header tokens…>
           <trace line>*
           end
           (repeated)
   output: one line per run:  ok <n lines> | mismatch line <k>: <line> | state: <state>
           finally:           rules <name>=<count> …                                            -/
namespace Yaclib.Driver

structure TraceModel where
  σ : Type
  /-- initial state from the header tokens (after `run <model>`) -/
  init : List String → Option σ
  /-- one trace line: `none` = not part of this model (skipped), `some none` = rejected,
      `some (some (s', rule))` = accepted -/
  step : σ → List String → Option (Option (σ × String))
  /-- check at `end`; `none` = fine -/
  final : σ → Option String
  showState : σ → String

structure Acc where
  rules : List (String × Nat) := []
  runs : Nat := 0
  bad : Nat := 0

def bump (rules : List (String × Nat)) (r : String) : List (String × Nat) :=
  match rules with
  | [] => [(r, 1)]
  | (k, n) :: rest => if k = r then (k, n + 1) :: rest else (k, n) :: bump rest r

def toks (line : String) : List String :=
  (line.trimAscii.toString.splitOn " ").filter (· ≠ "")

partial def runTrace (m : TraceModel) (h : IO.FS.Stream) (s : m.σ) (n : Nat) (acc : Acc) (failed : Option String) :
    IO (Acc × Bool) := do
  let line ← h.getLine
  if line.isEmpty then return (acc, false)
  let ts := toks line
  if ts = ["end"] then
    match failed with
    | some msg => IO.println msg; return ({ acc with runs := acc.runs + 1, bad := acc.bad + 1 }, true)
    | none =>
      match m.final s with
      | none => IO.println s!"ok {n}"; return ({ acc with runs := acc.runs + 1 }, true)
      | some msg =>
          IO.println s!"mismatch at end: {msg} | state: {m.showState s}"
          return ({ acc with runs := acc.runs + 1, bad := acc.bad + 1 }, true)
  else
    match failed with
    | some _ => runTrace m h s (n + 1) acc failed
    | none =>
      match m.step s ts with
      | none => runTrace m h s (n + 1) acc none
      | some none =>
          runTrace m h s (n + 1) acc
            (some s!"mismatch line {n + 1}: {line.trimAscii.toString} | state: {m.showState s}")
      | some (some (s', rule)) => runTrace m h s' (n + 1) { acc with rules := bump acc.rules rule } none

partial def validateLoop (m : TraceModel) (h : IO.FS.Stream) (acc : Acc) : IO Acc := do
  let line ← h.getLine
  if line.isEmpty then return acc
  match toks line with
  | "run" :: hdr =>
      match m.init hdr with
      | none =>
          IO.println s!"bad-header {line.trimAscii.toString}"
          -- skip to end
          let rec skip : IO Unit := do
            let l ← h.getLine
            if l.isEmpty || toks l = ["end"] then return () else skip
          skip
          validateLoop m h { acc with runs := acc.runs + 1, bad := acc.bad + 1 }
      | some s =>
          let (acc', _) ← runTrace m h s 0 acc none
          validateLoop m h acc'
  | _ => validateLoop m h acc

def validate (m : TraceModel) : IO UInt32 := do
  let acc ← validateLoop m (← IO.getStdin) {}
  let rs := acc.rules.map fun (k, n) => s!"{k}={n}"
  IO.println s!"rules {" ".intercalate rs}"
  IO.println s!"summary runs={acc.runs} bad={acc.bad}"
  return (if acc.bad = 0 then 0 else 1)

/-- `key=value` lookup in header tokens -/
def hdrGet (hdr : List String) (key : String) : Option String :=
  hdr.findSome? fun t => if t.startsWith (key ++ "=") then some ((t.drop (key.length + 1)).toString) else none

end Yaclib.Driver
