/- trace validator for the C08 model (Model/Pool.lean)

   header:  run pool workers=<n> subs=<k0,k1,…> [virt=<v0,v1,…>] stop=<stop|soft|hard|none> late=<0|1> …
   Submit streams of the model = the real submitters (subs), then the *virtual* streams (virt: Submits made from
            inside a job body or a Drop — by a worker, by the stopper inside HardStop's Drop loop, by a submitter whose
            job was rejected; a virtual stream need not submit all of its jobs), then (late=1) the root.
   threads: w<i> = worker i, s<i> = submitter i, x = the stopper, r = the root fiber.  A thread that emits
            `E submit j<I>.<k>` is inside a Submit of stream I until that Submit returns; its lock / unlock / notify_one /
            drop lines in between belong to stream I.
   objects: m = FairThreadPool::_m (the fiber mutex reports its internal wait queue under the same name:
            `m park|wake|notify_one` are scheduler level and skipped), cv = FairThreadPool::_idle,
            j… = synchronisation private to job bodies (skipped)
   jobs:    j<i>.<k> = k-th job of stream i, `late` = the root's job                                            -/
import YaclibModel.Model.Pool
import Driver.Trace

namespace Yaclib.Driver.PoolD
open Yaclib.Pool Yaclib.Driver

structure DState where
  m : State
  nReal : Nat
  nVirt : Nat
  cur : List (String × Nat)      -- trace thread ↦ the Submit stream it is inside

def parseKind (s : String) : Option (Option StopKind) :=
  match s with
  | "stop" => some (some .stop) | "soft" => some (some .soft) | "hard" => some (some .hard)
  | "none" => some none | _ => none

def parseNats (o : Option String) : Option (List Nat) :=
  match o with
  | none => some []
  | some "-" => some []
  | some t => (t.splitOn ",").mapM String.toNat?

def initP (hdr : List String) : Option DState := do
  let n ← (hdrGet hdr "workers").bind String.toNat?
  let subs ← parseNats (hdrGet hdr "subs")
  let virt ← parseNats (hdrGet hdr "virt")
  let kind ← (hdrGet hdr "stop").bind parseKind
  let late := (hdrGet hdr "late") = some "1"
  pure { m := init { workers := n, subs := subs ++ virt ++ (if late then [1] else []), stop := kind },
         nReal := subs.length, nVirt := virt.length, cur := [] }

/-- the thread a trace name stands for when it is not inside a Submit -/
def parseTid (t : String) : Option Tid :=
  if t = "x" then some .stopper
  else if t.startsWith "w" then (t.drop 1).toString.toNat?.map .worker
  else none

/-- who acts in the model when trace thread `t` does a mutex / condvar operation or a Drop -/
def actor (d : DState) (t : String) : Option Tid :=
  match d.cur.lookup t with
  | some i =>
      (match d.m.subs[i]? with
       | some sb => if sb.pc ≠ .idle then some (.sub i) else parseTid t
       | none => parseTid t)
  | none => parseTid t

def parseJob (s : State) (j : String) : Option JobId :=
  if j = "late" then (if s.subs.length = 0 then none else some ⟨s.subs.length - 1, 0⟩)
  else if j.startsWith "j" then
    match (j.drop 1).toString.splitOn "." with
    | [a, b] => do let a ← a.toNat?; let b ← b.toNat?; pure ⟨a, b⟩
    | _ => none
  else none

def ruleOf (s : State) (l : Label) : String :=
  match l with
  | .submit _ _ => "sBegin"
  | .stopBegin _ => "xBegin"
  | .lock (.sub _) => "sLock"
  | .lock (.worker i) =>
      (match s.workers[i]? with
       | some .relock => "wRelock" | some .start => "wLock.start" | _ => "wLock.woken")
  | .lock .stopper => "xLock"
  | .unlock (.sub _) => if Extracted.PoolConsts.wasStop s.cnt then "sReject" else "sAccept"
  | .unlock (.worker i) =>
      (match s.workers[i]? with
       | some (.held b) =>
           let c := cntAfter b s.cnt
           let sfx := if b then ".afterCall" else ".fresh"
           (match s.queue with
            | _ :: _ => "wPop"
            | [] => if Extracted.PoolConsts.noJobs c && Extracted.PoolConsts.wantStop c then "wStop"
                    else if Extracted.PoolConsts.wasStop c then "wExit" else "wWait") ++ sfx
       | _ => "?")
  | .unlock .stopper =>
      (match s.kind with
       | some .stop => "xStop"
       | some .soft => if Extracted.PoolConsts.noJobs s.cnt then "xSoftNow" else "xSoftWant"
       | some .hard => if s.queue = [] then "xHard.empty" else "xHard.steal"
       | none => "?")
  | .call _ _ => "wCall"
  | .drop (.sub _) _ => "sDrop"
  | .drop _ _ => "xDrop"
  | .notifyOne _ none => "sNotifyNone"
  | .notifyOne _ (some _) => "sNotifyOne"
  | .notifyAll (.worker _) => "wNotifyAll"
  | .notifyAll _ => "xNotifyAll"
  | .spurious _ => "wSpurious"
  | .waitReturn => "waitRet"

inductive Parsed where
  | skip                         -- not part of the model
  | bad                          -- malformed / impossible
  | lab (l : Label)              -- a model step
  | check (ok : Bool) (name : String)   -- no step, but the model state must agree

def workerPc (s : State) (t : String) : Option WPc :=
  match parseTid t with
  | some (.worker i) => s.workers[i]?
  | _ => none

def toParsed (d : DState) (ts : List String) : Parsed :=
  let s := d.m
  match ts with
  | [t, "M", "m", "lock", _] => (match actor d t with | some t => .lab (.lock t) | none => .bad)
  | [t, "M", "m", "unlock", _] => (match actor d t with | some t => .lab (.unlock t) | none => .bad)
  | _ :: "M" :: "m" :: _ => .skip
  | [t, "M", "cv", "park", _] => .check (workerPc s t = some .parked) "check.park"
  | [t, "M", "cv", "wake", _] =>
      (match parseTid t, workerPc s t with
       | some (.worker i), some .parked => .lab (.spurious i)      -- nobody notified it
       | _, some .woken => .check true "check.wake"
       | _, _ => .bad)
  | [t, "M", "cv", "notify_one", "0"] =>
      (match actor d t with | some (.sub i) => .lab (.notifyOne i none) | _ => .bad)
  | [t, "M", "cv", "notify_one", "1", v] =>
      (match actor d t, parseTid v with
       | some (.sub i), some (.worker v) => .lab (.notifyOne i (some v))
       | _, _ => .bad)
  | [t, "M", "cv", "notify_all", r] =>
      -- the implementation reports whether anybody was waiting: must agree with the model's parked set
      if (r = "1") ≠ (s.workers.contains .parked) then .bad
      else (match actor d t with | some t => .lab (.notifyAll t) | none => .bad)
  | _ :: "M" :: o :: _ => if o.startsWith "j" then .skip else .bad     -- job-private objects / unknown object
  | [_, "E", "submit", j] =>
      (match parseJob s j with | some j => .lab (.submit j.sub j) | none => .bad)
  | ["x", "E", "stop", k] => (match parseKind k with | some (some k) => .lab (.stopBegin k) | _ => .bad)
  | ["x", "E", "stop_done"] => .check (s.xpc = .done) "check.stopDone"
  | [t, "E", "call", j] =>
      (match parseTid t, parseJob s j with | some (.worker i), some j => .lab (.call i j) | _, _ => .bad)
  | [t, "E", "drop", j] =>
      (match actor d t, parseJob s j with | some t, some j => .lab (.drop t j) | _, _ => .bad)
  | ["r", "E", "wait_returned"] => .lab .waitReturn
  | _ :: "E" :: _ => .bad
  | _ => .skip

def cleanup (s : State) (cur : List (String × Nat)) : List (String × Nat) :=
  cur.filter fun (_, i) => match s.subs[i]? with | some sb => sb.pc ≠ .idle | none => false

def nestedSuffix (d : DState) (l : Label) : String :=
  match l with
  | .submit i _ => if d.nReal ≤ i ∧ i < d.nReal + d.nVirt then ".nested" else ""
  | _ => ""

def stepP (d : DState) (ts : List String) : Option (Option (DState × String)) :=
  match toParsed d ts with
  | .skip => none
  | .bad => some none
  | .check ok name => if ok then some (some (d, name)) else some none
  | .lab l =>
      match next d.m l with
      | none => some none
      | some s' =>
          let cur := match l, ts with
            | .submit i _, t :: _ => (t, i) :: d.cur.filter (fun p => p.1 ≠ t)
            | _, _ => d.cur
          some (some ({ d with m := s', cur := cleanup s' cur }, ruleOf d.m l ++ nestedSuffix d l))

/-- every run of the harness ends after Wait returned, with every real submitter and the stopper finished;
    a virtual stream (Submits from inside job bodies / Drops) must not be inside a Submit -/
def finalP (d : DState) : Option String :=
  let s := d.m
  let unfinished := (List.range s.subs.length).any fun i =>
    match s.subs[i]? with
    | some sb => sb.pc ≠ .idle ∨ ((i < d.nReal ∨ d.nReal + d.nVirt ≤ i) ∧ sb.k ≠ sb.total)
    | none => false
  if s.waitReturned = false then some "Wait did not return"
  else if s.workers.any (· ≠ .exited) then some "a worker has not exited"
  else if unfinished then some "a submitter has not finished"
  else if s.xpc ≠ .done then some "the stopper has not finished"
  else if s.locked then some "the mutex is held"
  else none

def model : TraceModel :=
  { σ := DState, init := initP, step := stepP, final := finalP, showState := fun d => reprStr d.m ++ s!" cur={d.cur}" }

end Yaclib.Driver.PoolD
