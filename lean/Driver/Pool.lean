/- trace validator for the C08 model (Model/Pool.lean)

   header:  run pool workers=<n> subs=<k0,k1,…> stop=<stop|soft|hard|none> late=<0|1> …
   threads: w<i> = worker i, s<i> = submitter i, x = the stopper, r = the root fiber, which (if late=1) acts as
            one more submitter (index = number of submitters) submitting the single job `late` after Wait returned
   objects: m = FairThreadPool::_m (the fiber mutex reports its internal wait queue under the same name:
            `m park|wake|notify_one` are scheduler level and skipped), cv = FairThreadPool::_idle
   jobs:    j<i>.<k> = k-th job of submitter i                                                                -/
import YaclibModel.Model.Pool
import Driver.Trace

namespace Yaclib.Driver.PoolD
open Yaclib.Pool Yaclib.Driver

def parseKind (s : String) : Option (Option StopKind) :=
  match s with
  | "stop" => some (some .stop) | "soft" => some (some .soft) | "hard" => some (some .hard)
  | "none" => some none | _ => none

def initP (hdr : List String) : Option State := do
  let n ← (hdrGet hdr "workers").bind String.toNat?
  let subsS ← hdrGet hdr "subs"
  let subs ← if subsS = "-" then some [] else (subsS.splitOn ",").mapM String.toNat?
  let kind ← (hdrGet hdr "stop").bind parseKind
  let late := (hdrGet hdr "late") = some "1"
  pure (init { workers := n, subs := if late then subs ++ [1] else subs, stop := kind })

/-- the real submitters are all but the last one when the header said late=1; the driver does not keep the flag,
    `r` is simply the last submitter -/
def parseTid (s : State) (t : String) : Option Tid :=
  if t = "x" then some .stopper
  else if t = "r" then (if s.subs.length = 0 then none else some (.sub (s.subs.length - 1)))
  else if t.startsWith "w" then (t.drop 1).toString.toNat?.map .worker
  else if t.startsWith "s" then (t.drop 1).toString.toNat?.map .sub
  else none

def parseJob (s : State) (j : String) : Option JobId :=
  if j = "late" then (if s.subs.length = 0 then none else some ⟨s.subs.length - 1, 0⟩)
  else if j.startsWith "j" then
    match (j.drop 1).toString.splitOn "." with
    | [a, b] => do let a ← a.toNat?; let b ← b.toNat?; pure ⟨a, b⟩
    | _ => none
  else none

def ruleOf (s : State) (l : Label) : String :=
  match l with
  | .submit _ _ => "sBegin"
  | .stopBegin _ => "xBegin"
  | .lock (.sub _) => "sLock"
  | .lock (.worker i) =>
      (match s.workers[i]? with
       | some .relock => "wRelock" | some .start => "wLock.start" | _ => "wLock.woken")
  | .lock .stopper => "xLock"
  | .unlock (.sub _) => if Extracted.PoolConsts.wasStop s.cnt then "sReject" else "sAccept"
  | .unlock (.worker i) =>
      (match s.workers[i]? with
       | some (.held b) =>
           let c := cntAfter b s.cnt
           let sfx := if b then ".afterCall" else ".fresh"
           (match s.queue with
            | _ :: _ => "wPop"
            | [] => if Extracted.PoolConsts.noJobs c && Extracted.PoolConsts.wantStop c then "wStop"
                    else if Extracted.PoolConsts.wasStop c then "wExit" else "wWait") ++ sfx
       | _ => "?")
  | .unlock .stopper =>
      (match s.kind with
       | some .stop => "xStop"
       | some .soft => if Extracted.PoolConsts.noJobs s.cnt then "xSoftNow" else "xSoftWant"
       | some .hard => if s.queue = [] then "xHard.empty" else "xHard.steal"
       | none => "?")
  | .call _ _ => "wCall"
  | .drop (.sub _) _ => "sDrop"
  | .drop _ _ => "xDrop"
  | .notifyOne _ none => "sNotifyNone"
  | .notifyOne _ (some _) => "sNotifyOne"
  | .notifyAll (.worker _) => "wNotifyAll"
  | .notifyAll _ => "xNotifyAll"
  | .spurious _ => "wSpurious"
  | .waitReturn => "waitRet"

inductive Parsed where
  | skip                         -- not part of the model
  | bad                          -- malformed / impossible
  | lab (l : Label)              -- a model step
  | check (ok : Bool) (name : String)   -- no step, but the model state must agree

def workerPc (s : State) (t : String) : Option WPc :=
  match parseTid s t with
  | some (.worker i) => s.workers[i]?
  | _ => none

def toParsed (s : State) (ts : List String) : Parsed :=
  match ts with
  | [t, "M", "m", "lock", _] => (match parseTid s t with | some t => .lab (.lock t) | none => .bad)
  | [t, "M", "m", "unlock", _] => (match parseTid s t with | some t => .lab (.unlock t) | none => .bad)
  | _ :: "M" :: "m" :: _ => .skip
  | [t, "M", "cv", "park", _] => .check (workerPc s t = some .parked) "check.park"
  | [t, "M", "cv", "wake", _] =>
      (match parseTid s t, workerPc s t with
       | some (.worker i), some .parked => .lab (.spurious i)      -- nobody notified it
       | _, some .woken => .check true "check.wake"
       | _, _ => .bad)
  | [t, "M", "cv", "notify_one", "0"] =>
      (match parseTid s t with | some (.sub i) => .lab (.notifyOne i none) | _ => .bad)
  | [t, "M", "cv", "notify_one", "1", v] =>
      (match parseTid s t, parseTid s v with
       | some (.sub i), some (.worker v) => .lab (.notifyOne i (some v))
       | _, _ => .bad)
  | [t, "M", "cv", "notify_all", r] =>
      -- the implementation reports whether anybody was waiting: must agree with the model's parked set
      if (r = "1") ≠ (s.workers.contains .parked) then .bad
      else (match parseTid s t with | some t => .lab (.notifyAll t) | none => .bad)
  | _ :: "M" :: _ => .bad                        -- an unknown sync object
  | [t, "E", "submit", j] =>
      (match parseTid s t, parseJob s j with | some (.sub i), some j => .lab (.submit i j) | _, _ => .bad)
  | ["x", "E", "stop", k] => (match parseKind k with | some (some k) => .lab (.stopBegin k) | _ => .bad)
  | ["x", "E", "stop_done"] => .check (s.xpc = .done) "check.stopDone"
  | [t, "E", "call", j] =>
      (match parseTid s t, parseJob s j with | some (.worker i), some j => .lab (.call i j) | _, _ => .bad)
  | [t, "E", "drop", j] =>
      (match parseTid s t, parseJob s j with | some t, some j => .lab (.drop t j) | _, _ => .bad)
  | ["r", "E", "wait_returned"] => .lab .waitReturn
  | _ :: "E" :: _ => .bad
  | _ => .skip

def stepP (s : State) (ts : List String) : Option (Option (State × String)) :=
  match toParsed s ts with
  | .skip => none
  | .bad => some none
  | .check ok name => if ok then some (some (s, name)) else some none
  | .lab l =>
      match next s l with
      | none => some none
      | some s' => some (some (s', ruleOf s l))

/-- every run of the harness ends after Wait returned, with every submitter and the stopper finished -/
def finalP (s : State) : Option String :=
  if s.waitReturned = false then some "Wait did not return"
  else if s.workers.any (· ≠ .exited) then some "a worker has not exited"
  else if s.subs.any (fun sb => sb.pc ≠ .idle ∨ sb.k ≠ sb.total) then some "a submitter has not finished"
  else if s.xpc ≠ .done then some "the stopper has not finished"
  else if s.locked then some "the mutex is held"
  else none

def model : TraceModel :=
  { σ := State, init := initP, step := stepP, final := finalP, showState := fun s => reprStr s }

end Yaclib.Driver.PoolD
