/- driver of the C19 model: `ymdriver_atomic model|spec` -/
import Driver.Atomic

def main (args : List String) : IO UInt32 := do
  match args with
  | ["spec"] => Yaclib.Driver.Atomic.main true; return 0
  | _ => Yaclib.Driver.Atomic.main false; return 0
