/- driver of the C17 model: `ymdriver_fibersched` (decision functions / scheduler scripts on recorded raw draws) -/
import Driver.FiberSched

def main (_ : List String) : IO UInt32 := do
  Yaclib.Driver.FiberSched.main
  return 0
