/- Dedicated driver of the pipeline model (C02/C03/C05/C12/C20): `ymdriver_pipe pipe | pipe-spec`.
   Separate executable so that another model that stops compiling cannot take it down. -/
import Driver.Pipeline

def main (args : List String) : IO UInt32 := do
  match args with
  | ["pipe"] => Yaclib.Driver.Pipe.main false; return 0
  | ["pipe-spec"] => Yaclib.Driver.Pipe.main true; return 0
  | _ => IO.eprintln "usage: ymdriver_pipe pipe|pipe-spec"; return 2
