/- Dedicated driver of the pipeline model (C02/C03/C05/C12/C20): `ymdriver_pipe pipe | pipe-spec | result`.
   Separate executable so that another model that stops compiling cannot take it down. -/
import Driver.Pipeline
import Driver.ResultAlg

def main (args : List String) : IO UInt32 := do
  match args with
  | ["pipe"] => Yaclib.Driver.Pipe.main false; return 0
  | ["pipe-spec"] => Yaclib.Driver.Pipe.main true; return 0
  | ["result"] => Yaclib.Driver.ResultAlg.main; return 0
  | _ => IO.eprintln "usage: ymdriver_pipe pipe|pipe-spec|result"; return 2
