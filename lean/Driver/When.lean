/- trace validator for the combinator model (Model/When.lean): C09 (WhenAll / Join) and C10 (WhenAny) -/
import YaclibModel.Model.When
import Driver.Trace

namespace Yaclib.Driver.WhenD
open Yaclib.When Yaclib.Driver

/-- model state + what the validator itself keeps: which thread is inside the consumption of which input -/
structure DS where
  w : Workload
  s : State
  cur : List (String × List Nat)   -- thread ↦ inputs whose callbacks it has been handed, head = the one it is in
  words : List Nat            -- input ↦ hand-off word (two inputs share a word if the same SharedFuture was passed twice)
  inst : List (Nat × Nat)     -- (word, input) for every installed callback, in installation order
  silent : List Bool          -- the release of input i is not visible in the trace (shared core: a reference count decrement)
  skip : Bool                 -- no combinator at all (dynamic WhenAny with one input returns that input)

def parseStrat (kind policy : String) : Option Strat :=
  match kind, policy with
  | "allvec", "none" => some (.allVec false) | "allvec", "firstfail" => some (.allVec true)
  | "alltuple", "none" => some (.allTuple false) | "alltuple", "firstfail" => some (.allTuple true)
  | "join", "none" => some (.join false) | "join", "firstfail" => some (.join true)
  | "any", "none" => some .anyNone | "any", "firstfail" => some .anyFF | "any", "lastfail" => some .anyLF
  | _, _ => none

def splitC (s : String) : List String := if s = "-" then [] else s.splitOn ","

def initW (hdr : List String) : Option DS := do
  let kind ← hdrGet hdr "kind"
  let policy ← hdrGet hdr "policy"
  let pat := splitC (← hdrGet hdr "pattern")
  let shape := splitC (← hdrGet hdr "shape")
  let n ← (← hdrGet hdr "n").toNat?
  if pat.length ≠ n ∨ shape.length ≠ n then none
  -- shape `d`: the same SharedFuture as the previous input (same word, same outcome)
  let words := (shape.zipIdx).foldl (fun acc (c, i) => acc ++ [if c = "d" then acc.getLastD i else i]) ([] : List Nat)
  let inputs ← (pat.zipIdx).mapM fun (c, i) =>
    let j := words.getD i i
    match c with
    | "V" => some (Res.val j) | "E" => some (Res.err j) | "X" => some (Res.exc j) | _ => none
  if kind = "passthrough" then
    pure { w := ⟨.anyNone, []⟩, s := init ⟨.anyNone, []⟩, cur := [], words := [], inst := [], silent := [], skip := true }
  else
    let st ← parseStrat kind policy
    let w : Workload := ⟨st, inputs⟩
    pure { w := w, s := init w, cur := [], words := words, inst := [], silent := shape.map (· ≠ "u"), skip := false }

def showRes : Res → String
  | .val v => s!"val:{v}" | .err c => s!"err:{c}" | .exc c => s!"exc:{c}"

def showOut : OutVal → String
  | .vec l => "vec:" ++ ",".intercalate (l.map fun o => match o with | some r => showRes r | none => "-")
  | .unit => "unit"
  | .one r => "one:" ++ showRes r
  | .broken => "one:broken"

def showPc : IPc → String
  | .unreg => "unreg" | .pending => "pending" | .retire => "retire" | .load => "load" | .rmw => "rmw"
  | .setOut o => s!"setOut({showOut o})" | .dec b => s!"dec({b})" | .dtorRel j => s!"dtorRel({j})" | .dtorSet => "dtorSet"
  | .boom => "boom" | .dboom => "dboom" | .done => "done"

def showDS (d : DS) : String :=
  let s := d.s
  let pcs := (List.range d.w.n).map fun i => showPc (s.pc i)
  s!"reg={s.reg} busy={s.busy} pc={pcs} count={s.count} flag={s.flag} st3={reprStr s.st3} lf={s.lf} saved={reprStr s.saved} " ++
  s!"relIdx={s.relIdx} pValid={s.pValid} crashed={s.crashed} out={s.outSet.map showOut} win={s.win} order={s.rmwOrder} cur={d.cur} inst={d.inst}"

def queueOf (d : DS) (t : String) : List Nat :=
  match d.cur.find? (·.1 = t) with
  | some (_, q) => q
  | none => []

def setQueue (d : DS) (t : String) (q : List Nat) : DS := { d with cur := (t, q) :: d.cur.filter (·.1 ≠ t) }

def setCur (d : DS) (t : String) (i : Nat) : DS := setQueue d t [i]

def curOf (d : DS) (t : String) : Option Nat :=
  match queueOf d t with
  | i :: _ => if d.s.pc i = .done then none else some i
  | [] => none

/-- steps the trace cannot show (release of a shared input): taken as soon as the acting thread is there -/
def flush (d : DS) (i : Nat) : Nat → DS
  | 0 => d
  | fuel + 1 =>
      match d.s.pc i with
      | .retire =>
          if d.silent.getD i false then
            match next d.w d.s (.retire i) with
            | some s' => flush { d with s := s' } i fuel
            | none => d
          else d
      | .dtorRel j =>
          if d.silent.getD j false then
            match next d.w d.s (.dtorRel i j) with
            | some s' => flush { d with s := s' } i fuel
            | none => d
          else d
      | _ => d

/-- bring thread `t` to the callback it is in: take the silent steps of the current one; when that one has finished and
    the thread was handed more callbacks (the same SharedFuture passed twice), enter the next one -/
def flushT (d : DS) (t : String) : DS :=
  match queueOf d t with
  | [] => d
  | i :: rest =>
      let d1 := flush d i (d.w.n + 2)
      if d1.s.pc i = .done then
        match rest with
        | [] => d1
        | k :: _ =>
            let d2 := setQueue d1 t rest
            match next d2.w d2.s (.fire k) with
            | some s' => flush { d2 with s := s' } k (d.w.n + 2)
            | none => d2
      else d1

def parse3 (s : String) : Option St3 :=
  match s with | "0" => some .empty | "1" => some .error | "2" => some .value | _ => none

def parseOld3 (res : String) : Option St3 := parse3 res

def ruleOf (d : DS) (l : Label) : String :=
  let s := d.s
  match l with
  | .regSet _ true => "regSet.installed" | .regSet _ false => "regSet.inline"
  | .fire _ => "fire" | .retire _ => "retire"
  | .loadFlag _ b => if b then "loadFlag.done" else if s.flag then "loadFlag.stale" else "loadFlag.notdone"
  | .xchgFlag _ old => if old then "xchgFlag.lose" else "xchgFlag.win"
  | .load3 i x =>
      if x ≠ s.st3 then "load3.stale"
      else if ok (d.w.inp i) then (if x = .value then "load3.value.skip" else "load3.value.go")
      else (if x = .empty then "load3.fail.go" else "load3.fail.skip")
  | .xchg3 _ old => if old = .value then "xchg3.lose" else "xchg3.win"
  | .cas3 _ b => if b then "cas3.ok" else "cas3.fail"
  | .loadLf _ dn => if dn then "loadLf.done" else if s.lf % 2 = 1 then "loadLf.stale" else "loadLf.notdone"
  | .xchgLf _ old => if old % 2 = 0 then "xchgLf.win" else "xchgLf.lose"
  | .fsubLf _ old => if old = 2 then "fsubLf.last" else if old % 2 = 1 then "fsubLf.wrapped" else "fsubLf.notlast"
  | .setOut _ _ => "setOut"
  | .dec i old =>
      (if old = 1 then "dec.last" else "dec.notlast") ++ (match s.pc i with | .dec true => ".store" | _ => "")
  | .dtorRel _ _ => "dtorRel"
  | .dtorSet _ _ => "dtorSet"
  | .dtorThrow _ => "dtorThrow"
  | .crash _ => "crash"

def apply (d : DS) (l : Label) : Option (Option (DS × String)) :=
  match next d.w d.s l with
  | some s' => some (some ({ d with s := s' }, ruleOf d l))
  | none => some none

def isWord (obj : String) : Option Nat :=
  if obj.startsWith "w" then (obj.drop 1).toString.toNat? else none

def stepW (d0 : DS) (ts : List String) : Option (Option (DS × String)) :=
  if d0.skip ∨ d0.s.crashed then none else
  match ts with
  | [t, "A", obj, op, _ord, arg, "->", res] =>
      match isWord obj with
      | some wd =>
          if t = "r" then
            -- the registration loop works through the inputs in index order: `i` is the one it is at
            let i := d0.s.reg
            if d0.words[i]? = some wd ∧ i < d0.w.n ∧ d0.s.busy = none then
              if op = "load" then
                (if res = "result" then apply (setCur d0 t i) (.regSet i false) else none)
              else if op.startsWith "cas" then
                (if res = "ok" then apply { d0 with inst := d0.inst ++ [(wd, i)] } (.regSet i true)
                 else if res = "fail:result" then apply (setCur d0 t i) (.regSet i false) else none)
              else none
            else none
          else if op = "xchg" ∧ arg = "result" then
            if res = "empty" then none else if res = "result" then some none else
            -- the completer is handed every callback installed on this word, most recently installed first
            match ((d0.inst.filter (·.1 = wd)).map (·.2)).reverse.filter (fun k => d0.s.pc k = .pending) with
            | [] => none     -- only other subscribers (the combinator callback is not installed yet / was consumed inline)
            | k :: rest => apply (setQueue d0 t (k :: rest)) (.fire k)
          else none
      | none =>
          if obj = "st" ∨ obj = "cnt" ∨ (obj = "out" ∧ op = "xchg") then
            let d := flushT d0 t
            match curOf d t with
            | none => some none
            | some i =>
                if obj = "cnt" then
                  (if op = "fsub" ∧ arg = "1" then (match res.toNat? with | some o => apply d (.dec i o) | none => some none)
                   else some none)
                else if obj = "out" then
                  match d.s.pc i with
                  | .setOut o => apply d (.setOut i o)
                  | .dtorSet => (match dtorOut d.w d.s with | some o => apply d (.dtorSet i o) | none => some none)
                  | _ => some none
                else if op = "load" then
                  if d.w.strat.usesFlag then apply d (.loadFlag i (res ≠ "0"))
                  else if d.w.strat = .anyFF then (match parse3 res with | some x => apply d (.load3 i x) | none => some none)
                  else if d.w.strat = .anyLF then
                    (match res.toNat? with | some v => apply d (.loadLf i (v % 2 = 1)) | none => some none)
                  else some none
                else if op = "xchg" then
                  if d.w.strat.usesFlag then (if arg = "1" then apply d (.xchgFlag i (res ≠ "0")) else some none)
                  else if d.w.strat = .anyFF then
                    (if arg = "2" then (match parse3 res with | some x => apply d (.xchg3 i x) | none => some none) else some none)
                  else if d.w.strat = .anyLF then
                    (if arg = "1" then (match res.toNat? with | some v => apply d (.xchgLf i v) | none => some none) else some none)
                  else some none
                else if op = "cas_strong" then
                  (if d.w.strat = .anyFF ∧ arg = "0>1" then apply d (.cas3 i (res = "ok")) else some none)
                else if op = "fsub" then
                  (if d.w.strat = .anyLF ∧ arg = "2" then
                     (match res.toNat? with | some v => apply d (.fsubLf i v) | none => some none) else some none)
                else some none
          else if obj.startsWith "st" ∨ obj.startsWith "cnt" then some none   -- a third atomic inside the combinator
          else none
  | [t, "E", "release", js] =>
      let d := flushT d0 t
      match js.toNat?, curOf d t with
      | some j, some i =>
          match d.s.pc i with
          | .retire => if i = j then apply d (.retire i) else some none
          | .dtorRel j' => if j = j' then apply d (.dtorRel i j) else some none
          | _ => some none
      | _, _ => some none
  | [_, "E", "out", v] =>
      match d0.s.outSet with
      | [o] => if showOut o = v then some (some (d0, "obs.out")) else some none
      | _ => some none
  | [_, "E", "sub", _, _] => none      -- another subscriber of a shared input (harness monitor)
  | [_, "E", "invalid"] => if d0.w.n = 0 then some (some (d0, "obs.invalid")) else some none
  | [t, "E", "crash"] =>
      match curOf d0 t with
      | some i => apply d0 (.crash i)
      | none => some none
  | _ :: "E" :: _ => some none
  | _ => none

def finalW (d0 : DS) : Option String :=
  if d0.skip ∨ d0.s.crashed then none else
  let d := (List.range d0.w.n).foldl (fun d i => flush d i (d0.w.n + 2)) d0
  let s := d.s
  let n := d.w.n
  if (List.range n).any (fun i => s.pc i ≠ .done) then some "an input's consumption did not finish"
  else if n > 0 ∧ s.outSet.length ≠ 1 then some "the output was not set exactly once"
  else if (List.range n).any (fun i => s.released i ≠ 1 ∨ s.consumed i ≠ 1) then some "an input was not consumed and released exactly once"
  else none

def model : TraceModel :=
  { σ := DS, init := initW, step := stepW, final := finalW, showState := showDS }

end Yaclib.Driver.WhenD
