/- trace validator for the C01 model (Model/Unique.lean) -/
import YaclibModel.Model.Unique
import Driver.Trace

namespace Yaclib.Driver.UniqueD
open Yaclib.Unique Yaclib.Driver

def parseRes (s : String) : Option Res :=
  if s = "err" then some .err
  else if s = "exc" then some .exc
  else if s.startsWith "val:" then (s.drop 4).toString.toNat?.map .val
  else none

def parseProd (s : String) : Option Prod :=
  if s = "drop" then some .drop
  else if s.startsWith "set:" then (parseRes (s.drop 4).toString).map .set
  else none

def parsePre (s : String) : Option Pre :=
  match s with
  | "ready" => some .ready | "getc" => some .getc | "wait" => some .wait | _ => none

def parseFin (s : String) : Option Fin :=
  match s with
  | "attach_inline" => some (.attach false) | "attach_exec" => some (.attach true)
  | "drop" => some .drop | "get_move" => some .getMove | "connect" => some .connect | _ => none

def initU (hdr : List String) : Option State := do
  let prod ← (hdrGet hdr "prod").bind parseProd
  let preS ← hdrGet hdr "pre"
  let pre ← if preS = "-" then some [] else (preS.splitOn ",").mapM parsePre
  let fin ← (hdrGet hdr "fin").bind parseFin
  pure (init { prod := prod, pre := pre, fin := fin })

/-- a word name from the trace, resolved against what the model says a callback name can stand for -/
def resolveWord (cbMeaning : Word) (name : String) : Option Word :=
  if name = "empty" then some .empty
  else if name = "result" then some .result
  else if name.startsWith "cb" then (match cbMeaning with | .cb k => some (.cb k) | _ => none)
  else none

def parseTid (s : String) : Option Tid :=
  match s with | "p" => some .p | "c" => some .c | _ => none

def ruleOf (s : State) (l : Label) : String :=
  match l with
  | .pXchg .empty => "pXchg.empty"
  | .pXchg .result => "pXchg.result"
  | .pXchg (.cb .cont) => "pXchg.cont"
  | .pXchg (.cb .drop) => "pXchg.drop"
  | .pXchg (.cb .event) => "pXchg.event"
  | .pXchg (.cb .target) => "pXchg.target"
  | .cLoad x =>
      let st := if x = s.word then "" else ".stale"
      (match s.todo with
       | .pre .ready :: _ => "cReadyLoad" | .pre .getc :: _ => "cGetcLoad" | _ => if x = .empty then "cAttLoad.empty" else "cAttLoad.full") ++ st
  | .cCas _ ok => if ok then "cCasOk" else "cCasFail"
  | .lock .p => "pEvLock" | .unlock .p => "pEvUnlock"
  | .lock .c => "cWaitLock"
  | .unlock .c => if s.cpc = .waitLocked true then "cWaitDone" else "cWaitSleep"
  | .submit .p => "pSubmit" | .submit .c => "cSubmit"
  | .invoke .p _ => if s.ppc = .submitted then "pInvokeSub" else "pInvoke"
  | .invoke .c _ => if s.cpc = .submitted then "cInvokeSub" else "cInvoke"
  | .forward .p _ => "pForward" | .forward .c _ => "cForward"
  | .ready b => if b then "cReady.true" else "cReady.false"
  | .getc r => if r.isSome then "cGetc.some" else "cGetc.none"
  | .got _ => "cGot"

def toLabel (s : State) (ts : List String) : Option (Option Label) :=
  match ts with
  | [t, "A", "w", "xchg", _, "result", "->", old] =>
      if t = "p" then some ((resolveWord s.word old).map .pXchg) else some none
  | [t, "A", "w", "load", _, "-", "->", x] =>
      if t = "c" then
        -- a callback name stands for the word itself if that is a callback, else for the consumer's last write
        some ((resolveWord (match s.word with | .cb k => .cb k | _ => s.prev) x).map .cLoad)
      else some none
  | [t, "A", "w", "cas_strong", _, _, "->", res] =>
      if t = "c" then
        match s.cpc with
        | .attLoaded k => some (some (.cCas k (res = "ok")))
        | _ => some none
      else some none
  | t :: "A" :: "w" :: _ => if t = "r" then none else some none   -- any other operation on the word is not in the model
  | [t, "M", "m0", "lock", _] => some ((parseTid t).map .lock)
  | [t, "M", "m0", "unlock", _] => some ((parseTid t).map .unlock)
  | _ :: "M" :: _ => none                                          -- wait queues: scheduler level, not modelled
  | [t, "E", "submit"] => some ((parseTid t).map .submit)
  | [t, "E", "invoke", r] => some (do let t ← parseTid t; let r ← parseRes r; pure (.invoke t r))
  | [t, "E", "forward", r] => some (do let t ← parseTid t; let r ← parseRes r; pure (.forward t r))
  | ["c", "E", "ready", b] => some (if b = "1" then some (.ready true) else if b = "0" then some (.ready false) else none)
  | ["c", "E", "getc", r] => some (if r = "none" then some (.getc none) else (parseRes r).map (fun x => .getc (some x)))
  | ["c", "E", "got", r] => some ((parseRes r).map .got)
  | _ :: "E" :: _ => some none
  | _ => none

def stepU (s : State) (ts : List String) : Option (Option (State × String)) :=
  match toLabel s ts with
  | none => none
  | some none => some none
  | some (some l) =>
      match next s l with
      | none => some none
      | some s' => some (some (s', ruleOf s l))

/-- at the end of a run both threads must have finished (every run of the harness joins both) -/
def finalU (s : State) : Option String :=
  if s.ppc ≠ .done then some "producer not finished"
  else if s.cpc ≠ .idle ∨ s.todo ≠ [] then some "consumer not finished"
  else none

def model : TraceModel :=
  { σ := State, init := initU, step := stepU, final := finalU, showState := fun s => reprStr s }

end Yaclib.Driver.UniqueD
