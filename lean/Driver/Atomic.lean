/- ymdriver atomic: runs the C19 model (built from the extracted fiber bodies) on an op-sequence stream.
   input : `new <ty> <init>` | `<op> <args…>`      (numbers are unsigned bit patterns in decimal;
           ty ∈ u8 u16 u32 u64 (signed types use the same carrier), bool, ptr (element index, may be negative))
   output: one line per input line, in the canonical format of harness/c19.cpp:
           `unit <stored>` | `val <ret> <stored>` | `cas <0|1> <expected> <stored>` | `bad-op`
   Floating-point carriers are not run here (Lean's `Float` has no decidable equality); the theorems are
   parametric in the carrier and the harness compares the three C++ implementations for them. -/
import YaclibModel.Model.Atomic

namespace Yaclib.Driver.Atomic
open Yaclib Yaclib.Atomic

instance : Ops Bool Bool where
  add := fun a _ => a
  sub := fun a _ => a
  and := fun a _ => a
  or  := fun a _ => a
  xor := fun a _ => a
  one := true

structure Carrier (α δ : Type) where
  parseV : String → Option α
  parseD : String → Option δ
  showV : α → String

def bvCarrier (n : Nat) : Carrier (BitVec n) (BitVec n) :=
  { parseV := fun s => s.toNat?.map (BitVec.ofNat n), parseD := fun s => s.toNat?.map (BitVec.ofNat n),
    showV := fun v => toString v.toNat }

def intCarrier : Carrier Int Int :=
  { parseV := String.toInt?, parseD := String.toInt?, showV := toString }

def boolCarrier : Carrier Bool Bool :=
  { parseV := fun s => if s = "1" then some true else if s = "0" then some false else none,
    parseD := fun s => if s = "1" then some true else if s = "0" then some false else none,
    showV := fun b => if b then "1" else "0" }

def parseOp {α δ} (c : Carrier α δ) (toks : List String) (isBool : Bool) : Option (Op α δ) :=
  match toks with
  | ["store", d] => (c.parseV d).map .store
  | ["load"] => some .load
  | ["exchange", d] => (c.parseV d).map .exchange
  | [op, e, d] =>
      -- the three compare_exchange_strong forms (4 orders / one order / (acq_rel, relaxed)) are one model operation
      if op = "cas_strong" ∨ op = "cas_strong3" ∨ op = "cas_strong4r" then do
        let e ← c.parseV e; let d ← c.parseV d; pure (.casStrong e d)
      else none
  | [op, e, d, s] =>
      if op = "cas_weak" ∨ op = "cas_weak3" ∨ op = "cas_weak4r" then do
        let e ← c.parseV e; let d ← c.parseV d
        let s ← (if s = "1" then some true else if s = "0" then some false else none)
        pure (.casWeak e d s)
      else none
  | [op, a] =>
      if isBool then none else
      (c.parseD a).bind fun a =>
        match op with
        | "fetch_add" => some (.fetchAdd a) | "fetch_sub" => some (.fetchSub a)
        | "fetch_and" => some (.fetchAnd a) | "fetch_or" => some (.fetchOr a) | "fetch_xor" => some (.fetchXor a)
        | "add_assign" => some (.addAssign a) | "sub_assign" => some (.subAssign a)
        | "and_assign" => some (.andAssign a) | "or_assign" => some (.orAssign a) | "xor_assign" => some (.xorAssign a)
        | _ => none
  | [op] =>
      if isBool then none else
      match op with
      | "pre_inc" => some .preInc | "post_inc" => some .postInc
      | "pre_dec" => some .preDec | "post_dec" => some .postDec
      | _ => none
  | _ => none

def showOut {α δ} (c : Carrier α δ) (v : α) : Out α → String
  | .unit => s!"unit {c.showV v}"
  | .val x => s!"val {c.showV x} {c.showV v}"
  | .cas ok e => s!"cas {if ok then 1 else 0} {c.showV e} {c.showV v}"

/-- an atomic object of some carrier, existentially packed together with its step function -/
structure Obj where
  α : Type
  δ : Type
  car : Carrier α δ
  step : α → Op α δ → α × Out α
  isBool : Bool
  v : α

def mkObj (ty init : String) (spec : Bool) : Option Obj :=
  let bv (n : Nat) : Option Obj :=
    ((bvCarrier n).parseV init).map fun v =>
      { α := BitVec n, δ := BitVec n, car := bvCarrier n,
        step := if spec then Spec.step else Fiber.step, isBool := false, v := v }
  match ty with
  | "vu8" => bv 8 | "vi32" => bv 32 | "vu64" => bv 64     -- volatile objects: same values
  | "u8" => bv 8 | "i8" => bv 8 | "u16" => bv 16 | "i16" => bv 16
  | "u32" => bv 32 | "i32" => bv 32 | "u64" => bv 64 | "i64" => bv 64
  | "ptr" | "vptr" => (intCarrier.parseV init).map fun v =>
      { α := Int, δ := Int, car := intCarrier, step := if spec then Spec.step else FiberPtr.step, isBool := false, v := v }
  | "bool" | "vbool" => (boolCarrier.parseV init).map fun v =>
      { α := Bool, δ := Bool, car := boolCarrier, step := if spec then Spec.step else Fiber.step, isBool := true, v := v }
  | _ => none

def stepLine (o : Option Obj) (spec : Bool) (line : String) : Option Obj × String :=
  match line.trimAscii.toString.splitOn " " with
  | ["new", ty, init] =>
      match mkObj ty init spec with
      | some o => (some o, s!"new {ty} {o.car.showV o.v}")
      | none => (none, "bad-op")
  | toks =>
      match o with
      | none => (none, "bad-op")
      | some o =>
          match parseOp o.car toks o.isBool with
          | none => (some o, "bad-op")
          | some op =>
              let (v', out) := o.step o.v op
              (some { o with v := v' }, showOut o.car v' out)

partial def loop (h : IO.FS.Stream) (spec : Bool) (o : Option Obj) : IO Unit := do
  let line ← h.getLine
  if line.isEmpty then return ()
  let (o', out) := stepLine o spec line
  IO.println out
  loop h spec o'

def main (spec : Bool) : IO Unit := do
  loop (← IO.getStdin) spec none

end Yaclib.Driver.Atomic
