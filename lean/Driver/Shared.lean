/- trace validator for the C06 model (Model/Shared.lean) -/
import YaclibModel.Model.Shared
import Driver.Trace

namespace Yaclib.Driver.SharedD
open Yaclib.Shared Yaclib.Driver

/-- what the validator remembers besides the model state -/
structure Aux where
  names : List (String × Cb) := []     -- trace name of a callback pointer (cb0, cb1, …) ↦ model callback
  inJob : List (String × Cb) := []     -- thread ↦ the executor job it is running (between its body and its DecRef)
  inRetire : List (String × Cb) := []  -- thread ↦ the combinator callback whose Retire() it is executing
  lastRetire : List (String × Cb × Option Res × Bool) := []   -- thread ↦ what the model said its last Retire() read

structure St where
  s : State
  a : Aux

def parseVal (v : String) : Option (Option Res) :=
  if v = "none" then some none
  else if v = "err" then some (some .err)
  else if v = "exc" then some (some .exc)
  else if v.startsWith "val:" then (v.drop 4).toString.toNat?.map (fun n => some (.val n))
  else none

def parseOp (s : String) : Option Op :=
  match s with
  | "sub_inline" => some (.attach .inl) | "then_inline" => some (.attach .inl)
  | "sub_exec" => some (.attach .exec) | "then_exec" => some (.attach .exec)
  | "wait" => some (.attach .event)
  | "connect" => some (.attach .target) | "connect_sp" => some (.attach .target)
  | "retire" => some (.attach .retire) | "retire_own" => some (.attach .retire)
  | "getc" => some .getc | "get_move" => some .getMove
  | "ready" => some .ready | "ready_touch" => some .readyTouch
  | "copy" => some .copy | "drop" => some .drop
  | _ => none

def parseProd (s : String) : Option Prod :=
  let val (pre : String) : Option Res := (s.drop pre.length).toString.toNat?.map .val
  if s = "drop" then some .drop
  else if s.startsWith "set:" then (val "set:").map .set
  else if s.startsWith "seton:" then (val "seton:").map .set                 -- MakeSharedContractOn
  else if s.startsWith "scoro:" then (val "scoro:").map .set                 -- a SharedFuture coroutine co_returns
  else if s = "split_drop" then some (.up false .err)                         -- the upstream Promise is dropped
  else if s.startsWith "split_set:" then (val "split_set:").map (.up false)  -- Split(f), upstream Promise::Set: Here
  else if s.startsWith "conn_set:" then (val "conn_set:").map (.up false)    -- Connect(f, SharedPromise): Here
  else if s.startsWith "split_coro:" then (val "split_coro:").map (.up true) -- upstream coroutine: Next
  else if s.startsWith "split_coro_then:" then (val "split_coro_then:").map (.up true)
  else if s.startsWith "conn_coro:" then (val "conn_coro:").map (.up true)
  else none

partial def parseProgs (hdr : List String) (i : Nat) (acc : List (List Op)) : Option (List (List Op)) :=
  match hdrGet hdr s!"o{i}" with
  | none => some acc.reverse
  | some p =>
      match (p.splitOn ",").mapM parseOp with
      | none => none
      | some ops => parseProgs hdr (i + 1) (ops :: acc)

def initS (hdr : List String) : Option St := do
  let prod ← (hdrGet hdr "prod").bind parseProd
  let progs ← parseProgs hdr 0 []
  if progs.isEmpty then none
  pure { s := init { prod := prod, progs := progs }, a := {} }

inductive Who where
  | ful | obs (t : Nat) | root

def parseWho (t : String) : Option Who :=
  if t = "p" then some .ful
  else if t = "r" then some .root
  else if t.startsWith "o" then (t.drop 1).toString.toNat?.map .obs
  else none

/-- the word value a trace name stands for -/
def resolveWord (st : St) (x : String) : Option Word :=
  if x = "empty" then some (.list [])
  else if x = "result" then some .result
  else match st.a.names.lookup x with
    | some c => if c ∈ st.s.chain then some (.list (st.s.chain.dropWhile (· ≠ c))) else none
    | none => none

/-- `o1.0` ↦ the callback observer 1 created first -/
def findCb (s : State) (name : String) : Option Cb :=
  match (name.drop 1).toString.splitOn "." with
  | [o, q] => do
      let o ← o.toNat?
      let q ← q.toNat?
      s.registered.find? (fun c => c.owner = o ∧ c.seq = q)
  | _ => none

def parseMv (m : String) (model : Bool) : Option Bool :=
  if m = "mv=-" then some model else if m = "mv=1" then some true else if m = "mv=0" then some false else none

def headWalk (s : State) : Option (Cb × FSt) :=
  match s.fpc with
  | .walk (c :: _) _ st => some (c, st)
  | _ => none

inductive Parsed where
  | skip                         -- not part of the model
  | bad                          -- cannot be a step of the model
  | lab (l : Label) (a : Aux)    -- a model step, and the validator's memory after it
  | note (a : Aux)               -- no model step, only the validator's memory changes
  | chk (ok : Bool)              -- a pure check against the validator's memory

def toLabel (st : St) (ts : List String) : Parsed :=
  let s := st.s
  let a := st.a
  match ts with
  | t :: rest =>
    match parseWho t, rest with
    | none, _ => .bad
    -- ---- the callback word
    | some .ful, ["A", "w", "xchg", _, "result", "->", old] =>
        (match resolveWord st old with | some x => .lab (.fXchg x) a | none => .bad)
    | some (.obs i), ["A", "w", "load", _, "-", "->", x] =>
        (match resolveWord st x with
         | none => .bad
         | some x =>
           match (s.obs i).pc with
           -- the FIBER backend realises a spurious failure as a reload; if the word has changed meanwhile the
           -- same reload is an ordinary failure of the CAS
           | .att _ e => if s.word = .list e then .lab (.oCasSpur i x) a else .lab (.oCasFail i x) a
           | .idle =>
               (match (s.obs i).todo with
                | op :: _ => if isReadyOp op then .lab (.oRdLoad i x) a else .lab (.oLoad i x) a
                | [] => .bad)
           | _ => .bad)
    | some (.obs i), ["A", "w", "cas_weak", _, en, "->", res] =>
        (match (s.obs i).pc, en.splitOn ">" with
         | .att c e, [exp, new] =>
             let a' : Aux := if (a.names.lookup new).isSome then a else { a with names := (new, c) :: a.names }
             -- the expected value printed by the implementation must be the one the model holds
             if resolveWord st exp ≠ some (.list e) then .bad
             else if res = "ok" then .lab (.oCasOk i) a'
             else if res.startsWith "fail:" then
               (match resolveWord { st with a := a' } (res.drop 5).toString with
                | some x => .lab (.oCasFail i x) a'
                | none => .bad)
             else .bad
         | _, _ => .bad)
    | some _, "A" :: "w" :: _ => .bad
    -- ---- the reference counter
    | some who, ["A", "cnt", op, _, arg, "->", n] =>
        (match n.toNat? with
         | none => .bad
         | some n =>
           if op = "fsub" ∧ arg = "1" then
             match a.inJob.lookup t, a.inRetire.lookup t with
             | some c, _ => .lab (.jDec c n) { a with inJob := a.inJob.filter (fun p => p.1 ≠ t) }
             | none, some c =>
                 -- Retire()'s DecRef: the model knows what its GetRef() had returned
                 (match s.retsLd.find? (fun p => p.1 = c) with
                  | some (_, m) =>
                      .lab (.rRetire c s.stored (decide (m = 1)) n)
                        { a with inRetire := a.inRetire.filter (fun p => p.1 ≠ t),
                                 lastRetire := (t, c, s.stored, decide (m = 1)) :: a.lastRetire }
                  | none => .bad)
             | none, none =>
               match who with
               | .ful => .lab (.fDec n) a
               | .obs i => .lab (.oDrop i n) a
               | .root => .bad
           else if op = "fadd" ∧ arg = "1" then
             match who with
             | .ful => .lab (.fIncRef n) a
             | .obs i => (match (s.obs i).pc with | .idle => .lab (.oCopy i n) a | _ => .lab (.oIncRef i n) a)
             | .root => .bad
           else if op = "load" then
             match a.inRetire.lookup t with
             | some c => .lab (.rRefLoad c n) a
             | none =>
               match who with
               | .ful => .lab (.fRefLoad n) a
               | .obs i => .lab (.oGetRef i n) a
               | .root => .bad
           else .bad)
    | some _, "A" :: "cnt" :: _ => .bad
    -- ---- MutexEvent::Set of a waiter is one step, taken at its lock; everything else about mutexes / wait queues
    --      is the event's own protocol (C01 / C11)
    | some .ful, ["M", _, "lock", _] =>
        (match headWalk s with
         | some (c, .begin) => if c.kind = .event then .lab (.fSet c) a else .skip
         | _ => .skip)
    | some _, "M" :: _ => .skip
    -- ---- events
    | some who, ["E", "invoke", name, v] =>
        (match findCb s name, parseVal v with
         | some c, some r =>
             if c.kind = .exec then .lab (.jInvoke c r) { a with inJob := (t, c) :: a.inJob }
             else match who with
               | .ful => .lab (.fInvoke c r) a
               | .obs i => .lab (.oInvoke i c r) a
               | .root => .bad
         | _, _ => .bad)
    | some who, ["E", "enter", name] =>
        (match findCb s name, who with
         | some c, .ful => .lab (.fEnter c) a
         | some c, .obs i => .lab (.oEnter i c) a
         | _, _ => .bad)
    | some _, ["E", "retiring", name] =>
        (match findCb s name with
         | some c => .note { a with inRetire := (t, c) :: a.inRetire }
         | none => .bad)
    | some who, ["E", "submit", name] =>
        (match findCb s name, who with
         | some c, .ful => .lab (.fSubmit c) a
         | some c, .obs i => .lab (.oSubmit i c) a
         | _, _ => .bad)
    | some who, ["E", "forward", name, v, mv] =>
        (match findCb s name, parseVal v, who with
         | some c, some r, .ful =>
             let model := match headWalk s with | some (_, .refd n) => decide (n < 3) | _ => true
             (match parseMv mv model with | some m => .lab (.fForward c r m) a | none => .bad)
         | some c, some r, .obs i =>
             (match parseMv mv false with | some false => .lab (.oForward i c r) a | _ => .bad)
         | _, _, _ => .bad)
    | some _, ["E", "consume", name, v, mv] =>
        (match findCb s name, parseVal v, a.lastRetire.lookup t with
         | some c, some r, some (c', r', m') => .chk (c = c' ∧ r = r' ∧ parseMv mv m' = some m')
         | _, _, _ => .chk false)
    | some (.obs i), ["E", "waited"] => .lab (.oWaited i) a
    | some (.obs i), ["E", "getc", v] => (match parseVal v with | some r => .lab (.oGetc i r) a | none => .bad)
    | some (.obs i), ["E", "got", v, mv] =>
        (match parseVal v, (s.obs i).pc with
         | some r, .gotRef n => (match parseMv mv (decide (n = 1)) with | some m => .lab (.oGot i r m) a | none => .bad)
         | _, _ => .bad)
    | some (.obs i), ["E", "ready", b] =>
        if b = "1" then .lab (.oReady i true) a else if b = "0" then .lab (.oReady i false) a else .bad
    | some (.obs i), ["E", "touch", v] => (match parseVal v with | some r => .lab (.oTouch i r) a | none => .bad)
    | some _, "E" :: _ => .bad
    | some _, _ => .skip
  | [] => .skip

def ruleOf (s : State) (l : Label) : String :=
  match l with
  | .fXchg (.list []) => "fXchg.empty"
  | .fXchg _ => "fXchg.list"
  | .fDec _ =>
      (match s.fpc with
       | .walk _ _ .begin => "fDec1"
       | .walk _ _ _ => "fTargetDec"
       | _ => "fDec")
  | .fInvoke .. => "fInvoke"
  | .fSet .. => "fSet"
  | .fIncRef .. => "fIncRef"
  | .fSubmit .. => "fSubmit"
  | .fRefLoad .. => "fRefLoad"
  | .fForward _ _ mv => (match s.fpc with | .walk _ _ .post => "fForwardPost" | _ => if mv then "fForward.move" else "fForward.copy")
  | .fEnter .. => "fEnter"
  | .oLoad _ x => if x = .result then "oLoad.result" else "oLoad.list"
  | .oCasOk .. => "oCasOk"
  | .oCasFail _ x => if x = .result then "oCasFail.result" else "oCasFail.list"
  | .oCasSpur _ x => if x = .result then "oCasSpur.result" else "oCasSpur.list"
  | .oInvoke .. => "oInvoke"
  | .oIncRef .. => "oIncRef"
  | .oSubmit .. => "oSubmit"
  | .oForward .. => "oForward"
  | .oEnter .. => "oEnter"
  | .oWaited .. => "oWaited"
  | .oGetc .. => "oGetc"
  | .oGetRef .. => "oGetRef"
  | .oGot _ _ mv => if mv then "oGot.move" else "oGot.copy"
  | .oRdLoad .. => "oRdLoad"
  | .oReady _ b => if b then (if s.stored.isSome then "oReady.true" else "oReady.true.unset") else "oReady.false"
  | .oTouch _ r => if r.isSome then "oTouch.some" else "oTouch.none"
  | .oCopy .. => "oCopy"
  | .oDrop .. => "oDrop"
  | .jInvoke .. => "jInvoke"
  | .jDec .. => "jDec"
  | .rRefLoad .. => "rRefLoad"
  | .rRetire _ _ mv _ => if mv then "rRetire.move" else "rRetire.copy"

def stepS (st : St) (ts : List String) : Option (Option (St × String)) :=
  match toLabel st ts with
  | .skip => none
  | .bad => some none
  | .chk ok => if ok then some (some (st, "chk.consume")) else some none
  | .note a => some (some ({ st with a := a }, "note.retiring"))
  | .lab l a =>
      match next st.s l with
      | none => some none
      | some s' => some (some ({ s := s', a := a }, ruleOf st.s l))

def allObs (s : State) (p : Obs → Bool) : Bool := (List.range s.n).all (fun t => p (s.obs t))

/-- every run of the harness joins all fibers, drains the executor and uses balanced programs:
    at the end everything has finished and the core is gone -/
def finalS (st : St) : Option String :=
  let s := st.s
  if s.fpc ≠ .dec 0 then some "fulfiller not finished"
  else if !allObs s (fun o => o.pc = .idle ∧ o.todo = []) then some "an observer has not finished"
  else if s.jobs ≠ [] ∨ s.jobsRun ≠ [] ∨ !st.a.inJob.isEmpty then some "an executor job is pending"
  else if s.rets ≠ [] ∨ s.retsLd ≠ [] ∨ !st.a.inRetire.isEmpty then some "a combinator callback has not retired"
  else if s.count ≠ 0 ∨ s.freed ≠ 1 then some s!"core not released exactly once: count={s.count} freed={s.freed}"
  else none

def showObs (o : Obs) : String := s!"(pc={reprStr o.pc} todo={reprStr o.todo} refs={o.refs} seq={o.seq})"

def showState (st : St) : String :=
  let s := st.s
  let os := (List.range s.n).map (fun t => s!"o{t}={showObs (s.obs t)}")
  s!"word={reprStr s.word} stored={reprStr s.stored} count={s.count} fpc={reprStr s.fpc} {" ".intercalate os} " ++
  s!"jobs={reprStr s.jobs} jobsRun={reprStr s.jobsRun} rets={reprStr s.rets} retsLd={reprStr s.retsLd} chain={reprStr s.chain} fired={reprStr s.fired} " ++
  s!"movedOut={s.movedOut} freed={s.freed} names={reprStr st.a.names}"

def model : TraceModel :=
  { σ := St, init := initS, step := stepS, final := finalS, showState := showState }

end Yaclib.Driver.SharedD
