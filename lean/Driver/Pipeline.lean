/- ymdriver_pipe pipe / pipe-spec (lean/Driver/Main_pipe.lean): runs the pipeline model (Model/Pipeline.lean) on a stream of program lines.

   One output line per input line (same format as harness/pipe.cpp).  Line format (tokens separated by one blank):

     cfg e<k> queue|manual|inline [limit=<n>]   user executor k: FIFO queue drained by `call`/`drain` (manual: the queue is the
                                           library's ManualExecutor, `call` = Drain() = every queued job), or Call-inside-Submit;
                                           limit=n: Submits number n+1, n+2, … are answered with Drop
     shared s<j> p<k> <ful> ready|later copies=<1|2>   a SharedFuture the client keeps for the whole program (1 or 2 handles),
                                           its promise p<k> used at once (ready) or by a later `set p<k>` / `flush`
     in <pid> src <source>                 inner pipeline <pid> (built by a functor with behaviour async:<pid>);
     in <pid> then <step>                  must be complete before the line that refers to it
     src <source>                          begins the pipeline
     then <step>
     set p<j> | call e<k> | drain e<k> | start tofuture | start tofuture:<ex> | start detach | start detach:<ex>
     droptask | dropfuture | get | expect
     obs s<j>                              the client looks at its kept SharedFuture: the state line ends with ` obs=<r>|pending`
     flush                                 repeat { use the pending promise with the smallest number, else let the user executor
                                           with the smallest number run one job } until nothing is left to do
     end                                   end of the program (state is reset)

   A program WITHOUT a pipeline (no `src` line) may hand free jobs to the executors (Model/FreeJob.lean, C05):
     submit <ex> <id> [ret|std|int|usr]    yaclib::Submit(<ex>, F{id})  (exe/submit.hpp; an RVALUE functor owning state <id>, which
                                           logs its state like a callback and then returns / throws std::runtime_error / int / a struct)
     fn f<j> <tag> [ret|std|int|usr]       the client creates the named functor f<j> owning state <tag>
     submitl <ex> f<j>                     yaclib::Submit(<ex>, f<j>): an LVALUE, the job gets a copy
     mut f<j> <tag> | kill f<j>            the client changes the state of f<j> / destroys f<j>
     call e<k> | drain e<k> | flush | expect     as above; state line: st=idle, lc = UniqueJobs alive, lf = ls = functors /
                                           functor states alive (jobs + named), fns=f<j>:<tag>,… the client's functors

     <source> ::= ready <r> | contract p<j> <ful> | contract_on <ex> p<j> <ful> | run <step> | async_contract <ex> p<j> <ful>
                | task_ready <r> | schedule <step> | lazy_contract <ex> p<j> <ful> | shared_ready <r> | shared_contract p<j> <ful>
                | shared_handle s<j>                      (a COPY of the kept SharedFuture s<j>)
                | share s<j> | share_on <ex> s<j>         (Share(s<j>) : Future / Share(s<j>, <ex>) : FutureOn carrying <ex>)
     <step>   ::= <id> <R|V|E|X>[spelling r|c|a|g] <inline|on:<ex>|inherit|detach_inline|detach:<ex>|detach_inherit> <val:<int>|res:<r>|throw:<n>|async:<pid>>
     <r>      ::= v<int> | e<nat> | x<nat>          <ful> ::= set:<r> | drop          <ex> ::= inl | stp | e<k>

   Output of a state line:
     inv=<ids> ran=<id>@<ctx>,… jobs=<jid><c|d>,… sub=<k>,… st=<idle|ready:<r>|pending|task|gone>[ got:<r>] al=<allocations since
     the previous line> lc=<live cores> lf=<live functors>          or  `crash`
   pipe-spec prints, for `expect` lines, `spec r=<r> inv=<ids> sub=<k>,…` of the program built so far, `-` otherwise. -/
import YaclibModel.Model.Pipeline
import YaclibModel.Model.FreeJob

namespace Yaclib.Driver.Pipe
open Yaclib.Pipeline

def toks (line : String) : List String :=
  (line.trimAscii.toString.splitOn " ").filter (· ≠ "")

def parseR (s : String) : Option R :=
  let body := (s.drop 1).toString
  if s.startsWith "v" then body.toInt?.map R.val
  else if s.startsWith "e" then body.toNat?.map R.err
  else if s.startsWith "x" then body.toNat?.map R.exc
  else none

def parseExec (s : String) : Option Exec :=
  if s = "inl" then some .inl
  else if s = "stp" then some .stp
  else if s.startsWith "e" then (s.drop 1).toString.toNat?.map Exec.user
  else none

def parseP (s : String) : Option Nat :=
  if s.startsWith "p" then (s.drop 1).toString.toNat? else none

def parseE (s : String) : Option Nat :=
  if s.startsWith "e" then (s.drop 1).toString.toNat? else none

def after (pre s : String) : Option String :=
  if s.startsWith pre then some (s.drop pre.length).toString else none

def parseFul (s : String) : Option Ful :=
  if s = "drop" then some .drop else (after "set:" s).bind fun b => (parseR b).map Ful.set

/-- the signature CLASS of a callback; the letter may be followed by the SPELLING of its parameter (harness/pipe.cpp):
    R Result<V,E> by value, Rr Result<V,E>&&, Rc const Result<V,E>&, Ra auto&&, Rg auto;  V, Vr V&&, Vc const V&, Vg a
    generic parameter constrained to V;  E, Ec const E&;  X, Xc const std::exception_ptr&.
    The model has no spelling: the class decides (the spelling must not matter). -/
def parseSig : String → Option Sig
  | "R" | "Rr" | "Rc" | "Ra" | "Rg" => some .res
  | "V" | "Vr" | "Vc" | "Vg" => some .val
  | "E" | "Ec" => some .err
  | "X" | "Xc" => some .exc
  | _ => none

def parseMode (s : String) : Option Mode :=
  if s = "inline" then some .inline
  else if s = "inherit" then some .inherit
  else if s = "detach_inline" then some .detachInline
  else if s = "detach_inherit" then some .detachInherit
  else match after "on:" s with
    | some b => (parseExec b).map Mode.on
    | none => (after "detach:" s).bind fun b => (parseExec b).map Mode.detach

structure Inner where
  src : Src
  lazy : Bool
  steps : List Step

abbrev Table := List (Nat × Inner)
/-- kept SharedFutures: handle number ↦ (promise, fulfilment, fulfilled at declaration) -/
abbrev Kept := List (Nat × (Nat × Ful × Bool))

def parseS (s : String) : Option Nat :=
  if s.startsWith "s" then (s.drop 1).toString.toNat? else none

def Table.find (t : Table) (pid : Nat) : Option Inner := (t.find? (·.1 == pid)).map (·.2)

def parseBeh (tab : Table) (s : String) : Option Beh :=
  match after "val:" s with
  | some b => b.toInt?.map Beh.val
  | none =>
    match after "res:" s with
    | some b => (parseR b).map Beh.res
    | none =>
      match after "throw:" s with
      | some b => b.toNat?.map Beh.throw
      | none => (after "async:" s).bind fun b => b.toNat?.bind fun pid => (tab.find pid).map fun i => Beh.async i.src i.lazy i.steps

def parseStep (tab : Table) : List String → Option Step
  | [id, sg, md, bh] => do
    let id ← id.toNat?
    let sg ← parseSig sg
    let md ← parseMode md
    let bh ← parseBeh tab bh
    pure (.mk id sg md bh)
  | _ => none

/-- source, lazy?, head step -/
def parseSrc (kept : Kept) (tab : Table) : List String → Option (Src × Bool × Option Step)
  | ["shared_handle", h] => do
    let j ← parseS h
    let (_, (p, f, pre)) ← kept.find? (·.1 == j)
    pure (.sharedKept .inl p f pre, false, none)
  | ["share", h] => do                     -- Share(s<j>): MakeContract + Connect — a unique Future
    let j ← parseS h
    let (_, (p, f, pre)) ← kept.find? (·.1 == j)
    pure (.sharedKept .inl p f pre, false, none)
  | ["share_on", e, h] => do               -- Share(s<j>, e): MakeContractOn(e) + Connect — a FutureOn carrying e
    let j ← parseS h
    let (_, (p, f, pre)) ← kept.find? (·.1 == j)
    pure (.sharedKept (← parseExec e) p f pre, false, none)
  | ["ready", r] => (parseR r).map fun r => (.ready r, false, none)
  | ["task_ready", r] => (parseR r).map fun r => (.ready r, true, none)
  | ["contract", p, f] => do pure (.contract (← parseP p) (← parseFul f), false, none)
  | ["contract_on", e, p, f] => do pure (.contractOn (← parseExec e) (← parseP p) (← parseFul f), false, none)
  | ["async_contract", e, p, f] => do pure (.promiseFn (← parseExec e) (← parseP p) (← parseFul f), false, none)
  | ["lazy_contract", e, p, f] => do pure (.promiseFn (← parseExec e) (← parseP p) (← parseFul f), true, none)
  | ["shared_ready", r] => (parseR r).map fun r => (.sharedReady r, false, none)
  | ["shared_contract", p, f] => do pure (.sharedContract (← parseP p) (← parseFul f), false, none)
  | "run" :: st => (parseStep tab st).map fun s => (.unit, false, some s)
  | "schedule" :: st => (parseStep tab st).map fun s => (.unit, true, some s)
  | _ => none

structure D where
  cfg : List (Nat × ECfg) := []
  manual : List Nat := []     -- user executors backed by yaclib::ManualExecutor: `call` = Drain() = every queued job
  tab : Table := []
  kept : Kept := []
  st : State := {}
  evs : List Event := []      -- client events of the current program (for the spec)
  lastAlloc : Nat := 0
  begun : Bool := false       -- a `src` line was seen: the program is a pipeline
  free : Option FreeJob.FState := none   -- a `submit` line was seen: the program is a sequence of free jobs

def D.cfgFn (d : D) : Cfg := fun k =>
  match d.cfg.find? (·.1 == k) with
  | some (_, c) => c
  | none => ⟨true, none⟩

def showR : R → String
  | .val n => s!"v{n}"
  | .err c => s!"e{c}"
  | .exc t => s!"x{t}"

def commas (l : List String) : String := ",".intercalate l

def showCtx : Option Nat → String
  | none => "-"
  | some k => s!"e{k}"

def showLog (g : G) : String :=
  s!"inv={commas (g.invoked.map toString)} ran={commas (g.ran.map fun x => s!"{x.id}@{showCtx x.ctx}")} " ++
  s!"jobs={commas (g.jobs.map fun (j, c) => s!"{j}{if c then "c" else "d"}")} sub={commas (g.subs.map toString)} "

def insertSorted (x : Nat × Nat) : List (Nat × Nat) → List (Nat × Nat)
  | [] => [x]
  | y :: ys => if x.1 ≤ y.1 then x :: y :: ys else y :: insertSorted x ys

def showFree (d : D) (f : FreeJob.FState) : String :=
  let live := f.news - f.deletes + f.fns.length
  let fns := (f.fns.foldr insertSorted []).map fun (n, t) => s!"f{n}:{t}"
  showLog f.g ++ s!"st=idle al={f.news - d.lastAlloc} lc={f.news - f.deletes} lf={live} ls={live} fns={commas fns}"

def parseOutcome : List String → Option FreeJob.Outcome
  | [] => some .ret
  | ["ret"] => some .ret
  | ["std"] => some .throwStd
  | ["int"] => some .throwInt
  | ["usr"] => some .throwUser
  | _ => none

def parseF (s : String) : Option Nat := (after "f" s).bind String.toNat?

def fapply (d : D) (f : FreeJob.FState) (ev : FreeJob.FEvent) : D :=
  { d with free := some (FreeJob.fmech d.cfgFn f ev) }

/-- every job queued on executor k -/
def fdrain (d : D) (k : Nat) : Nat → D
  | 0 => d
  | fuel + 1 =>
    match d.free with
    | some f => if f.queue.any (·.k == k) then fdrain (fapply d f (.call k)) k fuel else d
    | none => d

/-- repeat { the user executor with the smallest number that has a job runs one (a ManualExecutor: all of them) } -/
def fflush (d : D) : Nat → D
  | 0 => d
  | fuel + 1 =>
    match d.free with
    | some f =>
      (match (f.queue.map (·.k)).min? with
       | some k => fflush (fapply d f (.call k)) fuel
       | none => d)
    | none => d

def showState (d : D) : String :=
  let st := d.st
  if st.crashed then "crash" else
  let g := st.g
  let ctl := match st.ctl with
    | .idle => "idle"
    | .task _ _ => "task"
    | .future r _ => if st.held then s!"ready:{showR r}" else "gone"
    | .pending _ => if st.held then "pending" else "gone"
    | .gone => "gone"
  let got := match st.got with
    | some r => s!" got:{showR r}"
    | none => ""
  s!"inv={commas (g.invoked.map toString)} ran={commas (g.ran.map fun x => s!"{x.id}@{showCtx x.ctx}")} " ++
  s!"jobs={commas (g.jobs.map fun (j, c) => s!"{j}{if c then "c" else "d"}")} sub={commas (g.subs.map toString)} " ++
  s!"st={ctl}{got} al={g.cAlloc - d.lastAlloc} lc={g.cAlloc - g.cFree} lf={g.fAlloc - g.fFree}"

def apply (d : D) (ev : Event) : D :=
  { d with st := mech d.cfgFn d.st ev, evs := d.evs ++ [ev] }

def drain (d : D) (k : Nat) : Nat → D
  | 0 => d
  | fuel + 1 =>
    match d.st.ctl with
    | .pending t =>
      (match t.wait with
       | .job _ k' _ => if k = k' && !d.st.crashed then drain (apply d (.call k)) k fuel else d
       | _ => d)
    | _ => d

/-- let everything that can still happen happen: repeat { use the unused promise with the smallest number among the one the
    pipeline waits for and those of the kept SharedFutures; else let the executor run the job the pipeline waits for } -/
def flush (d : D) : Nat → D
  | 0 => d
  | fuel + 1 =>
    if d.st.crashed then d else
    match d.st.ctl with
    | .idle => d
    | ctl =>
      let awaited : List Nat := match ctl with
        | .pending t => (match t.wait with
                         | .promise p _ => [p]
                         | _ => [])
        | _ => []
      let unset := d.kept.filterMap fun (_, (p, _, pre)) => if d.st.g.isSet p pre then none else some p
      match (awaited ++ unset).min? with
      | some p => flush (apply d (.set p)) fuel
      | none =>
        (match ctl with
         | .pending t =>
           (match t.wait with
            | .job _ k _ => flush (apply d (.call k)) fuel
            | _ => d)
         | _ => d)

def showObs (d : D) (j : Nat) : Option String :=
  (d.kept.find? (·.1 == j)).map fun (_, (p, f, pre)) =>
    if d.st.g.isSet p pre then s!" obs={showR f.result}" else " obs=pending"

def parseStart (s : String) : Option StartKind :=
  if s = "tofuture" then some .toFuture
  else if s = "detach" then some .detach
  else match after "tofuture:" s with
    | some b => (parseExec b).map StartKind.toFutureOn
    | none => (after "detach:" s).bind fun b => (parseExec b).map StartKind.detachOn

def showSpec (d : D) : String :=
  match progOf d.evs with
  | none => "spec none"
  | some p =>
    let o := spec d.cfgFn p
    s!"spec r={showR o.r} inv={commas (o.invoked.map toString)} sub={commas (o.subs.map toString)}"

/-- returns the new driver state and the output line (`none`: print the state) -/
def stepLine (d : D) (ts : List String) : D × Option String :=
  match ts with
  | ["end"] => ({}, some "end")
  | "cfg" :: e :: kind :: rest =>
    (match parseE e with
     | some k =>
       let lim := match rest with
         | [l] => (after "limit=" l).bind String.toNat?
         | _ => none
       ({ d with cfg := (k, ⟨kind != "inline", lim⟩) :: d.cfg,
                 manual := if kind == "manual" then k :: d.manual else d.manual }, some "ok")
     | none => (d, some "bad"))
  | ["shared", h, p, f, when_, _copies] =>
    (match parseS h, parseP p, parseFul f with
     | some j, some p, some f => ({ d with kept := (j, (p, f, when_ == "ready")) :: d.kept }, some "ok")
     | _, _, _ => (d, some "bad"))
  | "in" :: pid :: "src" :: rest =>
    (match pid.toNat?, parseSrc d.kept d.tab rest with
     | some pid, some (s, lazy, head) => ({ d with tab := (pid, ⟨s, lazy, head.toList⟩) :: d.tab }, some "ok")
     | _, _ => (d, some "bad"))
  | "in" :: pid :: "then" :: rest =>
    (match pid.toNat?, parseStep d.tab rest with
     | some pid, some s =>
       (match d.tab.find pid with
        | some i => ({ d with tab := (pid, { i with steps := i.steps ++ [s] }) :: d.tab }, some "ok")
        | none => (d, some "bad"))
     | _, _ => (d, some "bad"))
  | "submit" :: e :: id :: o =>
    (match parseExec e, id.toNat?, parseOutcome o with
     | some e, some id, some o => if d.begun then (d, some "bad") else (fapply d (d.free.getD {}) (.submit e id o), none)
     | _, _, _ => (d, some "bad"))
  | "fn" :: n :: tag :: o =>
    (match parseF n, tag.toNat?, parseOutcome o with
     | some n, some tag, some o => if d.begun then (d, some "bad") else (fapply d (d.free.getD {}) (.mk n tag o), none)
     | _, _, _ => (d, some "bad"))
  | ["submitl", e, n] =>
    (match parseExec e, parseF n with
     | some e, some n =>
       if d.begun || ((d.free.getD {}).fns.lookup n).isNone then (d, some "bad")
       else (fapply d (d.free.getD {}) (.submitL e n), none)
     | _, _ => (d, some "bad"))
  | ["mut", n, tag] =>
    (match parseF n, tag.toNat? with
     | some n, some tag =>
       if d.begun || ((d.free.getD {}).fns.lookup n).isNone then (d, some "bad")
       else (fapply d (d.free.getD {}) (.change n tag), none)
     | _, _ => (d, some "bad"))
  | ["kill", n] =>
    (match parseF n with
     | some n =>
       if d.begun || ((d.free.getD {}).fns.lookup n).isNone then (d, some "bad")
       else (fapply d (d.free.getD {}) (.kill n), none)
     | none => (d, some "bad"))
  | "src" :: rest =>
    if d.free.isSome then (d, some "bad") else
    (match parseSrc d.kept d.tab rest with
     | some (s, lazy, head) => (apply { d with begun := true } (.src s lazy head), none)
     | none => (d, some "bad"))
  | "then" :: rest =>
    (match parseStep d.tab rest with
     | some s => (apply d (.attach s), none)
     | none => (d, some "bad"))
  | ["set", p] =>
    (match parseP p with
     | some p => (apply d (.set p), none)
     | none => (d, some "bad"))
  | ["call", e] =>
    (match parseE e with
     | some k =>
       (match d.free with
        | some f => (if d.manual.contains k then fdrain d k 100000 else fapply d f (.call k), none)
        | none => (if d.manual.contains k then drain d k 100000 else apply d (.call k), none))
     | none => (d, some "bad"))
  | ["drain", e] =>
    (match parseE e with
     | some k => (if d.free.isSome then fdrain d k 100000 else drain d k 100000, none)
     | none => (d, some "bad"))
  | ["start", k] =>
    (match parseStart k with
     | some k => (apply d (.start k), none)
     | none => (d, some "bad"))
  | ["flush"] => (if d.free.isSome then fflush d 100000 else flush d 100000, none)
  | ["droptask"] => (apply d (.start .cancel), none)
  | ["dropfuture"] => (apply d .dropFuture, none)
  | ["get"] => (apply d .get, none)
  | ["expect"] => (d, none)
  | ["obs", _] => (d, none)
  | _ => (d, some "bad")

partial def loop (h : IO.FS.Stream) (specMode : Bool) (d : D) : IO Unit := do
  let line ← h.getLine
  if line.isEmpty then return ()
  let ts := toks line
  let (d', out) := stepLine d ts
  match out with
  | some o => IO.println o
  | none =>
    if specMode then IO.println (if ts = ["expect"] then showSpec d' else "-")
    else
      let obs := match ts with
        | ["obs", h] => ((parseS h).bind (showObs d')).getD ""
        | _ => ""
      IO.println (match d'.free with
        | some f => showFree d' f
        | none => showState d' ++ (if d'.st.crashed then "" else obs))
  loop h specMode { d' with lastAlloc := match d'.free with | some f => f.news | none => d'.st.g.cAlloc }

def main (specMode : Bool) : IO Unit := do
  loop (← IO.getStdin) specMode {}

end Yaclib.Driver.Pipe
