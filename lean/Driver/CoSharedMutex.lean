/- trace validator for the C15 model (Model/CoSharedMutex.lean); trace format: harness/c15.cpp -/
import YaclibModel.Model.CoSharedMutex
import Driver.Trace
import Driver.CoSharedMutexCheck

namespace Yaclib.Driver.CoSharedMutexD
open Yaclib.CoSharedMutex Yaclib.Driver

structure DState where
  k : Nat
  s : State

def parseOp (x : String) : Option Op :=
  match x with
  | "rd" => some .rd | "grd" => some .rd | "rdw" => some .rd | "prd" => some .rd
  | "wrw" => some .wr | "pwr" => some .wr
  | "dtryrd" => some .tryRd | "rtryrd" => some .tryRd
  | "dtrywr" => some .tryWr | "rtrywr" => some .tryWr
  | "wr" => some .wr | "gwr" => some .wr
  | "tryrd" => some .tryRd | "gtryrd" => some .tryRd
  | "trywr" => some .tryWr | "gtrywr" => some .tryWr
  | _ => none

def parseBool (x : String) : Option Bool :=
  match x with | "1" => some true | "0" => some false | _ => none

def initD (hdr : List String) : Option DState := do
  let f ← (hdrGet hdr "fifo").bind parseBool
  let rf ← (hdrGet hdr "rfifo").bind parseBool
  let p ← hdrGet hdr "prog"
  let progs ← (p.splitOn ";").mapM fun co => (co.splitOn ",").mapM parseOp
  pure { k := progs.length, s := init { fifo := f, rfifo := rf, prog := fun c => progs.getD c [] } }

def parseCid (x : String) : Option Cid :=
  if x.startsWith "c" then (x.drop 1).toString.toNat? else none

def kW : Nat := 4294967296

/-- the 64-bit word as (writers, readers) -/
def unpack (v : Nat) : Nat × Nat := (v / kW, v % kW)

/-- the 32-bit unsigned debt as an integer -/
def toInt32 (v : Nat) : Int := if v ≥ 2147483648 then (v : Int) - 4294967296 else (v : Int)

def wordOk (s : State) (v : String) : Bool :=
  match v.toNat? with
  | some n => unpack n == (s.W, s.R)
  | none => false

def ruleOf (s : State) (l : Label) : String :=
  match l with
  | .rdFadd _ => if s.W = 0 then "rdFadd.fast" else "rdFadd.slow"
  | .spinXchg _ ok => if ok then "spinOk" else "spinBusy"
  | .spinLoad _ f => if f then "spinLoad.free" else "spinLoad.busy"
  | .rdUnlock _ => if s.pass ≠ 0 then "rdUnlock.pass" else "rdUnlock.park"
  | .enter c => if s.pc c = .racq then "enterR" else "enterW"
  | .exit c => if s.pc c = .rcs then "exitR" else "exitW"
  | .rdFsub _ => if s.W = 0 then "rdFsub.free" else "rdFsub.pay"
  | .rwFsub _ => if s.rwait = 1 then "rwFsub.last" else (if s.rwait ≤ 0 then "rwFsub.early" else "rwFsub.more")
  | .runFirst _ _ => "runFirst"
  | .trLoad _ w _ => if w = 0 then "trLoad.free" else "trLoad.writer"
  | .trCas c ok =>
      if ok then "trCasOk" else if s.pc c = .trLoop s.W s.R then "trCasFail.spurious" else "trCasFail.changed"
  | .tryFail c => (match s.pc c with | .tryFailed => "tryFailW" | _ => "tryFailR")
  | .twLoad c z => if z then "twLoad.zero" else if curOp s c = .tryWr then "twLoad.busy.try" else "twLoad.busy"
  | .twCas c ok => if ok then "twCasOk" else if curOp s c = .tryWr then "twCasFail.try" else "twCasFail"
  | .wrFadd _ => if s.W = 0 then (if s.R = 0 then "wrFadd.free" else "wrFadd.first") else "wrFadd.enq"
  | .wrPost _ => (match s.pw with | .a _ r => if s.rwait = -(r : Int) then "wrPost.paid" else "wrPost.wait" | _ => "wrPost?")
  | .wUnlock c => (match s.pc c with | .wUnl .acq => "wUnlock.acq" | _ => "wUnlock.enq")
  | .tailUnlock _ => "tailUnlock"
  | .wuCas _ ok => if ok then "wuCasOk" else "wuCasFail"
  | .wuFsub _ =>
      (match branchOf s with
       | .runWriter => "wuFsub.runWriter" | .stored _ => "wuFsub.stored" | .readersPass _ => "wuFsub.readersPass"
       | .passOnly _ => "wuFsub.passOnly")
  | .rwStore _ => "rwStore"
  | .uUnlock c =>
      (match s.pc c with
       | .uUnl .runWriter => "uUnlock.runWriter" | .uUnl (.stored _) => "uUnlock.stored"
       | .uUnl (.readersPass _) => "uUnlock.readersPass" | _ => "uUnlock.passOnly")
  | .runW _ _ => "runW"
  | .runR _ _ => "runR"

/-- label for one trace line.  `none` = not part of the model, `some none` = rejected.  The FIBER backend is
    sequentially consistent: loaded / returned values are required to be the current ones. -/
def toLabel (s : State) (ts : List String) : Option (Option Label) :=
  match ts with
  | [t, "A", "st", "fadd", _, arg, "->", v] =>
      some do
        let c ← parseCid t
        if !wordOk s v then none
        else if arg = "1" then pure (.rdFadd c)
        else if arg = "4294967296" then pure (.wrFadd c) else none
  | [t, "A", "st", "fsub", _, arg, "->", v] =>
      some do
        let c ← parseCid t
        if !wordOk s v then none
        else if arg = "1" then pure (.rdFsub c)
        else if arg = "4294967296" then pure (.wuFsub c) else none
  | [t, "A", "st", "load", _, "-", "->", v] =>
      some do
        let c ← parseCid t
        let n ← v.toNat?
        if !wordOk s v then none else
        match s.pc c with
        | .idle => if curOp s c = .tryRd then pure (.trLoad c (unpack n).1 (unpack n).2) else pure (.twLoad c (n == 0))
        | .trLoop _ _ => pure (.trCas c false)      -- a spurious weak-CAS failure is reported as its reload
        | _ => none
  | [t, "A", "st", "cas_strong", _, ed, "->", res] =>
      some do
        let c ← parseCid t
        let ok := res = "ok"
        if !ok ∧ !wordOk s (res.drop 5).toString then none
        else if ed = "0>4294967296" then pure (.twCas c ok)
        else if ed = "4294967296>0" then pure (.wuCas c ok) else none
  | [t, "A", "st", "cas_weak", _, ed, "->", res] =>
      some do
        let c ← parseCid t
        let ok := res = "ok"
        match ed.splitOn ">" with
        | [e, d] =>
            let e ← e.toNat?
            let d ← d.toNat?
            if d ≠ e + 1 then none
            else if s.pc c ≠ .trLoop (unpack e).1 (unpack e).2 then none
            else if !ok ∧ !wordOk s (res.drop 5).toString then none
            else pure (.trCas c ok)
        | _ => none
  | [t, "A", "rw", "fadd", _, arg, "->", v] =>
      some do
        let c ← parseCid t
        let r ← arg.toNat?
        let old ← v.toNat?
        if toInt32 old ≠ s.rwait then none
        else if s.pc c ≠ .wPost r then none else pure (.wrPost c)
  | [t, "A", "rw", "fsub", _, "1", "->", v] =>
      some do
        let c ← parseCid t
        let old ← v.toNat?
        if toInt32 old ≠ s.rwait then none else pure (.rwFsub c)
  | [t, "A", "rw", "store", _, arg, "->", "-"] =>
      some do
        let c ← parseCid t
        let n ← arg.toNat?
        if n ≠ s.qsize then none else pure (.rwStore c)
  | [t, "A", "sp", "xchg", _, "1", "->", v] => some ((parseCid t).map fun c => .spinXchg c (v = "0"))
  | [t, "A", "sp", "load", _, "-", "->", v] =>
      some do
        let c ← parseCid t
        if (v = "0") ≠ (s.spin = .free) then none else pure (.spinLoad c (v = "0"))
  | [t, "A", "sp", "store", _, "0", "->", "-"] =>
      some do
        let c ← parseCid t
        if s.spin = .tailOf c then pure (.tailUnlock (.tail c)) else
        match s.pc c with
        | .rLocked => pure (.rdUnlock c)
        | .wUnl _ => pure (.wUnlock c)
        | .uUnl _ => pure (.uUnlock c)
        | _ => none
  | _ :: "A" :: _ => some none
  | [t, "E", "submit", j] =>
      some do
        let c ← parseCid t
        let n ← parseCid j
        match s.pc c with
        | .rRun => pure (.runFirst c n)
        | .uRunW _ => pure (.runW c n)
        | .uRunR => pure (.runR c n)
        | _ => none
  | [t, "E", "cs_enter", kind] =>
      some do
        let c ← parseCid t
        if kind = "r" ∧ s.pc c = .racq then pure (.enter c)
        else if kind = "w" ∧ s.pc c = .wacq then pure (.enter c) else none
  | [t, "E", "cs_exit", _] => some ((parseCid t).map .exit)
  | [t, "E", "try_fail"] => some ((parseCid t).map .tryFail)
  | [_, "E", "done"] => none
  | _ :: "E" :: _ => some none
  | _ => none

def stepD (d : DState) (ts : List String) : Option (Option (DState × String)) :=
  match toLabel d.s ts with
  | none => none
  | some none => some none
  | some (some l) =>
      match next d.s l with
      | none => some none
      | some s' =>
          -- every reached state is also checked against the (executable mirror of the) proved invariant
          if checkInv d.k s' ≠ [] then some none else some (some ({ d with s := s' }, ruleOf d.s l))

def finalD (d : DState) : Option String :=
  if d.s.W ≠ 0 ∨ d.s.R ≠ 0 then some "the state word is not 0 at the end"
  else if d.s.rwait ≠ 0 then some "readers_wait is not 0 at the end"
  else if d.s.spin ≠ .free then some "the spinlock is held at the end"
  else if d.s.Q ≠ [] ∨ d.s.WQ ≠ [] then some "a queue is not empty at the end"
  else if d.s.pass ≠ 0 then some "pass credits left at the end"
  else if (List.range d.k).any (fun c => d.s.pc c ≠ .idle ∨ d.s.todo c ≠ []) then some "a coroutine did not finish"
  else none

def showD (d : DState) : String :=
  let cos := (List.range d.k).map fun c => s!"c{c}: pc={reprStr (d.s.pc c)} todo={(d.s.todo c).length}"
  s!"W={d.s.W} R={d.s.R} rwait={d.s.rwait} spin={reprStr d.s.spin} Q={d.s.Q} qsize={d.s.qsize} pass={d.s.pass} " ++
  s!"wfirst={d.s.wfirst} WQ={d.s.WQ} prio={d.s.prio} ar={d.s.ar} ifl={d.s.ifl} lv={d.s.lv} torun={d.s.torun} " ++
  s!"excl={d.s.excl} pw={reprStr d.s.pw} ew={d.s.ew} enq={d.s.enq} pend={d.s.pend} pendBy={d.s.pendBy} " ++
  s!"INV-BROKEN={checkInv d.k d.s} | " ++ " | ".intercalate cos

def model : TraceModel :=
  { σ := DState, init := initD, step := stepD, final := finalD, showState := showD }

end Yaclib.Driver.CoSharedMutexD
