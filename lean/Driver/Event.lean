/- trace validator for the C16 model (Model/Event.lean) -/
import YaclibModel.Model.Event
import Driver.Trace

namespace Yaclib.Driver.EventD
open Yaclib.Event Yaclib.Driver

def parseNats (s : String) (sep : String) : Option (List Nat) :=
  if s = "-" ∨ s = "" then some [] else (s.splitOn sep).mapM String.toNat?

def parseAKind (s : String) : Option AKind :=
  match s with
  | "inline" => some .inline | "sticky" => some .sticky | "on" => some .on | "raw" => some .raw | _ => none

/-- `add:2` `done:1` `att:0+1` `con:0` `ful:0` `rdy:0` `wait` `wfor` `aw:inline` -/
def parseOp (s : String) : Option Op :=
  match s.splitOn ":" with
  | ["add", k] => k.toNat?.map .add
  | ["done", k] => k.toNat?.map .done
  | ["att", fs] => (parseNats fs "+").map (.insert false)
  | ["con", fs] => (parseNats fs "+").map (.insert true)
  | ["ful", f] => f.toNat?.map .fulfil
  | ["rdy", f] => f.toNat?.map .ready
  | ["wait"] => some .wait
  | ["wfor"] => some .waitFor
  | ["aw", k] => (parseAKind k).map .await
  | _ => none

def parseProg (s : String) : Option (List Op) :=
  if s = "-" then some [] else (s.splitOn ";").mapM parseOp

/-- the model state plus the trace's names of job pointers -/
structure DState where
  s : State
  names : List (String × Nat) := []

/-- header: `event nthr=2 held=1,0 nfut=1 prog=att:0;done:1/ful:0` -/
def initE (hdr : List String) : Option DState := do
  let nthr ← (hdrGet hdr "nthr").bind String.toNat?
  let held ← parseNats (← hdrGet hdr "held") ","
  let nfut ← (hdrGet hdr "nfut").bind String.toNat?
  let progs ← ((← hdrGet hdr "prog").splitOn "/").mapM parseProg
  pure { s := init { nthr := nthr, prog := fun t => progs.getD t [], held0 := fun t => held.getD t 0, nfut := nfut } }

def parseT (s : String) : Option Nat := if s.startsWith "t" then (s.drop 1).toString.toNat? else none
def parseW (s : String) : Option Nat := if s.startsWith "w" then (s.drop 1).toString.toNat? else none

def resolveFWord (f : Fut) (name : String) : Option FWord :=
  if name = "empty" then some .empty
  else if name = "MAX" then some .result
  else if name.startsWith "cb" then (match f.word with | .call => some .call | .drop => some .drop | _ => none)
  else none

/-- (the harness prints the all-ones word as `MAX`: it is `kResult` in a future's word and `kAllDone` in the head)
    a head value: the sentinel, or a pointer to the newest job of a list; a list that is not the current one is stale -/
def resolveHead (d : DState) (name : String) : Option Exp :=
  if name = "MAX" then some .done
  else if name = "empty" then some (if d.s.head = some [] then .cur [] else .stale)
  else
    match d.names.lookup name with
    | none => none
    | some j =>
        (match d.s.head with
         | some (j' :: l) => some (if j' = j then .cur (j' :: l) else .stale)
         | _ => some .stale)

def curJob (pc : Pc) : Option Nat :=
  match pc with
  | .run (j :: _) _ => some j | .runDec j _ => some j | .tryL j => some j | .tryC j _ => some j | .resume j => some j
  | .bLock j => some j | .bHeld j => some j | .bAsleep j => some j | .bTimedOut j => some j | .bUnlockRet j _ => some j
  | .bDec j _ => some j | .rep j _ => some j
  | _ => none

def findJob (s : State) (owner slot : Nat) : Option Nat :=
  (List.range s.njobs).find? fun j => (s.job j).owner = owner ∧ (s.job j).slot = slot

def parseBool (s : String) : Option Bool := if s = "1" then some true else if s = "0" then some false else none

/-- `none` = line outside the model, `some none` = rejected, `some (some (l, newName))` -/
def toLabel (d : DState) (ts : List String) : Option (Option (Label × Option String)) :=
  let s := d.s
  match ts with
  | "r" :: _ => none      -- the root thread only joins and destroys what is left
  | [t, "A", "cnt", "fadd", _, k, "->", old] =>
      some (do let t ← parseT t; let k ← k.toNat?; let old ← old.toNat?; pure (.fadd t k (old : Int), none))
  | [t, "A", "cnt", "fsub", _, k, "->", old] =>
      some (do let t ← parseT t; let k ← k.toNat?; let old ← old.toNat?; pure (.fsub t k (old : Int), none))
  | _ :: "A" :: "cnt" :: _ => some none
  | [t, "A", "head", "load", _, "-", "->", x] =>
      some (do
        let t ← parseT t
        let x ← resolveHead d x
        match (s.thr t).pc with
        | .tryC _ _ => pure (.hSpur t x, none)    -- the re-read of a spuriously failed weak CAS
        | _ => pure (.hLoad t x, none))
  | [t, "A", "head", "cas_weak", _, arg, "->", res] =>
      some (do
        let t ← parseT t
        if res = "ok" then
          match arg.splitOn ">" with
          | [_, y] => pure (.hCas t true, some y)
          | _ => none
        else pure (.hCas t false, none))
  | [t, "A", "head", "xchg", _, "MAX", "->", old] =>
      some (do
        let t ← parseT t
        -- an exchange reads the latest value: the name must denote the current head
        match resolveHead d old with
        | some .done => if s.head = none then pure (.hXchg t none, none) else none
        | some (.cur l) => pure (.hXchg t (some l), none)
        | _ => none)
  | _ :: "A" :: "head" :: _ => some none
  | [t, "A", rc, "fsub", _, "1", "->", old] =>
      if rc.startsWith "rc" then
        some (do let t ← parseT t; let j ← curJob (s.thr t).pc; let old ← old.toNat?; pure (.jDec t j (old : Int), none))
      else some none
  | [t, "A", obj, "load", _, "-", "->", x] =>
      some (do let t ← parseT t; let f ← parseW obj; let x ← resolveFWord (s.fut f) x; pure (.fLoad t f x, none))
  | [t, "A", obj, "cas_strong", _, _, "->", res] =>
      some (do let t ← parseT t; let f ← parseW obj; pure (.fCas t f (res = "ok"), none))
  | [t, "A", obj, "xchg", _, "MAX", "->", old] =>
      some (do let t ← parseT t; let f ← parseW obj; let old ← resolveFWord (s.fut f) old; pure (.pXchg t f old, none))
  | _ :: "A" :: _ => some none
  | [t, "M", m, "lock", _] =>
      if m.startsWith "m" then some (do let t ← parseT t; let j ← curJob (s.thr t).pc; pure (.lock t j, none)) else none
  | [t, "M", m, "unlock", _] =>
      if m.startsWith "m" then some (do let t ← parseT t; let j ← curJob (s.thr t).pc; pure (.unlock t j, none)) else none
  | [t, "M", q, "wake", "1"] =>
      if q.startsWith "q" then some (do let t ← parseT t; let j ← curJob (s.thr t).pc; pure (.timeout t j, none)) else none
  | _ :: "M" :: _ => none
  | [t, "E", "ret", b] =>
      some (do let t ← parseT t; let j ← curJob (s.thr t).pc; let b ← parseBool b; pure (.ret t j b, none))
  | [t, "E", "rel", owner, slot] =>
      some (do
        let t ← parseT t
        let owner ← owner.toNat?
        let slot ← slot.toNat?
        let j ← findJob s owner slot
        pure (.rel t j, none))
  | [t, "E", "rdy", f, b] => some (do let t ← parseT t; let f ← f.toNat?; let b ← parseBool b; pure (.rdy t f b, none))
  | [_, "E", "submit"] => none      -- the executor of AwaitOn / AwaitSticky: the resumption itself is the `rel` line
  | _ :: "E" :: _ => some none
  | _ => none

def ruleOf (s s' : State) (l : Label) : String :=
  match l with
  | .fadd t _ _ => (match (s.thr t).prog with | .add _ :: _ => "tAdd" | _ => "tInsAdd")
  | .fsub t k old =>
      (match (s.thr t).pc with
       | .idle => "tDone" | .insSub _ => "tInsSub" | _ => "tCbSub") ++ (if old = (k : Int) then ".zero" else ".more")
  | .fLoad t f x =>
      (match (s.thr t).pc with
       | .idle => "tReadyLoad"
       | _ => (if x = .empty then "tInsLoad.empty" else "tInsLoad.full") ++ (if x = (s.fut f).word then "" else ".stale"))
  | .fCas t _ ok =>
      (match (s.thr t).pc with
       | .insCas _ _ _ _ true => "tInsCas.consume" | _ => "tInsCas.attach") ++ (if ok then "Ok" else "Fail")
  | .pXchg _ _ old =>
      (match old with
       | .empty => "tFulfil.empty" | .call => "tFulfil.call" | .drop => "tFulfil.drop" | .result => "tFulfil.result")
  | .rdy _ _ b => if b then "tReady.true" else "tReady.false"
  | .hLoad t x =>
      let k := (match (s.thr t).pc with
                | .idle => (match (s.thr t).prog with | op :: _ => (if opChecks op then "tStart.check" else "tStart.try") | [] => "?")
                | _ => "tTryLoad")
      k ++ (match x with | .done => ".done" | .cur _ => ".list" | .stale => ".stale")
  | .hCas _ ok => if ok then "tCasOk" else (match s.head with | none => "tCasFail.done" | _ => "tCasFail.retry")
  | .hSpur _ x => (match x with | .done => "tCasSpur.done" | _ => "tCasSpur.retry")
  | .hXchg _ old => (match old with | none => "tXchgHead.crash" | some [] => "tXchgHead.empty" | some _ => "tXchgHead.list")
  | .lock t j =>
      (match (s.thr t).pc with
       | .run _ _ => (match (s.job j).kind with | .timed => "tRunLock.timed" | _ => "tRunLock.blocking")
       | .bTimedOut _ => if (s.job j).ready then "tBLockT.ready" else "tBLockT.false"
       | .bAsleep _ => if (s.job j).ready then "tBWake" else "tBWake.spurious"
       | _ => if (s.job j).ready then "tBLock.ready" else "tBLock.wait")
  | .unlock t _ =>
      (match (s.thr t).pc with
       | .run _ _ => "tRunUnlock" | .bHeld _ => "tBSleep" | _ => "tBUnlockRet")
  | .timeout _ _ => "tBTimeout"
  | .jDec t j _ =>
      (match (s.thr t).pc with | .runDec _ _ => "tRunDec" | _ => "tBDec") ++ (if (s'.job j).freed then ".free" else ".keep")
  | .ret _ j b =>
      (match (s.job j).kind with | .timed => "tRep.timed" | _ => "tRep.blocking") ++ (if b then ".true" else ".false") ++
        (if (s.job j).st = .failed then ".late" else "")
  | .rel t j =>
      (match (s.thr t).pc with | .resume _ => "tResume" | _ => "tRunRel")

def stepE (d : DState) (ts : List String) : Option (Option (DState × String)) :=
  match toLabel d ts with
  | none => none
  | some none => some none
  | some (some (l, nm)) =>
      match next d.s l with
      | none => some none
      | some s' =>
          let names := match nm, l with
            | some y, .hCas t true => (match curJob (d.s.thr t).pc with | some j => (y, j) :: d.names | none => d.names)
            | _, _ => d.names
          some (some ({ s := s', names := names }, ruleOf d.s s' l))

/-- at the end of a run every thread has finished; if the count reached zero every waiter that got into the list was
    called, nothing was touched after it was gone, SetImpl ran once -/
def finalE (d : DState) : Option String :=
  let s := d.s
  if (List.range s.w.nthr).any (fun t => (s.thr t).pc ≠ .idle ∨ (s.thr t).prog ≠ []) then some "a thread has not finished"
  else if s.crash then some "SetImpl ran on the all-done sentinel"
  else if s.bad then some "a waiter was touched after it was freed"
  else if s.zeroed ∧ (List.range s.njobs).any (fun j => (s.job j).st = .listed ∨ (s.job j).st = .running ∨ (s.job j).st = .fresh) then
    some "a registered waiter was not called"
  else if (List.range s.njobs).any (fun j => (s.job j).nrel > 1) then some "a waiter was released twice"
  else none

def showState (d : DState) : String :=
  let s := d.s
  let thrs := (List.range s.w.nthr).map fun t => s!"t{t}:{reprStr (s.thr t)}"
  let futs := (List.range s.w.nfut).map fun f => s!"f{f}:{reprStr (s.fut f)}"
  let jobs := (List.range s.njobs).map fun j => s!"j{j}:{reprStr (s.job j)}"
  s!"count={s.count} head={reprStr s.head} zeroed={s.zeroed} nzero={s.nzero} crash={s.crash} bad={s.bad} " ++
  s!"thr={thrs} fut={futs} job={jobs} names={d.names}"

def model : TraceModel :=
  { σ := DState, init := initE, step := stepE, final := finalE, showState := showState }

end Yaclib.Driver.EventD
