/- ymdriver: executable side of the models (trace validators / model runners). No Mathlib. -/
import Driver.Atomic
import Driver.Unique

def main (args : List String) : IO UInt32 := do
  match args with
  | ["atomic"] => Yaclib.Driver.Atomic.main false; return 0
  | ["atomic-spec"] => Yaclib.Driver.Atomic.main true; return 0
  | ["validate", "unique"] => Yaclib.Driver.validate Yaclib.Driver.UniqueD.model
  | _ =>
    IO.eprintln "usage: ymdriver <model> …"
    return 2
