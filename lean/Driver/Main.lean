/- ymdriver: executable side of the models (trace validators / model runners). No Mathlib. -/
import Driver.Atomic
import Driver.Unique
import Driver.FiberSync
import Driver.Pool
import Driver.When
import Driver.Shared
import Driver.Strand
import Driver.Wait
import Driver.Event
import Driver.CoMutex
import Driver.Coro
import Driver.CoSharedMutex

def main (args : List String) : IO UInt32 := do
  match args with
  | ["atomic"] => Yaclib.Driver.Atomic.main false; return 0
  | ["atomic-spec"] => Yaclib.Driver.Atomic.main true; return 0
  | ["validate", "unique"] => Yaclib.Driver.validate Yaclib.Driver.UniqueD.model
  | ["validate", "fibersync"] => Yaclib.Driver.validate Yaclib.Driver.FiberSyncD.model
  | ["validate", "pool"] => Yaclib.Driver.validate Yaclib.Driver.PoolD.model
  | ["validate", "shared"] => Yaclib.Driver.validate Yaclib.Driver.SharedD.model
  | ["validate", "strand"] => Yaclib.Driver.validate Yaclib.Driver.StrandD.model
  | ["validate", "wait"] => Yaclib.Driver.validate Yaclib.Driver.WaitD.model
  | ["validate", "when"] => Yaclib.Driver.validate Yaclib.Driver.WhenD.model
  | ["validate", "event"] => Yaclib.Driver.validate Yaclib.Driver.EventD.model
  | ["validate", "comutex"] => Yaclib.Driver.validate Yaclib.Driver.CoMutexD.model
  | ["validate", "coro"] => Yaclib.Driver.validate Yaclib.Driver.CoroD.model
  | ["validate", "cosharedmutex"] => Yaclib.Driver.validate Yaclib.Driver.CoSharedMutexD.model
  | _ =>
    IO.eprintln "usage: ymdriver <model> …"
    return 2
