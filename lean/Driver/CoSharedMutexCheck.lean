/- executable mirror of the invariant `Yaclib.CoSharedMutex.Inv` restricted to the first `k` coroutines
   (a debugging aid of the trace validator: every state reached by an implementation trace is checked) -/
import YaclibModel.Model.CoSharedMutex

namespace Yaclib.Driver.CoSharedMutexD
open Yaclib.CoSharedMutex

def b2n (b : Bool) : Nat := if b then 1 else 0

def checkInv (k : Nat) (s : State) : List String :=
  let cs := List.range k
  let all (f : Cid → Bool) : Bool := cs.all f
  let chk (name : String) (b : Bool) : List String := if b then [] else [name]
  chk "l_ar" (all fun c => s.ar.count c == b2n (s.pc c).isAR) ++
  chk "l_ifl" (all fun c => s.ifl.count c == b2n (s.pc c).isIFL) ++
  chk "l_lv" (all fun c => s.lv.count c == b2n (s.pc c == .rUn2)) ++
  chk "l_q" (all fun c => s.Q.count c == b2n (s.pc c == .rparked)) ++
  chk "l_wq" (all fun c => s.WQ.count c == b2n (s.pc c == .wparkedQ)) ++
  chk "l_torun" (all fun c => s.torun.count c == b2n (s.pc c == .rgranted)) ++
  chk "l_excl" (all fun c => (s.pc c).isExcl == (s.excl == some c)) ++
  chk "l_held" (all fun c => (s.pc c).isHeld == (s.spin == .held c)) ++
  chk "l_qsize" (s.qsize == s.Q.length) ++
  chk "l_runner" (all fun c => (s.pc c == .uRunR) == (s.runner == some c)) ++
  chk "l_torun_runner" ((s.torun.length == 0) == (s.runner == none)) ++
  chk "l_wrun" (all fun c => (s.pc c).isURunW == (s.wrun == some c)) ++
  chk "l_wrun_t" (all fun c => match s.pc c with | .uRunW n => s.excl == some n && s.pc n == .wgranted | _ => true) ++
  chk "l_wgranted" (all fun c => s.pc c != .wgranted || s.wrun != none) ++
  chk "wrun_w" (s.wrun == none || (all fun c => !(s.pc c).isExcl || s.pc c == .wgranted)) ++
  chk "wrun_excl" (s.wrun == none || s.excl != none) ++
  chk "l_pend" (all fun c => (s.pc c).isPassUnl == (s.pendBy == some c)) ++
  chk "l_ew" (match s.excl with | some c => s.ew == b2n (s.pc c).isCntW | none => s.ew == 0) ++
  chk "l_enq" (match s.spin with | .held c => s.enq == b2n (s.pc c == .wUnl .enq) | _ => s.enq == 0) ++
  chk "pw_link" (match s.pw with
    | .none => true | .a n r => s.pc n == .wPost r | .b n => s.pc n == .wparkedF
    | .c n b => s.pc n == .wparkedF && s.pc b == .rRun) ++
  chk "pc_wpost" (all fun c => match s.pc c with | .wPost r => s.pw == .a c r | _ => true) ++
  chk "pc_wparkedF" (all fun c => s.pc c != .wparkedF || s.pw.who == some c) ++
  chk "pc_rRun" (all fun c => s.pc c != .rRun || s.pw.by_ == some c) ++
  chk "pw_first" (match s.pw.who with | some n => s.wfirst == some n | none => true) ++
  chk "j4" (s.R == s.ar.length + s.torun.length + s.Q.length + s.ifl.length) ++
  chk "j5" (s.W == s.ew + b2n s.pw.isSome + s.WQ.length + s.enq) ++
  chk "j2" (s.excl == none || (s.ar.length == 0 && s.torun.length == 0 && s.lv.length == 0 && s.pass == 0 && s.pw == .none)) ++
  chk "j2w" (match s.excl with | some c => s.rwait == (if (s.pc c).isStoredUnl then (s.qsize : Int) else 0) | none => true) ++
  chk "j3" (let sum : Int := ((s.ar.length + s.torun.length + s.pass + s.lv.length : Nat) : Int)
    match s.pw with
    | .none => s.excl != none || s.rwait == 0
    | .a _ r => s.rwait == sum - r && s.rwait ≤ 0
    | .b _ => s.rwait == sum && 1 ≤ s.rwait
    | .c _ _ => s.rwait == 0 && sum == 0) ++
  chk "lv_pw" (s.pw.isAB || s.lv.length == 0) ++
  chk "w0_excl" (s.W != 0 || s.excl == none) ++
  chk "j1" (s.W != 0 || (s.pass + s.pend == s.ifl.length && (s.pendBy != none || s.Q.length == 0))) ++
  chk "pend_w" (s.W == 0 || s.pend == 0) ++
  chk "pend_none" (s.pendBy != none || s.pend == 0) ++
  chk "pend_amt" (all fun c => match s.pc c with
    | .uUnl (.readersPass sr) => s.pend == sr - s.qsize && s.W == 0 && s.Q.length != 0
    | .uUnl (.passOnly sr) => s.pend == sr - s.qsize && s.Q.length == 0
    | _ => true) ++
  chk "pass_ge" (all fun c => match s.pc c with
    | .uUnl (.readersPass sr) => s.qsize ≤ sr
    | .uUnl (.passOnly sr) => s.qsize ≤ sr
    | _ => true) ++
  chk "out" (all fun c => s.cfg.prog c != [] || (s.pc c == .idle && s.todo c == [])) ++
  chk "jp_le" (s.pass + s.pend ≤ s.ifl.length) ++
  chk "j6" (!s.cfg.fifo || (s.prio ≤ s.WQ.length && (s.Q.length != 0 || s.prio == s.WQ.length))) ++
  chk "j6b" (s.WQ.length == 0 || s.excl != none || s.pw != .none) ++
  chk "enq_live" (s.enq == 0 || s.excl != none || s.pw != .none) ++
  chk "need_w" (all fun c => !(s.pc c).isNeedW || s.WQ.length != 0) ++
  chk "rw_fifo" (all fun c => s.pc c != .uUnl .runWriter || !s.cfg.fifo || s.prio != 0) ++
  chk "st_sw" (all fun c => match s.pc c with
    | .uStore sw => sw == s.WQ.length + 1 && s.Q.length != 0 && (!s.cfg.fifo || s.prio == 0)
    | .uUnl (.stored sw) => sw == s.WQ.length + 1 && s.Q.length != 0 && (!s.cfg.fifo || s.prio == 0)
    | _ => true) ++
  chk "j7" (all fun c => !(s.pc c).isULock || s.torun.length == 0) ++
  chk "busy_todo" (all fun c => s.pc c == .idle || s.todo c != []) ++
  chk "rounds" (all fun c => s.enters c + s.fails c + (s.todo c).length == (s.cfg.prog c).length + b2n (s.pc c).isInRound) ++
  chk "parks" (all fun c => s.parks c == s.grants c + b2n (s.pc c).isParked)

end Yaclib.Driver.CoSharedMutexD
