/- trace validator for the C14 model (Model/CoMutex.lean); trace format: harness/c14.cpp -/
import YaclibModel.Model.CoMutex
import Driver.Trace

namespace Yaclib.Driver.CoMutexD
open Yaclib.CoMutex Yaclib.Driver

structure DState where
  k : Nat
  s : State

def parseAcq (x : String) : Option Acq :=
  match x with
  | "lock" => some .lock | "guard" => some .lock | "lockw" => some .lock | "locky" => some .lock | "pguard" => some .lock
  | "dtry" => some .try_ | "rtry" => some .try_
  | "sticky" => some .sticky
  | "trylock" => some .try_ | "tryguard" => some .try_
  | _ => none

def parseRel (x : String) : Option Rel :=
  match x with
  | "unlock" => some .unlock | "gunlock" => some .unlock
  | "unlockon" => some .unlockOn | "gunlockon" => some .unlockOn
  | "here" => some .here | "ghere" => some .here | "dtor" => some .here
  | "sunlock" => some .stickyUnlock
  | _ => none

def parseRound (x : String) : Option Round :=
  match x.splitOn ":" with
  | [a, r] => do pure { acq := ← parseAcq a, rel := ← parseRel r }
  | _ => none

def parseBool (x : String) : Option Bool :=
  match x with | "1" => some true | "0" => some false | _ => none

def initD (hdr : List String) : Option DState := do
  let b ← (hdrGet hdr "batching").bind parseBool
  let f ← (hdrGet hdr "fifo").bind parseBool
  let p ← hdrGet hdr "prog"
  let progs ← (p.splitOn ";").mapM fun co => (co.splitOn ",").mapM parseRound
  pure { k := progs.length, s := init { batching := b, fifo := f, prog := fun c => progs.getD c [] } }

def parseCid (x : String) : Option Cid :=
  if x.startsWith "c" then (x.drop 1).toString.toNat? else none

def parseAgent (x : String) : Option Agent :=
  if x.endsWith "'" then (parseCid (x.dropEnd 1).toString).map .tail else (parseCid x).map .co

def parseExp (x : String) : Option Exp :=
  if x = "free" then some .free
  else if x = "locked" then some (.locked none)
  else (parseCid x).map fun c => .locked (some c)

def tailSfx (a : Agent) : String := match a with | .tail _ => ".tail" | .co _ => ""

def ruleOf (s : State) (l : Label) : String :=
  match l with
  | .tlLoad c sf =>
      if sf then "tlLoad.free" else if curAcq s c = .try_ then "tlLoad.locked.try" else "tlLoad.locked"
  | .tlCas c ok => if ok then "tlCasOk" else if curAcq s c = .try_ then "tlCasFail.try" else "tlCasFail"
  | .tryFail _ => "tryFail"
  | .alLoad _ e => if e = .free then "alLoad.free" else "alLoad.locked"
  | .alCas c ok =>
      match s.pc c with
      | .alLoop e =>
          if ok then (if e = .free then "alCasLock" else "alCasPush")
          else if s.word.cls = e then "alCasFail.spurious" else "alCasFail.changed"
      | _ => "alCas?"
  | .enter _ => "enter"
  | .exit c =>
      let k := match exitKind s c with | .unlock => "unlock" | .unlockOn => "unlockOn" | .here => "here"
      if curRel s c = .stickyUnlock then "exit.sticky." ++ k else "exit." ++ k
  | .resubmit _ => "resubmit"
  | .ulLoad a se => (if se then "ulLoad.empty" else "ulLoad.waiters") ++ tailSfx a
  | .ulCas a ok => (if ok then "ulCasOk" else "ulCasFail") ++ tailSfx a
  | .ulXchg a => "ulXchg" ++ tailSfx a
  | .grant a _ inl =>
      (if s.own.relPc = some .took then "grant.took" else "grant.recv") ++ (if inl then ".inline" else "") ++ tailSfx a

/-- the coroutine whose own control flow an agent name denotes, if it is the coroutine itself -/
def coOf (a : Agent) : Option Cid := match a with | .co c => some c | .tail _ => none

/-- labels for one trace line.  `none` = the line is not part of the model, `some none` = rejected.
    The FIBER backend is sequentially consistent, so loaded values are required to be the current ones
    (the model would also accept stale ones). -/
def toLabels (s : State) (ts : List String) : Option (Option (List Label)) :=
  match ts with
  | [t, "A", "s", "load", _, "-", "->", v] =>
      some do
        let a ← parseAgent t
        let e ← parseExp v
        if e ≠ s.word.cls then none else
        match a with
        | .co c =>
            match s.pc c with
            | .idle => pure [.tlLoad c (decide (e = .free))]
            | .alStart => pure [.alLoad c e]
            | .alLoop _ => pure [.alCas c false]          -- a spurious weak-CAS failure is reported as its reload
            | .unlocking => pure [.ulLoad a (decide (e = .locked none))]
            | _ => none
        | .tail _ => pure [.ulLoad a (decide (e = .locked none))]
  | [t, "A", "s", "cas_strong", _, _, "->", res] =>
      some do
        let a ← parseAgent t
        let ok := res = "ok"
        if !ok then (if (parseExp (res.drop 5).toString) ≠ some s.word.cls then none else pure ()) else pure ()
        match a with
        | .co c => if s.pc c = .tlLoaded then pure [.tlCas c ok] else pure [.ulCas a ok]
        | .tail _ => pure [.ulCas a ok]
  | [t, "A", "s", "cas_weak", _, ed, "->", res] =>
      some do
        let c ← parseCid t
        let ok := res = "ok"
        match ed.splitOn ">" with
        | [e, d] =>
            -- the traced `expected` must be the model's, the desired value `locked` or the coroutine itself
            let e ← parseExp e
            if s.pc c ≠ .alLoop e then none
            else if d ≠ "locked" ∧ d ≠ t then none
            else if !ok ∧ (parseExp (res.drop 5).toString) ≠ some s.word.cls then none
            else pure [.alCas c ok]
        | _ => none
  | [t, "A", "s", "xchg", _, "locked", "->", v] =>
      some do
        let a ← parseAgent t
        let e ← parseExp v
        if e ≠ s.word.cls then none else pure [.ulXchg a]
  | _ :: "A" :: "s" :: _ => some none
  | [t, "E", "submit", j] =>
      some do
        let a ← parseAgent t
        let n ← parseCid j
        match a, s.own with
        | .co c, .rel c' .pre _ false => if c = c' ∧ n = c then pure [.resubmit c] else none
        | .co c, .rel c' .start k false =>
            if c = c' ∧ n = c then
              -- AwaitUnlock (batching): the unlocking coroutine is re-submitted, the head of `_receiver` resumed in place
              match s.receiver with
              | m :: _ => pure [.grant a m (inlineOf s .start k)]
              | [] => none
            else pure [.grant a n false]
        | _, _ => pure [.grant a n false]
  | [t, "E", "cs_enter"] =>
      some do
        let c ← parseCid t
        if s.pc c = .parked then
          -- AwaitUnlockOn (batching) resumes the next holder in place without any event of its own
          match s.own, s.receiver with
          | .rel c' .start k true, m :: _ =>
              if m = c then pure [.grant (.tail c') c (inlineOf s .start k), .enter c] else none
          | _, _ => none
        else pure [.enter c]
  | [t, "E", "cs_exit", r] =>
      some do
        let c ← parseCid t
        let r ← parseRel r
        if curRel s c ≠ r then none else pure [.exit c]
  | [t, "E", "try_fail"] => some ((parseCid t).map fun c => [.tryFail c])
  | [_, "E", "done"] => none
  | _ :: "E" :: _ => some none
  | _ => none

def applyAll (s : State) (ls : List Label) : Option State :=
  ls.foldlM (fun s l => next s l) s

def stepD (d : DState) (ts : List String) : Option (Option (DState × String)) :=
  match toLabels d.s ts with
  | none => none
  | some none => some none
  | some (some ls) =>
      match ls with
      | [] => some none
      | l :: _ =>
          match applyAll d.s ls with
          | none => some none
          | some s' => some (some ({ d with s := s' }, ruleOf d.s l))

/-- every run of the harness ends with every coroutine finished and the mutex free -/
def finalD (d : DState) : Option String :=
  if d.s.word ≠ .notLocked then some "the mutex is not free at the end"
  else if d.s.receiver ≠ [] then some "receiver not empty at the end"
  else if d.s.own ≠ .free then some "a release is still in progress at the end"
  else if (List.range d.k).any (fun c => d.s.pc c ≠ .idle ∨ d.s.todo c ≠ []) then some "a coroutine did not finish"
  else none

def showD (d : DState) : String :=
  let cos := (List.range d.k).map fun c =>
    s!"c{c}: pc={reprStr (d.s.pc c)} todo={(d.s.todo c).length} sticky={d.s.sticky c} enters={d.s.enters c} fails={d.s.fails c}"
  s!"word={reprStr d.s.word} receiver={d.s.receiver} own={reprStr d.s.own} arrivals={d.s.arrivals} granted={d.s.granted} | " ++
    " | ".intercalate cos

def model : TraceModel :=
  { σ := DState, init := initD, step := stepD, final := finalD, showState := showD }

end Yaclib.Driver.CoMutexD
