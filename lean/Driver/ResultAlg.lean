/- ymdriver_pipe result: runs the Result algebra model (Model/ResultAlg.lean) on the line protocol of harness/result.cpp
   (same input, same output; see the header of that file). -/
import YaclibModel.Model.ResultAlg

namespace Yaclib.Driver.ResultAlg
open Yaclib.ResultAlg

def toks (line : String) : List String :=
  (line.trimAscii.toString.splitOn " ").filter (· ≠ "")

def slot (s : String) : Option Nat :=
  match s with
  | "0" => some 0 | "1" => some 1 | "2" => some 2 | "3" => some 3
  | _ => none

def showPay : Pay → String
  | .live k => toString k
  | .dead => "dead"

def showRS (unit : Bool) : Option RS → String
  | none => "-"
  | some .empty => "empty"
  | some (.value p) => if unit then "val:unit" else s!"val:{showPay p}"
  | some (.error p) => s!"err:{showPay p}"
  | some (.exception (some k)) => s!"exc:{k}"
  | some (.exception none) => "exc:null"

def showObs (unit : Bool) : Obs → String
  | .none => "-"
  | .bad => "bad"
  | .val p => if unit then "val:unit" else s!"val:{showPay p}"
  | .err p => s!"err:{showPay p}"
  | .exc (some k) => s!"exc:{k}"
  | .exc none => "exc:null"
  | .throwExc k => s!"throw:exc:{k}"
  | .throwErr p => s!"throw:err:{showPay p}"
  | .throwEmpty => "throw:empty"

def dump (s : St) (o : Obs) : String :=
  let sl := (List.range 4).map fun i => s!"r{i}={showRS s.unit (s.slots i)} "
  let lv := if s.unit then 0 else liveCount .value s.slots 4
  String.join sl ++ s!"obs={showObs s.unit o} lv={lv} le={liveCount .error s.slots 4}"

def parseOp (unit : Bool) : List String → Option Op
  | ["new", i, "empty"] => (slot i).map (Op.new · .empty)
  | ["new", i, "stop"] => (slot i).map (Op.new · .stop)
  | ["new", i, "err", k] => (slot i).bind fun i => k.toInt?.map fun k => .new i (.err k)
  | ["new", i, "exc", k] => (slot i).bind fun i => k.toNat?.map fun k => .new i (.exc k)
  | ["new", i, "unit"] => if unit then (slot i).map (Op.new · (.val 0)) else none
  | ["new", i, "inplace"] => if unit then (slot i).map (Op.new · (.inplace 0)) else none
  | ["new", i, "val", k] => if unit then none else (slot i).bind fun i => k.toInt?.map fun k => .new i (.val k)
  | ["new", i, "inplace", k] => if unit then none else (slot i).bind fun i => k.toInt?.map fun k => .new i (.inplace k)
  | ["copyc", i, j] => (slot i).bind fun i => (slot j).map (Op.copyC i ·)
  | ["movec", i, j] => (slot i).bind fun i => (slot j).map (Op.moveC i ·)
  | ["copya", i, j] => (slot i).bind fun i => (slot j).map (Op.copyA i ·)
  | ["movea", i, j] => (slot i).bind fun i => (slot j).map (Op.moveA i ·)
  | ["setv", i, k] => if unit then none else (slot i).bind fun i => k.toInt?.map fun k => .set i (.val k)
  | ["setu", i] => if unit then (slot i).map (Op.set · (.val 0)) else none
  | ["sete", i, k] => (slot i).bind fun i => k.toInt?.map fun k => .set i (.err k)
  | ["setx", i, k] => (slot i).bind fun i => k.toNat?.map fun k => .set i (.exc k)
  | ["sets", i] => (slot i).map (Op.set · .stop)
  | ["del", i] => (slot i).map Op.del
  | ["ok", i] => (slot i).map Op.ok
  | ["okm", i] => (slot i).map Op.okMove
  | ["takev", i] => (slot i).map Op.takeV
  | ["takee", i] => (slot i).map Op.takeE
  | ["takex", i] => (slot i).map Op.takeX
  | _ => none

partial def loop (h : IO.FS.Stream) (st : Option St) : IO Unit := do
  let line ← h.getLine
  if line.isEmpty then return ()
  let ts := toks line
  match ts, st with
  | ["end"], _ => IO.println "end"; loop h none
  | ["ty", "v"], none => IO.println "ok"; loop h (some {})
  | ["ty", "u"], none => IO.println "ok"; loop h (some { unit := true })
  | _, some s =>
    (match parseOp s.unit ts with
     | some op =>
       let (s', o) := step s op
       if o = .bad then do IO.println "bad"; loop h (some s)
       else do IO.println (dump s' o); loop h (some s')
     | none => do IO.println "bad"; loop h (some s))
  | _, none => IO.println "bad"; loop h none

def main : IO Unit := do
  loop (← IO.getStdin) none

end Yaclib.Driver.ResultAlg
