/- trace validator for the C13 model (Model/Coro.lean).

   A run of the harness has n coroutines; the model describes ONE coroutine against its environment, so the validator keeps one
   model state per coroutine (its *projection* of the run) and feeds every trace line to the projections it concerns:
   the acting coroutine takes the corresponding model step, the others see it as an environment step
   (`envPush` for somebody else's successful registration on a shared word, `envSwap` for an executor swap, `pXchg` for a
   fulfilment).  Steps of the model that have no trace line of their own (a fulfiller running a callback that neither touches a
   counter nor submits; Submit + Call on the library's inline executor) are reported by the harness as separate event lines
   (`fire`, `submit … e0`, `call`) right before the resumption they explain.  An executor swap made behind the coroutine's back
   (a Task that moved, a Schedule()-headed Task) is inferred from the executor the coroutine reports after resumption (`envSwap`
   inserted in front of `resume`). -/
import YaclibModel.Model.Coro
import Driver.Trace

namespace Yaclib.Driver.CoroD
open Yaclib.Coro Yaclib.Driver

def parseRes (s : String) : Option Res :=
  if s = "err" then some .err
  else if s = "exc" then some .exc
  else if s.startsWith "val:" then (s.drop 4).toString.toNat?.map .val
  else none

structure CellH where
  kind : String
  res : Res
  sub : Bool

def parseCell (s : String) : Option CellH :=
  match s.splitOn "/" with
  | [k, r, _, sub] => (parseRes r).map fun r => { kind := k, res := r, sub := sub = "1" }
  | _ => none

def parseCells (s : String) : Option (List Nat) :=
  if s = "" then some [] else (s.splitOn "+").mapM (·.toNat?)

def parseOp (s : String) : Option Op :=
  match s.splitOn ":" with
  | kind :: e :: cells :: _ => do
      let cs ← parseCells cells
      let get := kind.endsWith ".g"
      let base := if get then (kind.dropEnd 2).toString else kind
      let eo := e.toNat?
      let k ← match base with
        | "single" => some AKind.single
        | "sticky" => some AKind.sticky
        | "on" => eo.map AKind.on
        | "multi" => some AKind.multi
        | "msticky" => some AKind.multiSticky
        | "mon" => eo.map AKind.multiOn
        | "task" => some AKind.task
        | "resched" => some (AKind.resched eo)
        | "current" => some AKind.current
        | _ => none
      pure { kind := k, cells := cs, get := get }
  | _ => none

structure CoroH where
  locals : Nat
  catches : Bool
  ret : Ret
  ops : List Op

def parseCoro (s : String) : Option CoroH :=
  match s.splitOn ";" with
  | [_, locals, catches, ret, ops] => do
      let l ← locals.toNat?
      let r ← if ret = "throws" then some Ret.throws else (parseRes ret).bind fun | .val n => some (Ret.val n) | _ => none
      let os ← if ops = "-" then some [] else (ops.splitOn ",").mapM parseOp
      pure { locals := l, catches := catches = "1", ret := r, ops := os }
  | _ => none

structure DState where
  comps : List State
  ncells : Nat

def isShared (c : CellH) : Bool := c.kind = "s" || c.kind = "S" || c.kind = "O"
/-- contracts made with `MakeContractOn(e2)` / `MakeSharedContractOn(e2)` store executor 2 in the awaited core -/
def cellExec (c : CellH) : Nat := if c.kind = "o" || c.kind = "O" then 2 else 0
def isLazy (c : CellH) : Bool := c.kind = "t" || c.kind = "T" || c.kind = "k" || c.kind = "K"

def initD (hdr : List String) : Option DState := do
  let cs ← hdrGet hdr "cells"
  let cells ← if cs = "-" then some [] else (cs.splitOn ",").mapM parseCell
  let n ← (hdrGet hdr "n").bind (·.toNat?)
  let coros ← (List.range n).mapM fun i => (hdrGet hdr s!"c{i}").bind parseCoro
  let mentions (c : CoroH) (j : Nat) : Bool := c.ops.any fun o => o.cells.contains j
  let comps := (List.range n).zip coros |>.map fun (i, c) =>
    let cw : List CellW := (List.range cells.length).zip cells |>.map fun (j, ch) =>
      let others := ch.sub || ((List.range n).zip coros).any fun (i', c') => i' != i && mentions c' j
      { shared := isShared ch, others := isShared ch && others, lazy := isLazy ch, res := ch.res, exec0 := cellExec ch }
    init { prog := c.ops, cells := cw, ret := c.ret, catches := c.catches, locals := c.locals }
  pure { comps := comps, ncells := cells.length }

def showWord : Word → String
  | .open l f => s!"open{l}{if f then "+foreign" else ""}"
  | .result l => s!"result{l}"

def showState (n : Nat) (s : State) : String :=
  let cells := (List.range n).map fun j => s!"w{j}={showWord (s.word j)}/ex{(s.cells j).cexec}{if (s.cells j).started then "/started" else ""}"
  s!"pc={reprStr s.pc} k={s.k} st={reprStr s.st} cnt={s.cnt} exec={s.exec} live={s.live} result={reprStr s.result} " ++
  s!"dropped={s.dropped} failed={s.failed} todo={reprStr (s.todo.map (·.kind))} {" ".intercalate cells}"

def showD (d : DState) : String :=
  " || ".intercalate (((List.range d.comps.length).zip d.comps).map fun (i, s) => s!"c{i}: {showState d.ncells s}")

def cidOf (s : String) : Option Nat := if s.startsWith "c" then (s.drop 1).toString.toNat? else none
def pidOf (s : String) : Option Nat := if s.startsWith "p" then (s.drop 1).toString.toNat? else none
def eidOf (s : String) : Option Nat := if s.startsWith "e" then (s.drop 1).toString.toNat? else none
def widOf (s : String) : Option Nat := if s.startsWith "w" then (s.drop 1).toString.toNat? else none
def cntOf (s : String) : Option Nat := if s.startsWith "cnt" then (s.drop 3).toString.toNat? else none

def obsOfName (s : String) : Obs :=
  if s = "empty" then .empty else if s = "result" then .result else .cbs

def kindName : AKind → String
  | .single => "single" | .sticky => "sticky" | .on _ => "on" | .multi => "multi" | .multiSticky => "msticky"
  | .multiOn _ => "mon" | .task => "task" | .resched _ => "resched" | .current => "current"

def curKind (s : State) : String := match s.todo with | op :: _ => kindName op.kind | [] => "none"

def ruleOf (s : State) (l : Label) : String :=
  match l with
  | .pXchg j => match s.word j with
      | .open [] false => "pXchg.empty"
      | .open [] true => "pXchg.foreign"
      | _ => "pXchg.mine"
  | .envPush _ => "envPush"
  | .envSwap _ _ => "envSwap"
  | .fire _ _ =>
      let last := if s.cnt = 1 then ".last" else ".notlast"
      (match s.todo with
       | op :: _ => (match op.kind with
          | .multi | .multiSticky | .multiOn _ => "fire." ++ kindName op.kind ++ last
          | k => "fire." ++ kindName k)
       | [] => "fire.none")
  | .exCall => "exCall"
  | .exDrop => "exDrop"
  | .start => "start." ++ curKind s
  | .rdLoad x => "rdLoad." ++ (match x with | .empty => "empty" | .cbs => "cbs" | .result => "result")
  | .ready b =>
      (match s.pc with
       | .rdyL x => if b then "ready.true" else (if x = .cbs then "ready.false.cbs" else "ready.false")
       | _ => if b then "mready.true" else "mready.false")
  | .regLoad _ x => (match s.todo with
      | op :: _ => match op.cells[(match s.pc with | .reg p => p | _ => 0)]? with
          | some j => if loadGoesOn (s.w.cell j).shared x then "regLoad.go" else "regLoad.fail"
          | none => "regLoad.?"
      | [] => "regLoad.?")
  | .cas _ o => (match o with | .ok => "cas.ok" | .retry => "cas.retry" | .fail => "cas.fail")
  | .msub => "msub"
  | .mload _ => "mload"
  | .msuspend => if s.cnt = 1 then "msuspend.last" else "msuspend.notlast"
  | .tstore => "tstore"
  | .submit _ => "submit"
  | .resume _ _ => (match s.pc with
      | .wake .inl => "resume.inl" | .wake (.cell _) => "resume.cell" | .wake (.exec _) => "resume.exec" | _ => "resume.?")
  | .current _ => "current"
  | .tdtor _ => "tdtor"
  | .ldtor => if s.pc = .done then "ldtor.destroy" else "ldtor.leave"
  | .ret => "ret"
  | .publish _ => if s.dropped then "publish.dropped" else "publish"
  | .fdtor => "fdtor"

/-- apply a model label to one projection -/
def ap (s : State) (l : Label) : Option (State × String) := (next s l).map fun s' => (s', ruleOf s l)

def apSeq (s : State) (ls : List Label) : Option (State × List String) :=
  ls.foldlM (fun (acc : State × List String) l => (ap acc.1 l).map fun (s', r) => (s', acc.2 ++ [r])) (s, [])

def setAt (l : List State) (i : Nat) (s : State) : List State := l.set i s

/-- environment view of an action of coroutine i for all the other projections (best effort: rejected labels are skipped,
    they concern cells the projection does not depend on) -/
def others (d : DState) (i : Nat) (l : Label) : List State :=
  ((List.range d.comps.length).zip d.comps).map fun (i', s) =>
    if i' = i then s else match next s l with | some s' => s' | none => s

def mentions (s : State) (j : Nat) : Bool := s.w.prog.any fun o => o.cells.contains j

/-- a label every projection takes (fulfilment, foreign registration by a non-coroutine) -/
def allTake (d : DState) (l : Label) (j : Nat) : Option (DState × String) :=
  let rule := match d.comps with | s :: _ => ruleOf s l | [] => "none"
  let r := d.comps.mapM fun s => match next s l with
    | some s' => some s'
    | none => if mentions s j then none else some s
  r.map fun cs => ({ d with comps := cs }, rule)

def parseCtx (s : String) : Option Ctx :=
  if s = "inl" then some .inl
  else match pidOf s with
    | some j => some (.cell j)
    | none => (eidOf s).map .exec

def kv (ts : List String) (key : String) : Option String := hdrGet ts key

def parseGot (s : String) : Option (Option (Option Res)) :=
  if s = "-" then some none
  else if s = "unset" then some (some none)
  else (parseRes s).map fun r => some (some r)

def joinRules (rs : List String) : String := "+".intercalate rs

def stepD (d : DState) (ts : List String) : Option (Option (DState × String)) :=
  let own (i : Nat) (f : State → Option (State × List String)) (env : Option Label := none) : Option (Option (DState × String)) :=
    match d.comps[i]? with
    | none => some none
    | some s => match f s with
        | none => some none
        | some (s', rs) =>
            let d1 : DState := match env with
              | some l => { d with comps := others d i l }
              | none => d
            some (some ({ d1 with comps := setAt d1.comps i s' }, joinRules rs))
  match ts with
  -- ---- atomic operations on an awaited word
  | [t, "A", obj, "xchg", _, "result", "->", _] =>
      match widOf obj, pidOf t with
      | some j, some _ => some (allTake d (.pXchg j) j)
      | some _, none => some none         -- only the producer of a cell exchanges its word (a cancelling ~Task would: D13)
      | none, _ => none
  | [t, "A", obj, "load", _, "-", "->", x] =>
      match widOf obj, cidOf t with
      | some j, some i =>
          own i fun s =>
            let cls := obsOfName x
            match s.pc, s.todo with
            | .rdy, op :: _ => if op.cells[0]? = some j ∧ cls = (s.word j).obs then apSeq s [.rdLoad cls] else none
            | .reg p, op :: _ => if op.cells[p]? = some j ∧ cls = (s.word j).obs then apSeq s [.regLoad p cls] else none
            -- the FIBER backend realises a spurious failure of compare_exchange_weak as `expected = load(failure order)`
            | .cas p, op :: _ =>
                if op.cells[p]? = some j ∧ cls = (s.word j).obs ∧ (s.w.cell j).shared then
                  (if cls = .result then apSeq s [.cas p .fail] else apSeq s [.cas p .retry])
                else none
            | _, _ => some (s, ["-"])      -- a check of the harness between two co_awaits (Ready(), Get())
      | some _, none => none              -- loads by the subscriber / the harness' clean-up
      | none, some i =>
          match cntOf obj with
          | some c => if c = i then own i fun s => if x.toNat? = some s.cnt then apSeq s [.mload s.cnt] else none else some none
          | none => none
      | none, none => none
  | [t, "A", obj, op, _, arg, "->", res] =>
      match widOf obj with
      | some j =>
          if op = "cas_strong" ∨ op = "cas_weak" then
            match cidOf t with
            | some i =>
                match d.comps[i]? with
                | some s =>
                    (match s.pc with
                     | .cas p =>
                        if res = "ok" then own i (fun s => apSeq s [.cas p .ok]) (env := some (.envPush j))
                        else if res = "fail:result" then own i fun s => apSeq s [.cas p .fail]
                        else if (s.w.cell j).shared then own i fun s => apSeq s [.cas p .retry]
                        else own i fun s => apSeq s [.cas p .fail]
                     | _ => some none)
                | none => some none
            | none =>
                -- somebody who is not a coroutine (a subscriber, the harness dropping a future)
                if res = "ok" then some (allTake d (.envPush j) j) else none
          else if op = "store" then
            match cidOf t with
            | some i => own i fun s => apSeq s [.tstore]
            | none => none
          else some none
      | none =>
          match cntOf obj with
          | some c =>
              if op = "fsub" then
                match d.comps[c]? with
                | none => some none
                | some s =>
                    let old := res.toNat?
                    if cidOf t = some c then
                      match s.pc, s.todo with
                      | .msub, o :: _ =>
                          if old = some s.cnt ∧ arg.toNat? = some (o.cells.length - (s.st.count CbSt.pending + s.st.count CbSt.fired))
                          then own c fun s => apSeq s [.msub] else some none
                      | .msusp, _ => if old = some s.cnt ∧ arg = "1" then own c fun s => apSeq s [.msuspend] else some none
                      | _, _ => some none
                    else
                      match pidOf t with
                      | some j =>
                          (match s.word j with
                           | .result (p :: _) => if old = some s.cnt ∧ arg = "1" then own c fun s => apSeq s [.fire j p] else some none
                           | _ => some none)
                      | none => some none
              else some none
          | none => none
  -- ---- events
  | [t, "E", "await", k, kind] =>
      match cidOf t with
      | some i => own i fun s => if k.toNat? = some s.k ∧ kind = curKind s then apSeq s [.start] else none
      | none => some none
  | [t, "E", "ready", _, b] =>
      match cidOf t with
      | some i =>
          match d.comps[i]? with
          | some s =>
              (match s.pc with
               | .rdyL _ => own i fun s => apSeq s [.ready (b = "1")]
               | .mrd _ => own i fun s => apSeq s [.ready (b = "1")]
               | _ => if b = "0" then none else some none)    -- awaiters whose await_ready is the constant false
          | none => some none
      | none => some none
  | [_, "E", "submit", c, e] =>
      match cidOf c, eidOf e with
      | some i, some k =>
          own i fun s => apSeq s [.submit k]
      | none, some _ => none       -- a producer coroutine of the harness (not under test)
      | _, _ => some none
  | [_, "E", "fire", c, j] =>
      match cidOf c, j.toNat? with
      | some i, some j =>
          own i fun s => match s.word j with
            | .result (p :: _) => apSeq s [.fire j p]
            | _ => none
      | _, _ => some none
  | [_, "E", "call", c] =>
      match cidOf c with
      | some i => own i fun s => apSeq s [.exCall]
      | none => none
  | [_, "E", "drop", c] =>
      match cidOf c with
      | some i => own i fun s => apSeq s [.exDrop]
      | none => none
  | t :: "E" :: "resume" :: k :: rest =>
      match cidOf t, (kv rest "on").bind parseCtx, (kv rest "got").bind parseGot, kv rest "done", (kv rest "ex").bind (·.toNat?) with
      | some i, some ctx, some got, some done, some ex =>
          match d.comps[i]? with
          | none => some none
          | some s0 =>
              let r := (if s0.pc = .wake ctx then some (s0, ([] : List String)) else none).bind fun (s1, rs1) =>
                if k.toNat? ≠ some s1.k then none else
                -- an executor swap made by somebody else shows only in what the coroutine finds in the core
                let pre : Option (State × List String) := match ctx with
                  | .cell j => if (s1.cells j).cexec = ex then some (s1, []) else apSeq s1 [.envSwap j ex]
                  | _ => some (s1, [])
                pre.bind fun (s2, rs2) =>
                  (apSeq s2 [.resume got (done = "1")]).bind fun (s3, rs3) =>
                    if s3.exec = ex then some (s2.exec, s3, rs1 ++ rs2 ++ rs3) else none
              match r with
              | none => some none
              | some (_, s3, rs) => some (some ({ d with comps := setAt d.comps i s3 }, joinRules rs))
      | _, _, _, _, _ => some none
  | [t, "E", "tdtor", j] =>
      match cidOf t, j.toNat? with
      | some i, some j => own i fun s => apSeq s [.tdtor j]
      | _, _ => some none
  | [t, "E", "current", k, e] =>
      match cidOf t, eidOf e with
      | some i, some x => own i fun s => if k.toNat? = some s.k then apSeq s [.current x] else none
      | _, _ => some none
  | [_, "E", "ret", c] =>
      match cidOf c with
      | some i => own i fun s => apSeq s [.ret]
      | none => some none
  | [_, "E", "ldtor", c] =>
      match cidOf c with
      | some i => own i fun s => apSeq s [.ldtor]
      | none => some none
  | [_, "E", "result", c, r] =>
      match cidOf c, parseRes r with
      | some i, some r => own i fun s => apSeq s [.publish r]
      | _, _ => some none
  | [_, "E", "fdtor", c] =>
      match cidOf c with
      | some i => own i fun s => apSeq s [.fdtor]
      | none => some none
  | _ :: "E" :: _ => some none
  | _ => none

/-- every scenario of the harness fulfils all its cells: every coroutine has finished and its frame is gone -/
def finalD (d : DState) : Option String :=
  (((List.range d.comps.length).zip d.comps).findSome? fun (i, s) =>
    if s.pc ≠ .gone then some s!"c{i} not finished (pc={reprStr s.pc})" else none)

def model : TraceModel :=
  { σ := DState, init := initD, step := stepD, final := finalD, showState := showD }

end Yaclib.Driver.CoroD
