/- trace validator for the C07 model (Model/Strand.lean) -/
import YaclibModel.Model.Strand
import Driver.Trace

namespace Yaclib.Driver.StrandD
open Yaclib.Strand Yaclib.Driver

/-- driver state: the model state + which activations each implementation thread is inside of (innermost first;
    an inline underlying executor runs `Strand::Call` inside `Strand::Submit`) -/
structure DState where
  s : State
  stacks : List (String × List Nat)

def parseJob (name : String) : Option JobId :=
  if name.startsWith "j" then
    match ((name.drop 1).toString.splitOn "_") with
    | [a, b] => do let i ← a.toNat?; let k ← b.toNat?; pure ⟨i, k⟩
    | _ => none
  else none

def parsePtr (name : String) : Option Ptr :=
  if name = "mark" then some .mark
  else if name = "null" then some .null
  else (parseJob name).map .job

def showJob (j : JobId) : String := s!"j{j.sub}_{j.idx}"

def showPtr : Ptr → String
  | .mark => "mark" | .null => "null" | .job j => showJob j

def showWord : Word → String
  | .mark => "mark"
  | .list js => "[" ++ ",".intercalate (js.map showJob) ++ "]"

def showAPc : APc → String
  | .none => "none" | .queued => "queued" | .run rem => "run[" ++ ",".intercalate (rem.map showJob) ++ "]"
  | .busy j rem => "busy " ++ showJob j ++ " [" ++ ",".intercalate (rem.map showJob) ++ "]"
  | .cas => "cas" | .resub => "resub" | .drain rem => "drain[" ++ ",".intercalate (rem.map showJob) ++ "]"
  | .crashed => "CRASHED" | .done => "done"

def showSPc : SPc → String
  | .idle => "idle" | .cas e => "cas(" ++ showPtr e ++ ")" | .sched => "sched"

def showD (d : DState) : String :=
  let s := d.s
  let subs := (List.range s.w.jobs.length).map fun i => s!"s{i}:{showSPc (s.spc i)}@{s.sidx i}/{jobsOf s.w i}"
  let acts := (List.range s.nacts).map fun a => s!"a{a}:{showAPc (s.acts a)}"
  let st := d.stacks.map fun (t, l) => s!"{t}:{l}"
  s!"word={showWord s.word} {" ".intercalate subs} {" ".intercalate acts} stacks={" ".intercalate st} " ++
  s!"pushed=[{",".intercalate (s.pushOrder.map showJob)}] executed=[{",".intercalate (s.executed.map showJob)}] " ++
  s!"dropped=[{",".intercalate (s.dropped.map showJob)}] running={s.running}"

def initS (hdr : List String) : Option DState := do
  let js ← hdrGet hdr "jobs"
  let w ← (js.splitOn ",").mapM (fun x => x.toNat?)
  pure { s := init { jobs := w }, stacks := [] }

def stackOf (d : DState) (t : String) : List Nat :=
  match d.stacks.find? (fun p => p.1 = t) with
  | some p => p.2
  | none => []

def setStack (d : DState) (t : String) (l : List Nat) : DState :=
  { d with stacks := (t, l) :: d.stacks.filter (fun p => p.1 ≠ t) }

def terminal : APc → Bool
  | .done | .crashed | .none => true
  | _ => false

/-- the activation thread `t` is currently inside of -/
def topAct (d : DState) (t : String) : Option Nat := (stackOf d t).head?

def subOf (d : DState) (t : String) : Option Nat :=
  if t.startsWith "s" then
    match (t.drop 1).toString.toNat? with
    | some i => if i < d.s.w.jobs.length then some i else none
    | none => none
  else none

def firstQueued (s : State) : Option Nat := (List.range s.nacts).find? (fun a => s.acts a = .queued)

def ruleOf (s : State) (l : Label) : String :=
  match l with
  | .sLoad _ v =>
      (match v with | .mark => "sLoad.mark" | .null => "sLoad.null" | .job _ => "sLoad.job") ++
      (if v = s.word.head then "" else ".stale")
  | .sCasOk i =>
      (match s.spc i with
       | .cas .mark => "sCasOk.mark" | .cas .null => "sCasOk.null" | .cas (.job _) => "sCasOk.job" | _ => "sCasOk")
  | .sCasFail _ v => if v = s.word.head then "sCasFail" else "sCasFail.stale"
  | .sCasSpur _ => "sCasSpur"
  | .sSched _ => "sSched"
  | .aCall _ => "aCall"
  | .aBegin _ _ => "aBegin"
  | .aEnd a _ => (match s.acts a with | .busy _ [] => "aEnd.last" | _ => "aEnd.more")
  | .aLoad _ b => if b then (if s.word = .list [] then "aLoad.null" else "aLoad.null.stale") else "aLoad.busy"
  | .aCasOk _ => "aCasOk"
  | .aCasFail _ => "aCasFail"
  | .aResub _ => "aResub"
  | .aDropX _ => "aDropX"
  | .aDrop a _ => (match s.acts a with | .drain [_] => "aDrop.last" | _ => "aDrop.more")

/-- what a submitter's reload (failed or spuriously failed CAS) means -/
def reloadLabel (s : State) (i : Nat) (v : Ptr) : Option Label :=
  match s.spc i with
  | .cas exp => some (if v = exp then .sCasSpur i else .sCasFail i v)
  | _ => none

/-- `some none`: the line is an operation of the strand but no thread of the model can do it now -/
def toLabel (d : DState) (ts : List String) : Option (Option (Label × Option Nat)) :=
  -- result: label + activation started by it (to be pushed on the thread's stack)
  let s := d.s
  match ts with
  | [t, "A", "jobs", "load", "rlx", "-", "->", x] =>
      match topAct d t with
      | some a => some (if x = "null" then some (.aLoad a true, none) else
                        match parsePtr x with | some (.job _) => some (.aLoad a false, none) | _ => none)
      | none =>
          match subOf d t, parsePtr x with
          | some i, some v =>
              (match s.spc i with
               | .idle => some (some (.sLoad i v, none))
               | .cas _ => some ((reloadLabel s i v).map (fun l => (l, none)))
               | _ => some none)
          | _, _ => some none
  | [t, "A", "jobs", "cas_weak", "acq_rel/rlx", en, "->", res] =>
      match topAct d t, subOf d t with
      | none, some i =>
          match s.spc i, en.splitOn ">" with
          | .cas exp, [e, n] =>
              if showPtr exp = e ∧ n = showJob ⟨i, s.sidx i⟩ then
                if res = "ok" then some (some (.sCasOk i, none))
                else if res.startsWith "fail:" then
                  some (((parsePtr (res.drop 5).toString).bind (reloadLabel s i)).map (fun l => (l, none)))
                else some none
              else some none
          | _, _ => some none
      | _, _ => some none
  | [_, "A", "jobs", "xchg", "acq", "null", "->", old] =>
      if showPtr s.word.head = old then some ((firstQueued s).map (fun a => (.aCall a, some a))) else some none
  | [_, "A", "jobs", "xchg", "acq_rel", "mark", "->", old] =>
      if showPtr s.word.head = old then some ((firstQueued s).map (fun a => (.aDropX a, some a))) else some none
  | [t, "A", "jobs", "cas_strong", "rel/rlx", "null>mark", "->", res] =>
      match topAct d t with
      | some a => if res = "ok" then some (some (.aCasOk a, none))
                  else if res.startsWith "fail:" then some (some (.aCasFail a, none)) else some none
      | none => some none
  | _ :: "A" :: "jobs" :: _ => some none     -- any other operation (or memory order) on the word is not in the model
  | _ :: "A" :: _ => none
  | _ :: "M" :: _ => none
  | [t, "E", "sub"] =>
      match topAct d t with
      | some a => some (some (.aResub a, none))
      | none => some ((subOf d t).map (fun i => (.sSched i, none)))
  | [t, "E", "call", j] => some (do let a ← topAct d t; let j ← parseJob j; pure (.aBegin a j, none))
  | [t, "E", "ret", j] => some (do let a ← topAct d t; let j ← parseJob j; pure (.aEnd a j, none))
  | [t, "E", "drop", j] => some (do let a ← topAct d t; let j ← parseJob j; pure (.aDrop a j, none))
  | _ :: "E" :: _ => some none
  | _ => none

def stepS (d : DState) (ts : List String) : Option (Option (DState × String)) :=
  match toLabel d ts with
  | none => none
  | some none => some none
  | some (some (l, started)) =>
      match next d.s l with
      | none => some none
      | some s' =>
          let t := ts.head!
          let st := match started with | some a => a :: stackOf d t | none => stackOf d t
          -- leave the activations that have returned
          let st := st.dropWhile (fun a => terminal (s'.acts a))
          some (some (setStack { d with s := s' } t st, ruleOf d.s l))

/-- at the end of a run (the harness joins every fiber) everything must have finished -/
def finalS (d : DState) : Option String :=
  let s := d.s
  if (List.range s.w.jobs.length).any (fun i => s.spc i ≠ .idle ∨ s.sidx i ≠ jobsOf s.w i) then some "a submitter has not finished"
  else if (List.range s.nacts).any (fun a => !terminal (s.acts a)) then some "an activation has not finished"
  else if s.word ≠ .mark then some "the word is not the idle marker"
  else if d.stacks.any (fun p => p.2 ≠ []) then some "a thread is still inside an activation"
  else none

def model : TraceModel :=
  { σ := DState, init := initS, step := stepS, final := finalS, showState := showD }

end Yaclib.Driver.StrandD
