/- trace validator for the C18 models (Model/FiberSync*.lean): Mx (mutex, timed_mutex, condition_variable),
   Rm (recursive(_timed)_mutex), Sm (shared(_timed)_mutex), Th (thread::join, sleep, thread-local pointers).

   header:  run fibersync prim=<mutex|timed|cv|rec|rect|shared|sharedt|thread|tls> f0=<ops> f1=<ops> …
   lines:   see harness/c18.cpp; every op is bracketed by `f E call <op> [arg] @T` / `f E ret <op> [res] @T`, the library
            hooks give `f M <obj> <op> <res> @T [idx=i] [j=J]`.  Several trace lines of one atomic segment are folded
            into one model label with the help of a little per-fiber scratch memory (the duration of the pending timed
            call, the waiter a pending unlock's NotifyOne picked, the coin of SharedMutex::unlock).                       -/
import YaclibModel.Model.FiberSync
import YaclibModel.Model.FiberSyncRec
import YaclibModel.Model.FiberSyncShared
import YaclibModel.Model.FiberSyncThread
import Driver.Trace

namespace Yaclib.Driver.FiberSyncD
open Yaclib.FiberSync Yaclib.Driver

inductive MState where
  | mx (s : Mx.State) | rm (s : Rm.State) | sm (s : Sm.State) | th (s : Th.State)

structure Scratch where
  arg : Fid → Nat := fun _ => 0                   -- duration of the pending timed call
  pendW : Fid → Option Fid := fun _ => none       -- waiter picked by the NotifyOne of the pending unlock
  shared : Fid → Bool := fun _ => false           -- the pending acquisition is lock_shared
  lastTmo : Fid → Bool := fun _ => false          -- the cv wait that just re-locked had timed out
  untilAbs : Fid → Option Nat := fun _ => none    -- absolute deadline of the pending `cv.wait_until`
  joining : Fid → Option Fid := fun _ => none     -- the harness uses `join` as a barrier inside a lock scenario
  deadlock : Bool := false
  crashed : Bool := false

structure D where
  m : MState
  nf : Nat
  x : Scratch := {}

def parseFid (t : String) : Option Fid :=
  if t.startsWith "f" then (t.drop 1).toString.toNat? else none

def kv (ts : List String) (key : String) : Option Nat :=
  ts.findSome? fun t => if t.startsWith key then (t.drop key.length).toString.toNat? else none

def atT (ts : List String) : Nat := (kv ts "@").getD 0

/-- `tlsinit=-1,-1,7,…`: the initialisers of the thread-local variables (slot index, -1 = none) -/
def tlsInits (hdr : List String) : Nat → Option Nat :=
  match hdrGet hdr "tlsinit" with
  | none => fun _ => none
  | some t =>
      let xs := (t.splitOn ",").map fun x => if x = "-1" then none else x.toNat?
      fun v => (xs[v]?).getD none

def initD (hdr : List String) : Option D := do
  let prim ← hdrGet hdr "prim"
  let nf := (hdr.filter fun t => (parseFid ((t.splitOn "=").headD "")).isSome ∧ t.contains '=').length
  let m ← match prim with
    | "mutex" => some (MState.mx (Mx.init false nf))
    | "cv" => some (MState.mx (Mx.init false nf))
    | "timed" => some (MState.mx (Mx.init true nf))
    | "rec" => some (MState.rm (Rm.init false nf))
    | "rect" => some (MState.rm (Rm.init true nf))
    | "shared" => some (MState.sm (Sm.init false nf))
    | "sharedt" => some (MState.sm (Sm.init true nf))
    | "thread" => some (MState.th (Th.init (tlsInits hdr) nf))
    | "tls" => some (MState.th (Th.init (tlsInits hdr) nf))
    | _ => none
  pure { m := m, nf := nf }

/-- result of looking at one line: skip it, reject it, update the scratch only, or take a model step -/
inductive Act (L : Type) where
  | skip | reject | note (x : Scratch) | step (l : L) (x : Scratch) | check (ok : Bool)

def pickAt (q : List Fid) (ts : List String) (res : String) : Option Fid :=
  if res = "0" then none else (kv ts "idx=").bind fun i => q[i]?

/-! ### Mx -/

def mxRule (s : Mx.State) : Mx.Label → String
  | .lockStart _ => "mx.lockStart"
  | .lockAcq f => (match s.pc f with | .locking (.cv _) => "mx.lockAcq.relock" | _ => "mx.lockAcq")
  | .lockPark f => (match s.pc f with | .locking (.cv _) => "mx.lockPark.relock" | _ => "mx.lockPark")
  | .tryLock _ ok => if ok then "mx.tryOk" else "mx.tryFail"
  | .unlock _ w => if w.isSome then "mx.unlock.wake" else "mx.unlock.none"
  | .tlfAcq f => (match s.pc f with
      | .tlfLocking _ => "mx.tlfRecheckAcq"
      | _ => "mx.tlfFast")
  | .tlfPark _ _ d j => if d + j = 0 then "mx.tlfPark.now" else "mx.tlfPark"
  | .tlfTimeout _ _ => "mx.tlfTimeout"
  | .tlfRepark _ _ => "mx.tlfRepark"
  | .cvWait _ _ => "mx.cvWait"
  | .cvWaitFor _ _ _ d j => if d + j = 0 then "mx.cvWaitFor.now" else "mx.cvWaitFor"
  | .cvWaitUntil _ _ t req j => if req + j ≤ t then "mx.cvWaitUntil.past" else "mx.cvWaitUntil"
  | .cvTimeout _ _ => "mx.cvTimeout"
  | .notifyOne _ w => if w.isSome then "mx.notifyOne.wake" else "mx.notifyOne.none"
  | .notifyAll _ => "mx.notifyAll"
  | .sleepStart _ _ _ => "mx.sleepStart"
  | .sleepWake _ _ => "mx.sleepWake"
  | .finish _ => "mx.finish"

def mxAct (s : Mx.State) (x : Scratch) (ts : List String) : Act Mx.Label :=
  match ts with
  | fs :: "M" :: obj :: op :: res :: _ =>
      match parseFid fs with
      | none => .reject
      | some f =>
        if obj = "m" then
          match op with
          | "lock" =>
              let x' := match s.pc f with | .locking (.cv b) => { x with lastTmo := upd x.lastTmo f b } | _ => x
              .step (.lockAcq f) x'
          | "park" => .step (.lockPark f) x
          | "try_lock" => .step (.tryLock f (res = "1")) x
          | "unlock" => .note { x with pendW := upd x.pendW f none }
          | "notify_one" => .note { x with pendW := upd x.pendW f (pickAt s.mq ts res) }
          | "park_timed" =>
              (match s.pc f with
               | .tlfLocking _ => .step (.tlfRepark f ((kv ts "j=").getD 0)) x
               | _ => .step (.tlfPark f (atT ts) (x.arg f) ((kv ts "j=").getD 0)) x)
          | "wake" => if res = "1" then .step (.tlfTimeout f (atT ts)) x else .skip
          | _ => .reject
        else if obj = "cq" then
          match op with
          | "park" => .step (.cvWait f (x.pendW f)) x
          | "park_timed" =>
              (match x.untilAbs f with
               | some abs => .step (.cvWaitUntil f (x.pendW f) (atT ts) abs ((kv ts "j=").getD 0)) x
               | none => .step (.cvWaitFor f (x.pendW f) (atT ts) (x.arg f) ((kv ts "j=").getD 0)) x)
          | "wake" => if res = "1" then .step (.cvTimeout f (atT ts)) x else .skip
          | "notify_one" => .step (.notifyOne f (pickAt s.cq ts res)) x
          | "notify_all" => .step (.notifyAll f) x
          | _ => .reject
        else .reject
  | fs :: "E" :: rest =>
      match parseFid fs with
      | none => .skip
      | some f =>
        match rest with
        | "call" :: "lock" :: _ => .step (.lockStart f) x
        | "call" :: "try_lock_for" :: d :: _ => .note { x with arg := upd x.arg f (d.toNat?.getD 0) }
        | "call" :: "wait_for" :: d :: _ => .note { x with arg := upd x.arg f (d.toNat?.getD 0), untilAbs := upd x.untilAbs f none }
        | "call" :: "wait_until" :: d :: _ =>
            .note { x with arg := upd x.arg f (d.toNat?.getD 0), untilAbs := upd x.untilAbs f (some (atT ts + d.toNat?.getD 0)) }
        | "ret" :: "wait_pred" :: _ => .check (s.pc f = .idle ∧ f ∈ s.holders)
        | "call" :: "sleep" :: d :: _ => .step (.sleepStart f (atT ts) (d.toNat?.getD 0)) x
        | "ret" :: "sleep" :: _ => .step (.sleepWake f (atT ts)) x
        | "ret" :: "unlock" :: _ => .step (.unlock f (x.pendW f)) x
        | "ret" :: "try_lock_for" :: "1" :: _ => .step (.tlfAcq f) x
        | "ret" :: "try_lock_for" :: "0" :: _ => .check (s.pc f = .idle)
        | "ret" :: "wait" :: r :: _ => .check (s.pc f = .idle ∧ r = "notified" ∧ x.lastTmo f = false)
        | "ret" :: "wait_for" :: r :: _ => .check (s.pc f = .idle ∧ (r = "timeout") = (x.lastTmo f = true))
        | "ret" :: "lock" :: _ => .check (s.pc f = .idle ∧ f ∈ s.holders)
        | "ret" :: "try_lock" :: r :: _ => .check (s.pc f = .idle ∧ (r = "0" ∨ f ∈ s.holders))
        | "done" :: _ => .step (.finish f) x
        | _ => .skip
  | _ => .skip

/-! ### Rm -/

def rmRule (s : Rm.State) : Rm.Label → String
  | .lockAcq f => (match s.pc f with
      | .locking => "rm.lockRecheckAcq"
      | _ => if s.count = 0 then "rm.lockFast" else "rm.lockFast.again")
  | .lockPark f => (match s.pc f with | .locking => "rm.lockRepark" | _ => "rm.lockPark")
  | .tryLock _ ok => if ok then (if s.count = 0 then "rm.tryOk" else "rm.tryOk.again") else "rm.tryFail"
  | .unlock _ w => if s.count = 1 then (if w.isSome then "rm.unlock.last.wake" else "rm.unlock.last") else "rm.unlock.inner"
  | .tlfAcq f => (match s.pc f with | .tLocking _ => "rm.tlfRecheckAcq" | _ => "rm.tlfFast")
  | .tlfRepark _ _ => "rm.tlfRepark"
  | .tlfPark _ _ _ _ => "rm.tlfPark"
  | .tlfTimeout _ _ => "rm.tlfTimeout"
  | .sleepStart _ _ _ => "rm.sleepStart"
  | .sleepWake _ _ => "rm.sleepWake"
  | .finish _ => "rm.finish"

def rmAct (s : Rm.State) (x : Scratch) (ts : List String) : Act Rm.Label :=
  match ts with
  | fs :: "M" :: obj :: op :: res :: _ =>
      match parseFid fs with
      | none => .reject
      | some f =>
        if obj = "rq" then
          match op with
          | "park" => .step (.lockPark f) x
          | "park_timed" =>
              (match s.pc f with
               | .tLocking _ => .step (.tlfRepark f ((kv ts "j=").getD 0)) x
               | _ => .step (.tlfPark f (atT ts) (x.arg f) ((kv ts "j=").getD 0)) x)
          | "wake" => if res = "1" then .step (.tlfTimeout f (atT ts)) x else .skip
          | "notify_one" => .note { x with pendW := upd x.pendW f (pickAt s.rq ts res) }
          | _ => .reject
        else .reject
  | fs :: "E" :: rest =>
      match parseFid fs with
      | none => .skip
      | some f =>
        match rest with
        | "call" :: "try_lock_for" :: d :: _ => .note { x with arg := upd x.arg f (d.toNat?.getD 0) }
        | "call" :: "sleep" :: d :: _ => .step (.sleepStart f (atT ts) (d.toNat?.getD 0)) x
        | "ret" :: "sleep" :: _ => .step (.sleepWake f (atT ts)) x
        | "ret" :: "lock" :: _ => .step (.lockAcq f) x
        | "ret" :: "try_lock" :: r :: _ => .step (.tryLock f (r = "1")) x
        | "call" :: "unlock" :: _ => .note { x with pendW := upd x.pendW f none }
        | "ret" :: "unlock" :: _ => .step (.unlock f (x.pendW f)) x
        | "ret" :: "try_lock_for" :: "1" :: _ => .step (.tlfAcq f) x
        | "ret" :: "try_lock_for" :: "0" :: _ => .check (s.pc f = .idle)
        | "done" :: _ => .step (.finish f) x
        | _ => .skip
  | _ => .skip

/-! ### Sm -/

def smRule (s : Sm.State) : Sm.Label → String
  | .xAcq f => (match s.pc f with
      | .xLocking => "sm.xRecheckAcq"
      | _ => "sm.xFast")
  | .xPark f => (match s.pc f with | .xLocking => "sm.xRepark" | _ => "sm.xPark")
  | .tryX _ ok => if ok then "sm.tryXOk" else "sm.tryXFail"
  | .unlock _ w =>
      (if s.sq.isEmpty then "sm.unlock" else "sm.unlock.readers") ++ (if w.isSome then ".writer" else "")
  | .sAcq f => (match s.pc f with
      | .sLocking => "sm.sRecheckAcq"
      | _ => "sm.sFast")
  | .sPark f => (match s.pc f with | .sLocking => "sm.sRepark" | _ => "sm.sPark")
  | .tryS _ ok => if ok then "sm.trySOk" else "sm.trySFail"
  | .unlockS _ w => if s.cnt - 1 = 0 then (if w.isSome then "sm.unlockS.wake" else "sm.unlockS.none") else "sm.unlockS.inner"
  | .txAcq f => (match s.pc f with
      | .txLocking _ => "sm.txRecheckAcq"
      | _ => "sm.txFast")
  | .txRepark _ _ => "sm.txRepark"
  | .tsRepark _ _ => "sm.tsRepark"
  | .txPark _ _ _ _ => "sm.txPark"
  | .txTimeout _ _ => "sm.txTimeout"
  | .tsAcq f => (match s.pc f with
      | .tsLocking _ => "sm.tsRecheckAcq"
      | _ => "sm.tsFast")
  | .tsPark _ _ _ _ => "sm.tsPark"
  | .tsTimeout _ _ => "sm.tsTimeout"
  | .sleepStart _ _ _ => "sm.sleepStart"
  | .sleepWake _ _ => "sm.sleepWake"
  | .finish _ => "sm.finish"

def smAct (s : Sm.State) (x : Scratch) (ts : List String) : Act Sm.Label :=
  match ts with
  | fs :: "M" :: obj :: op :: res :: _ =>
      match parseFid fs with
      | none => .reject
      | some f =>
        if obj = "eq" then
          match op with
          | "park" => if x.shared f then .reject else .step (.xPark f) x   -- readers never wait on the exclusive queue
          | "park_timed" =>
              (match s.pc f with
               | .txLocking _ => .step (.txRepark f ((kv ts "j=").getD 0)) x
               | _ => .step (.txPark f (atT ts) (x.arg f) ((kv ts "j=").getD 0)) x)
          | "wake" => if res = "1" then .step (.txTimeout f (atT ts)) x else .skip
          | "notify_one" => .note { x with pendW := upd x.pendW f (pickAt s.eq ts res) }
          | _ => .reject
        else if obj = "sq" then
          match op with
          | "park" => if x.shared f then .step (.sPark f) x else .reject
          | "park_timed" =>
              (match s.pc f with
               | .tsLocking _ => .step (.tsRepark f ((kv ts "j=").getD 0)) x
               | _ => .step (.tsPark f (atT ts) (x.arg f) ((kv ts "j=").getD 0)) x)
          | "wake" => if res = "1" then .step (.tsTimeout f (atT ts)) x else .skip
          | "notify_all" => .skip
          | _ => .reject
        else .reject
  | fs :: "E" :: rest =>
      match parseFid fs with
      | none => .skip
      | some f =>
        match rest with
        | "call" :: "lock" :: _ => .note { x with shared := upd x.shared f false }
        | "call" :: "lock_shared" :: _ => .note { x with shared := upd x.shared f true }
        | "call" :: "join" :: k :: _ => .note { x with joining := upd x.joining f k.toNat? }
        | "ret" :: "join" :: _ => .note { x with joining := upd x.joining f none }
        | "call" :: "unlock" :: _ => .note { x with pendW := upd x.pendW f none }
        | "call" :: "unlock_shared" :: _ => .note { x with pendW := upd x.pendW f none }
        | "coin" :: _ => .reject   -- `SharedMutex::unlock` no longer draws a random number
        | "call" :: "try_lock_for" :: d :: _ => .note { x with arg := upd x.arg f (d.toNat?.getD 0) }
        | "call" :: "try_lock_shared_for" :: d :: _ => .note { x with arg := upd x.arg f (d.toNat?.getD 0) }
        | "call" :: "sleep" :: d :: _ => .step (.sleepStart f (atT ts) (d.toNat?.getD 0)) x
        | "ret" :: "sleep" :: _ => .step (.sleepWake f (atT ts)) x
        | "ret" :: "lock" :: _ => .step (.xAcq f) x
        | "ret" :: "lock_shared" :: _ => .step (.sAcq f) x
        | "ret" :: "try_lock" :: r :: _ => .step (.tryX f (r = "1")) x
        | "ret" :: "try_lock_shared" :: r :: _ => .step (.tryS f (r = "1")) x
        | "ret" :: "unlock" :: _ => .step (.unlock f (x.pendW f)) x
        | "ret" :: "unlock_shared" :: _ => .step (.unlockS f (x.pendW f)) x
        | "ret" :: "try_lock_for" :: "1" :: _ => .step (.txAcq f) x
        | "ret" :: "try_lock_for" :: "0" :: _ => .check (s.pc f = .idle)
        | "ret" :: "try_lock_shared_for" :: "1" :: _ => .step (.tsAcq f) x
        | "ret" :: "try_lock_shared_for" :: "0" :: _ => .check (s.pc f = .idle)
        | "done" :: _ => .step (.finish f) x
        | _ => .skip
  | _ => .skip

/-! ### Th -/

def thRule (s : Th.State) : Th.Label → String
  | .joinStart _ k => if s.fin k then "th.joinStart.finished" else "th.joinStart.running"
  | .joinRet _ _ => "th.joinRet"
  | .work _ => "th.work"
  | .finish _ => "th.finish"
  | .set _ v x =>
      if x.isSome then "th.set" else (if (s.dflt v).isSome then "th.set.null.initialised" else "th.set.null")
  | .get f v _ => (match s.slot v f with
      | some (some _) => "th.get.own"
      | some none => if (s.dflt v).isSome then "th.get.own.null.initialised" else "th.get.own.null"
      | none => if (s.dflt v).isSome then "th.get.initialiser" else "th.get.default")
  | .copy f _ src => if (Th.read s src f).isSome then "th.copy" else "th.copy.null"
  | .sleepStart _ _ _ => "th.sleepStart"
  | .sleepWake _ _ => "th.sleepWake"

def parseSlot (v : String) : Option Nat := if v = "-1" then none else v.toNat?

def thAct (_s : Th.State) (x : Scratch) (ts : List String) : Act Th.Label :=
  match ts with
  | _ :: "M" :: _ => .reject
  | fs :: "E" :: rest =>
      match parseFid fs with
      | none => .skip
      | some f =>
        match rest with
        | "call" :: "join" :: k :: _ => .step (.joinStart f (k.toNat?.getD 0)) x
        | "ret" :: "join" :: k :: _ => .step (.joinRet f (k.toNat?.getD 0)) x
        | "work" :: _ => .step (.work f) x
        | "done" :: _ => .step (.finish f) x
        | "call" :: "tls_set" :: v :: p :: _ => .step (.set f (v.toNat?.getD 0) (parseSlot p)) x
        | "ret" :: "tls_get" :: v :: p :: _ => .step (.get f (v.toNat?.getD 0) (parseSlot p)) x
        | "call" :: "tls_copy" :: d :: sr :: _ => .step (.copy f (d.toNat?.getD 0) (sr.toNat?.getD 0)) x
        | "call" :: "sleep" :: d :: _ => .step (.sleepStart f (atT ts) (d.toNat?.getD 0)) x
        | "ret" :: "sleep" :: _ => .step (.sleepWake f (atT ts)) x
        | _ => .skip
  | _ => .skip

/-! ### glue -/

def stepD (d : D) (ts : List String) : Option (Option (D × String)) :=
  match ts with
  | ["-", "E", "deadlock"] => some (some ({ d with x := { d.x with deadlock := true } }, "_deadlock"))
  | ["-", "E", "crash"] => some (some ({ d with x := { d.x with crashed := true } }, "_crash"))
  | _ =>
  match d.m with
  | .mx s =>
      match mxAct s d.x ts with
      | .skip => none
      | .reject => some none
      | .note x => some (some ({ d with x := x }, "_note"))
      | .check ok => if ok then some (some (d, "_check")) else some none
      | .step l x => match Mx.next s l with
          | none => some none
          | some s' => some (some ({ d with m := .mx s', x := x }, mxRule s l))
  | .rm s =>
      match rmAct s d.x ts with
      | .skip => none
      | .reject => some none
      | .note x => some (some ({ d with x := x }, "_note"))
      | .check ok => if ok then some (some (d, "_check")) else some none
      | .step l x => match Rm.next s l with
          | none => some none
          | some s' => some (some ({ d with m := .rm s', x := x }, rmRule s l))
  | .sm s =>
      match smAct s d.x ts with
      | .skip => none
      | .reject => some none
      | .note x => some (some ({ d with x := x }, "_note"))
      | .check ok => if ok then some (some (d, "_check")) else some none
      | .step l x => match Sm.next s l with
          | none => some none
          | some s' => some (some ({ d with m := .sm s', x := x }, smRule s l))
  | .th s =>
      match thAct s d.x ts with
      | .skip => none
      | .reject => some none
      | .note x => some (some ({ d with x := x }, "_note"))
      | .check ok => if ok then some (some (d, "_check")) else some none
      | .step l x => match Th.next s l with
          | none => some none
          | some s' => some (some ({ d with m := .th s', x := x }, thRule s l))

def fibers (n : Nat) : List Fid := List.range n

/-- at the end of a run: every fiber finished; of a deadlocked run: the model is stuck as well (nobody can move) -/
def finalD (d : D) : Option String :=
  if d.x.crashed then none else
  let fs := fibers d.nf
  if d.x.deadlock then
    let stuck : Bool := match d.m with
      | .mx s => fs.all fun f => match s.pc f with | .done => true | .lockParked _ => s.occupied | .cvParked => true | _ => false
      | .rm s => fs.all fun f => match s.pc f with | .done => true | .parked => s.count != 0 | _ => false
      | .sm s => fs.all fun f => match s.pc f with
          | .done => true | .xParked => s.occ | .sParked => s.occ && s.excl
          | .idle => (match d.x.joining f with | some k => s.pc k != .done | none => false)
          | _ => false
      | .th s => fs.all fun f => match s.pc f with | .done => true | .joining k => !s.fin k | _ => false
    if stuck then none else some "the implementation deadlocked but a fiber can still move in the model"
  else
    let fin : Bool := match d.m with
      | .mx s => fs.all fun f => s.pc f = .done
      | .rm s => fs.all fun f => s.pc f = .done
      | .sm s => fs.all fun f => s.pc f = .done
      | .th s => fs.all fun f => s.pc f = .done
    if fin then none else some "a fiber has not finished in the model"

def showD (d : D) : String :=
  let fs := fibers d.nf
  match d.m with
  | .mx s => s!"mx pc={reprStr (fs.map s.pc)} occupied={s.occupied} mq={s.mq} cq={s.cq} now={s.now} holders={s.holders} transit={s.transit}"
  | .rm s => s!"rm pc={reprStr (fs.map s.pc)} owner={s.owner} count={s.count} rq={s.rq} now={s.now} holders={s.holders}"
  | .sm s => s!"sm pc={reprStr (fs.map s.pc)} occ={s.occ} excl={s.excl} cnt={s.cnt} sq={s.sq} eq={s.eq} now={s.now} xh={s.xh} sh={s.sh} transit={s.transit}"
  | .th s => s!"th pc={reprStr (fs.map s.pc)} fin={fs.map s.fin} slots(var x fiber)={(List.range 6).map fun v => fs.map (s.slot v)} defaults={(List.range 6).map s.dflt} now={s.now}"

def model : TraceModel :=
  { σ := D, init := initD, step := stepD, final := finalD, showState := showD }

end Yaclib.Driver.FiberSyncD
