/- ymdriver_fibersched: the C17 decision functions (the *extracted* bodies of Extracted/FiberSched.lean, through the
   model's wrappers) evaluated on the raw engine outputs recorded by harness/c17.cpp, in the harness's line format:

     GE n=<len> ind=<i> rev=<0|1> = <front index | -1>
     POLL pick=<k> n=<len> raws=<r,…> = <picked original positions,…> used=<draws> observed=<draws>
     NI freq=<f> state=<c0> calls=<n> raws=<r,…> = <inject?:count after,…> used=<draws>
     FW freq=<f> calls=<n> raws=<r,…> = <0|1…> used=<draws>
     RN maxs=<m,…> raws=<r,…> = <GetRandNumber results,…> next=<the next five results with max 1000003> used=<draws>
     SS freq=<f> state=<s> raws=<r> = <GetInjectorState after SetInjectorState(s)> <inject?:count after one injection point>
     SCHED … (see `sched`)

   Every input line is answered by the line the model computes for the same inputs (everything right of ` = ` is
   recomputed); other lines are echoed.  The check compares the two streams verbatim. -/
import YaclibModel.Model.FiberSched

namespace Yaclib.Driver.FiberSched
open Yaclib Yaclib.Sched

/-- the engine as the stream of its recorded raw outputs -/
def streamEngine : Engine (List Nat) :=
  { seed := fun _ => [], draw := fun l => (l.tail, l.headD 0) }

def strDrop (s : String) (n : Nat) : String := String.ofList (s.toList.drop n)

def kv (toks : List String) (k : String) : Option String :=
  toks.findSome? fun t =>
    if (t.toList.take (k.length + 1)) == (k ++ "=").toList then some (strDrop t (k.length + 1)) else none

def kvNat (toks : List String) (k : String) : Option Nat := (kv toks k).bind String.toNat?

def parseRaws (s : String) : List Nat :=
  if s = "-" then [] else (s.splitOn ",").filterMap String.toNat?

def joinNat (l : List Nat) : String := if l.isEmpty then "-" else ",".intercalate (l.map toString)

def ge (toks : List String) : Option String := do
  let n ← kvNat toks "n"
  let ind ← kvNat toks "ind"
  let rev ← kvNat toks "rev"
  let r := Extracted.FiberSched.BiList.GetElement n ind (rev == 1)
  let out := match r with
    | none => "-1"
    | some i => if i < n then toString i else "-2"
  pure s!"GE n={n} ind={ind} rev={rev} = {out}"

def pollAll (cfg : Cfg) : Nat → Nat → List Nat → List Nat → List Nat → Nat × List Nat
  | 0, rc, _, _, acc => (rc, acc.reverse)
  | fuel + 1, rc, eng, l, acc =>
    let p := poll streamEngine cfg rc eng l
    match p.2.2 with
    | none => (p.1, acc.reverse)
    | some (f, rest) => pollAll cfg fuel p.1 p.2.1 rest (f :: acc)

def pollLine (toks : List String) : Option String := do
  let pick ← kvNat toks "pick"
  let n ← kvNat toks "n"
  let raws ← kv toks "raws"
  let r := pollAll { pick := pick } n 0 (parseRaws raws) (List.range n) []
  pure s!"POLL pick={pick} n={n} raws={raws} = {joinNat r.2} used={r.1} observed={r.1}"

def niAll (freq : Nat) : Nat → Nat → List Nat → Nat → List String → Nat × List String
  | 0, rc, _, _, acc => (rc, acc.reverse)
  | fuel + 1, rc, eng, count, acc =>
    let r := Extracted.FiberSched.Injector.NeedInject streamEngine.draw rc eng count false freq
    niAll freq fuel r.1 r.2.1 r.2.2.1 ((if r.2.2.2 then s!"1:{r.2.2.1}" else s!"0:{r.2.2.1}") :: acc)

def niLine (toks : List String) : Option String := do
  let freq ← kvNat toks "freq"
  let st ← kvNat toks "state"
  let calls ← kvNat toks "calls"
  let raws ← kv toks "raws"
  let r := niAll freq calls 0 (parseRaws raws) st []
  pure s!"NI freq={freq} state={st} calls={calls} raws={raws} = {",".intercalate r.2} used={r.1}"

def fwAll (freq : Nat) : Nat → Nat → List Nat → List Char → Nat × List Char
  | 0, rc, _, acc => (rc, acc.reverse)
  | fuel + 1, rc, eng, acc =>
    let r := Extracted.FiberSched.ShouldFailAtomicWeak streamEngine.draw rc eng freq
    fwAll freq fuel r.1 r.2.1 ((if r.2.2 then '1' else '0') :: acc)

def fwLine (toks : List String) : Option String := do
  let freq ← kvNat toks "freq"
  let calls ← kvNat toks "calls"
  let raws ← kv toks "raws"
  let r := fwAll freq calls 0 (parseRaws raws) []
  pure s!"FW freq={freq} calls={calls} raws={raws} = {String.ofList r.2} used={r.1}"

def rnAll : List Nat → Nat → List Nat → List Nat → Nat × List Nat × List Nat
  | [], rc, eng, acc => (rc, eng, acc.reverse)
  | m :: ms, rc, eng, acc =>
    let r := Extracted.FiberSched.GetRandNumber streamEngine.draw rc eng m
    rnAll ms r.1 r.2.1 (r.2.2 :: acc)

def rnLine (toks : List String) : Option String := do
  let maxs ← kv toks "maxs"
  let raws ← kv toks "raws"
  let r := rnAll (parseRaws maxs) 0 (parseRaws raws) []
  let n := rnAll [1000003, 1000003, 1000003, 1000003, 1000003] r.1 r.2.1 []
  pure s!"RN maxs={maxs} raws={raws} = {joinNat r.2.2} next={joinNat n.2.2} used={r.1}"

def ssLine (toks : List String) : Option String := do
  let freq ← kvNat toks "freq"
  let st ← kvNat toks "state"
  let raws ← kv toks "raws"
  let c := Extracted.FiberSched.Injector.SetState 0 st
  let got := Extracted.FiberSched.Injector.GetState c
  let r := Extracted.FiberSched.Injector.NeedInject streamEngine.draw 0 (parseRaws raws) c false freq
  pure s!"SS freq={freq} state={st} raws={raws} = {got} {if r.2.2.2 then 1 else 0}:{r.2.2.1}"

/-! scheduler-level scripts: the whole transducer `Sched.step` against the real scheduler.

    SCHED freq=<f> pick=<k> afail=<a> sleep=<s> tick=<t> state=<c0> raws=<r,…> script=<req;req;…> = <out;out;…> used=<n>
    requests: I (InjectFault) | W (ShouldFailAtomicWeak) | Y (yield) | S<f> (spawn fiber f) | L<d> (sleep_for d) |
              P<q> (park on queue q) | T<q>.<d> (timed park) | N<q> (notify_one) | A<q> (notify_all) | U (suspend) |
              K<f> (wake f) | X (exit)
    outputs:  u | f0 | f1 | r<f> | r<f>,t0 | r<f>,t1 | idle | ub   (one flat comma separated list) -/

def parseReq (s : String) : Option (Req Nat Nat) :=
  let rest := strDrop s 1
  match s.toList.headD ' ' with
  | 'I' => some .inject
  | 'W' => some .failWeak
  | 'Y' => some .yield
  | 'S' => rest.toNat?.map .spawn
  | 'L' => rest.toNat?.map .sleepFor
  | 'P' => rest.toNat?.map .park
  | 'T' => match rest.splitOn "." with
    | [q, d] => do let q ← q.toNat?; let d ← d.toNat?; pure (.parkFor q d)
    | _ => none
  | 'N' => rest.toNat?.map .notifyOne
  | 'A' => rest.toNat?.map .notifyAll
  | 'U' => some .suspend
  | 'K' => rest.toNat?.map .wake
  | 'X' => some .exit
  | _ => none

def showOut : Out Nat → String
  | .unit => "u"
  | .flag b => if b then "f1" else "f0"
  | .resumed f none => s!"r{f}"
  | .resumed f (some b) => s!"r{f},t{if b then 1 else 0}"
  | .idle => "idle"
  | .ub => "ub"

def schedLine (toks : List String) : Option String := do
  let freq ← kvNat toks "freq"
  let pick ← kvNat toks "pick"
  let afail ← kvNat toks "afail"
  let sleep ← kvNat toks "sleep"
  let tick ← kvNat toks "tick"
  let st ← kvNat toks "state"
  let raws ← kv toks "raws"
  let script ← kv toks "script"
  let reqs ← (script.splitOn ";").mapM parseReq
  let cfg : Cfg := { yieldFreq := freq, sleepTime := sleep, failFreq := afail, tick := tick, pick := pick }
  let s0 : St (List Nat) Nat Nat := { (init streamEngine 0 st) with eng := parseRaws raws }
  let r := reqs.foldl (fun (so : St (List Nat) Nat Nat × List (List (Out Nat))) r =>
    match step streamEngine cfg so.1 r with
    | (s', o) => (s', o :: so.2)) (s0, [])
  let outs := (r.2.reverse.map fun o => o.map showOut).flatten
  pure s!"SCHED freq={freq} pick={pick} afail={afail} sleep={sleep} tick={tick} state={st} raws={raws} script={script} = {",".intercalate outs} used={r.1.rc}"

def answer (line : String) : String :=
  let toks := line.splitOn " "
  let r := match toks.head? with
    | some "GE" => ge toks
    | some "POLL" => pollLine toks
    | some "NI" => niLine toks
    | some "FW" => fwLine toks
    | some "RN" => rnLine toks
    | some "SS" => ssLine toks
    | some "SCHED" => schedLine toks
    | _ => some line
  r.getD ("bad-line " ++ line)

partial def loop (i o : IO.FS.Stream) : IO Unit := do
  let line ← i.getLine
  if line.isEmpty then return
  o.putStrLn (answer (String.ofList (line.toList.filter (fun c => c != '\n' && c != '\r'))))
  loop i o

def main : IO Unit := do
  let i ← IO.getStdin
  let o ← IO.getStdout
  loop i o

end Yaclib.Driver.FiberSched
