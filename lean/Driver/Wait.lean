/- trace validator for the C11 model (Model/Wait.lean) -/
import YaclibModel.Model.Wait
import Driver.Trace
import Driver.Unique

namespace Yaclib.Driver.WaitD
open Yaclib.Wait Yaclib.Driver
open Yaclib.Unique (Res)

def parseCall (s : String) : Option Call :=
  match s.splitOn ":" with
  | [lo, hi, t] => do
      let lo ← lo.toNat?
      let hi ← hi.toNat?
      let timed ← (if t = "t" then some true else if t = "u" then some false else none)
      if hi < lo then none else pure { lo := lo, len := hi - lo, timed := timed }
  | _ => none

def parseFin (s : String) : Option Fin :=
  match s with
  | "none" => some .none | "attach" => some .attach | "get" => some .get | _ => none

def listOrEmpty (s : String) : List String := if s = "-" then [] else s.splitOn ","

/-- header: `wait n=2 res=val:1,err shared=0,1 calls=0:2:t,0:1:u fin=get,attach` -/
def initW (hdr : List String) : Option State := do
  let n ← (hdrGet hdr "n").bind String.toNat?
  let res ← (listOrEmpty (← hdrGet hdr "res")).mapM UniqueD.parseRes
  let shared : List Bool := (listOrEmpty (← hdrGet hdr "shared")).map (fun x => decide (x = "1"))
  let calls ← (listOrEmpty (← hdrGet hdr "calls")).mapM parseCall
  let fins ← (listOrEmpty (← hdrGet hdr "fin")).mapM parseFin
  pure (init { n := n, res := fun i => res.getD i .err, shared := fun i => shared.getD i false, calls := calls,
               fin := fun i => fins.getD i .none })

/-- `w<i>` → i -/
def parseWordObj (s : String) : Option Nat :=
  if s.startsWith "w" then (s.drop 1).toString.toNat? else none

def parseTid (s : String) : Option Tid :=
  if s = "c" then some .w
  else if s.startsWith "p" then (s.drop 1).toString.toNat?.map .p
  else none

/-- a value name from the trace; callback pointers are resolved against what the model says the name can stand for -/
def resolveWord (f : Fut) (name : String) : Option Word :=
  if name = "empty" then some .empty
  else if name = "result" then some .result
  -- the callback of an *earlier* consumer of a shared future (harness scenarios `presub=1`): the waiter's node goes on top of
  -- it, the producer runs it after the event's callback; for the wait protocol such a word is as good as empty
  else if name.startsWith "sub" then some .empty
  else if name.startsWith "cb" then
    (match f.word with
     | .ev => some .ev
     | .cont => some .cont
     | _ => (match f.prev with | .ev => some .ev | .cont => some .cont | _ => none))
  else none

def parseBool (s : String) : Option Bool := if s = "1" then some true else if s = "0" then some false else none

def toLabel (s : State) (ts : List String) : Option (Option Label) :=
  match ts with
  -- the root thread only joins and finally destroys the futures nobody consumed (`~Future` = Detach: one load that sees
  -- `result`, every producer has been joined by then): outside the model
  | "r" :: _ => none
  | ["c", "E", "call", lo, hi, t] =>
      some (do let lo ← lo.toNat?; let hi ← hi.toNat?; let t ← parseBool t; pure (.call lo hi t))
  | ["c", "E", "ret", b] => some ((parseBool b).map .ret)
  | ["c", "E", "fin", i, k] => some (do let i ← i.toNat?; let k ← parseFin k; pure (.fin i k))
  | ["c", "E", "got", i, r] => some (do let i ← i.toNat?; let r ← UniqueD.parseRes r; pure (.got i r))
  | [t, "E", "invoke", i, r] =>
      some (do let t ← parseTid t; let i ← i.toNat?; let r ← UniqueD.parseRes r; pure (.invoke t i r))
  | [_, "E", "subinv", _, _] => none
  | _ :: "E" :: _ => some none
  | [t, "A", "cnt", "fsub", _, a, "->", old] =>
      some (do
        let t ← parseTid t
        let a ← a.toNat?
        let old ← old.toNat?
        match t with
        | .w => pure (.wSub a (old : Int))
        | .p i => if a = 1 then pure (.pSub i (old : Int)) else none)
  | _ :: "A" :: "cnt" :: _ => some none
  | [t, "A", obj, "xchg", _, "result", "->", old] =>
      some (do
        let i ← parseWordObj obj
        let t ← parseTid t
        let old ← resolveWord (s.fut i) old
        if t = .p i then pure (.pXchg i old) else none)
  | ["c", "A", obj, "load", _, "-", "->", x] =>
      some (do
        let i ← parseWordObj obj
        let x ← resolveWord (s.fut i) x
        -- a load while the weak CAS is pending is the re-read of a spurious failure
        if s.wpc = .regCas i then pure (.wSpur i x) else pure (.wLoad i x))
  | ["c", "A", obj, op, _, _, "->", res] =>
      if op = "cas_strong" ∨ op = "cas_weak" then
        some (do let i ← parseWordObj obj; pure (.wCas i (res = "ok")))
      else some none
  | _ :: "A" :: _ => some none
  | [t, "M", m, "lock", _] => if m.startsWith "m" then some ((parseTid t).map .lock) else none
  | [t, "M", m, "unlock", _] => if m.startsWith "m" then some ((parseTid t).map .unlock) else none
  | ["c", "M", q, "wake", "1"] => if q.startsWith "q" then some (some .timeout) else none
  | _ => none

def decided (c : WPc) : Bool :=
  match c with
  | .retn _ | .gotRep _ | .unlockRet _ => true
  | _ => false

/-- rule name for coverage; `.ret` marks the steps of the two loops in which the return of `WaitRange` is decided
    (`wait_count == 0`, `reset_count == wait_count`), so that every return path has its own rule name -/
def ruleOf (s s' : State) (l : Label) : String :=
  let r := if decided s'.wpc then ".ret" else ""
  match l with
  | .call _ _ t => (if t then "wCall.timed" else "wCall.untimed") ++ r
  | .wLoad i x =>
      let st := if x = (s.fut i).word then "" else ".stale"
      (match s.wpc with
       | .reg _ => (if x = .empty then "wRegLoad.empty" else "wRegLoad.full") ++ r
       | .rst _ => (if x = .result then "wRstLoad.result" else "wRstLoad.cb") ++ r
       | _ => if x = .empty then "wAttLoad.empty" else "wAttLoad.full") ++ st
  | .wCas _ ok =>
      (match s.wpc with
       | .regCas _ => "wRegCas" ++ (if ok then "Ok" else "Fail") ++ r
       | .rstCas _ _ => "wRstCas" ++ (if ok then "Ok" else "Fail") ++ r
       | _ => "wAttCas" ++ (if ok then "Ok" else "Fail"))
  | .wSpur _ x => (if x = .empty then "wRegSpur.retry" else "wRegSpur.full") ++ r
  | .wSub _ old =>
      if s.wpc = .sub1 then (if old = (((s.hi - s.lo) - s.wc + 1 : Nat) : Int) then "wSub1.zero" else "wSub1.more")
      else (if old = (s.rc : Int) then "wSub2.zero" else "wSub2.more")
  | .timeout => "wTimeout"
  | .ret b => (if s.timed then "wRet.timed." else "wRet.untimed.") ++ (if b then "true" else "false")
  | .fin _ k => (match k with | .none => "wFin.none" | .attach => "wFin.attach" | .get => "wFin.get")
  | .got _ _ => "wGot"
  | .pXchg _ old =>
      (match old with
       | .empty => "pXchg.empty" | .ev => (if s.hi - s.lo = 1 then "pXchg.ev.one" else "pXchg.ev") | .cont => "pXchg.cont"
       | .result => "pXchg.result")
  | .pSub _ old => if old = 1 then "pSub.zero" else "pSub.more"
  | .lock .w =>
      (match s.wpc with
       | .lock1 => if s.ready then "wLock1.ready" else "wLock1.wait"
       | .asleep f =>
           if s.ready then (if f then (if s.rc = 0 then "wWake.final.true" else "wWake.final.false") else "wWake.timed.ready")
           else "wWake.spurious"
       | _ => if s.ready then "wLockT.ready" else "wLockT.reset" ++ r)
  | .lock (.p _) => "pLock"
  | .unlock .w => (match s.wpc with | .held _ => "wSleep" | _ => "wUnlockRet")
  | .unlock (.p _) => "pUnlock"
  | .invoke .w _ _ => "wInvoke"
  | .invoke (.p _) _ _ => "pInvoke"

def stepW (s : State) (ts : List String) : Option (Option (State × String)) :=
  match toLabel s ts with
  | none => none
  | some none => some none
  | some (some l) =>
      match next s l with
      | none => some none
      | some s' => some (some (s', ruleOf s s' l))

/-- at the end of a run every thread has finished, the waiter has consumed what it was asked to, and no producer
    ever touched a dead event -/
def finalW (s : State) : Option String :=
  if s.wpc ≠ .idle ∨ s.calls ≠ [] ∨ s.fi ≠ s.w.n then some "waiter not finished"
  else if (List.range s.w.n).any (fun i => (s.fut i).ppc ≠ .done) then some "a producer has not finished"
  else if s.uaf then some "a producer touched the event after the wait returned"
  else if (List.range s.w.n).any (fun i => s.w.fin i ≠ .none ∧ (s.fut i).ndel ≠ 1) then some "a result was not delivered exactly once"
  else none

def showState (s : State) : String :=
  let futs := (List.range s.w.n).map fun i => s!"{i}:{reprStr (s.fut i)}"
  s!"wpc={reprStr s.wpc} calls={reprStr s.calls} fi={s.fi} lo={s.lo} hi={s.hi} timed={s.timed} inGet={s.inGet} wc={s.wc} rc={s.rc} " ++
  s!"alive={s.alive} counter={s.counter} ready={s.ready} holder={reprStr s.holder} uaf={s.uaf} futs={futs}"

def model : TraceModel :=
  { σ := State, init := initW, step := stepW, final := finalW, showState := showState }

end Yaclib.Driver.WaitD
