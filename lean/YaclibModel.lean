import YaclibModel.Base.Ops
import YaclibModel.Extracted.FiberAtomic
import YaclibModel.Extracted.Kernels
import YaclibModel.Model.Skeletons
import YaclibModel.Model.Atomic
import YaclibModel.Model.Unique
import YaclibModel.Props.C19
import YaclibModel.Props.C01
