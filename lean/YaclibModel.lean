import YaclibModel.Base.Ops
import YaclibModel.Extracted.FiberAtomic
import YaclibModel.Model.Atomic
import YaclibModel.Props.C19
