/-
Instance 3 of the ownership discipline — **mutual exclusion through one word**: any number of threads acquire
with an RMW of order `oAcq` that finds the word free (`exchange(1)` / CAS 0→1; attempts that find it taken are
RMWs too, as in `Spinlock::lock`, or plain loads), access the protected data, and release with a write of order
`oRel` (a store as in `Spinlock::unlock`, or an RMW as in the coroutine `Mutex`' CAS / the strand's mark CAS).

Theorem: with acquire on the acquisition and release on the release, consecutive critical sections are ordered
by happens-before (no execution races on the protected data), for every number of threads and rounds.
-/
import YaclibModel.Mem.OwnProofs

namespace Yaclib.RA.Lock

def data : Loc := 0

structure PState where
  s : State
  holder : Option Tid

def lastVal (s : State) : Nat := (s.msgs[lastIdx s]?.map (·.val)).getD 0
def lastView (s : State) : View := (s.msgs[lastIdx s]?.map (·.view)).getD []

def pinit : PState := { s := init 0, holder := none }

/-- an RMW that writes `v` -/
def rmwState (s : State) (t : Tid) (v : Nat) (o : Ord) : State :=
  doWrite (doRead s t (lastIdx s) o) t v o (lastView s)

inductive PStep (oAcq oRel : Ord) (rmwRel : Bool) : PState → PState → Prop where
  /-- successful acquisition -/
  | acqOk (p : PState) (t : Tid) (hfree : lastVal p.s = 0) :
      PStep oAcq oRel rmwRel p { s := rmwState p.s t 1 oAcq, holder := some t }
  /-- `exchange(1)` that finds the lock taken (spinning) -/
  | acqSpin (p : PState) (t : Tid) (htaken : lastVal p.s = 1) :
      PStep oAcq oRel rmwRel p { p with s := rmwState p.s t 1 oAcq }
  /-- a load / failed CAS of the word (pre-checks, try-lock failures): any coherent message -/
  | peek (p : PState) (t : Tid) (j : Nat) (o : Ord) (hj : j < p.s.msgs.length) (hs : (p.s.thr t).seen ≤ j) :
      PStep oAcq oRel rmwRel p { p with s := doRead p.s t j o }
  | access (p : PState) (t : Tid) (w : Bool) (h : p.holder = some t) :
      PStep oAcq oRel rmwRel p { p with s := doAccess p.s t data w }
  | release (p : PState) (t : Tid) (h : p.holder = some t) :
      PStep oAcq oRel rmwRel p
        { s := if rmwRel then rmwState p.s t 0 oRel else doWrite p.s t 0 oRel [], holder := none }

inductive PReach (oAcq oRel : Ord) (rmwRel : Bool) : PState → Prop where
  | init : PReach oAcq oRel rmwRel pinit
  | step {p p'} : PReach oAcq oRel rmwRel p → PStep oAcq oRel rmwRel p p' → PReach oAcq oRel rmwRel p'

def holderOf (p : PState) : Holder :=
  match p.holder with
  | some t => .thread t
  | none => .msg (lastIdx p.s)

def theShare (h : Holder) (hist : List Ev) : Share := { loc := data, holder := h, hist := hist, tag := 0 }

/-- ghost annotation: one share of the data; the holder has it, or it travels in the last message -/
structure Ann (p : PState) (g : GState) : Prop where
  proj : g.m = p.s
  good : Good g
  nonempty : p.s.msgs ≠ []
  free_iff : lastVal p.s = 0 ↔ p.holder = none
  val01 : lastVal p.s = 0 ∨ lastVal p.s = 1
  share : ∃ hist, g.shares = [theShare (holderOf p) hist]

theorem rmw_msgs (s : State) (t : Tid) (v : Nat) (o : Ord) :
    (rmwState s t v o).msgs = s.msgs ++
      [{ val := v,
         view := (if o.hasRel then ((doRead s t (lastIdx s) o).thr t).cur else ((doRead s t (lastIdx s) o).thr t).rel) ++ lastView s }] := by
  simp [rmwState, doWrite]

theorem rmw_lastIdx (s : State) (t : Tid) (v : Nat) (o : Ord) : lastIdx (rmwState s t v o) = s.msgs.length := by
  simp [lastIdx, rmw_msgs]

theorem rmw_lastVal (s : State) (t : Tid) (v : Nat) (o : Ord) : lastVal (rmwState s t v o) = v := by
  simp [lastVal, rmw_lastIdx, rmw_msgs]

theorem store_lastIdx (s : State) (t : Tid) (v : Nat) (o : Ord) : lastIdx (doWrite s t v o []) = s.msgs.length := by
  simp [lastIdx, doWrite]

theorem store_lastVal (s : State) (t : Tid) (v : Nat) (o : Ord) : lastVal (doWrite s t v o []) = v := by
  unfold lastVal
  rw [store_lastIdx]
  simp [doWrite]

theorem ann_init : Ann pinit { m := init 0, shares := [theShare (.msg 0) []] } := by
  refine ⟨rfl, ?_, by simp [pinit, init], by simp [pinit, lastVal, lastIdx, init], by simp [pinit, lastVal, lastIdx, init],
    ⟨[], by simp [holderOf, pinit, lastIdx, init]⟩⟩
  constructor
  · intro a ha; simp [init] at ha
  · intro sh hsh e he; simp [theShare] at hsh; subst hsh; simp at he
  · intro sh _ a ha; simp [init] at ha
  · intro sh hsh i hi; simp [theShare] at hsh; subst hsh; simp at hi; subst hi; simp [init]
  · intro a ha; simp [init] at ha
  · rfl

theorem relabel_single (sh : Share) (f : Share → Holder) : relabel [sh] f = [{ sh with holder := f sh }] := rfl

theorem ann_acqOk {oAcq : Ord} (hacq : oAcq.hasAcq = true) {p : PState} {g : GState} (ha : Ann p g) (t : Tid)
    (hfree : lastVal p.s = 0) : ∃ g', Ann { s := rmwState p.s t 1 oAcq, holder := some t } g' := by
  have hnone : p.holder = none := ha.free_iff.mp hfree
  obtain ⟨hist, hsh⟩ := ha.share
  have hho : holderOf p = .msg (lastIdx p.s) := by simp [holderOf, hnone]
  have hstep := DStep.rmwTakeGive g t 1 oAcq (fun _ => true) (fun _ => false)
    (by intro sh hs _
        rw [hsh] at hs; simp at hs; subst hs
        exact ⟨lastIdx p.s, by rw [theShare, hho], by rw [ha.proj]; exact fun e he => he⟩)
    (fun _ => hacq) (by intro _ _ h; cases h) (by rintro ⟨_, _, h⟩; cases h)
  refine ⟨_, ⟨by rw [ha.proj]; rfl, good_step ha.good hstep, by simp [rmw_msgs], ?_, Or.inr (rmw_lastVal ..), ?_⟩⟩
  · rw [rmw_lastVal]; simp
  · exact ⟨hist, by rw [hsh, relabel_single]; simp [theShare, holderOf]⟩

theorem ann_acqSpin {oAcq : Ord} {p : PState} {g : GState} (ha : Ann p g) (t : Tid) (htaken : lastVal p.s = 1) :
    ∃ g', Ann { p with s := rmwState p.s t 1 oAcq } g' := by
  obtain ⟨hist, hsh⟩ := ha.share
  have hsome : ∃ t', p.holder = some t' := by
    cases hp : p.holder with
    | some t' => exact ⟨t', rfl⟩
    | none => have := ha.free_iff.mpr hp; omega
  obtain ⟨t', ht'⟩ := hsome
  have hstep := DStep.rmwTakeGive g t 1 oAcq (fun _ => false) (fun _ => false)
    (by intro _ _ h; cases h) (by rintro ⟨_, _, h⟩; cases h) (by intro _ _ h; cases h) (by rintro ⟨_, _, h⟩; cases h)
  refine ⟨_, ⟨by rw [ha.proj]; rfl, good_step ha.good hstep, by simp [rmw_msgs], ?_, Or.inr (rmw_lastVal ..), ?_⟩⟩
  · rw [rmw_lastVal, ht']; simp
  · exact ⟨hist, by rw [hsh, relabel_single]; simp [theShare, holderOf, ht']⟩

theorem ann_peek {p : PState} {g : GState} (ha : Ann p g) (t : Tid) (j : Nat) (o : Ord)
    (hj : j < p.s.msgs.length) (hs : (p.s.thr t).seen ≤ j) : ∃ g', Ann { p with s := doRead p.s t j o } g' := by
  obtain ⟨hist, hsh⟩ := ha.share
  have hstep := DStep.loadTake g t j o (fun _ => false) (by rw [ha.proj]; exact hj) (by rw [ha.proj]; exact hs)
    (by intro _ _ h; cases h) (by rintro ⟨_, _, h⟩; cases h)
  have hlv : lastVal (doRead p.s t j o) = lastVal p.s := by simp [lastVal, lastIdx]
  refine ⟨_, ⟨by rw [ha.proj], good_step ha.good hstep, by simpa using ha.nonempty, by rw [hlv]; exact ha.free_iff,
    by rw [hlv]; exact ha.val01, ?_⟩⟩
  refine ⟨hist, ?_⟩
  rw [hsh, relabel_single]
  simp [theShare, holderOf, lastIdx]

theorem ann_access {p : PState} {g : GState} (ha : Ann p g) (t : Tid) (w : Bool) (h : p.holder = some t) :
    ∃ g', Ann { p with s := doAccess p.s t data w } g' := by
  obtain ⟨hist, hsh⟩ := ha.share
  have hho : holderOf p = .thread t := by simp [holderOf, h]
  have hmem : theShare (.thread t) hist ∈ g.shares := by rw [hsh, hho]; exact List.mem_singleton.mpr rfl
  have hlv : lastVal (doAccess p.s t data w) = lastVal p.s := rfl
  cases w with
  | false =>
      have hstep := DStep.read g t data _ hmem rfl rfl
      refine ⟨_, ⟨by rw [ha.proj], good_step ha.good hstep, ha.nonempty, ha.free_iff, ha.val01, ⟨g.m.log.length :: hist, ?_⟩⟩⟩
      rw [hsh, hho]; simp [addHist, theShare, holderOf, h]
  | true =>
      have hstep := DStep.write g t data
        (by intro sh hs _; rw [hsh, hho] at hs; simp at hs; subst hs; rfl) ⟨_, hmem, rfl⟩
      refine ⟨_, ⟨by rw [ha.proj], good_step ha.good hstep, ha.nonempty, ha.free_iff, ha.val01, ⟨g.m.log.length :: hist, ?_⟩⟩⟩
      rw [hsh, hho]; simp [addHist, theShare, holderOf, h]

theorem ann_release {oRel : Ord} (hrel : oRel.hasRel = true) {rmwRel : Bool} {p : PState} {g : GState} (ha : Ann p g)
    (t : Tid) (h : p.holder = some t) :
    ∃ g', Ann { s := if rmwRel then rmwState p.s t 0 oRel else doWrite p.s t 0 oRel [], holder := none } g' := by
  obtain ⟨hist, hsh⟩ := ha.share
  have hho : holderOf p = .thread t := by simp [holderOf, h]
  have hlen : g.m.msgs.length = p.s.msgs.length := by rw [ha.proj]
  cases rmwRel with
  | false =>
      have hstep := DStep.storeGive g t 0 oRel (fun _ => true)
        (by intro sh hs _; rw [hsh, hho] at hs; simp at hs; subst hs; rfl) (fun _ => hrel)
      refine ⟨_, ⟨by simp [ha.proj], good_step ha.good hstep, by simp [doWrite], ?_, Or.inl (by simp [store_lastVal]), ?_⟩⟩
      · simp [store_lastVal]
      · refine ⟨hist, ?_⟩
        rw [hsh, relabel_single]
        simp [theShare, holderOf, store_lastIdx, hlen]
  | true =>
      have hstep := DStep.rmwTakeGive g t 0 oRel (fun _ => false) (fun _ => true)
        (by intro _ _ h; cases h) (by rintro ⟨_, _, h⟩; cases h)
        (by intro sh hs _; left; rw [hsh, hho] at hs; simp at hs; subst hs; rfl) (fun _ => hrel)
      refine ⟨_, ⟨by simp only [if_true]; rw [ha.proj]; rfl, good_step ha.good hstep, by simp [rmw_msgs], ?_,
        Or.inl (by simp [rmw_lastVal]), ?_⟩⟩
      · simp [rmw_lastVal]
      · refine ⟨hist, ?_⟩
        rw [hsh, relabel_single]
        simp [theShare, holderOf, rmw_lastIdx, hlen]

/-- **Critical sections are ordered by happens-before**: acquire on the acquisition, release on the release ⇒ no
    execution races on the protected data; any number of threads, rounds, failed attempts and stale peeks. -/
theorem lock_race_free {oAcq oRel : Ord} {rmwRel : Bool} (hacq : oAcq.hasAcq = true) (hrel : oRel.hasRel = true)
    {p : PState} (h : PReach oAcq oRel rmwRel p) : p.s.race = false := by
  have key : ∃ g, Ann p g := by
    induction h with
    | init => exact ⟨_, ann_init⟩
    | step _ hs ih =>
        obtain ⟨g, ha⟩ := ih
        cases hs with
        | acqOk t hfree => exact ann_acqOk hacq ha t hfree
        | acqSpin t htaken => exact ann_acqSpin ha t htaken
        | peek t j o hj hs => exact ann_peek ha t j o hj hs
        | access t w hh => exact ann_access ha t w hh
        | release t hh => exact ann_release hrel ha t hh
  obtain ⟨g, ha⟩ := key
  rw [← ha.proj]; exact ha.good.no_race

/-- both orders are necessary -/
theorem lock_relaxed_release_races : ∃ p, PReach .acq .rlx false p ∧ p.s.race = true := by
  have h0 : PReach .acq .rlx false pinit := .init
  have h1 := PReach.step h0 (.acqOk _ 0 (by decide))
  have h2 := PReach.step h1 (.access _ 0 true rfl)
  have h3 := PReach.step h2 (.release _ 0 rfl)
  have h4 := PReach.step h3 (.acqOk _ 1 (by decide))
  have h5 := PReach.step h4 (.access _ 1 true rfl)
  exact ⟨_, h5, by decide⟩

theorem lock_relaxed_acquire_races : ∃ p, PReach .rlx .rel false p ∧ p.s.race = true := by
  have h0 : PReach .rlx .rel false pinit := .init
  have h1 := PReach.step h0 (.acqOk _ 0 (by decide))
  have h2 := PReach.step h1 (.access _ 0 true rfl)
  have h3 := PReach.step h2 (.release _ 0 rfl)
  have h4 := PReach.step h3 (.acqOk _ 1 (by decide))
  have h5 := PReach.step h4 (.access _ 1 true rfl)
  exact ⟨_, h5, by decide⟩

end Yaclib.RA.Lock
