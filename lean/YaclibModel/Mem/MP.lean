/-
Instance 1 of the ownership discipline — **publication through a flag** (message passing):
one writer fills plain data and then publishes with one atomic write of order `oW`; any number of readers
load with order `oR` (any coherent message: stale reads included) and read the data only if they saw the
flag.  This is how a fulfilled Result becomes readable: `Store(result); _callback.exchange(kResult, acq_rel)`
against `load(acquire)` / a failed CAS with acquire failure order / `Ready()`.

Theorem: if `oW` has release semantics and `oR` acquire semantics, no execution races — for every number
of readers, every interleaving and every stale read.  With a relaxed publication a racy execution exists.
-/
import YaclibModel.Mem.OwnProofs

namespace Yaclib.RA.MP

def data : Loc := 0
def W : Tid := 0

structure PState where
  s : State
  published : Bool
  saw : Tid → Bool            -- reader has seen the flag

def pinit : PState := { s := init 0, published := false, saw := fun _ => false }

/-- the publishing write: a store, or an RMW (exchange) -/
def pubState (p : PState) (oW : Ord) (rmwPub : Bool) : PState :=
  { p with published := true,
           s := if rmwPub then doWrite (doRead p.s W (lastIdx p.s) oW) W 1 oW ((p.s.msgs[lastIdx p.s]?.map (·.view)).getD [])
                else doWrite p.s W 1 oW [] }

/-- the protocol at machine level (no ghost state, no ownership premises) -/
inductive PStep (oW oR : Ord) (rmwPub : Bool) : PState → PState → Prop where
  | wWrite (p : PState) (h : p.published = false) : PStep oW oR rmwPub p { p with s := doAccess p.s W data true }
  | wPublish (p : PState) (h : p.published = false) :
      PStep oW oR rmwPub p (pubState p oW rmwPub)
  | rLoad (p : PState) (t : Tid) (j : Nat) (ht : t ≠ W) (hj : j < p.s.msgs.length) (hs : (p.s.thr t).seen ≤ j) :
      PStep oW oR rmwPub p
        { p with s := doRead p.s t j oR,
                 saw := fun t' => if t' = t then (p.saw t || decide ((p.s.msgs[j]?.map (·.val)) = some 1)) else p.saw t' }
  | rRead (p : PState) (t : Tid) (ht : t ≠ W) (hsaw : p.saw t = true) :
      PStep oW oR rmwPub p { p with s := doAccess p.s t data false }

inductive PReach (oW oR : Ord) (rmwPub : Bool) : PState → Prop where
  | init : PReach oW oR rmwPub pinit
  | step {p p'} : PReach oW oR rmwPub p → PStep oW oR rmwPub p p' → PReach oW oR rmwPub p'

/-- ghost annotation of a protocol state -/
structure Ann (p : PState) (g : GState) : Prop where
  proj : g.m = p.s
  good : Good g
  all_data : ∀ sh ∈ g.shares, sh.loc = data
  before : p.published = false → (∃ h, g.shares = [{ loc := data, holder := .thread W, hist := h, tag := 0 }]) ∧
      p.s.msgs.length = 1 ∧ (∀ t, p.saw t = false)
  val0 : (p.s.msgs[0]?.map (·.val)) = some 0
  after : p.published = true → p.s.msgs.length = 2 ∧
      (∃ sh ∈ g.shares, sh.holder = .msg 1 ∧ sh.tag = 0) ∧ (∀ sh ∈ g.shares, sh.holder ≠ .thread W) ∧
      (∀ t, p.saw t = true → ∃ sh ∈ g.shares, sh.holder = .thread t)

theorem mem_relabel {shares : List Share} {f : Share → Holder} {sh' : Share} (h : sh' ∈ relabel shares f) :
    ∃ sh ∈ shares, sh' = { sh with holder := f sh } := by
  obtain ⟨sh, hsh, rfl⟩ := List.mem_map.mp h
  exact ⟨sh, hsh, rfl⟩

theorem relabel_mem {shares : List Share} (f : Share → Holder) {sh : Share} (h : sh ∈ shares) :
    { sh with holder := f sh } ∈ relabel shares f := List.mem_map.mpr ⟨sh, h, rfl⟩

theorem relabel_none (shares : List Share) (t : Tid) :
    relabel shares (fun sh => if (fun _ => false) sh then Holder.thread t else sh.holder) = shares := by
  simp [relabel]

theorem ann_init : Ann pinit { m := init 0, shares := [{ loc := data, holder := .thread W, hist := [], tag := 0 }] } := by
  refine ⟨rfl, ?_, by simp, ?_, by simp [pinit, init], by simp [pinit]⟩
  · have := good_step (good_init 0) (DStep.alloc _ W data (by simp [init]) (by simp))
    exact this
  · intro _; exact ⟨⟨[], rfl⟩, by simp [pinit, init], fun _ => rfl⟩


theorem ann_wWrite {oW oR : Ord} {p : PState} {g : GState} (ha : Ann p g) (h : p.published = false) :
    ∃ g', Ann { p with s := doAccess p.s W data true } g' := by
  obtain ⟨⟨hist, hsh⟩, hlen, hsaw⟩ := ha.before h
  have hstep : DStep g
      { m := doAccess g.m W data true
        shares := addHist g.shares (fun x => decide (x.loc = data)) g.m.log.length } :=
    DStep.write g W data (by intro sh hs _; rw [hsh] at hs; simp at hs; rw [hs]) (by rw [hsh]; exact ⟨_, List.mem_singleton.mpr rfl, rfl⟩)
  refine ⟨_, ⟨by rw [ha.proj], good_step ha.good hstep, ?_, ?_, by simpa using ha.val0, ?_⟩⟩
  · intro sh hs; obtain ⟨sh0, hs0, hl, _⟩ := mem_addHist hs; rw [hl]; exact ha.all_data sh0 hs0
  · intro _
    refine ⟨⟨g.m.log.length :: hist, ?_⟩, by simpa using hlen, hsaw⟩
    simp [hsh, addHist]
  · intro hp; simp [h] at hp

theorem ann_wPublish {oW oR : Ord} {rmwPub : Bool} (hrel : oW.hasRel = true) {p : PState} {g : GState} (ha : Ann p g)
    (h : p.published = false) :
    ∃ g', Ann (pubState p oW rmwPub) g' := by
  unfold pubState
  obtain ⟨⟨hist, hsh⟩, hlen, hsaw⟩ := ha.before h
  have hgl : g.m.msgs.length = 1 := by rw [ha.proj]; exact hlen
  cases rmwPub with
  | false =>
      have hstep : DStep g
          { m := doWrite g.m W 1 oW []
            shares := relabel g.shares (fun sh => if (fun _ => true) sh then .msg g.m.msgs.length else sh.holder) } :=
        DStep.storeGive g W 1 oW (fun _ => true) (by intro sh hs _; rw [hsh] at hs; simp at hs; rw [hs]) (fun _ => hrel)
      refine ⟨_, ⟨by simp [ha.proj], good_step ha.good hstep, ?_, by simp, ?_, ?_⟩⟩
      · intro sh hs; obtain ⟨sh0, hs0, rfl⟩ := mem_relabel hs; exact ha.all_data sh0 hs0
      · have := ha.val0
        simp only [Bool.false_eq_true, if_false]
        rw [show (doWrite p.s W 1 oW []).msgs = p.s.msgs ++ [{ val := 1, view := (if oW.hasRel then (p.s.thr W).cur else (p.s.thr W).rel) ++ [] }] from rfl]
        rw [List.getElem?_append_left (by omega)]; exact this
      · intro _
        refine ⟨by simp [hlen], ?_, ?_, ?_⟩
        · exact ⟨_, relabel_mem _ (by rw [hsh]; exact List.mem_singleton.mpr rfl), by simp [hgl], rfl⟩
        · intro sh hs; obtain ⟨sh0, _, rfl⟩ := mem_relabel hs; simp
        · intro t ht; simp [hsaw t] at ht
  | true =>
      have hstep : DStep g
          { m := doWrite (doRead g.m W (lastIdx g.m) oW) W 1 oW (viewOf g.m (.msg (lastIdx g.m)))
            shares := relabel g.shares (fun sh => if (fun _ => true) sh then .msg g.m.msgs.length
                                                  else if (fun _ => false) sh then .thread W else sh.holder) } :=
        DStep.rmwTakeGive g W 1 oW (fun _ => false) (fun _ => true) (by intro _ _ h; cases h) (by rintro ⟨_, _, h⟩; cases h)
          (by intro sh hs _; left; rw [hsh] at hs; simp at hs; rw [hs]) (fun _ => hrel)
      refine ⟨_, ⟨by simp [ha.proj, viewOf], good_step ha.good hstep, ?_, by simp, ?_, ?_⟩⟩
      · intro sh hs; obtain ⟨sh0, hs0, rfl⟩ := mem_relabel hs; exact ha.all_data sh0 hs0
      · have := ha.val0
        simp only [if_true]
        have hm : (doRead p.s W (lastIdx p.s) oW).msgs = p.s.msgs := by simp
        simp only [doWrite, hm]
        rw [List.getElem?_append_left (by omega)]; exact this
      · intro _
        refine ⟨by simp [hlen], ?_, ?_, ?_⟩
        · exact ⟨_, relabel_mem _ (by rw [hsh]; exact List.mem_singleton.mpr rfl), by simp [hgl], rfl⟩
        · intro sh hs; obtain ⟨sh0, _, rfl⟩ := mem_relabel hs; simp
        · intro t ht; simp [hsaw t] at ht

theorem addHist_mem' {shares : List Share} (sel : Share → Bool) (e : Ev) {sh : Share} (h : sh ∈ shares) :
    ∃ sh' ∈ addHist shares sel e, sh'.holder = sh.holder ∧ sh'.tag = sh.tag ∧ sh'.loc = sh.loc := by
  refine ⟨if sel sh then { sh with hist := e :: sh.hist } else sh, List.mem_map.mpr ⟨sh, h, rfl⟩, ?_⟩
  by_cases hs : sel sh = true <;> simp [hs]

theorem ann_rRead {p : PState} {g : GState} (ha : Ann p g) (t : Tid) (ht : t ≠ W) (hsaw : p.saw t = true) :
    ∃ g', Ann { p with s := doAccess p.s t data false } g' := by
  have hpub : p.published = true := by
    cases hp : p.published with
    | true => rfl
    | false => have := (ha.before hp).2.2 t; rw [hsaw] at this; cases this
  obtain ⟨hlen, ⟨shb, hshb, hbh, hbt⟩, hnoW, hsawsh⟩ := ha.after hpub
  obtain ⟨sh, hsh, hh⟩ := hsawsh t hsaw
  have hstep := DStep.read g t data sh hsh (ha.all_data sh hsh) hh
  refine ⟨_, ⟨by rw [ha.proj], good_step ha.good hstep, ?_, ?_, by simpa using ha.val0, ?_⟩⟩
  · intro x hx; obtain ⟨x0, hx0, hl, _⟩ := mem_addHist hx; rw [hl]; exact ha.all_data x0 hx0
  · intro hp; simp [hpub] at hp
  · intro _
    refine ⟨by simpa using hlen, ?_, ?_, ?_⟩
    · obtain ⟨x', hx', h1, h2, _⟩ := addHist_mem' (fun x => decide (x.loc = data ∧ x.holder = .thread t)) g.m.log.length hshb
      exact ⟨x', hx', h1.trans hbh, h2.trans hbt⟩
    · intro x hx; obtain ⟨x0, hx0, _, hhold, _⟩ := mem_addHist hx; rw [hhold]; exact hnoW x0 hx0
    · intro t' ht'
      obtain ⟨y, hy, hyh⟩ := hsawsh t' ht'
      obtain ⟨y', hy', h1, _, _⟩ := addHist_mem' (fun x => decide (x.loc = data ∧ x.holder = .thread t)) g.m.log.length hy
      exact ⟨y', hy', h1.trans hyh⟩

theorem ann_rLoad {oR : Ord} (hacq : oR.hasAcq = true) {p : PState} {g : GState} (ha : Ann p g) (t : Tid) (j : Nat)
    (ht : t ≠ W) (hj : j < p.s.msgs.length) (hs : (p.s.thr t).seen ≤ j) :
    ∃ g', Ann { p with s := doRead p.s t j oR,
                       saw := fun t' => if t' = t then (p.saw t || decide ((p.s.msgs[j]?.map (·.val)) = some 1)) else p.saw t' } g' := by
  have hjg : j < g.m.msgs.length := by rw [ha.proj]; exact hj
  have hsg : (g.m.thr t).seen ≤ j := by rw [ha.proj]; exact hs
  -- the load without taking anything
  have hplain : Good { m := doRead g.m t j oR, shares := g.shares } := by
    have := good_step ha.good (DStep.loadTake g t j oR (fun _ => false) hjg hsg (by intro _ _ h; cases h) (by rintro ⟨_, _, h⟩; cases h))
    rwa [relabel_none] at this
  by_cases hnew : p.saw t = false ∧ (p.s.msgs[j]?.map (·.val)) = some 1
  · -- first time the reader sees the flag: split the share in flight and take the copy
    obtain ⟨hsawf, hval⟩ := hnew
    have hpub : p.published = true := by
      cases hp : p.published with
      | true => rfl
      | false =>
          have hl := (ha.before hp).2.1
          have : j = 0 := by omega
          subst this; rw [ha.val0] at hval; cases hval
    obtain ⟨hlen, ⟨shb, hshb, hbh, hbt⟩, hnoW, hsawsh⟩ := ha.after hpub
    have hj1 : j = 1 := by
      have : j = 0 ∨ j = 1 := by omega
      rcases this with h0 | h1
      · subst h0; rw [ha.val0] at hval; cases hval
      · exact h1
    subst hj1
    let g1 : GState := { g with shares := { shb with tag := t + 1 } :: g.shares }
    have hg1 : Good g1 := good_step ha.good (DStep.split g shb (t + 1) hshb)
    let take : Share → Bool := fun sh => decide (sh.tag = t + 1 ∧ sh.holder = .msg 1)
    have hstep : DStep g1 { m := doRead g1.m t 1 oR, shares := relabel g1.shares (fun sh => if take sh then .thread t else sh.holder) } :=
      DStep.loadTake g1 t 1 oR take hjg hsg
        (by intro sh _ hsel; simp [take] at hsel; exact ⟨1, hsel.2, fun e he => he⟩) (fun _ => hacq)
    refine ⟨_, ⟨by show doRead g.m t 1 oR = _; rw [ha.proj], good_step hg1 hstep, ?_, ?_, by simpa using ha.val0, ?_⟩⟩
    · intro x hx
      obtain ⟨x0, hx0, rfl⟩ := mem_relabel hx
      rcases List.mem_cons.mp hx0 with h | h
      · subst h; exact ha.all_data shb hshb
      · exact ha.all_data x0 h
    · intro hp; simp [hpub] at hp
    · intro _
      refine ⟨by simpa using hlen, ?_, ?_, ?_⟩
      · refine ⟨_, relabel_mem _ (List.mem_cons_of_mem _ hshb), ?_, hbt⟩
        simp [take, hbt, hbh]
      · intro x hx
        obtain ⟨x0, hx0, rfl⟩ := mem_relabel hx
        by_cases hsel : take x0 = true
        · simp [hsel]; exact ht
        · simp [hsel]
          rcases List.mem_cons.mp hx0 with h | h
          · subst h; simp [hbh]
          · exact hnoW x0 h
      · intro t' ht'
        by_cases htt : t' = t
        · subst htt
          refine ⟨_, relabel_mem _ (List.mem_cons_self ..), ?_⟩
          simp [take, hbh]
        · simp [htt] at ht'
          obtain ⟨y, hy, hyh⟩ := hsawsh t' ht'
          refine ⟨_, relabel_mem _ (List.mem_cons_of_mem _ hy), ?_⟩
          simp [take, hyh]
  · -- nothing new: the reader saw the flag before, or reads a message without the flag
    have hsame : (fun t' => if t' = t then (p.saw t || decide ((p.s.msgs[j]?.map (·.val)) = some 1)) else p.saw t') = p.saw := by
      funext t'
      by_cases htt : t' = t
      · subst htt
        by_cases hsv : p.saw t' = true
        · simp [hsv]
        · have hsv' : p.saw t' = false := by simpa using hsv
          have : ¬ (p.s.msgs[j]?.map (·.val)) = some 1 := fun h => hnew ⟨hsv', h⟩
          simp [hsv', this]
      · simp [htt]
    rw [hsame]
    refine ⟨_, ⟨by show doRead g.m t j oR = _; rw [ha.proj], hplain, ha.all_data, ?_, by simpa using ha.val0, ?_⟩⟩
    · intro hp; obtain ⟨h1, h2, h3⟩ := ha.before hp; exact ⟨h1, by simpa using h2, h3⟩
    · intro hp; obtain ⟨h1, h2, h3, h4⟩ := ha.after hp; exact ⟨by simpa using h1, h2, h3, h4⟩

/-- **Message passing is race free** under release publication and acquire observation: for every number of
    readers, every interleaving, every admissible stale read; the publication may be a store or an RMW. -/
theorem mp_race_free {oW oR : Ord} {rmwPub : Bool} (hrel : oW.hasRel = true) (hacq : oR.hasAcq = true)
    {p : PState} (h : PReach oW oR rmwPub p) : p.s.race = false := by
  have key : ∃ g, Ann p g := by
    induction h with
    | init => exact ⟨_, ann_init⟩
    | step _ hs ih =>
        obtain ⟨g, ha⟩ := ih
        cases hs with
        | wWrite hp => exact ann_wWrite (oW := oW) (oR := oR) ha hp
        | wPublish hp => exact ann_wPublish (oR := oR) hrel ha hp
        | rLoad t j ht hj hs => exact ann_rLoad hacq ha t j ht hj hs
        | rRead t ht hsaw => exact ann_rRead ha t ht hsaw
  obtain ⟨g, ha⟩ := key
  rw [← ha.proj]; exact ha.good.no_race

end Yaclib.RA.MP

namespace Yaclib.RA.MP

/-- the requirement is necessary: with a relaxed publication a reader that sees the flag races with the writer -/
theorem mp_relaxed_publication_races : ∃ p, PReach .rlx .acq false p ∧ p.s.race = true := by
  have h0 : PReach .rlx .acq false pinit := .init
  have h1 := PReach.step h0 (.wWrite _ rfl)
  have h2 := PReach.step h1 (.wPublish _ rfl)
  have h3 := PReach.step h2 (.rLoad _ 1 1 (by decide) (by decide) (by decide))
  have h4 := PReach.step h3 (.rRead _ 1 (by decide) (by decide))
  exact ⟨_, h4, by decide⟩

/-- … and so does a relaxed observation of a released flag -/
theorem mp_relaxed_observation_races : ∃ p, PReach .rel .rlx false p ∧ p.s.race = true := by
  have h0 : PReach .rel .rlx false pinit := .init
  have h1 := PReach.step h0 (.wWrite _ rfl)
  have h2 := PReach.step h1 (.wPublish _ rfl)
  have h3 := PReach.step h2 (.rLoad _ 1 1 (by decide) (by decide) (by decide))
  have h4 := PReach.step h3 (.rRead _ 1 (by decide) (by decide))
  exact ⟨_, h4, by decide⟩

end Yaclib.RA.MP
