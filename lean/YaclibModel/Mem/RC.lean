/-
Instance 2 of the ownership discipline — **reference counting**: N holders read a shared object, each ends
with `fetch_sub(1, oSub)`; the holder that brings the count to zero acquires (by `oSub` itself or by the
acquire fence of `AtomicCounter::SubEqual`) and destroys the object (a write).  This is `DecRef()` for
shared states, combinators, strands, timed waiters …

Theorem: if `oSub` has release semantics, no execution races, for every N and every interleaving —
destruction happens after all other accesses.  With a relaxed decrement a racy execution exists.
-/
import YaclibModel.Mem.OwnProofs

namespace Yaclib.RA.RC

def obj : Loc := 0

inductive Phase where
  | none
  | last (t : Tid)     -- brought the count to zero with a non-acquire decrement: fence next
  | ready (t : Tid)    -- has acquired: may destroy
  | freed (t : Tid)
  deriving DecidableEq, Repr

structure PState where
  s : State
  holding : List Tid
  phase : Phase
  /-- a holder that read `count == 1` (`GetRef() == 1`) and therefore treats the object as exclusively its own -/
  sole : Option Tid := none

def lastVal (s : State) : Nat := (s.msgs[lastIdx s]?.map (·.val)).getD 0
def lastView (s : State) : View := (s.msgs[lastIdx s]?.map (·.view)).getD []

def pinit (n : Nat) : PState := { s := init n, holding := List.range n, phase := .none }

/-- the decrement: an RMW writing `lastVal - 1` -/
def decState (s : State) (t : Tid) (oSub : Ord) : State :=
  doWrite (doRead s t (lastIdx s) oSub) t (lastVal s - 1) oSub (lastView s)

inductive PStep (oSub oG : Ord) : PState → PState → Prop where
  | hRead (p : PState) (t : Tid) (h : t ∈ p.holding) : PStep oSub oG p { p with s := doAccess p.s t obj false }
  | hDec (p : PState) (t : Tid) (h : t ∈ p.holding) :
      PStep oSub oG p
        { s := decState p.s t oSub,
          holding := p.holding.erase t,
          phase := if lastVal p.s = 1 then (if oSub.hasAcq then .ready t else .last t) else p.phase }
  | hFence (p : PState) (t : Tid) (h : p.phase = .last t) :
      PStep oSub oG p { p with s := setThr p.s t { p.s.thr t with cur := (p.s.thr t).cur ++ (p.s.thr t).acq }, phase := .ready t }
  | hFree (p : PState) (t : Tid) (h : p.phase = .ready t) :
      PStep oSub oG p { p with s := doAccess p.s t obj true, phase := .freed t }
  /-- `GetRef()`: a load of the counter with order `oG`; any coherent message (stale reads included) -/
  | hGuard (p : PState) (t : Tid) (j : Nat) (h : t ∈ p.holding) (hj : j < p.s.msgs.length) (hs : (p.s.thr t).seen ≤ j) :
      PStep oSub oG p { p with s := doRead p.s t j oG,
                               sole := if (p.s.msgs[j]?.map (·.val)) = some 1 then some t else p.sole }
  /-- … `== 1` ⇒ the value is moved out (a write) while the holder keeps its reference -/
  | hMove (p : PState) (t : Tid) (h : t ∈ p.holding) (hsole : p.sole = some t) :
      PStep oSub oG p { p with s := doAccess p.s t obj true }

inductive PReach (oSub oG : Ord) (n : Nat) : PState → Prop where
  | init : PReach oSub oG n (pinit n)
  | step {p p'} : PReach oSub oG n p → PStep oSub oG p p' → PReach oSub oG n p'

def collector (ph : Phase) (t : Tid) : Prop := ph = .last t ∨ ph = .ready t ∨ ph = .freed t

def isMsg : Holder → Bool
  | .msg _ => true
  | .thread _ => false

structure Ann (p : PState) (g : GState) : Prop where
  proj : g.m = p.s
  good : Good g
  all_obj : ∀ sh ∈ g.shares, sh.loc = obj
  nonempty : p.s.msgs ≠ []
  cnt : lastVal p.s = p.holding.length
  nodup : p.holding.Nodup
  /-- every message's view is contained in the last one's (all writes are RMWs) -/
  chain : ∀ i, i < p.s.msgs.length → ∀ e ∈ viewOf p.s (.msg i), e ∈ lastView p.s
  own : ∀ t ∈ p.holding, ∃ sh ∈ g.shares, sh.holder = .thread t
  cls : ∀ sh ∈ g.shares, (∃ t ∈ p.holding, sh.holder = .thread t) ∨ isMsg sh.holder = true ∨
      (∃ t, sh.holder = .thread t ∧ collector p.phase t)
  excl : p.phase ≠ .none → p.holding = []
  last_acq : ∀ t, p.phase = .last t → ∀ sh ∈ g.shares, ∀ i, sh.holder = .msg i →
      ∀ e ∈ viewOf p.s (.msg i), e ∈ (p.s.thr t).acq
  ready_all : ∀ t, p.phase = .ready t ∨ p.phase = .freed t → ∀ sh ∈ g.shares, sh.holder = .thread t
  some_share : p.phase ≠ .none → g.shares ≠ []
  /-- the counter values count down: message `i` holds `holders left + messages after it` -/
  vals : ∀ i, i < p.s.msgs.length → (p.s.msgs[i]?.map (·.val)).getD 0 = p.holding.length + (p.s.msgs.length - 1 - i)
  sole_all : ∀ t, p.sole = some t → p.holding = [t] ∧ ∀ sh ∈ g.shares, sh.holder = .thread t

theorem ann_init (n : Nat) :
    Ann (pinit n) { m := init n, shares := (List.range n).map fun t => { loc := obj, holder := .thread t, hist := [], tag := t } } := by
  refine ⟨rfl, ?_, ?_, by simp [pinit, init], ?_, List.nodup_range, ?_, ?_, ?_, by simp [pinit], ?_, ?_, by simp [pinit], ?_, by simp [pinit]⟩
  · constructor
    · intro a ha; simp [init] at ha
    · intro sh hsh e he; obtain ⟨t, _, rfl⟩ := List.mem_map.mp hsh; simp at he
    · intro sh _ a ha; simp [init] at ha
    · intro sh hsh i hi; obtain ⟨t, _, rfl⟩ := List.mem_map.mp hsh; cases hi
    · intro a ha; simp [init] at ha
    · rfl
  · intro sh hsh; obtain ⟨t, _, rfl⟩ := List.mem_map.mp hsh; rfl
  · simp [pinit, lastVal, lastIdx, init]
  · intro i hi e he
    have : i = 0 := by simp [pinit, init] at hi; omega
    subst this; simp [pinit, init, viewOf] at he
  · intro t ht
    exact ⟨_, List.mem_map.mpr ⟨t, ht, rfl⟩, rfl⟩
  · intro sh hsh; obtain ⟨t, ht, rfl⟩ := List.mem_map.mp hsh
    exact Or.inl ⟨t, ht, rfl⟩
  · intro t ht; simp [pinit] at ht
  · intro t ht; simp [pinit] at ht
  · intro i hi
    have : i = 0 := by simp [pinit, init] at hi; omega
    subst this; simp [pinit, init]

theorem lastVal_access (s : State) (t p w) : lastVal (doAccess s t p w) = lastVal s := rfl
theorem lastView_access (s : State) (t p w) : lastView (doAccess s t p w) = lastView s := rfl

theorem addHist_ne_nil {shares : List Share} (sel : Share → Bool) (e : Ev) (h : shares ≠ []) : addHist shares sel e ≠ [] := by
  simpa [addHist] using h

theorem addHist_mem'' {shares : List Share} (sel : Share → Bool) (e : Ev) {sh : Share} (h : sh ∈ shares) :
    ∃ sh' ∈ addHist shares sel e, sh'.holder = sh.holder ∧ sh'.loc = sh.loc := by
  refine ⟨if sel sh then { sh with hist := e :: sh.hist } else sh, List.mem_map.mpr ⟨sh, h, rfl⟩, ?_⟩
  by_cases hs : sel sh = true <;> simp [hs]

/-- a plain access keeps everything the annotation says about holders, messages and phases -/
theorem ann_access {p : PState} {g : GState} (ha : Ann p g) (t : Tid) (w : Bool) (ph : Phase)
    (hph : ∀ x, collector p.phase x → collector ph x) (hph0 : ph ≠ .none → p.phase ≠ .none)
    (hlast : ∀ x, ph = .last x → p.phase = .last x)
    (hready : ∀ x, ph = .ready x ∨ ph = .freed x → p.phase = .ready x ∨ p.phase = .freed x)
    (sel : Share → Bool)
    (hgood : Good { m := doAccess g.m t obj w, shares := addHist g.shares sel g.m.log.length }) :
    Ann { p with s := doAccess p.s t obj w, phase := ph } { m := doAccess g.m t obj w, shares := addHist g.shares sel g.m.log.length } := by
  refine ⟨by rw [ha.proj], hgood, ?_, ha.nonempty, ha.cnt, ha.nodup, ?_, ?_, ?_, ?_, ?_, ?_, ?_, ha.vals, ?_⟩
  · intro x hx; obtain ⟨x0, hx0, hl, _⟩ := mem_addHist hx; rw [hl]; exact ha.all_obj x0 hx0
  · intro i hi e he; exact ha.chain i hi e he
  · intro t' ht'
    obtain ⟨sh, hsh, hh⟩ := ha.own t' ht'
    obtain ⟨sh', hsh', h1, _⟩ := addHist_mem'' sel g.m.log.length hsh
    exact ⟨sh', hsh', h1.trans hh⟩
  · intro x hx
    obtain ⟨x0, hx0, _, hhold, _⟩ := mem_addHist hx
    rw [hhold]
    rcases ha.cls x0 hx0 with h | h | ⟨c, hc, hcc⟩
    · exact Or.inl h
    · exact Or.inr (Or.inl h)
    · exact Or.inr (Or.inr ⟨c, hc, hph c hcc⟩)
  · intro h; exact ha.excl (hph0 h)
  · intro x hx sh hsh i hi e he
    obtain ⟨x0, hx0, _, hhold, _⟩ := mem_addHist hsh
    have := ha.last_acq x (hlast x hx) x0 hx0 i (hhold ▸ hi) e he
    by_cases hxt : x = t
    · subst hxt; simpa [doAccess] using this
    · simpa [doAccess, hxt] using this
  · intro x hx sh hsh
    obtain ⟨x0, hx0, _, hhold, _⟩ := mem_addHist hsh
    rw [hhold]; exact ha.ready_all x (hready x hx) x0 hx0
  · intro h; exact addHist_ne_nil _ _ (ha.some_share (hph0 h))
  · intro x hx
    obtain ⟨h1, h2⟩ := ha.sole_all x hx
    refine ⟨h1, ?_⟩
    intro sh hsh
    obtain ⟨x0, hx0, _, hhold, _⟩ := mem_addHist hsh
    rw [hhold]; exact h2 x0 hx0

theorem ann_hRead {p : PState} {g : GState} (ha : Ann p g) (t : Tid) (h : t ∈ p.holding) :
    ∃ g', Ann { p with s := doAccess p.s t obj false } g' := by
  obtain ⟨sh, hsh, hh⟩ := ha.own t h
  have hstep := DStep.read g t obj sh hsh (ha.all_obj sh hsh) hh
  exact ⟨_, ann_access ha t false p.phase (fun _ h => h) (fun h => h) (fun _ h => h) (fun _ h => h) _ (good_step ha.good hstep)⟩

theorem ann_hFree {p : PState} {g : GState} (ha : Ann p g) (t : Tid) (h : p.phase = .ready t) :
    ∃ g', Ann { p with s := doAccess p.s t obj true, phase := .freed t } g' := by
  have hall := ha.ready_all t (Or.inl h)
  have hne : g.shares ≠ [] := ha.some_share (by rw [h]; simp)
  obtain ⟨sh0, hsh0⟩ := List.exists_mem_of_ne_nil _ hne
  have hstep := DStep.write g t obj (fun sh hsh _ => hall sh hsh) ⟨sh0, hsh0, ha.all_obj sh0 hsh0⟩
  refine ⟨_, ann_access ha t true (.freed t) ?_ ?_ ?_ ?_ _ (good_step ha.good hstep)⟩
  · intro x hx; rw [h] at hx; rcases hx with hx | hx | hx <;> cases hx; exact Or.inr (Or.inr rfl)
  · intro _; rw [h]; simp
  · intro x hx; cases hx
  · intro x hx; rcases hx with hx | hx <;> cases hx; exact Or.inl h

theorem relabel_ne_nil {shares : List Share} (f : Share → Holder) (h : shares ≠ []) : relabel shares f ≠ [] := by
  simpa [relabel] using h

theorem mem_relabel {shares : List Share} {f : Share → Holder} {sh' : Share} (h : sh' ∈ relabel shares f) :
    ∃ sh ∈ shares, sh' = { sh with holder := f sh } := by
  obtain ⟨sh, hsh, rfl⟩ := List.mem_map.mp h
  exact ⟨sh, hsh, rfl⟩

theorem relabel_mem {shares : List Share} (f : Share → Holder) {sh : Share} (h : sh ∈ shares) :
    { sh with holder := f sh } ∈ relabel shares f := List.mem_map.mpr ⟨sh, h, rfl⟩

theorem isMsg_iff {h : Holder} : isMsg h = true ↔ ∃ i, h = .msg i := by
  cases h <;> simp [isMsg]

theorem collector_unique {ph : Phase} {a b : Tid} (ha : collector ph a) (hb : collector ph b) : a = b := by
  rcases ha with h | h | h <;> rcases hb with h' | h' | h' <;> rw [h] at h' <;> cases h' <;> rfl

theorem ann_hFence {p : PState} {g : GState} (ha : Ann p g) (t : Tid) (h : p.phase = .last t) :
    ∃ g', Ann { p with s := setThr p.s t { p.s.thr t with cur := (p.s.thr t).cur ++ (p.s.thr t).acq }, phase := .ready t } g' := by
  have hhold : p.holding = [] := ha.excl (by rw [h]; simp)
  have hstep := DStep.fenceTake g t (fun sh => isMsg sh.holder)
    (by intro sh hsh hm
        obtain ⟨i, hi⟩ := isMsg_iff.mp hm
        refine ⟨i, hi, ?_⟩
        intro e he
        rw [ha.proj] at he ⊢
        exact ha.last_acq t h sh hsh i hi e he)
  -- every share ends up with the collector
  have hall : ∀ sh ∈ g.shares, (if isMsg sh.holder = true then Holder.thread t else sh.holder) = .thread t := by
    intro sh hsh
    by_cases hm : isMsg sh.holder = true
    · simp [hm]
    · simp [hm]
      rcases ha.cls sh hsh with ⟨t', ht', _⟩ | hm' | ⟨c, hc, hcc⟩
      · rw [hhold] at ht'; cases ht'
      · exact absurd hm' hm
      · rw [hc, collector_unique hcc (Or.inl h)]
  refine ⟨_, ⟨by simp [ha.proj], good_step ha.good hstep, ?_, ha.nonempty, ha.cnt, ha.nodup, ?_, ?_, ?_, ?_, ?_, ?_, ?_, ha.vals, ?_⟩⟩
  · intro x hx; obtain ⟨x0, hx0, rfl⟩ := mem_relabel hx; exact ha.all_obj x0 hx0
  · intro i hi e he; exact ha.chain i hi e he
  · intro t' ht'; rw [hhold] at ht'; cases ht'
  · intro x hx
    obtain ⟨x0, hx0, rfl⟩ := mem_relabel hx
    exact Or.inr (Or.inr ⟨t, hall x0 hx0, Or.inr (Or.inl rfl)⟩)
  · intro _; exact hhold
  · intro x hx; cases hx
  · intro x hx sh hsh
    have hxt : x = t := by rcases hx with hx | hx <;> cases hx; rfl
    subst hxt
    obtain ⟨x0, hx0, rfl⟩ := mem_relabel hsh
    exact hall x0 hx0
  · intro _; exact relabel_ne_nil _ (ha.some_share (by rw [h]; simp))
  · intro x hx
    have := (ha.sole_all x hx).1
    rw [hhold] at this; cases this

/-! facts about the decrement -/

theorem dec_msgs (s : State) (t : Tid) (o : Ord) :
    (decState s t o).msgs = s.msgs ++
      [{ val := lastVal s - 1,
         view := (if o.hasRel then ((doRead s t (lastIdx s) o).thr t).cur else ((doRead s t (lastIdx s) o).thr t).rel) ++ lastView s }] := by
  simp [decState, doWrite]

theorem dec_lastIdx (s : State) (t : Tid) (o : Ord) : lastIdx (decState s t o) = s.msgs.length := by
  simp [lastIdx, dec_msgs]

theorem dec_lastVal (s : State) (t : Tid) (o : Ord) : lastVal (decState s t o) = lastVal s - 1 := by
  simp [lastVal, dec_lastIdx, dec_msgs]

theorem dec_lastView_sub (s : State) (t : Tid) (o : Ord) : ∀ e ∈ lastView s, e ∈ lastView (decState s t o) := by
  intro e he
  simp only [lastView, dec_lastIdx, dec_msgs]
  simp
  right; exact he

theorem dec_view_old (s : State) (t : Tid) (o : Ord) (i : Nat) (hi : i < s.msgs.length) :
    viewOf (decState s t o) (.msg i) = viewOf s (.msg i) := by
  simp only [viewOf, dec_msgs, List.getElem?_append_left hi]

theorem dec_view_new (s : State) (t : Tid) (o : Ord) :
    viewOf (decState s t o) (.msg s.msgs.length) = lastView (decState s t o) := by
  simp [viewOf, lastView, dec_lastIdx]

theorem dec_acq_relaxed (s : State) (t : Tid) (o : Ord) (h : o.hasAcq = false) :
    ∀ e ∈ lastView s, e ∈ ((decState s t o).thr t).acq := by
  intro e he
  simp [decState, doWrite, doRead, h, lastView] at he ⊢
  right; exact he


theorem ann_hDec {oSub : Ord} (hrel : oSub.hasRel = true) {p : PState} {g : GState} (ha : Ann p g) (t : Tid)
    (h : t ∈ p.holding) :
    ∃ g', Ann { s := decState p.s t oSub, holding := p.holding.erase t,
                phase := if lastVal p.s = 1 then (if oSub.hasAcq then .ready t else .last t) else p.phase } g' := by
  have hphase : p.phase = .none := by
    cases hp : p.phase with
    | none => rfl
    | _ => have := ha.excl (by rw [hp]; simp); rw [this] at h; cases h
  have hnocoll : ∀ c, ¬ collector p.phase c := by
    intro c hc; rw [hphase] at hc; rcases hc with hc | hc | hc <;> cases hc
  have hlen : g.m.msgs.length = p.s.msgs.length := by rw [ha.proj]
  let v := lastVal p.s
  let give : Share → Bool := fun sh => decide (sh.holder = .thread t) && decide (v ≠ 1)
  let take : Share → Bool := fun sh => isMsg sh.holder && decide (v = 1) && oSub.hasAcq
  have hstep := DStep.rmwTakeGive g t (v - 1) oSub take give
    (by intro sh hsh htk
        simp only [take, Bool.and_eq_true] at htk
        obtain ⟨i, hi⟩ := isMsg_iff.mp htk.1.1
        refine ⟨i, hi, ?_⟩
        intro e he
        rw [ha.proj] at he ⊢
        have hiv : i < p.s.msgs.length := by rw [← hlen]; exact ha.good.msg_valid sh hsh i hi
        exact ha.chain i hiv e he)
    (by rintro ⟨sh, _, htk⟩; simp only [take, Bool.and_eq_true] at htk; exact htk.2)
    (by intro sh _ hgv; simp only [give, Bool.and_eq_true, decide_eq_true_eq] at hgv; exact Or.inl hgv.1)
    (fun _ => hrel)
  have hproj : doWrite (doRead g.m t (lastIdx g.m) oSub) t (v - 1) oSub (viewOf g.m (.msg (lastIdx g.m))) = decState p.s t oSub := by
    rw [ha.proj]; rfl
  refine ⟨_, ⟨hproj, good_step ha.good hstep, ?_, ?_, ?_, ha.nodup.erase t, ?_, ?_, ?_, ?_, ?_, ?_, ?_, ?_, ?_⟩⟩
  · intro x hx; obtain ⟨x0, hx0, rfl⟩ := mem_relabel hx; exact ha.all_obj x0 hx0
  · simp [dec_msgs]
  · rw [dec_lastVal, List.length_erase_of_mem h, ha.cnt]
  · -- chain
    intro i hi e he
    simp only [dec_msgs, List.length_append, List.length_singleton] at hi
    by_cases hio : i < p.s.msgs.length
    · rw [dec_view_old _ _ _ _ hio] at he
      exact dec_lastView_sub _ _ _ e (ha.chain i hio e he)
    · have : i = p.s.msgs.length := by omega
      subst this
      rw [dec_view_new] at he; exact he
  · -- own
    intro t' ht'
    have hne : t' ≠ t := fun heq => by subst heq; exact (List.Nodup.not_mem_erase ha.nodup) ht'
    obtain ⟨sh, hsh, hh⟩ := ha.own t' (List.mem_of_mem_erase ht')
    refine ⟨_, relabel_mem _ hsh, ?_⟩
    have hg : give sh = false := by simp [give, hh, hne]
    have htk : take sh = false := by simp [take, hh, isMsg]
    simp [hg, htk, hh]
  · -- cls
    intro x hx
    obtain ⟨x0, hx0, rfl⟩ := mem_relabel hx
    by_cases hg : give x0 = true
    · simp [hg, isMsg]
    · have hg' : give x0 = false := by simpa using hg
      by_cases htk : take x0 = true
      · simp only [take, Bool.and_eq_true, decide_eq_true_eq] at htk
        simp only [hg', htk.1.1, htk.1.2, htk.2, Bool.and_self, decide_true, if_true, Bool.false_eq_true, if_false, take]
        refine Or.inr (Or.inr ⟨t, rfl, ?_⟩)
        simp [v] at htk
        simp [htk.1.2, htk.2, collector]
      · have htk' : take x0 = false := by simpa using htk
        simp only [hg', htk', Bool.false_eq_true, if_false]
        rcases ha.cls x0 hx0 with ⟨t', ht', hh'⟩ | hm | ⟨c, _, hcc⟩
        · by_cases heq : t' = t
          · subst heq
            -- own share kept: only when v = 1, and then t becomes the collector
            have hv1 : v = 1 := by
              simp only [give, hh', decide_true, Bool.true_and, decide_eq_false_iff_not, Decidable.not_not] at hg'
              exact hg'
            refine Or.inr (Or.inr ⟨t', hh', ?_⟩)
            simp only [v] at hv1
            simp only [hv1, if_true]
            by_cases hacq : oSub.hasAcq = true
            · simp [hacq, collector]
            · simp [hacq, collector]
          · exact Or.inl ⟨t', (List.mem_erase_of_ne heq).mpr ht', hh'⟩
        · exact Or.inr (Or.inl hm)
        · exact absurd hcc (hnocoll c)
  · -- excl
    intro hne
    by_cases hv1 : lastVal p.s = 1
    · have hl : p.holding.length = 1 := by rw [← ha.cnt]; exact hv1
      have : (p.holding.erase t).length = 0 := by rw [List.length_erase_of_mem h, hl]
      exact List.eq_nil_of_length_eq_zero this
    · simp [hv1, hphase] at hne
  · -- last_acq
    intro x hx sh hsh i hi e he
    by_cases hv1 : lastVal p.s = 1
    · simp only [hv1, if_true] at hx
      by_cases hacq : oSub.hasAcq = true
      · simp [hacq] at hx
      · have hacq' : oSub.hasAcq = false := by simpa using hacq
        simp only [hacq', Bool.false_eq_true, if_false] at hx
        cases hx
        obtain ⟨x0, hx0, rfl⟩ := mem_relabel hsh
        -- nothing is given when v = 1, nothing is taken without acquire: the holder is an old message
        have hg : give x0 = false := by simp [give, v, hv1]
        have htk : take x0 = false := by simp [take, hacq']
        simp only [hg, htk, Bool.false_eq_true, if_false] at hi
        have hiv : i < p.s.msgs.length := by rw [← hlen]; exact ha.good.msg_valid x0 hx0 i hi
        rw [dec_view_old _ _ _ _ hiv] at he
        exact dec_acq_relaxed _ _ _ hacq' e (ha.chain i hiv e he)
    · simp [hv1, hphase] at hx
  · -- ready_all
    intro x hx sh hsh
    by_cases hv1 : lastVal p.s = 1
    · simp only [hv1, if_true] at hx
      by_cases hacq : oSub.hasAcq = true
      · simp only [hacq, if_true] at hx
        have hxt : x = t := by rcases hx with hx | hx <;> cases hx; rfl
        subst hxt
        obtain ⟨x0, hx0, rfl⟩ := mem_relabel hsh
        have hg : give x0 = false := by simp [give, v, hv1]
        by_cases hm : isMsg x0.holder = true
        · have htk : take x0 = true := by simp [take, hm, v, hv1, hacq]
          simp [hg, htk]
        · have htk : take x0 = false := by simp [take, hm]
          simp only [hg, htk, Bool.false_eq_true, if_false]
          have hl : p.holding.length = 1 := by rw [← ha.cnt]; exact hv1
          rcases ha.cls x0 hx0 with ⟨t', ht', hh'⟩ | hm' | ⟨c, _, hcc⟩
          · -- the only holder left is t itself
            have : t' = x := by
              match hp : p.holding, hl, ht', h with
              | [a], _, ht', h => simp at ht' h; rw [ht', h]
            rw [hh', this]
          · exact absurd hm' hm
          · exact absurd hcc (hnocoll c)
      · simp [hacq] at hx
    · simp [hv1, hphase] at hx
  · intro _
    obtain ⟨sh, hsh, _⟩ := ha.own t h
    exact relabel_ne_nil _ (List.ne_nil_of_mem hsh)
  · -- vals
    intro i hi
    have hL : 1 ≤ p.holding.length := List.length_pos_of_mem h
    simp only [dec_msgs, List.length_append, List.length_singleton] at hi ⊢
    rw [List.length_erase_of_mem h]
    by_cases hio : i < p.s.msgs.length
    · rw [List.getElem?_append_left hio, ha.vals i hio]; omega
    · have : i = p.s.msgs.length := by omega
      subst this
      simp
      rw [ha.cnt]
  · intro x hx; cases hx

theorem doRead_view (s : State) (t j : Nat) (o : Ord) (h : Holder) (hh : isMsg h = true) :
    viewOf (doRead s t j o) h = viewOf s h := by
  obtain ⟨i, rfl⟩ := isMsg_iff.mp hh
  simp [viewOf]

theorem ann_hGuard {oG : Ord} (hacq : oG.hasAcq = true) {p : PState} {g : GState} (ha : Ann p g) (t : Tid) (j : Nat)
    (h : t ∈ p.holding) (hj : j < p.s.msgs.length) (hs : (p.s.thr t).seen ≤ j) :
    ∃ g', Ann { p with s := doRead p.s t j oG,
                       sole := if (p.s.msgs[j]?.map (·.val)) = some 1 then some t else p.sole } g' := by
  have hphase : p.phase = .none := by
    cases hp : p.phase with
    | none => rfl
    | _ => have := ha.excl (by rw [hp]; simp); rw [this] at h; cases h
  have hnocoll : ∀ c, ¬ collector p.phase c := by
    intro c hc; rw [hphase] at hc; rcases hc with hc | hc | hc <;> cases hc
  have hjg : j < g.m.msgs.length := by rw [ha.proj]; exact hj
  have hsg : (g.m.thr t).seen ≤ j := by rw [ha.proj]; exact hs
  have hmsgs : (doRead p.s t j oG).msgs = p.s.msgs := by simp
  have hlv : lastVal (doRead p.s t j oG) = lastVal p.s := by simp [lastVal, lastIdx]
  have hlw : lastView (doRead p.s t j oG) = lastView p.s := by simp [lastView, lastIdx]
  by_cases hval : (p.s.msgs[j]?.map (·.val)) = some 1
  · -- the holder read 1: it is the only holder and `j` is the last message
    have hv := ha.vals j hj
    rw [hval] at hv
    simp at hv
    have hL : 1 ≤ p.holding.length := List.length_pos_of_mem h
    have hL1 : p.holding.length = 1 := by omega
    have hjl : j = lastIdx p.s := by simp [lastIdx]; omega
    have hhold : p.holding = [t] := by
      match hp : p.holding, hL1, h with
      | [a], _, h => simp at h; rw [h]
    have hstep := DStep.loadTake g t j oG (fun sh => isMsg sh.holder) hjg hsg
      (by intro sh hsh hm
          obtain ⟨i, hi⟩ := isMsg_iff.mp hm
          refine ⟨i, hi, ?_⟩
          intro e he
          rw [ha.proj] at he ⊢
          have hiv : i < p.s.msgs.length := by
            have := ha.good.msg_valid sh hsh i hi; rwa [ha.proj] at this
          have := ha.chain i hiv e he
          rw [hjl]; exact this)
      (fun _ => hacq)
    have hall : ∀ sh ∈ g.shares, (if isMsg sh.holder = true then Holder.thread t else sh.holder) = .thread t := by
      intro sh hsh
      by_cases hm : isMsg sh.holder = true
      · simp [hm]
      · simp [hm]
        rcases ha.cls sh hsh with ⟨t', ht', hh'⟩ | hm' | ⟨c, _, hcc⟩
        · rw [hhold] at ht'; simp at ht'; rw [hh', ht']
        · exact absurd hm' hm
        · exact absurd hcc (hnocoll c)
    refine ⟨_, ⟨by simp [ha.proj], good_step ha.good hstep, ?_, by rw [hmsgs]; exact ha.nonempty, by rw [hlv]; exact ha.cnt,
      ha.nodup, ?_, ?_, ?_, ha.excl, ?_, ?_, ?_, by rw [hmsgs]; exact ha.vals, ?_⟩⟩
    · intro x hx; obtain ⟨x0, hx0, rfl⟩ := mem_relabel hx; exact ha.all_obj x0 hx0
    · intro i hi e he
      rw [hmsgs] at hi; rw [hlw]
      rw [doRead_view _ _ _ _ _ rfl] at he
      exact ha.chain i hi e he
    · intro t' ht'
      rw [hhold] at ht'; simp at ht'; subst ht'
      obtain ⟨sh, hsh, _⟩ := ha.own t' h
      exact ⟨_, relabel_mem _ hsh, hall sh hsh⟩
    · intro x hx
      obtain ⟨x0, hx0, rfl⟩ := mem_relabel hx
      exact Or.inl ⟨t, h, hall x0 hx0⟩
    · intro x hx; rw [hphase] at hx; cases hx
    · intro x hx; rw [hphase] at hx; rcases hx with hx | hx <;> cases hx
    · intro hne; exact absurd hphase hne
    · intro x hx
      simp only [hval, if_true] at hx
      cases hx
      refine ⟨hhold, ?_⟩
      intro sh hsh
      obtain ⟨x0, hx0, rfl⟩ := mem_relabel hsh
      exact hall x0 hx0
  · -- any other value: just a load
    have hstep := DStep.loadTake g t j oG (fun _ => false) hjg hsg (by intro _ _ h; cases h) (by rintro ⟨_, _, h⟩; cases h)
    have hgood := good_step ha.good hstep
    have hsame : relabel g.shares (fun sh => if (fun _ => false) sh = true then Holder.thread t else sh.holder) = g.shares := by
      simp [relabel]
    rw [hsame] at hgood
    refine ⟨_, ⟨by simp [ha.proj], hgood, ha.all_obj, by rw [hmsgs]; exact ha.nonempty, by rw [hlv]; exact ha.cnt,
      ha.nodup, ?_, ha.own, ha.cls, ha.excl, ?_, ha.ready_all, ha.some_share, by rw [hmsgs]; exact ha.vals, ?_⟩⟩
    · intro i hi e he
      rw [hmsgs] at hi; rw [hlw]
      rw [doRead_view _ _ _ _ _ rfl] at he
      exact ha.chain i hi e he
    · intro x hx; rw [hphase] at hx; cases hx
    · intro x hx
      simp only [hval, if_false] at hx
      exact ha.sole_all x hx

theorem ann_hMove {p : PState} {g : GState} (ha : Ann p g) (t : Tid) (h : t ∈ p.holding) (hsole : p.sole = some t) :
    ∃ g', Ann { p with s := doAccess p.s t obj true } g' := by
  obtain ⟨_, hall⟩ := ha.sole_all t hsole
  obtain ⟨sh0, hsh0, _⟩ := ha.own t h
  have hstep := DStep.write g t obj (fun sh hsh _ => hall sh hsh) ⟨sh0, hsh0, ha.all_obj sh0 hsh0⟩
  exact ⟨_, ann_access ha t true p.phase (fun _ h => h) (fun h => h) (fun _ h => h) (fun _ h => h) _ (good_step ha.good hstep)⟩

/-- **Reference counting is race free** with a release decrement and an acquire (order or fence) by the last
    holder: destruction happens after every other access, for every number of holders and every interleaving. -/
theorem rc_race_free {oSub oG : Ord} {n : Nat} (hrel : oSub.hasRel = true) (hacq : oG.hasAcq = true) {p : PState}
    (h : PReach oSub oG n p) : p.s.race = false := by
  have key : ∃ g, Ann p g := by
    induction h with
    | init => exact ⟨_, ann_init n⟩
    | step _ hs ih =>
        obtain ⟨g, ha⟩ := ih
        cases hs with
        | hRead t ht => exact ann_hRead ha t ht
        | hDec t ht => exact ann_hDec hrel ha t ht
        | hFence t ht => exact ann_hFence ha t ht
        | hFree t ht => exact ann_hFree ha t ht
        | hGuard t j ht hj hs => exact ann_hGuard hacq ha t j ht hj hs
        | hMove t ht hsole => exact ann_hMove ha t ht hsole
  obtain ⟨g, ha⟩ := key
  rw [← ha.proj]; exact ha.good.no_race

/-- the release on the decrement is necessary: with a relaxed decrement the destruction races with a read
    made by another holder (two holders) -/
theorem rc_relaxed_decrement_races : ∃ p, PReach .rlx .acq 2 p ∧ p.s.race = true := by
  have h0 : PReach .rlx .acq 2 (pinit 2) := .init
  have h1 := PReach.step h0 (.hRead _ 0 (by decide))
  have h2 := PReach.step h1 (.hDec _ 0 (by decide))
  have h3 := PReach.step h2 (.hDec _ 1 (by decide))
  have h4 := PReach.step h3 (.hFence _ 1 (by decide))
  have h5 := PReach.step h4 (.hFree _ 1 (by decide))
  exact ⟨_, h5, by decide⟩

/-- the acquire on the guarding read is necessary (defect D9 of the pinned tree): a holder that reads `count == 1`
    with a relaxed load and moves the value out races with the read of a holder that has already let go -/
theorem rc_relaxed_guard_races : ∃ p, PReach .rel .rlx 2 p ∧ p.s.race = true := by
  have h0 : PReach .rel .rlx 2 (pinit 2) := .init
  have h1 := PReach.step h0 (.hRead _ 0 (by decide))
  have h2 := PReach.step h1 (.hDec _ 0 (by decide))
  have h3 := PReach.step h2 (.hGuard _ 1 1 (by decide) (by decide) (by decide))
  have h4 := PReach.step h3 (.hMove _ 1 (by decide) (by decide))
  exact ⟨_, h4, by decide⟩

end Yaclib.RA.RC
