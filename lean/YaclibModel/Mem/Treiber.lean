/-
Instance 4 of the ownership discipline — **hand-off through a word that only RMWs modify** (the LIFO callback
list of a shared state, the strand's inbox, the one-shot event's waiter list, the unique state's callback slot,
the coroutine mutex' sender stack): a thread prepares a node (plain writes), publishes it with an RMW of order
`oPush`; a thread that takes with an RMW of order `oTake` (exchange) owns every node published so far and may
read / write / free it.  Which nodes the taker really finds in the value is a sequentially-consistent matter
(the functional models); here the taker is given everything in flight, a superset.

Theorem: release on the publishing RMW and acquire on the taking RMW ⇒ no execution races on any node, for every
number of threads and nodes and every interleaving.
-/
import YaclibModel.Mem.OwnProofs

namespace Yaclib.RA.Treiber

structure PState where
  s : State
  has : Tid → List Loc        -- nodes a thread owns (prepared and not yet published, or taken)
  inflight : List Loc         -- published, not yet taken
  used : List Loc             -- every node ever prepared

def lastView (s : State) : View := (s.msgs[lastIdx s]?.map (·.view)).getD []

def pinit : PState := { s := init 0, has := fun _ => [], inflight := [], used := [] }

def rmwState (s : State) (t : Tid) (v : Nat) (o : Ord) : State :=
  doWrite (doRead s t (lastIdx s) o) t v o (lastView s)

inductive PStep (oPush oTake : Ord) : PState → PState → Prop where
  /-- a new node -/
  | prepare (p : PState) (t : Tid) (n : Loc) (hfresh : n ∉ p.used) :
      PStep oPush oTake p { p with has := fun t' => if t' = t then n :: p.has t else p.has t', used := n :: p.used }
  /-- any access to a node the thread owns -/
  | use (p : PState) (t : Tid) (n : Loc) (w : Bool) (h : n ∈ p.has t) :
      PStep oPush oTake p { p with s := doAccess p.s t n w }
  /-- publish node `n` (the value written is irrelevant here) -/
  | push (p : PState) (t : Tid) (n : Loc) (v : Nat) (h : n ∈ p.has t) :
      PStep oPush oTake p { p with s := rmwState p.s t v oPush,
                                   has := fun t' => if t' = t then (p.has t).filter (· ≠ n) else p.has t',
                                   inflight := n :: p.inflight }
  /-- take everything published so far -/
  | take (p : PState) (t : Tid) (v : Nat) :
      PStep oPush oTake p { p with s := rmwState p.s t v oTake,
                                   has := fun t' => if t' = t then p.inflight ++ p.has t else p.has t',
                                   inflight := [] }
  /-- loads / failed CASes of the word: pre-checks -/
  | peek (p : PState) (t : Tid) (j : Nat) (o : Ord) (hj : j < p.s.msgs.length) (hs : (p.s.thr t).seen ≤ j) :
      PStep oPush oTake p { p with s := doRead p.s t j o }

inductive PReach (oPush oTake : Ord) : PState → Prop where
  | init : PReach oPush oTake pinit
  | step {p p'} : PReach oPush oTake p → PStep oPush oTake p p' → PReach oPush oTake p'

def isMsg : Holder → Bool
  | .msg _ => true
  | .thread _ => false

theorem isMsg_iff {h : Holder} : isMsg h = true ↔ ∃ i, h = .msg i := by
  cases h <;> simp [isMsg]

/-- ghost annotation: exactly one share per node; it is with the owning thread or in a message -/
structure Ann (p : PState) (g : GState) : Prop where
  proj : g.m = p.s
  good : Good g
  nonempty : p.s.msgs ≠ []
  /-- all writes are RMWs: every message's view is contained in the last one's -/
  chain : ∀ i, i < p.s.msgs.length → ∀ e ∈ viewOf p.s (.msg i), e ∈ lastView p.s
  /-- the shares are exactly the used nodes, one each -/
  locs : g.shares.map (·.loc) = p.used
  nodup : p.used.Nodup
  owned : ∀ t n, n ∈ p.has t → ∀ sh ∈ g.shares, sh.loc = n → sh.holder = .thread t
  has_used : ∀ t n, n ∈ p.has t → n ∈ p.used
  flying : ∀ n ∈ p.inflight, ∀ sh ∈ g.shares, sh.loc = n → isMsg sh.holder = true
  fly_used : ∀ n ∈ p.inflight, n ∈ p.used
  /-- a share in a message belongs to an in-flight node -/
  msg_fly : ∀ sh ∈ g.shares, isMsg sh.holder = true → sh.loc ∈ p.inflight
  /-- no access to a node that has not been prepared -/
  log_used : ∀ a ∈ p.s.log, a.loc ∈ p.used

theorem mem_relabel {shares : List Share} {f : Share → Holder} {sh' : Share} (h : sh' ∈ relabel shares f) :
    ∃ sh ∈ shares, sh' = { sh with holder := f sh } := by
  obtain ⟨sh, hsh, rfl⟩ := List.mem_map.mp h
  exact ⟨sh, hsh, rfl⟩

theorem relabel_locs (shares : List Share) (f : Share → Holder) : (relabel shares f).map (·.loc) = shares.map (·.loc) := by
  simp [relabel, List.map_map, Function.comp_def]

theorem addHist_locs (shares : List Share) (sel : Share → Bool) (e : Ev) :
    (addHist shares sel e).map (·.loc) = shares.map (·.loc) := by
  simp only [addHist, List.map_map]
  congr 1
  funext sh
  by_cases h : sel sh = true <;> simp [h]

theorem share_of_used {p : PState} {g : GState} (ha : Ann p g) {n : Loc} (hn : n ∈ p.used) : ∃ sh ∈ g.shares, sh.loc = n := by
  rw [← ha.locs] at hn
  obtain ⟨sh, hsh, hl⟩ := List.mem_map.mp hn
  exact ⟨sh, hsh, hl⟩

theorem loc_used {p : PState} {g : GState} (ha : Ann p g) {sh : Share} (hsh : sh ∈ g.shares) : sh.loc ∈ p.used := by
  rw [← ha.locs]; exact List.mem_map.mpr ⟨sh, hsh, rfl⟩

theorem ann_init : Ann pinit { m := init 0, shares := [] } := by
  refine ⟨rfl, good_init 0, by simp [pinit, init], ?_, rfl, List.nodup_nil, ?_, ?_, ?_, ?_, ?_, ?_⟩
  · intro i hi e he
    have : i = 0 := by simp [pinit, init] at hi; omega
    subst this; simp [pinit, init, viewOf] at he
  all_goals simp [pinit, init]

theorem ann_prepare {p : PState} {g : GState} (ha : Ann p g) (t : Tid) (n : Loc) (hfresh : n ∉ p.used) :
    ∃ g', Ann { p with has := fun t' => if t' = t then n :: p.has t else p.has t', used := n :: p.used } g' := by
  have hstep := DStep.alloc g t n
    (by intro a hal heq; rw [ha.proj] at hal; exact hfresh (heq ▸ ha.log_used a hal))
    (by intro sh hsh heq; exact hfresh (heq ▸ loc_used ha hsh))
  refine ⟨{ g with shares := { loc := n, holder := .thread t, hist := [] } :: g.shares },
    ⟨ha.proj, good_step ha.good hstep, ha.nonempty, ha.chain, by simp [ha.locs], List.nodup_cons.mpr ⟨hfresh, ha.nodup⟩,
    ?_, ?_, ?_, ?_, ?_, ?_⟩⟩
  · intro t' n' hn' sh hsh hl
    rcases List.mem_cons.mp hsh with h | h
    · subst h
      simp only at hl
      by_cases htt : t' = t
      · subst htt; rfl
      · simp only [htt, if_false] at hn'
        exact absurd (hl ▸ ha.has_used t' n' hn') hfresh
    · have hlu := loc_used ha h
      by_cases htt : t' = t
      · subst htt
        simp only [if_true] at hn'
        rcases List.mem_cons.mp hn' with h' | h'
        · subst h'; rw [hl] at hlu; exact absurd hlu hfresh
        · exact ha.owned t' n' h' sh h hl
      · simp only [htt, if_false] at hn'
        exact ha.owned t' n' hn' sh h hl
  · intro t' n' hn'
    by_cases htt : t' = t
    · subst htt
      simp only [if_true] at hn'
      rcases List.mem_cons.mp hn' with h' | h'
      · subst h'; exact List.mem_cons_self ..
      · exact List.mem_cons_of_mem _ (ha.has_used t' n' h')
    · simp only [htt, if_false] at hn'
      exact List.mem_cons_of_mem _ (ha.has_used t' n' hn')
  · intro n' hn' sh hsh hl
    rcases List.mem_cons.mp hsh with h | h
    · subst h; simp only at hl; exact absurd (hl ▸ ha.fly_used n' hn') hfresh
    · exact ha.flying n' hn' sh h hl
  · intro n' hn'; exact List.mem_cons_of_mem _ (ha.fly_used n' hn')
  · intro sh hsh hm
    rcases List.mem_cons.mp hsh with h | h
    · subst h; simp [isMsg] at hm
    · exact ha.msg_fly sh h hm
  · intro a hal; exact List.mem_cons_of_mem _ (ha.log_used a hal)

theorem ann_use {p : PState} {g : GState} (ha : Ann p g) (t : Tid) (n : Loc) (w : Bool) (h : n ∈ p.has t) :
    ∃ g', Ann { p with s := doAccess p.s t n w } g' := by
  obtain ⟨sh0, hsh0, hl0⟩ := share_of_used ha (ha.has_used t n h)
  have hh0 := ha.owned t n h sh0 hsh0 hl0
  have common : ∀ (sel : Share → Bool), Good { m := doAccess g.m t n w, shares := addHist g.shares sel g.m.log.length } →
      Ann { p with s := doAccess p.s t n w } { m := doAccess g.m t n w, shares := addHist g.shares sel g.m.log.length } := by
    intro sel hgood
    refine ⟨by rw [ha.proj], hgood, ha.nonempty, ha.chain, by rw [addHist_locs]; exact ha.locs, ha.nodup, ?_, ha.has_used, ?_,
      ha.fly_used, ?_, ?_⟩
    · intro t' n' hn' sh hsh hl
      obtain ⟨x0, hx0, hloc, hhold, _⟩ := mem_addHist hsh
      rw [hhold]; exact ha.owned t' n' hn' x0 hx0 (hloc ▸ hl)
    · intro n' hn' sh hsh hl
      obtain ⟨x0, hx0, hloc, hhold, _⟩ := mem_addHist hsh
      rw [hhold]; exact ha.flying n' hn' x0 hx0 (hloc ▸ hl)
    · intro sh hsh hm
      obtain ⟨x0, hx0, hloc, hhold, _⟩ := mem_addHist hsh
      rw [hloc]; exact ha.msg_fly x0 hx0 (hhold ▸ hm)
    · intro a hal
      simp only [doAccess_log, List.mem_append, List.mem_singleton] at hal
      rcases hal with hal | hal
      · exact ha.log_used a hal
      · subst hal; exact ha.has_used t n h
  cases w with
  | false => exact ⟨_, common _ (good_step ha.good (DStep.read g t n sh0 hsh0 hl0 hh0))⟩
  | true =>
      exact ⟨_, common _ (good_step ha.good (DStep.write g t n (fun sh hsh hl => ha.owned t n h sh hsh hl) ⟨sh0, hsh0, hl0⟩))⟩

/-! facts about the RMW -/
theorem rmw_msgs (s : State) (t : Tid) (v : Nat) (o : Ord) :
    (rmwState s t v o).msgs = s.msgs ++
      [{ val := v,
         view := (if o.hasRel then ((doRead s t (lastIdx s) o).thr t).cur else ((doRead s t (lastIdx s) o).thr t).rel) ++ lastView s }] := by
  simp [rmwState, doWrite]

theorem rmw_lastIdx (s : State) (t : Tid) (v : Nat) (o : Ord) : lastIdx (rmwState s t v o) = s.msgs.length := by
  simp [lastIdx, rmw_msgs]

theorem rmw_lastView_sub (s : State) (t : Tid) (v : Nat) (o : Ord) : ∀ e ∈ lastView s, e ∈ lastView (rmwState s t v o) := by
  intro e he
  simp only [lastView, rmw_lastIdx, rmw_msgs]
  simp
  right; exact he

theorem rmw_view_old (s : State) (t : Tid) (v : Nat) (o : Ord) (i : Nat) (hi : i < s.msgs.length) :
    viewOf (rmwState s t v o) (.msg i) = viewOf s (.msg i) := by
  simp only [viewOf, rmw_msgs, List.getElem?_append_left hi]

theorem rmw_view_new (s : State) (t : Tid) (v : Nat) (o : Ord) :
    viewOf (rmwState s t v o) (.msg s.msgs.length) = lastView (rmwState s t v o) := by
  simp [viewOf, lastView, rmw_lastIdx]

theorem rmw_log (s : State) (t : Tid) (v : Nat) (o : Ord) : (rmwState s t v o).log = s.log := by
  simp [rmwState]

theorem rmw_chain {p : PState} {g : GState} (ha : Ann p g) (t : Tid) (v : Nat) (o : Ord) :
    ∀ i, i < (rmwState p.s t v o).msgs.length → ∀ e ∈ viewOf (rmwState p.s t v o) (.msg i), e ∈ lastView (rmwState p.s t v o) := by
  intro i hi e he
  simp only [rmw_msgs, List.length_append, List.length_singleton] at hi
  by_cases hio : i < p.s.msgs.length
  · rw [rmw_view_old _ _ _ _ _ hio] at he
    exact rmw_lastView_sub _ _ _ _ e (ha.chain i hio e he)
  · have : i = p.s.msgs.length := by omega
    subst this
    rw [rmw_view_new] at he; exact he

theorem ann_push {oPush : Ord} (hrel : oPush.hasRel = true) {p : PState} {g : GState} (ha : Ann p g) (t : Tid) (n : Loc)
    (v : Nat) (h : n ∈ p.has t) :
    ∃ g', Ann { p with s := rmwState p.s t v oPush,
                       has := fun t' => if t' = t then (p.has t).filter (· ≠ n) else p.has t',
                       inflight := n :: p.inflight } g' := by
  have hstep := DStep.rmwTakeGive g t v oPush (fun _ => false) (fun sh => decide (sh.loc = n))
    (by intro _ _ h; cases h) (by rintro ⟨_, _, h⟩; cases h)
    (by intro sh hsh hg; left; exact ha.owned t n h sh hsh (by simpa using hg)) (fun _ => hrel)
  have hninf : n ∉ p.inflight := by
    intro hin
    obtain ⟨sh, hsh, hl⟩ := share_of_used ha (ha.has_used t n h)
    have h1 := ha.owned t n h sh hsh hl
    have h2 := ha.flying n hin sh hsh hl
    rw [h1] at h2; simp [isMsg] at h2
  refine ⟨_, ⟨by rw [ha.proj]; rfl, good_step ha.good hstep, by simp [rmw_msgs], rmw_chain ha t v oPush,
    by rw [relabel_locs]; exact ha.locs, ha.nodup, ?_, ?_, ?_, ?_, ?_, by intro a hal; rw [rmw_log] at hal; exact ha.log_used a hal⟩⟩
  · -- owned
    intro t' n' hn' sh hsh hl
    obtain ⟨x0, hx0, rfl⟩ := mem_relabel hsh
    simp only at hl
    have hne : n' ≠ n := by
      by_cases htt : t' = t
      · subst htt; simp only [if_true, List.mem_filter, decide_eq_true_eq] at hn'; exact hn'.2
      · simp only [htt, if_false] at hn'
        intro heq; subst heq
        have h1 := ha.owned t' n' hn' x0 hx0 hl
        have h2 := ha.owned t n' h x0 hx0 hl
        rw [h1] at h2; cases h2; exact htt rfl
    have hn'' : n' ∈ p.has t' := by
      by_cases htt : t' = t
      · subst htt; simp only [if_true, List.mem_filter] at hn'; exact hn'.1
      · simpa [htt] using hn'
    have : decide (x0.loc = n) = false := by simp [hl, hne]
    simp only [this, Bool.false_eq_true, if_false]
    exact ha.owned t' n' hn'' x0 hx0 hl
  · -- has_used
    intro t' n' hn'
    by_cases htt : t' = t
    · subst htt; simp only [if_true, List.mem_filter] at hn'; exact ha.has_used t' n' hn'.1
    · simp only [htt, if_false] at hn'; exact ha.has_used t' n' hn'
  · -- flying
    intro n' hn' sh hsh hl
    obtain ⟨x0, hx0, rfl⟩ := mem_relabel hsh
    simp only at hl
    rcases List.mem_cons.mp hn' with h' | h'
    · subst h'; simp [hl, isMsg]
    · have hne : n' ≠ n := fun heq => hninf (heq ▸ h')
      have : decide (x0.loc = n) = false := by simp [hl, hne]
      simp only [this, Bool.false_eq_true, if_false]
      exact ha.flying n' h' x0 hx0 hl
  · -- fly_used
    intro n' hn'
    rcases List.mem_cons.mp hn' with h' | h'
    · subst h'; exact ha.has_used t n' h
    · exact ha.fly_used n' h'
  · -- msg_fly
    intro sh hsh hm
    obtain ⟨x0, hx0, rfl⟩ := mem_relabel hsh
    by_cases hg : x0.loc = n
    · simp [hg]
    · have : decide (x0.loc = n) = false := by simp [hg]
      simp only [this, Bool.false_eq_true, if_false] at hm ⊢
      exact List.mem_cons_of_mem _ (ha.msg_fly x0 hx0 hm)

theorem ann_take {oTake : Ord} (hacq : oTake.hasAcq = true) {p : PState} {g : GState} (ha : Ann p g) (t : Tid) (v : Nat) :
    ∃ g', Ann { p with s := rmwState p.s t v oTake,
                       has := fun t' => if t' = t then p.inflight ++ p.has t else p.has t',
                       inflight := [] } g' := by
  have hstep := DStep.rmwTakeGive g t v oTake (fun sh => isMsg sh.holder) (fun _ => false)
    (by intro sh hsh hm
        obtain ⟨i, hi⟩ := isMsg_iff.mp hm
        refine ⟨i, hi, ?_⟩
        intro e he
        rw [ha.proj] at he ⊢
        have hiv : i < p.s.msgs.length := by
          have := ha.good.msg_valid sh hsh i hi; rwa [ha.proj] at this
        exact ha.chain i hiv e he)
    (fun _ => hacq) (by intro _ _ h; cases h) (by rintro ⟨_, _, h⟩; cases h)
  refine ⟨_, ⟨by rw [ha.proj]; rfl, good_step ha.good hstep, by simp [rmw_msgs], rmw_chain ha t v oTake,
    by rw [relabel_locs]; exact ha.locs, ha.nodup, ?_, ?_, ?_, ?_, ?_, by intro a hal; rw [rmw_log] at hal; exact ha.log_used a hal⟩⟩
  · -- owned
    intro t' n' hn' sh hsh hl
    obtain ⟨x0, hx0, rfl⟩ := mem_relabel hsh
    simp only at hl
    simp only [Bool.false_eq_true, if_false]
    by_cases hm : isMsg x0.holder = true
    · -- an in-flight node: it is now with the taker; nobody else can have it
      simp only [hm, if_true]
      have hfly := ha.msg_fly x0 hx0 hm
      by_cases htt : t' = t
      · rw [htt]
      · simp only [htt, if_false] at hn'
        have := ha.owned t' n' hn' x0 hx0 hl
        rw [this] at hm; simp [isMsg] at hm
    · simp only [hm, Bool.false_eq_true, if_false]
      by_cases htt : t' = t
      · subst htt
        simp only [if_true, List.mem_append] at hn'
        rcases hn' with hin | hin
        · exact absurd (ha.flying n' hin x0 hx0 hl) hm
        · exact ha.owned t' n' hin x0 hx0 hl
      · simp only [htt, if_false] at hn'
        exact ha.owned t' n' hn' x0 hx0 hl
  · intro t' n' hn'
    by_cases htt : t' = t
    · subst htt
      simp only [if_true, List.mem_append] at hn'
      rcases hn' with hin | hin
      · exact ha.fly_used n' hin
      · exact ha.has_used t' n' hin
    · simp only [htt, if_false] at hn'; exact ha.has_used t' n' hn'
  · intro n' hn'; cases hn'
  · intro n' hn'; cases hn'
  · intro sh hsh hm
    obtain ⟨x0, hx0, rfl⟩ := mem_relabel hsh
    simp only [Bool.false_eq_true, if_false] at hm
    by_cases hm0 : isMsg x0.holder = true
    · rw [if_pos hm0] at hm; simp [isMsg] at hm
    · rw [if_neg hm0] at hm; exact absurd hm hm0

theorem ann_peek {p : PState} {g : GState} (ha : Ann p g) (t : Tid) (j : Nat) (o : Ord)
    (hj : j < p.s.msgs.length) (hs : (p.s.thr t).seen ≤ j) : ∃ g', Ann { p with s := doRead p.s t j o } g' := by
  have hstep := DStep.loadTake g t j o (fun _ => false) (by rw [ha.proj]; exact hj) (by rw [ha.proj]; exact hs)
    (by intro _ _ h; cases h) (by rintro ⟨_, _, h⟩; cases h)
  have hgood := good_step ha.good hstep
  have hsame : relabel g.shares (fun sh => if (fun _ => false) sh = true then Holder.thread t else sh.holder) = g.shares := by
    simp [relabel]
  rw [hsame] at hgood
  have hlw : lastView (doRead p.s t j o) = lastView p.s := by simp [lastView, lastIdx]
  refine ⟨_, ⟨by rw [ha.proj], hgood, by simpa using ha.nonempty, ?_, ha.locs, ha.nodup, ha.owned, ha.has_used, ha.flying,
    ha.fly_used, ha.msg_fly, by simpa using ha.log_used⟩⟩
  intro i hi e he
  have hm : (doRead p.s t j o).msgs = p.s.msgs := by simp
  rw [hm] at hi; rw [hlw]
  have : viewOf (doRead p.s t j o) (.msg i) = viewOf p.s (.msg i) := by simp [viewOf]
  rw [this] at he
  exact ha.chain i hi e he

/-- **Hand-off through an RMW-only word is race free**: release on the publishing RMW, acquire on the taking RMW;
    any number of threads and nodes, any interleaving, stale pre-check loads. -/
theorem treiber_race_free {oPush oTake : Ord} (hrel : oPush.hasRel = true) (hacq : oTake.hasAcq = true)
    {p : PState} (h : PReach oPush oTake p) : p.s.race = false := by
  have key : ∃ g, Ann p g := by
    induction h with
    | init => exact ⟨_, ann_init⟩
    | step _ hs ih =>
        obtain ⟨g, ha⟩ := ih
        cases hs with
        | prepare t n hfresh => exact ann_prepare ha t n hfresh
        | use t n w hh => exact ann_use ha t n w hh
        | push t n v hh => exact ann_push hrel ha t n v hh
        | take t v => exact ann_take hacq ha t v
        | peek t j o hj hs => exact ann_peek ha t j o hj hs
  obtain ⟨g, ha⟩ := key
  rw [← ha.proj]; exact ha.good.no_race

theorem treiber_relaxed_push_races : ∃ p, PReach .rlx .acq p ∧ p.s.race = true := by
  have h0 : PReach .rlx .acq pinit := .init
  have h1 := PReach.step h0 (.prepare _ 0 7 (by decide))
  have h2 := PReach.step h1 (.use _ 0 7 true (by decide))
  have h3 := PReach.step h2 (.push _ 0 7 1 (by decide))
  have h4 := PReach.step h3 (.take _ 1 0)
  have h5 := PReach.step h4 (.use _ 1 7 false (by decide))
  exact ⟨_, h5, by decide⟩

theorem treiber_relaxed_take_races : ∃ p, PReach .rel .rlx p ∧ p.s.race = true := by
  have h0 : PReach .rel .rlx pinit := .init
  have h1 := PReach.step h0 (.prepare _ 0 7 (by decide))
  have h2 := PReach.step h1 (.use _ 0 7 true (by decide))
  have h3 := PReach.step h2 (.push _ 0 7 1 (by decide))
  have h4 := PReach.step h3 (.take _ 1 0)
  have h5 := PReach.step h4 (.use _ 1 7 false (by decide))
  exact ⟨_, h5, by decide⟩

end Yaclib.RA.Treiber
