/-
A promise-free release/acquire/relaxed memory model with fences for ONE atomic location and any
number of plain (non-atomic) locations, in the view-based operational style (ORC11 / iRC11 fragment;
`seq_cst` is treated as `acq_rel`, which only adds behaviours, so race-freedom results carry over;
no `consume`; load-buffering cycles are excluded as in RC11).

* the atomic location keeps its modification order as a list of messages; a message carries the
  *view* it releases;
* a view is a finite set of plain-access events (a `List`, join = `++`, order = membership): exactly
  the accesses that happen-before whoever holds the view;
* every thread has its current view, an acquire-pending view (fed by relaxed reads, merged by an
  acquire fence), a release-fence view, and a coherence index (`seen`);
* a non-RMW read may return ANY message at or after `seen` (stale reads are behaviours);
  an RMW reads the last message; writes append to the modification order (exact for locations all
  of whose concurrent writers are RMWs or have observed the last message — see DESIGN.md §2.2);
* C++20 release sequences: the message written by an RMW carries the view of the message it read;
* a plain access by `t` to `p` **races** iff an earlier conflicting access to `p` by another thread
  is not in `t`'s current view.  `race` is sticky.
-/
import YaclibModel.Base.Order

namespace Yaclib.RA

abbrev Tid := Nat
abbrev Loc := Nat
abbrev Ev := Nat
abbrev View := List Ev

structure Access where
  id : Ev
  tid : Tid
  loc : Loc
  isWrite : Bool
  deriving DecidableEq, Repr

structure Msg where
  val : Nat
  view : View
  deriving Repr

structure TState where
  cur : View := []
  acq : View := []
  rel : View := []
  seen : Nat := 0
  deriving Repr

structure State where
  msgs : List Msg
  thr : Tid → TState
  log : List Access
  race : Bool

def init (v0 : Nat) : State :=
  { msgs := [{ val := v0, view := [] }], thr := fun _ => {}, log := [], race := false }

def setThr (s : State) (t : Tid) (ts : TState) : State :=
  { s with thr := fun t' => if t' = t then ts else s.thr t' }

/-- does access `a` conflict with a new access of `t` to `p` (write = `w`) that does not know it? -/
def conflicts (s : State) (t : Tid) (p : Loc) (w : Bool) (a : Access) : Prop :=
  a.loc = p ∧ (a.isWrite = true ∨ w = true) ∧ a.tid ≠ t ∧ a.id ∉ (s.thr t).cur

instance (s : State) (t : Tid) (p : Loc) (w : Bool) (a : Access) : Decidable (conflicts s t p w a) := by
  unfold conflicts; exact inferInstance

/-- plain access -/
def doAccess (s : State) (t : Tid) (p : Loc) (w : Bool) : State :=
  let e := s.log.length
  let racy := decide (∃ a ∈ s.log, conflicts s t p w a)
  let ts := s.thr t
  { setThr s t { ts with cur := e :: ts.cur } with
    log := s.log ++ [{ id := e, tid := t, loc := p, isWrite := w }], race := s.race || racy }

/-- the read half of an atomic operation: thread `t` reads message number `i` with order `o` -/
def doRead (s : State) (t : Tid) (i : Nat) (o : Ord) : State :=
  let ts := s.thr t
  let mv := (s.msgs[i]?.map (·.view)).getD []
  if o.hasAcq then setThr s t { ts with cur := ts.cur ++ mv, seen := i }
  else setThr s t { ts with acq := ts.acq ++ mv, seen := i }

/-- the write half: append a message with value `v`; `inherit` = the view of the message an RMW read
    (release sequence), `[]` for a plain store -/
def doWrite (s : State) (t : Tid) (v : Nat) (o : Ord) (inherit : View) : State :=
  let ts := s.thr t
  let mv := (if o.hasRel then ts.cur else ts.rel) ++ inherit
  { setThr s t { ts with seen := s.msgs.length } with msgs := s.msgs ++ [{ val := v, view := mv }] }

def lastIdx (s : State) : Nat := s.msgs.length - 1

inductive Step : State → State → Prop where
  | access (s : State) (t : Tid) (p : Loc) (w : Bool) : Step s (doAccess s t p w)
  /-- load (also: a failed compare_exchange) of any message not older than what `t` has seen -/
  | load (s : State) (t : Tid) (i : Nat) (o : Ord) (hi : i < s.msgs.length) (hs : (s.thr t).seen ≤ i) :
      Step s (doRead s t i o)
  | store (s : State) (t : Tid) (v : Nat) (o : Ord) : Step s (doWrite s t v o [])
  /-- read-modify-write (exchange, fetch_*, successful compare_exchange): reads the last message -/
  | rmw (s : State) (t : Tid) (v : Nat) (o : Ord) :
      Step s (doWrite (doRead s t (lastIdx s) o) t v o ((s.msgs[lastIdx s]?.map (·.view)).getD []))
  | fenceAcq (s : State) (t : Tid) :
      Step s (setThr s t { s.thr t with cur := (s.thr t).cur ++ (s.thr t).acq })
  | fenceRel (s : State) (t : Tid) : Step s (setThr s t { s.thr t with rel := (s.thr t).cur })

inductive Reachable (v0 : Nat) : State → Prop where
  | init : Reachable v0 (init v0)
  | step {s s'} : Reachable v0 s → Step s s' → Reachable v0 s'

end Yaclib.RA
