/- Soundness of the ownership discipline: `Good` is an invariant of `DStep`; hence no disciplined run races. -/
import YaclibModel.Mem.Own

namespace Yaclib.RA

@[simp] theorem setThr_thr_self (s : State) (t : Tid) (ts : TState) : (setThr s t ts).thr t = ts := by
  simp [setThr]

@[simp] theorem setThr_thr_other (s : State) (t t' : Tid) (ts : TState) (h : t' ≠ t) :
    (setThr s t ts).thr t' = s.thr t' := by
  simp [setThr, h]

@[simp] theorem setThr_msgs (s : State) (t : Tid) (ts : TState) : (setThr s t ts).msgs = s.msgs := rfl
@[simp] theorem setThr_log (s : State) (t : Tid) (ts : TState) : (setThr s t ts).log = s.log := rfl
@[simp] theorem setThr_race (s : State) (t : Tid) (ts : TState) : (setThr s t ts).race = s.race := rfl

/-- a machine transformation under which every holder's view only grows and messages stay put -/
structure Mono (s s' : State) : Prop where
  thr : ∀ t e, e ∈ (s.thr t).cur → e ∈ (s'.thr t).cur
  msgs : ∀ i, i < s.msgs.length → s'.msgs[i]? = s.msgs[i]?
  len : s.msgs.length ≤ s'.msgs.length

theorem Mono.view {s s' : State} (hm : Mono s s') (h : Holder) (hv : ∀ i, h = .msg i → i < s.msgs.length)
    (e : Ev) (he : e ∈ viewOf s h) : e ∈ viewOf s' h := by
  cases h with
  | thread t => exact hm.thr t e he
  | msg i => simp only [viewOf] at he ⊢; rw [hm.msgs i (hv i rfl)]; exact he

theorem mono_setThr (s : State) (t : Tid) (ts : TState) (h : ∀ e, e ∈ (s.thr t).cur → e ∈ ts.cur) :
    Mono s (setThr s t ts) := by
  refine ⟨?_, fun _ _ => rfl, Nat.le_refl _⟩
  intro t' e he
  by_cases ht : t' = t
  · subst ht; simpa using h e he
  · simpa [ht] using he

theorem mono_doRead (s : State) (t : Tid) (i : Nat) (o : Ord) : Mono s (doRead s t i o) := by
  unfold doRead
  split
  · exact mono_setThr _ _ _ (fun e he => by simp [he])
  · exact mono_setThr _ _ _ (fun e he => by simpa using he)

theorem mono_doWrite (s : State) (t : Tid) (v : Nat) (o : Ord) (inh : View) : Mono s (doWrite s t v o inh) := by
  refine ⟨?_, ?_, ?_⟩
  · intro t' e he
    by_cases ht : t' = t
    · subst ht; simpa [doWrite] using he
    · simpa [doWrite, ht] using he
  · intro i hi; simp [doWrite, List.getElem?_append_left hi]
  · simp [doWrite]

theorem mono_doAccess (s : State) (t : Tid) (p : Loc) (w : Bool) : Mono s (doAccess s t p w) := by
  refine ⟨?_, fun _ _ => rfl, Nat.le_refl _⟩
  intro t' e he
  by_cases ht : t' = t
  · subst ht; simp [doAccess, he]
  · simpa [doAccess, ht] using he

theorem Mono.trans {a b c : State} (h1 : Mono a b) (h2 : Mono b c) : Mono a c := by
  refine ⟨fun t e he => h2.thr t e (h1.thr t e he), ?_, Nat.le_trans h1.len h2.len⟩
  intro i hi
  rw [h2.msgs i (Nat.lt_of_lt_of_le hi h1.len), h1.msgs i hi]

end Yaclib.RA

namespace Yaclib.RA

/-- frame lemma: the machine moves monotonically without touching the log, shares are relabelled only to
    holders that know at least as much -/
theorem good_relabel {g : GState} (hg : Good g) (m' : State) (f : Share → Holder)
    (hm : Mono g.m m') (hlog : m'.log = g.m.log) (hrace : m'.race = g.m.race)
    (hview : ∀ sh ∈ g.shares, ∀ e, e ∈ viewOf g.m sh.holder → e ∈ viewOf m' (f sh))
    (hvalid : ∀ sh ∈ g.shares, ∀ i, f sh = .msg i → i < m'.msgs.length) :
    Good { m := m', shares := relabel g.shares f } := by
  constructor
  · intro a ha
    rw [hlog] at ha
    obtain ⟨sh, hsh, hl, hh⟩ := hg.recorded a ha
    exact ⟨{ sh with holder := f sh }, List.mem_map.mpr ⟨sh, hsh, rfl⟩, hl, hh⟩
  · intro sh' hsh' e he
    obtain ⟨sh, hsh, rfl⟩ := List.mem_map.mp hsh'
    exact hview sh hsh e (hg.knows_hist sh hsh e he)
  · intro sh' hsh' a ha hl hw
    obtain ⟨sh, hsh, rfl⟩ := List.mem_map.mp hsh'
    rw [hlog] at ha
    exact hview sh hsh _ (hg.knows_writes sh hsh a ha hl hw)
  · intro sh' hsh' i hi
    obtain ⟨sh, hsh, rfl⟩ := List.mem_map.mp hsh'
    exact hvalid sh hsh i hi
  · intro a ha; rw [hlog] at ha ⊢; exact hg.ids a ha
  · rw [hrace]; exact hg.no_race

theorem Good.view_mono {g : GState} (hg : Good g) {m' : State} (hm : Mono g.m m') (sh : Share) (hsh : sh ∈ g.shares)
    (e : Ev) (he : e ∈ viewOf g.m sh.holder) : e ∈ viewOf m' sh.holder :=
  hm.view sh.holder (fun i hi => hg.msg_valid sh hsh i hi) e he

end Yaclib.RA

namespace Yaclib.RA

@[simp] theorem doWrite_log (s : State) (t v o inh) : (doWrite s t v o inh).log = s.log := rfl
@[simp] theorem doWrite_race (s : State) (t v o inh) : (doWrite s t v o inh).race = s.race := rfl
@[simp] theorem doWrite_cur (s : State) (t t' v o inh) : ((doWrite s t v o inh).thr t').cur = (s.thr t').cur := by
  by_cases h : t' = t
  · subst h; simp [doWrite]
  · simp [doWrite, h]
@[simp] theorem doWrite_len (s : State) (t v o inh) : (doWrite s t v o inh).msgs.length = s.msgs.length + 1 := by
  simp [doWrite]
theorem doWrite_new (s : State) (t v o inh) :
    viewOf (doWrite s t v o inh) (.msg s.msgs.length) = (if o.hasRel then (s.thr t).cur else (s.thr t).rel) ++ inh := by
  simp [viewOf, doWrite]

@[simp] theorem doRead_log (s : State) (t i o) : (doRead s t i o).log = s.log := by unfold doRead; split <;> rfl
@[simp] theorem doRead_race (s : State) (t i o) : (doRead s t i o).race = s.race := by unfold doRead; split <;> rfl
@[simp] theorem doRead_msgs (s : State) (t i o) : (doRead s t i o).msgs = s.msgs := by unfold doRead; split <;> rfl
theorem doRead_cur_acq (s : State) (t i : Nat) (o : Ord) (h : o.hasAcq = true) :
    ((doRead s t i o).thr t).cur = (s.thr t).cur ++ viewOf s (.msg i) := by
  simp [doRead, h, viewOf]

theorem relabel_id (shares : List Share) : relabel shares (fun sh => sh.holder) = shares := by
  simp [relabel]

theorem good_storeGive {g : GState} (hg : Good g) (t : Tid) (v : Nat) (o : Ord) (sel : Share → Bool)
    (hsel : ∀ sh ∈ g.shares, sel sh = true → sh.holder = .thread t)
    (hrel : (∃ sh ∈ g.shares, sel sh = true) → o.hasRel = true) :
    Good { m := doWrite g.m t v o [], shares := relabel g.shares (fun sh => if sel sh then .msg g.m.msgs.length else sh.holder) } := by
  apply good_relabel hg _ _ (mono_doWrite ..) rfl rfl
  · intro sh hsh e he
    by_cases hs : sel sh = true
    · simp only [hs, if_true]
      rw [doWrite_new, hrel ⟨sh, hsh, hs⟩]
      rw [hsel sh hsh hs] at he
      simpa [viewOf] using he
    · simp only [hs]
      exact hg.view_mono (mono_doWrite ..) sh hsh e he
  · intro sh hsh i hi
    by_cases hs : sel sh = true
    · simp [hs] at hi; subst hi; simp
    · simp [hs] at hi
      have := hg.msg_valid sh hsh i hi
      simp; omega

theorem good_rmw {g : GState} (hg : Good g) (t : Tid) (v : Nat) (o : Ord) (take give : Share → Bool)
    (htake : ∀ sh ∈ g.shares, take sh = true → ∃ i, sh.holder = .msg i ∧
        ∀ e ∈ viewOf g.m (.msg i), e ∈ viewOf g.m (.msg (lastIdx g.m)))
    (hacq : (∃ sh ∈ g.shares, take sh = true) → o.hasAcq = true)
    (hgive : ∀ sh ∈ g.shares, give sh = true → sh.holder = .thread t ∨ take sh = true)
    (hrel : (∃ sh ∈ g.shares, give sh = true) → o.hasRel = true) :
    Good { m := doWrite (doRead g.m t (lastIdx g.m) o) t v o (viewOf g.m (.msg (lastIdx g.m))),
           shares := relabel g.shares (fun sh => if give sh then .msg g.m.msgs.length
                                                  else if take sh then .thread t else sh.holder) } := by
  have hmono : Mono g.m (doWrite (doRead g.m t (lastIdx g.m) o) t v o (viewOf g.m (.msg (lastIdx g.m)))) :=
    (mono_doRead ..).trans (mono_doWrite ..)
  apply good_relabel hg _ _ hmono (by simp) (by simp)
  · intro sh hsh e he
    by_cases hgv : give sh = true
    · simp only [hgv, if_true]
      have hlen : g.m.msgs.length = (doRead g.m t (lastIdx g.m) o).msgs.length := by simp
      rw [hlen, doWrite_new, hrel ⟨sh, hsh, hgv⟩]
      simp only [if_true, List.mem_append]
      rcases hgive sh hsh hgv with hth | htk
      · left; rw [hth] at he; exact (mono_doRead ..).thr t e he
      · right
        obtain ⟨i, hi, hincl⟩ := htake sh hsh htk
        rw [hi] at he; exact hincl e he
    · by_cases htk : take sh = true
      · simp only [hgv, htk, if_true]
        obtain ⟨i, hi, hincl⟩ := htake sh hsh htk
        rw [hi] at he
        show e ∈ ((doWrite _ t v o _).thr t).cur
        rw [doWrite_cur, doRead_cur_acq _ _ _ _ (hacq ⟨sh, hsh, htk⟩)]
        simp only [List.mem_append]; right; exact hincl e he
      · simp only [hgv, htk]
        exact hg.view_mono hmono sh hsh e he
  · intro sh hsh i hi
    by_cases hgv : give sh = true
    · simp [hgv] at hi; subst hi; simp
    · by_cases htk : take sh = true
      · simp [hgv, htk] at hi
      · simp [hgv, htk] at hi
        have := hg.msg_valid sh hsh i hi
        simp; omega

theorem good_loadTake {g : GState} (hg : Good g) (t : Tid) (j : Nat) (o : Ord) (take : Share → Bool)
    (htake : ∀ sh ∈ g.shares, take sh = true → ∃ i, sh.holder = .msg i ∧
        ∀ e ∈ viewOf g.m (.msg i), e ∈ viewOf g.m (.msg j))
    (hacq : (∃ sh ∈ g.shares, take sh = true) → o.hasAcq = true) :
    Good { m := doRead g.m t j o, shares := relabel g.shares (fun sh => if take sh then .thread t else sh.holder) } := by
  apply good_relabel hg _ _ (mono_doRead ..) (by simp) (by simp)
  · intro sh hsh e he
    by_cases htk : take sh = true
    · simp only [htk, if_true]
      obtain ⟨i, hi, hincl⟩ := htake sh hsh htk
      rw [hi] at he
      show e ∈ ((doRead g.m t j o).thr t).cur
      rw [doRead_cur_acq _ _ _ _ (hacq ⟨sh, hsh, htk⟩)]
      simp only [List.mem_append]; right; exact hincl e he
    · simp only [htk]
      exact hg.view_mono (mono_doRead ..) sh hsh e he
  · intro sh hsh i hi
    by_cases htk : take sh = true
    · simp [htk] at hi
    · simp [htk] at hi
      simpa using hg.msg_valid sh hsh i hi

theorem good_fenceTake {g : GState} (hg : Good g) (t : Tid) (take : Share → Bool)
    (htake : ∀ sh ∈ g.shares, take sh = true → ∃ i, sh.holder = .msg i ∧
        ∀ e ∈ viewOf g.m (.msg i), e ∈ (g.m.thr t).acq) :
    Good { m := setThr g.m t { g.m.thr t with cur := (g.m.thr t).cur ++ (g.m.thr t).acq },
           shares := relabel g.shares (fun sh => if take sh then .thread t else sh.holder) } := by
  have hmono : Mono g.m (setThr g.m t { g.m.thr t with cur := (g.m.thr t).cur ++ (g.m.thr t).acq }) :=
    mono_setThr _ _ _ (fun e he => by simp [he])
  apply good_relabel hg _ _ hmono rfl rfl
  · intro sh hsh e he
    by_cases htk : take sh = true
    · simp only [htk, if_true]
      obtain ⟨i, hi, hincl⟩ := htake sh hsh htk
      rw [hi] at he
      simp [viewOf]; right; exact hincl e he
    · simp only [htk]
      exact hg.view_mono hmono sh hsh e he
  · intro sh hsh i hi
    by_cases htk : take sh = true
    · simp [htk] at hi
    · simp [htk] at hi
      simpa using hg.msg_valid sh hsh i hi

end Yaclib.RA

namespace Yaclib.RA

theorem mem_addHist {shares : List Share} {sel : Share → Bool} {e : Ev} {sh' : Share}
    (h : sh' ∈ addHist shares sel e) :
    ∃ sh ∈ shares, sh'.loc = sh.loc ∧ sh'.holder = sh.holder ∧
      ((sel sh = true ∧ sh'.hist = e :: sh.hist) ∨ (sel sh = false ∧ sh'.hist = sh.hist)) := by
  obtain ⟨sh, hsh, rfl⟩ := List.mem_map.mp h
  refine ⟨sh, hsh, ?_⟩
  by_cases hs : sel sh = true
  · simp [hs]
  · have : sel sh = false := by simpa using hs
    simp [this]

theorem addHist_mem {shares : List Share} (sel : Share → Bool) (e : Ev) {sh : Share} (h : sh ∈ shares) :
    ∃ sh' ∈ addHist shares sel e, sh'.loc = sh.loc ∧ (∀ x ∈ sh.hist, x ∈ sh'.hist) ∧ (sel sh = true → e ∈ sh'.hist) := by
  refine ⟨if sel sh then { sh with hist := e :: sh.hist } else sh, List.mem_map.mpr ⟨sh, h, rfl⟩, ?_⟩
  by_cases hs : sel sh = true <;> simp [hs]
  · intro x hx; exact Or.inr hx

@[simp] theorem doAccess_msgs (s : State) (t p w) : (doAccess s t p w).msgs = s.msgs := rfl
@[simp] theorem doAccess_log (s : State) (t p w) :
    (doAccess s t p w).log = s.log ++ [{ id := s.log.length, tid := t, loc := p, isWrite := w }] := rfl
theorem doAccess_cur_self (s : State) (t p w) : ((doAccess s t p w).thr t).cur = s.log.length :: (s.thr t).cur := by
  simp [doAccess]

/-- the common part of the two access rules -/
theorem good_access {g : GState} (hg : Good g) (t : Tid) (p : Loc) (w : Bool) (sel : Share → Bool)
    (hselp : ∀ sh ∈ g.shares, sel sh = true → sh.loc = p ∧ sh.holder = .thread t)
    (hsome : ∃ sh ∈ g.shares, sel sh = true)
    (hw : w = true → ∀ sh ∈ g.shares, sh.loc = p → sel sh = true)
    (hnorace : ¬ ∃ a ∈ g.m.log, conflicts g.m t p w a) :
    Good { m := doAccess g.m t p w, shares := addHist g.shares sel g.m.log.length } := by
  have hmono := mono_doAccess g.m t p w
  constructor
  · intro a ha
    simp only [doAccess_log, List.mem_append, List.mem_singleton] at ha
    rcases ha with ha | ha
    · obtain ⟨sh, hsh, hl, hh⟩ := hg.recorded a ha
      obtain ⟨sh', hsh', hl', hsub, _⟩ := addHist_mem sel g.m.log.length hsh
      exact ⟨sh', hsh', hl'.trans hl, hsub _ hh⟩
    · subst ha
      obtain ⟨sh, hsh, hs⟩ := hsome
      obtain ⟨sh', hsh', hl', _, hin⟩ := addHist_mem sel g.m.log.length hsh
      exact ⟨sh', hsh', hl'.trans (hselp sh hsh hs).1, hin hs⟩
  · intro sh' hsh' e he
    obtain ⟨sh, hsh, _, hhold, hcase⟩ := mem_addHist hsh'
    rw [hhold]
    rcases hcase with ⟨hs, hh⟩ | ⟨_, hh⟩
    · rw [hh] at he
      rcases List.mem_cons.mp he with he | he
      · subst he
        rw [(hselp sh hsh hs).2]
        show g.m.log.length ∈ ((doAccess g.m t p w).thr t).cur
        rw [doAccess_cur_self]; simp
      · exact hg.view_mono hmono sh hsh e (hg.knows_hist sh hsh e he)
    · rw [hh] at he
      exact hg.view_mono hmono sh hsh e (hg.knows_hist sh hsh e he)
  · intro sh' hsh' a ha hl hwr
    obtain ⟨sh, hsh, hloc, hhold, _⟩ := mem_addHist hsh'
    rw [hhold]
    simp only [doAccess_log, List.mem_append, List.mem_singleton] at ha
    rcases ha with ha | ha
    · exact hg.view_mono hmono sh hsh _ (hg.knows_writes sh hsh a ha (hl.trans hloc) hwr)
    · subst ha
      simp only at hl hwr
      have hs := hw hwr sh hsh (hloc ▸ hl.symm)
      rw [(hselp sh hsh hs).2]
      show g.m.log.length ∈ ((doAccess g.m t p w).thr t).cur
      rw [doAccess_cur_self]; simp
  · intro sh' hsh' i hi
    obtain ⟨sh, hsh, _, hhold, _⟩ := mem_addHist hsh'
    rw [hhold] at hi
    simpa using hg.msg_valid sh hsh i hi
  · intro a ha
    simp only [doAccess_log, List.mem_append, List.mem_singleton, List.length_append, List.length_singleton] at ha ⊢
    rcases ha with ha | ha
    · have := hg.ids a ha; exact Nat.lt_succ_of_lt this
    · subst ha; simp
  · simp only [doAccess, hg.no_race, Bool.false_or, decide_eq_false_iff_not]
    exact hnorace

theorem good_step {g g' : GState} (hg : Good g) (hs : DStep g g') : Good g' := by
  cases hs with
  | read t p sh hsh hl hh =>
      apply good_access hg t p false
      · intro x _ hx; simpa using hx
      · exact ⟨sh, hsh, by simp [hl, hh]⟩
      · intro h; cases h
      · rintro ⟨a, ha, hla, hwa, _, hnot⟩
        have hwr : a.isWrite = true := by simpa using hwa
        have := hg.knows_writes sh hsh a ha (hla.trans hl.symm) hwr
        rw [hh] at this
        exact hnot this
  | write t p hall hex =>
      apply good_access hg t p true
      · intro x hx hsel
        have : x.loc = p := by simpa using hsel
        exact ⟨this, hall x hx this⟩
      · obtain ⟨sh, hsh, hl⟩ := hex; exact ⟨sh, hsh, by simp [hl]⟩
      · intro _ sh _ hl; simp [hl]
      · rintro ⟨a, ha, hla, _, _, hnot⟩
        obtain ⟨sh, hsh, hl, hin⟩ := hg.recorded a ha
        have := hg.knows_hist sh hsh a.id hin
        rw [hall sh hsh (hl.trans hla)] at this
        exact hnot this
  | alloc t p hfresh hno =>
      constructor
      · intro a ha
        obtain ⟨sh, hsh, hl, hh⟩ := hg.recorded a ha
        exact ⟨sh, List.mem_cons_of_mem _ hsh, hl, hh⟩
      · intro sh hsh e he
        rcases List.mem_cons.mp hsh with h | h
        · subst h; simp at he
        · exact hg.knows_hist sh h e he
      · intro sh hsh a ha hl hw
        rcases List.mem_cons.mp hsh with h | h
        · subst h; exact absurd hl (hfresh a ha)
        · exact hg.knows_writes sh h a ha hl hw
      · intro sh hsh i hi
        rcases List.mem_cons.mp hsh with h | h
        · subst h; cases hi
        · exact hg.msg_valid sh h i hi
      · exact hg.ids
      · exact hg.no_race
  | split sh tag hsh =>
      constructor
      · intro a ha
        obtain ⟨s', hs', hl, hh⟩ := hg.recorded a ha
        exact ⟨s', List.mem_cons_of_mem _ hs', hl, hh⟩
      · intro x hx e he
        rcases List.mem_cons.mp hx with h | h
        · subst h; exact hg.knows_hist sh hsh e he
        · exact hg.knows_hist x h e he
      · intro x hx a ha hl hw
        rcases List.mem_cons.mp hx with h | h
        · subst h; exact hg.knows_writes sh hsh a ha hl hw
        · exact hg.knows_writes x h a ha hl hw
      · intro x hx i hi
        rcases List.mem_cons.mp hx with h | h
        · subst h; exact hg.msg_valid sh hsh i hi
        · exact hg.msg_valid x h i hi
      · exact hg.ids
      · exact hg.no_race
  | storeGive t v o sel hsel hrel => exact good_storeGive hg t v o sel hsel hrel
  | rmwTakeGive t v o take give htake hacq hgive hrel => exact good_rmw hg t v o take give htake hacq hgive hrel
  | loadTake t j o take _ _ htake hacq => exact good_loadTake hg t j o take htake hacq
  | fenceTake t take htake => exact good_fenceTake hg t take htake
  | fenceRel t =>
      have hmono : Mono g.m (setThr g.m t { g.m.thr t with rel := (g.m.thr t).cur }) :=
        mono_setThr _ _ _ (fun e he => he)
      have := good_relabel hg (setThr g.m t { g.m.thr t with rel := (g.m.thr t).cur }) (fun sh => sh.holder)
        hmono rfl rfl
        (fun sh hsh e he => hg.view_mono hmono sh hsh e he)
        (fun sh hsh i hi => by simpa using hg.msg_valid sh hsh i hi)
      rw [relabel_id] at this
      exact this

theorem good_init (v0 : Nat) : Good { m := init v0, shares := [] } := by
  constructor <;> simp [init]

/-- every step of the discipline is a step of the memory model (or a pure ghost step) -/
theorem dstep_machine {g g' : GState} (hs : DStep g g') : Step g.m g'.m ∨ g'.m = g.m := by
  cases hs with
  | read t p sh hsh hl hh => exact Or.inl (.access g.m t p false)
  | write t p hall hex => exact Or.inl (.access g.m t p true)
  | alloc t p hfresh hno => exact Or.inr rfl
  | split sh tag hsh => exact Or.inr rfl
  | storeGive t v o sel hsel hrel => exact Or.inl (.store g.m t v o)
  | rmwTakeGive t v o take give htake hacq hgive hrel => exact Or.inl (.rmw g.m t v o)
  | loadTake t j o take hj hs htake hacq => exact Or.inl (.load g.m t j o hj hs)
  | fenceTake t take htake => exact Or.inl (.fenceAcq g.m t)
  | fenceRel t => exact Or.inl (.fenceRel g.m t)

/-- **Soundness of the discipline**: no run in which every plain access follows the ownership rules
    ever has a data race, under the release/acquire memory model, for every number of threads and steps. -/
theorem disciplined_race_free {v0 : Nat} {g : GState} (h : DReachable v0 g) : Good g := by
  induction h with
  | init => exact good_init v0
  | step _ hs ih => exact good_step ih hs

end Yaclib.RA
