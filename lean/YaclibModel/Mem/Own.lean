/-
Ownership (fractional shares) discipline over the RA machine and its soundness theorem:
a run in which every plain access is made under the discipline never races.

A *share* of a plain location is held by a thread or is in flight inside a message of the atomic
location.  Reading needs one share, writing (and freeing = writing) needs every share of the location.
A thread may put shares into a message only with a release write, and take shares out of message `i`
only when it acquires a message whose released view contains `i`'s (the same message, or a later one
of its release sequence), directly or through an acquire fence.
-/
import YaclibModel.Mem.RA

namespace Yaclib.RA

inductive Holder where
  | thread (t : Tid)
  | msg (i : Nat)
  deriving DecidableEq, Repr

structure Share where
  loc : Loc
  holder : Holder
  hist : List Ev        -- the accesses made under this share (by its successive holders)
  tag : Nat := 0        -- only to tell shares apart in selectors
  deriving Repr

structure GState where
  m : State
  shares : List Share

def viewOf (s : State) : Holder → View
  | .thread t => (s.thr t).cur
  | .msg i => (s.msgs[i]?.map (·.view)).getD []

/-- the invariant of the discipline -/
structure Good (g : GState) : Prop where
  /-- every access is recorded in some share of its location -/
  recorded : ∀ a ∈ g.m.log, ∃ sh ∈ g.shares, sh.loc = a.loc ∧ a.id ∈ sh.hist
  /-- a share's holder knows (happens-after) everything done under the share -/
  knows_hist : ∀ sh ∈ g.shares, ∀ e ∈ sh.hist, e ∈ viewOf g.m sh.holder
  /-- every share's holder knows every write to the location -/
  knows_writes : ∀ sh ∈ g.shares, ∀ a ∈ g.m.log, a.loc = sh.loc → a.isWrite = true → a.id ∈ viewOf g.m sh.holder
  /-- message holders exist -/
  msg_valid : ∀ sh ∈ g.shares, ∀ i, sh.holder = .msg i → i < g.m.msgs.length
  /-- event identifiers are positions in the log -/
  ids : ∀ a ∈ g.m.log, a.id < g.m.log.length
  no_race : g.m.race = false

/-- add an event to the history of the selected shares -/
def addHist (shares : List Share) (sel : Share → Bool) (e : Ev) : List Share :=
  shares.map fun sh => if sel sh then { sh with hist := e :: sh.hist } else sh

/-- give every share the holder `f` assigns to it -/
def relabel (shares : List Share) (f : Share → Holder) : List Share :=
  shares.map fun sh => { sh with holder := f sh }

/-- the steps of the discipline: a machine step together with its ghost effect -/
inductive DStep : GState → GState → Prop where
  /-- read under one share -/
  | read (g : GState) (t : Tid) (p : Loc) (sh : Share) (hsh : sh ∈ g.shares) (hl : sh.loc = p)
      (hh : sh.holder = .thread t) :
      DStep g { m := doAccess g.m t p false,
                shares := addHist g.shares (fun x => decide (x.loc = p ∧ x.holder = .thread t)) g.m.log.length }
  /-- write (or free) holding every share of the location -/
  | write (g : GState) (t : Tid) (p : Loc) (hall : ∀ sh ∈ g.shares, sh.loc = p → sh.holder = .thread t)
      (hex : ∃ sh ∈ g.shares, sh.loc = p) :
      DStep g { m := doAccess g.m t p true,
                shares := addHist g.shares (fun x => decide (x.loc = p)) g.m.log.length }
  /-- a new location is allocated to `t` (fresh: never accessed) -/
  | alloc (g : GState) (t : Tid) (p : Loc) (hfresh : ∀ a ∈ g.m.log, a.loc ≠ p) (hno : ∀ sh ∈ g.shares, sh.loc ≠ p) :
      DStep g { g with shares := { loc := p, holder := .thread t, hist := [] } :: g.shares }
  /-- split a share -/
  | split (g : GState) (sh : Share) (tag : Nat) (hsh : sh ∈ g.shares) :
      DStep g { g with shares := { sh with tag := tag } :: g.shares }
  /-- a store that hands over the selected shares of the writer; needs release unless nothing is handed over -/
  | storeGive (g : GState) (t : Tid) (v : Nat) (o : Ord) (sel : Share → Bool)
      (hsel : ∀ sh ∈ g.shares, sel sh = true → sh.holder = .thread t)
      (hrel : (∃ sh ∈ g.shares, sel sh = true) → o.hasRel = true) :
      DStep g { m := doWrite g.m t v o [], shares := relabel g.shares (fun sh => if sel sh then .msg g.m.msgs.length else sh.holder) }
  /-- an RMW that takes the shares of the messages whose view is contained in the message it reads
      (needs acquire unless nothing is taken) and hands over shares of its own (needs release) -/
  | rmwTakeGive (g : GState) (t : Tid) (v : Nat) (o : Ord) (take give : Share → Bool)
      (htake : ∀ sh ∈ g.shares, take sh = true → ∃ i, sh.holder = .msg i ∧
          ∀ e ∈ viewOf g.m (.msg i), e ∈ viewOf g.m (.msg (lastIdx g.m)))
      (hacq : (∃ sh ∈ g.shares, take sh = true) → o.hasAcq = true)
      (hgive : ∀ sh ∈ g.shares, give sh = true → sh.holder = .thread t ∨ take sh = true)
      (hrel : (∃ sh ∈ g.shares, give sh = true) → o.hasRel = true) :
      DStep g { m := doWrite (doRead g.m t (lastIdx g.m) o) t v o (viewOf g.m (.msg (lastIdx g.m))),
                shares := relabel g.shares (fun sh => if give sh then .msg g.m.msgs.length else if take sh then .thread t else sh.holder) }
  /-- a load (or failed CAS) of message `j` that takes shares out of messages contained in it -/
  | loadTake (g : GState) (t : Tid) (j : Nat) (o : Ord) (take : Share → Bool)
      (hj : j < g.m.msgs.length) (hs : (g.m.thr t).seen ≤ j)
      (htake : ∀ sh ∈ g.shares, take sh = true → ∃ i, sh.holder = .msg i ∧
          ∀ e ∈ viewOf g.m (.msg i), e ∈ viewOf g.m (.msg j))
      (hacq : (∃ sh ∈ g.shares, take sh = true) → o.hasAcq = true) :
      DStep g { m := doRead g.m t j o, shares := relabel g.shares (fun sh => if take sh then .thread t else sh.holder) }
  /-- an acquire fence that takes shares out of messages whose view the thread picked up by relaxed reads -/
  | fenceTake (g : GState) (t : Tid) (take : Share → Bool)
      (htake : ∀ sh ∈ g.shares, take sh = true → ∃ i, sh.holder = .msg i ∧
          ∀ e ∈ viewOf g.m (.msg i), e ∈ (g.m.thr t).acq) :
      DStep g { m := setThr g.m t { g.m.thr t with cur := (g.m.thr t).cur ++ (g.m.thr t).acq },
                shares := relabel g.shares (fun sh => if take sh then .thread t else sh.holder) }
  | fenceRel (g : GState) (t : Tid) :
      DStep g { g with m := setThr g.m t { g.m.thr t with rel := (g.m.thr t).cur } }

inductive DReachable (v0 : Nat) : GState → Prop where
  | init : DReachable v0 { m := init v0, shares := [] }
  | step {g g'} : DReachable v0 g → DStep g g' → DReachable v0 g'

end Yaclib.RA
