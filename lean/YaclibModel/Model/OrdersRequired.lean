/-
C04 — the role every atomic operation of the library plays in a synchronisation pattern, and the memory
order that role needs.  Hand-written (this is the part of the C04 argument that is modelled, not verified:
that a site really plays this role follows from the protocol models C01/C06/C07/C14–C16 and from reading).
The requirement of each role is justified by the machine-checked pattern theorems in Mem/*.lean:
  pubRmw / obsLoad / pushCasAcqFail (failure) — `RA.MP.mp_race_free` (publication + observation)
  pubRmw / takeRmw / pushCas* (success)       — `RA.Treiber.treiber_race_free` (nodes through an RMW-only word)
  counterSub / acqFence / guardLoad         — `RA.RC.rc_race_free` (release on every decrement, acquire by
                                              whoever concludes it is the last holder)
  lockAcq / lockRel / lockBoth / pushTokenCas — `RA.Lock.lock_race_free` (critical sections ordered)
-/
import YaclibModel.Base.Order

namespace Yaclib.OrdersRequired
open Yaclib

inductive Role where
  | pubRmw          -- RMW that publishes data and takes published objects: acquire ∧ release
  | takeRmw         -- RMW that takes published objects: acquire
  | pushCas         -- CAS that publishes an object: release on success
  | pushCasAcqFail  -- … and whose failure can lead to reading published data: acquire on failure too
  | pushTokenCas    -- CAS that publishes an object and may take a token: acquire ∧ release on success
  | obsLoad         -- load whose result can lead to reading published data: acquire
  | guardLoad       -- load of a counter that justifies exclusive access: acquire
  | counterSub      -- decrement of a reference counter: release
  | acqFence        -- the fence of the last decrementer: acquire
  | lockAcq         -- takes a lock: acquire on success
  | lockRel         -- releases a lock / token: release
  | lockBoth        -- both
  | precheck | unpublished | ownWrite | notThreadSafe | flag | counterAdd | paramLoad | wrapper   -- no requirement
  deriving DecidableEq, Repr

/-- is (success order, failure order) enough for the role? -/
def Role.ok : Role → Ord → Ord → Bool
  | .pubRmw, s, _ => s.hasAcq && s.hasRel
  | .takeRmw, s, _ => s.hasAcq
  | .pushCas, s, _ => s.hasRel
  | .pushCasAcqFail, s, f => s.hasRel && f.hasAcq
  | .pushTokenCas, s, _ => s.hasAcq && s.hasRel
  | .obsLoad, s, _ => s.hasAcq
  | .guardLoad, s, _ => s.hasAcq
  | .counterSub, s, _ => s.hasRel
  | .acqFence, s, _ => s.hasAcq
  | .lockAcq, s, _ => s.hasAcq
  | .lockRel, s, _ => s.hasRel
  | .lockBoth, s, _ => s.hasAcq && s.hasRel
  | _, _, _ => true

/-- (enclosing function, object, operation, occurrence) ↦ role, with the reason -/
def table : List (String × String × String × Nat × Role × String) := [
  ("BaseCore::Empty", "_callback", "load", 0, .obsLoad, "Get() const& / assertions: a non-empty word lets the caller read the Result (MP reader)"),
  ("BaseCore::Ready", "_callback", "load", 0, .obsLoad, "Ready()/await_ready (since the D3 fix): word = kResult lets the caller read the Result (MP reader)"),
  ("BaseCore::StoreCallbackImpl", "_callback", "store", 0, .unpublished, "the core is not shared yet (lazy chain under construction / Detach callback before SetInline)"),
  ("ResetImpl", "_callback", "load", 0, .precheck, "pre-check of the CAS below"),
  ("ResetImpl", "_callback", "compare_exchange_strong", 0, .ownWrite, "takes back the waiter's own callback; the producers that already took it are awaited through the event"),
  ("SetCallbackImpl", "_callback", "load", 0, .obsLoad, "shared: kResult => the caller reads the Result"),
  ("SetCallbackImpl", "_callback", "compare_exchange_weak", 0, .pushCasAcqFail, "shared: publishes the callback object (release); a failure is re-examined and may end in reading the Result (acquire)"),
  ("SetCallbackImpl", "_callback", "load", 1, .obsLoad, "unique: non-empty => the caller reads the Result"),
  ("SetCallbackImpl", "_callback", "compare_exchange_strong", 0, .pushCasAcqFail, "unique: publishes the callback object (release); failure => Result is read (acquire)"),
  ("SetResultImpl", "_callback", "exchange", 0, .pubRmw, "publishes the Result (release) and takes the callback objects (acquire)"),
  ("AtomicCounter::Add", "count", "fetch_add", 0, .counterAdd, "a new reference is created from an existing one"),
  ("AtomicCounter::SubEqual", "count", "fetch_sub", 0, .counterSub, "every holder releases its accesses"),
  ("AtomicCounter::SubEqual", "", "fence", 0, .acqFence, "the last holder acquires before destroying"),
  ("AtomicCounter::Get", "count", "load", 0, .paramLoad, "order comes from the caller: see the Get/GetRef sites"),
  ("Helper::GetRef", "this", "Get", 0, .wrapper, "see the GetRef sites"),
  ("PromiseType::GetRef", "this", "Get", 0, .wrapper, "see the GetRef sites"),
  ("ResultCore::Impl", "caller", "GetRef", 0, .guardLoad, "ref == 2 / 1 decides to MOVE the value out from under former holders"),
  ("SharedCore::Retire", "this", "GetRef", 0, .guardLoad, "ref == 1 decides to move the value out"),
  ("SharedFutureBase::Get", "_core", "GetRef", 0, .guardLoad, "ref == 1 decides to move the value out"),
  ("SharedFutureBase::Touch", "_core", "GetRef", 0, .guardLoad, "ref == 1 decides to move the value out"),
  ("MultiAwaitAwaiter::await_ready", "this", "Get", 0, .guardLoad, "count == 1: all awaited results may be read without suspending"),
  ("SetCallbacksDynamic", "event.count", "fetch_sub", 0, .counterAdd, "the registering thread removes the inputs that were already complete (its own knowledge)"),
  ("SetCallbacksStatic", "event.count", "fetch_sub", 0, .counterAdd, "same"),
  ("WaitGroup::Reset", "_event.count", "store", 0, .notThreadSafe, "documented as not thread safe"),
  ("All::Consume", "_done", "load", 0, .precheck, "pre-check of the exchange"),
  ("All::Consume", "_done", "exchange", 0, .flag, "elects the one consumer that sets the output from its OWN input; no data is handed over through the flag"),
  ("AllTuple::Consume", "_done", "load", 0, .precheck, "pre-check of the exchange"),
  ("AllTuple::Consume", "_done", "exchange", 0, .flag, "elects the one consumer that sets the output from its OWN input; no data is handed over through the flag"),
  ("Join::Consume", "_done", "load", 0, .precheck, "pre-check of the exchange"),
  ("Join::Consume", "_done", "exchange", 0, .flag, "elects the one consumer that sets the output from its OWN input; no data is handed over through the flag"),
  ("Any::Consume", "_done", "load", 0, .precheck, "pre-check"),
  ("Any::Consume", "_done", "exchange", 0, .flag, "elects the winner"),
  ("Any::Consume", "_state", "load", 0, .precheck, "pre-check"),
  ("Any::Consume", "_state", "exchange", 0, .flag, "elects the value winner"),
  ("Any::Consume", "_state", "load", 1, .precheck, "pre-check"),
  ("Any::Consume", "_state", "compare_exchange_strong", 0, .flag, "elects the first failure; the saved failure is read by the destructor after the reference-count synchronisation"),
  ("Any::Consume", "_state", "load", 2, .precheck, "pre-check"),
  ("Any::Consume", "_state", "exchange", 1, .flag, "elects the value winner"),
  ("Any::Consume", "_state", "fetch_sub", 0, .flag, "the last failing input publishes its own failure"),
  ("MutexImpl::AwaitLock", "_sender", "load", 0, .precheck, "pre-check"),
  ("MutexImpl::AwaitLock", "_sender", "compare_exchange_weak", 0, .lockAcq, "fast path: takes the lock"),
  ("MutexImpl::AwaitLock", "_sender", "compare_exchange_weak", 1, .pushCas, "parks: publishes the awaiter node"),
  ("MutexImpl::GetHead", "_sender", "exchange", 0, .takeRmw, "the holder takes the parked awaiters"),
  ("MutexImpl::TryLockAwait", "_sender", "load", 0, .precheck, "pre-check"),
  ("MutexImpl::TryLockAwait", "_sender", "compare_exchange_strong", 0, .lockAcq, "takes the lock"),
  ("MutexImpl::TryUnlockAwait", "_sender", "load", 0, .precheck, "pre-check"),
  ("MutexImpl::TryUnlockAwait", "_sender", "compare_exchange_strong", 0, .lockRel, "releases the lock"),
  ("SharedMutexImpl::AwaitLock", "_state", "fetch_add", 0, .lockBoth, "enters or leaves the shared/exclusive section, or hands the lock over"),
  ("SharedMutexImpl::AwaitLock", "_readers_wait", "fetch_add", 0, .lockBoth, "enters or leaves the shared/exclusive section, or hands the lock over"),
  ("SharedMutexImpl::SlowUnlock", "_state", "fetch_sub", 0, .lockBoth, "enters or leaves the shared/exclusive section, or hands the lock over"),
  ("SharedMutexImpl::TryLockAwait", "_state", "compare_exchange_strong", 0, .lockBoth, "enters or leaves the shared/exclusive section, or hands the lock over"),
  ("SharedMutexImpl::TryLockShared", "_state", "compare_exchange_weak", 0, .lockBoth, "enters or leaves the shared/exclusive section, or hands the lock over"),
  ("SharedMutexImpl::TryLockSharedAwait", "_state", "fetch_add", 0, .lockBoth, "enters or leaves the shared/exclusive section, or hands the lock over"),
  ("SharedMutexImpl::UnlockHere", "_state", "compare_exchange_strong", 0, .lockBoth, "enters or leaves the shared/exclusive section, or hands the lock over"),
  ("SharedMutexImpl::UnlockHereShared", "_state", "fetch_sub", 0, .lockBoth, "enters or leaves the shared/exclusive section, or hands the lock over"),
  ("SharedMutexImpl::UnlockHereShared", "_readers_wait", "fetch_sub", 0, .lockBoth, "enters or leaves the shared/exclusive section, or hands the lock over"),
  ("SharedMutexImpl::RunReaders", "_readers_wait", "store", 0, .ownWrite, "made under the spinlock by a thread that has observed every earlier message of the location (J2: a store over 0)"),
  ("SharedMutexImpl::TryLockAwait", "_state", "load", 0, .precheck, "pre-check"),
  ("SharedMutexImpl::TryLockShared", "_state", "load", 0, .precheck, "pre-check"),
  ("Spinlock::lock", "_state", "exchange", 0, .lockAcq, "takes the spinlock"),
  ("Spinlock::lock", "_state", "load", 0, .precheck, "spin"),
  ("Spinlock::unlock", "_state", "store", 0, .lockRel, "releases the spinlock"),
  ("Ready", "_head", "load", 0, .obsLoad, "allDone => the caller proceeds as released"),
  ("Reset", "_head", "store", 0, .notThreadSafe, "documented as not thread safe"),
  ("SetImpl", "self", "exchange", 0, .pubRmw, "publishes \"done\" (release) and takes the waiter nodes (acquire)"),
  ("TryAdd", "_head", "load", 0, .obsLoad, "allDone => not added, caller proceeds as released"),
  ("TryAdd", "_head", "compare_exchange_weak", 0, .pushCasAcqFail, "publishes the waiter node; a failure may observe allDone"),
  ("Submit", "_jobs", "load", 0, .precheck, "pre-check"),
  ("Submit", "_jobs", "compare_exchange_weak", 0, .pushTokenCas, "publishes the job node (release) and, when it replaces the mark, takes the activation token left by the previous batch (acquire)"),
  ("Call", "_jobs", "exchange", 0, .takeRmw, "takes the job nodes"),
  ("Call", "_jobs", "load", 0, .precheck, "pre-check"),
  ("Call", "_jobs", "compare_exchange_strong", 0, .lockRel, "releases the activation token (everything the batch did happens-before the next activation)"),
  ("Drop", "_jobs", "exchange", 0, .pubRmw, "takes the job nodes and releases the token")
]

def roleOf (s : Site) : Option Role :=
  (table.find? fun e => e.1 == s.fn && e.2.1 == s.obj && e.2.2.1 == s.op && e.2.2.2.1 == s.idx).map (·.2.2.2.2.1)

/-- a site is fine if it has a role and its orders are enough for it -/
def siteOk (s : Site) : Bool :=
  match roleOf s with
  | some r => r.ok s.succ s.fail
  | none => false

end Yaclib.OrdersRequired
